(* C03 - notes in the MIDI file are the notes the MML text denotes (statements only). *)
From Sakura.Model Require Import Base Event Song Token LexCore RunCore Compile.
From Sakura.Spec Require Import NoteSem.

(* the documented defaults are the defaults of the model's initial state (Track::new / Song::new):
   octave 5, velocity 100, gate 90 %, quarter note = time base 96, channel 0 for the first track, vAdd 8 *)
Theorem C03_defaults :
  let t := cur_track song_new in
  tr_octave t = 5 /\ tr_velocity t = 100 /\ tr_qlen t = 90 /\ tr_length t = 96 /\ s_timebase song_new = 96
  /\ tr_channel t = 0 /\ s_v_add song_new = NoteSem.vAdd /\ tr_timing t = 0.
Proof. repeat split; reflexivity. Qed.

Print Assumptions C03_defaults.

(* ================================================================================================== *)
(* C03_exec - the simulation theorem: the token machine of the model computes the documented semantics.
     syntax, printer, semantics         spec/NoteSem.v        (cmd, pprog, sem / denote_prog, perf)
     tokens_of / top_tokens             proofs/NoteSimDefs.v  the tokens the model lexer produces for pprog p
                                                              (every lex call opens with TLineNo; so do the children of Sub / tuplets)
     COnce marks <note>                 spec/NoteSem.v        octave-once marks (back-quote = +1, double quote = -1) written directly in front of a
                                                              lettered note: the note sounds in the octave the marks lead to (each mark one octave, kept
                                                              within 0..10), afterwards the octave is what it was before the marks.  Two or more tokens.
                                                              May stand wherever a command may stand: top level, loops, Sub blocks, tuplets (the marks
                                                              take no share of a tuplet).  NOT modelled: marks inside a chord, before a rest / an n-note /
                                                              any other command (the code keeps the mark pending until the next lettered note; a track
                                                              change settles it)
     wf_cmd / wf_prog                   proofs/NoteSimDefs.v  the hypotheses: explicit gate <> 0, velocity >= 0, octave >= 0,
                                                              timing <> isize::MIN, an omitted velocity is not followed by a timing / octave
                                                              field, well-formed length expressions, loop counts >= 1, track numbers 0..999,
                                                              chord items = parameterless lettered notes and > <, chord gate > 0, chord velocity 0..127
     R                                  proofs/NoteSimDefs.v  abstraction Song ~ perf: per track pointer / channel / l o v q t / TrackKey equal, no tie
                                                              pending, the NoteOn events (channel, key, time, duration, velocity) are the notes of the
                                                              track AS A MULTISET (a chord's notes are written last-first); current track, time base,
                                                              key flags, key shift equal; no chord open, no octave-once pending, break_flag down,
                                                              vAdd = 8, key shift in use
     fuel_of                            proofs/NoteSimDefs.v  explicit sufficient per-loop fuel; the nesting fuel is prog_depth p
   The link  lex (pprog p) = top_tokens p  is TESTED on every run (tools/props/c03.py, kind lex_vs_tokens), not proved. *)
From Coq Require Import Permutation.
From Sakura.Model Require Import Cursor Length.
From Sakura.Spec Require Import LenSpec.
From Sakura.Proofs Require Import NoteSimDefs NoteSimP NoteStructP NoteExecP.

(* the count a tuplet token carries (computed by the lexer on the tokens) is the documented count of the tree *)
Theorem C03_tuplet_count : forall items : list cmd, div_count (top_tokens items) = tuplet_count items.
Proof. exact div_count_tuplet. Qed.

(* MAIN.  For every well-formed program of the core note language - any length, any nesting of loops (with or
   without ':'), chords, tuplets and Sub blocks, any tracks - exec() on its tokens, started in any state related to
   the initial semantic state, with nesting fuel above the depth and per-loop fuel above fuel_of p, terminates
   normally (no panic, no Unsupported, no OutOfFuel) in a state related to the denotation of the program. *)
Theorem C03_exec : forall p : list cmd, wf_prog p = true ->
  forall (s0 : song) (d steps : nat), R s0 perf0 -> (prog_depth p <= d)%nat -> (fuel_of p <= steps)%nat ->
  exists s, exec_f (S d) steps (top_tokens p) (Ok s0) = Ok s /\ R s (denote_prog p).
Proof. exact exec_simulation_top. Qed.

(* the same on the bare command tokens (without the leading line-number token) *)
Theorem C03_exec_tokens : forall p : list cmd, wf_prog p = true ->
  forall (s0 : song) (d steps : nat), R s0 perf0 -> (prog_depth p <= d)%nat -> (fuel_of p <= steps)%nat ->
  exists s, exec_f (S d) steps (tokens_of p) (Ok s0) = Ok s /\ R s (denote_prog p).
Proof. exact exec_simulation. Qed.

(* compositional form: a well-formed block from ANY pair of related states (what Sub / tuplet bodies use) *)
Theorem C03_exec_from : forall l : list cmd, wf_prog l = true ->
  forall (d steps : nat) (s : song) (q : perf) (f : nat),
  (prog_depth l <= d)%nat -> (flat_cost_l l < steps)%nat -> (inner_cost_l l <= steps)%nat -> (prog_depth l <= f)%nat ->
  R s q ->
  exists s', exec_f (S d) steps (tokens_of l) (Ok s) = Ok s' /\ R s' (sem_prog f l q).
Proof. exact exec_simulation_from. Qed.

(* the initial states are related: Song::new, and the state Compile.run_source hands to exec() *)
Theorem C03_initial : R song_new perf0 /\ forall ls, lx_timebase ls = 96 -> R (song_after_lex ls) perf0.
Proof. exact (conj R_init R_after_lex). Qed.

(* the notes: per track, the NoteOn events of the final state are the notes the program denotes (as multisets) *)
Theorem C03_notes : forall p : list cmd, wf_prog p = true ->
  exists s, exec_f (S (prog_depth p)) (fuel_of p) (top_tokens p) (Ok song_new) = Ok s /\
    Forall2 (fun tr t => Permutation (notes_of (tr_events tr)) (t_notes t)) (s_tracks s) (p_tracks (denote_prog p)).
Proof. exact notes_simulation. Qed.

(* Compile.run_source on the printed program, GIVEN the (tested) lexer link for this program *)
Theorem C03_run_source : forall (p : list cmd) (ls : lexstate), wf_prog p = true ->
  lex (mkLex 96 [] init_vars Sakura.Gen.VarRows.rhythm_rows) (pprog p) 0 = Ok (top_tokens p, ls) -> lx_timebase ls = 96 ->
  (prog_depth p <= length (pprog p))%nat -> (fuel_of p <= STEPS)%nat ->
  exists s, run_source (pprog p) = Ok s /\ R s (denote_prog p).
Proof. exact run_source_simulation. Qed.

(* per command: one leaf token is one step of the semantics (here for the lettered note) *)
Theorem C03_step_note : forall base acc natural len gate vel timing oct,
  wf_cmd (CNote base acc natural len gate vel timing oct) = true ->
  forall (ec : list tok -> res song -> res song) (s : song) (q : perf) (f : nat), R s q ->
  exists s', step_song ec (TNote base acc (if natural then 1 else 0) (plen len) (osent gate 0) (vel_sentinel vel timing oct)
                                 (osent timing ISIZE_MIN) (osent oct (-1)) 0) s = Ok s' /\
             R s' (NoteSem.sem (S f) (CNote base acc natural len gate vel timing oct) q).
Proof. exact step_note. Qed.

Definition ex_n (b : Z) : cmd := CNote b 0 false None None None None None.
Definition ex0 : cmd := ex_n 0.
(* octave-once marks and their note, from ANY pair of related states: machine and specification agree, the octave is
   afterwards what it was before the marks (on both sides), and the one note added sounds in the octave the marks lead to -
   every mark moves one octave and stays within 0..10, so a mark at the limit changes nothing and takes nothing back
   (the defect repaired by /repo 51012d5: the octave was clamped, but the full mark was taken back after the note) *)
Theorem C03_octave_once : forall marks base acc natural len gate vel timing oct,
  wf_cmd (COnce marks base acc natural len gate vel timing oct) = true ->
  forall (d steps : nat) (s : song) (q : perf), (S (length marks) < steps)%nat -> R s q ->
  let c := COnce marks base acc natural len gate vel timing oct in
  exists s', exec_f (S (S d)) steps (tok_cmd c) (Ok s) = Ok s' /\ R s' (NoteSem.sem 1 c q) /\
    tr_octave (cur_track s') = tr_octave (cur_track s) /\
    t_oct (cur (NoteSem.sem 1 c q)) = t_oct (cur q) /\
    exists n, t_notes (cur (NoteSem.sem 1 c q)) = t_notes (cur q) ++ [n] /\
      n_key n = clampz 0 127 ((match oct with Some o => o | None => once_oct marks (t_oct (cur q)) end) * 12 + base + acc
                              + (if natural then 0 else keyflag_of q base) + p_keyshift q + t_key (cur q)).
Proof. exact once_simulation. Qed.
(* the octave the marks lead to, at the limits and in the middle *)
Example C03_once_oct_cases :
  once_oct [1] 5 = 6 /\ once_oct [-1] 5 = 4 /\ once_oct [1; 1] 5 = 7 /\ once_oct [1] 10 = 10 /\ once_oct [-1] 0 = 0 /\
  once_oct [1; 1] 9 = 10 /\ once_oct [1; -1] 10 = 9.
Proof. repeat split; reflexivity. Qed.
(* on the machine: o10 `c c, then o0 and a lowered c and c, then o5 `c, a lowered c, ``c and c - the note after a marked note is
   back in the octave before the mark *)
Example C03_octave_once_example :
  let p := [COct 10; COnce [1] 0 0 false None None None None None; ex0; COct 0; COnce [-1] 0 0 false None None None None None; ex0;
            COct 5; COnce [1] 0 0 false None None None None None; COnce [-1] 0 0 false None None None None None;
            COnce [1; 1] 0 0 false None None None None None; ex0] in
  wf_prog p = true /\ lex_of_prog p = Ok (top_tokens p) /\
  (exists s, exec_f (S (prog_depth p)) (fuel_of p) (top_tokens p) (Ok song_new) = Ok s /\
     map (fun tr => map (fun n => n_key n) (notes_of (tr_events tr))) (s_tracks s) = [[120; 120; 0; 0; 72; 48; 84; 60]]) /\
  map (fun t => map (fun n => n_key n) (t_notes t)) (p_tracks (denote_prog p)) = [[120; 120; 0; 0; 72; 48; 84; 60]].
Proof.
  split; [vm_compute; reflexivity|]. split; [vm_compute; reflexivity|].
  split; [eexists; split; vm_compute; reflexivity|vm_compute; reflexivity].
Qed.

(* ---- non-vacuity: "[2 c ) : e+8,50,90 > ] 'c > e g '2,80 TR(2) KF+(f) {g r n60, [ f ] }4.^16 Sub{a2,,70,3,3 } l8 b"
        a loop with ':', a chord with octave steps, and on a third track a tuplet containing a loop, a Sub, a key signature ---- *)
Definition ex_l8 : olen := Some (mkAtom false false [8] 0, []).
Definition ex_l2 : olen := Some (mkAtom false false [2] 0, []).
Definition ex_l4d : olen := Some (mkAtom false false [4] 1, [(true, mkAtom false false [1;6] 0)]).
Definition ex_prog : list cmd :=
  [CLoop (Some 2) [ex_n 0; CVelUp] (Some [CNote 4 1 false ex_l8 (Some 50) (Some 90) None None; COctUp]);
   CChord [ex_n 0; COctUp; ex_n 4; ex_n 7] ex_l2 (Some 80) None;
   CTrack 2; CKeyFlag true [5];
   CTuplet [ex_n 7; CRest None; CNoteN 60 None None None None; CLoop None [ex_n 5] None] ex_l4d;
   CSub [CNote 9 0 false ex_l2 None (Some 70) (Some 3) (Some 3)]; CLen ex_l8; ex_n 11].
Definition ex_tup (n : note) := (n_ch n, n_key n, n_start n, n_dur n, n_vel n).

Example C03_example :
  wf_prog ex_prog = true /\ lex_of_prog ex_prog = Ok (top_tokens ex_prog) /\
  exists s, exec_f (S (prog_depth ex_prog)) (fuel_of ex_prog) (top_tokens ex_prog) (Ok song_new) = Ok s /\
    map (fun tr => map ex_tup (notes_of (tr_events tr))) (s_tracks s)
    = [[(0, 60, 0, 86, 100); (0, 65, 96, 24, 90); (0, 72, 144, 86, 108);
        (0, 91, 240, 153, 116); (0, 88, 240, 153, 116); (0, 72, 240, 153, 116)];      (* the chord, last note first *)
       [];
       [(1, 67, 0, 37, 100); (1, 60, 84, 37, 100); (1, 66, 126, 37, 100); (1, 66, 168, 37, 100);
        (1, 45, 171, 172, 70); (1, 71, 168, 43, 100)]] /\
    map (fun t => map ex_tup (t_notes t)) (p_tracks (denote_prog ex_prog))
    = [[(0, 60, 0, 86, 100); (0, 65, 96, 24, 90); (0, 72, 144, 86, 108);
        (0, 72, 240, 153, 116); (0, 88, 240, 153, 116); (0, 91, 240, 153, 116)];
       [];
       [(1, 67, 0, 37, 100); (1, 60, 84, 37, 100); (1, 66, 126, 37, 100); (1, 66, 168, 37, 100);
        (1, 45, 171, 172, 70); (1, 71, 168, 43, 100)]].
Proof.
  split; [vm_compute; reflexivity|]. split; [vm_compute; reflexivity|].
  eexists. split; [vm_compute; reflexivity|]. split; vm_compute; reflexivity.
Qed.

(* the hypotheses of C03_run_source hold for it: the whole front half of compile() on the source text *)
Example C03_example_source : exists s, run_source (pprog ex_prog) = Ok s /\ R s (denote_prog ex_prog).
Proof.
  assert (Hl : exists ls, lex (mkLex 96 [] init_vars Sakura.Gen.VarRows.rhythm_rows) (pprog ex_prog) 0 = Ok (top_tokens ex_prog, ls)
                          /\ lx_timebase ls = 96).
  { eexists. split; [vm_compute; reflexivity|reflexivity]. }
  destruct Hl as (ls & Hl & Htb).
  apply (C03_run_source ex_prog ls); [vm_compute; reflexivity|exact Hl|exact Htb|vm_compute; lia|].
  assert (E : fuel_of ex_prog = 27%nat) by (vm_compute; reflexivity). rewrite E. unfold STEPS. lia.
Qed.

(* ---- where model and specification differ OUTSIDE the hypotheses (each excluded by wf_prog) ---- *)
Definition ex_one (c : cmd) : list (list (Z * Z * Z * Z * Z)) * list (list (Z * Z * Z * Z * Z)) * bool :=
  (match exec_f 3 20 (top_tokens [c]) (Ok song_new) with
   | Ok s => map (fun tr => map ex_tup (notes_of (tr_events tr))) (s_tracks s) | _ => [] end,
   map (fun t => map ex_tup (t_notes t)) (p_tracks (denote_prog [c])),
   wf_prog [c]).

(* `c,0`: gate 0 is the code's "unset" (default gate 90 %), the semantics says duration 0 *)
Example C03_gate_zero_refuted :
  ex_one (CNote 0 0 false None (Some 0) None None None) = ([[(0, 60, 0, 86, 100)]], [[(0, 60, 0, 0, 100)]], false).
Proof. vm_compute. reflexivity. Qed.
(* `c,,,5`: an empty velocity field before a timing reads as velocity 0 *)
Example C03_empty_velocity_refuted :
  ex_one (CNote 0 0 false None None None (Some 5) None) = ([[(0, 60, 5, 86, 0)]], [[(0, 60, 5, 86, 100)]], false).
Proof. vm_compute. reflexivity. Qed.
(* `'c',,200`: a chord velocity is not clamped *)
Example C03_chord_velocity_refuted :
  ex_one (CChord [ex_n 0] None None (Some 200)) = ([[(0, 60, 0, 86, 200)]], [[(0, 60, 0, 86, 127)]], false).
Proof. vm_compute. reflexivity. Qed.
(* `'c',0` and `'c',-5`: a chord gate <= 0 is "unset" *)
Example C03_chord_gate_refuted :
  ex_one (CChord [ex_n 0] None (Some 0) None) = ([[(0, 60, 0, 86, 100)]], [[(0, 60, 0, 0, 100)]], false) /\
  ex_one (CChord [ex_n 0] None (Some (-5)) None) = ([[(0, 60, 0, 86, 100)]], [[(0, 60, 0, -4, 100)]], false).
Proof. split; vm_compute; reflexivity. Qed.
(* `[0 c]`: the machine runs a loop of count 0 once (C05_count_zero_runs_once) *)
Example C03_loop_zero_refuted :
  ex_one (CLoop (Some 0) [ex_n 0] None) = ([[(0, 60, 0, 86, 100)]], [[]], false).
Proof. vm_compute. reflexivity. Qed.
(* `TR(1000)`: outside the modelled range *)
Example C03_track_range_refuted :
  exec_f 3 20 (top_tokens [CTrack 1000]) (Ok song_new) = Unsupported U_RUN_TRACKNO /\ wf_prog [CTrack 1000] = false.
Proof. split; vm_compute; reflexivity. Qed.
(* INSIDE the hypotheses, but the reason R compares multisets: `'ce'` is written e first *)
Example C03_chord_order :
  ex_one (CChord [ex_n 0; ex_n 4] None None None)
  = ([[(0, 64, 0, 86, 100); (0, 60, 0, 86, 100)]], [[(0, 60, 0, 86, 100); (0, 64, 0, 86, 100)]], true).
Proof. vm_compute. reflexivity. Qed.

Print Assumptions C03_tuplet_count.
Print Assumptions C03_exec.
Print Assumptions C03_exec_tokens.
Print Assumptions C03_exec_from.
Print Assumptions C03_initial.
Print Assumptions C03_notes.
Print Assumptions C03_run_source.
Print Assumptions C03_step_note.
Print Assumptions C03_octave_once.
