(* C03 - notes in the MIDI file are the notes the MML text denotes (statements only). *)
From Sakura.Model Require Import Base Event Song Token LexCore RunCore Compile.
From Sakura.Spec Require Import NoteSem.

(* the documented defaults are the defaults of the model's initial state (Track::new / Song::new):
   octave 5, velocity 100, gate 90 %, quarter note = time base 96, channel 0 for the first track, vAdd 8 *)
Theorem C03_defaults :
  let t := cur_track song_new in
  tr_octave t = 5 /\ tr_velocity t = 100 /\ tr_qlen t = 90 /\ tr_length t = 96 /\ s_timebase song_new = 96
  /\ tr_channel t = 0 /\ s_v_add song_new = NoteSem.vAdd /\ tr_timing t = 0.
Proof. repeat split; reflexivity. Qed.

Print Assumptions C03_defaults.

(* ================================================================================================== *)
(* C03_exec - the simulation theorem: the token machine of the model computes the documented semantics.
     syntax, printer, semantics         spec/NoteSem.v        (cmd, pprog, sem / denote_prog, perf)
     tokens_of / top_tokens             proofs/NoteSimDefs.v  the tokens the model lexer produces for pprog p
                                                              (every lex call opens with TLineNo; so do the children of Sub / tuplets)
     COnce marks <note>                 spec/NoteSem.v        octave-once marks (back-quote = +1, double quote = -1) written directly in front of a
                                                              lettered note: the note sounds in the octave the marks lead to (each mark one octave, kept
                                                              within 0..10), afterwards the octave is what it was before the marks.  Two or more tokens.
                                                              May stand wherever a command may stand: top level, loops, Sub blocks, tuplets (the marks
                                                              take no share of a tuplet).  NOT modelled: marks inside a chord, before a rest / an n-note /
                                                              any other command (the code keeps the mark pending until the next lettered note; a track
                                                              change settles it)
     wf_cmd / wf_prog                   proofs/NoteSimDefs.v  the hypotheses: explicit gate <> 0, velocity >= 0, octave >= 0,
                                                              timing <> isize::MIN, an omitted velocity is not followed by a timing / octave
                                                              field, well-formed length expressions, loop counts >= 1, track numbers 0..999,
                                                              chord items = parameterless lettered notes and > <, chord gate > 0, chord velocity 0..127
     R                                  proofs/NoteSimDefs.v  abstraction Song ~ perf: per track pointer / channel / l o v q t / TrackKey equal, no tie
                                                              pending, the NoteOn events (channel, key, time, duration, velocity) are the notes of the
                                                              track AS A MULTISET (a chord's notes are written last-first); current track, time base,
                                                              key flags, key shift equal; no chord open, no octave-once pending, break_flag down,
                                                              vAdd = 8, key shift in use
     fuel_of                            proofs/NoteSimDefs.v  explicit sufficient per-loop fuel; the nesting fuel is prog_depth p
   The link  lex (pprog p) = top_tokens p  is TESTED on every run (tools/props/c03.py, kind lex_vs_tokens), not proved. *)
From Coq Require Import Permutation.
From Sakura.Model Require Import Cursor Length.
From Sakura.Spec Require Import LenSpec.
From Sakura.Proofs Require Import NoteSimDefs NoteSimP NoteStructP NoteExecP.

(* the count a tuplet token carries (computed by the lexer on the tokens) is the documented count of the tree *)
Theorem C03_tuplet_count : forall items : list cmd, div_count (top_tokens items) = tuplet_count items.
Proof. exact div_count_tuplet. Qed.

(* MAIN.  For every well-formed program of the core note language - any length, any nesting of loops (with or
   without ':'), chords, tuplets and Sub blocks, any tracks - exec() on its tokens, started in any state related to
   the initial semantic state, with nesting fuel above the depth and per-loop fuel above fuel_of p, terminates
   normally (no panic, no Unsupported, no OutOfFuel) in a state related to the denotation of the program. *)
Theorem C03_exec : forall p : list cmd, wf_prog p = true ->
  forall (s0 : song) (d steps : nat), R s0 perf0 -> (prog_depth p <= d)%nat -> (fuel_of p <= steps)%nat ->
  exists s, exec_f (S d) steps (top_tokens p) (Ok s0) = Ok s /\ R s (denote_prog p).
Proof. exact exec_simulation_top. Qed.

(* the same on the bare command tokens (without the leading line-number token) *)
Theorem C03_exec_tokens : forall p : list cmd, wf_prog p = true ->
  forall (s0 : song) (d steps : nat), R s0 perf0 -> (prog_depth p <= d)%nat -> (fuel_of p <= steps)%nat ->
  exists s, exec_f (S d) steps (tokens_of p) (Ok s0) = Ok s /\ R s (denote_prog p).
Proof. exact exec_simulation. Qed.

(* compositional form: a well-formed block from ANY pair of related states (what Sub / tuplet bodies use) *)
Theorem C03_exec_from : forall l : list cmd, wf_prog l = true ->
  forall (d steps : nat) (s : song) (q : perf) (f : nat),
  (prog_depth l <= d)%nat -> (flat_cost_l l < steps)%nat -> (inner_cost_l l <= steps)%nat -> (prog_depth l <= f)%nat ->
  R s q ->
  exists s', exec_f (S d) steps (tokens_of l) (Ok s) = Ok s' /\ R s' (sem_prog f l q).
Proof. exact exec_simulation_from. Qed.

(* the initial states are related: Song::new, and the state Compile.run_source hands to exec() *)
Theorem C03_initial : R song_new perf0 /\ forall ls, lx_timebase ls = 96 -> R (song_after_lex ls) perf0.
Proof. exact (conj R_init R_after_lex). Qed.

(* the notes: per track, the NoteOn events of the final state are the notes the program denotes (as multisets) *)
Theorem C03_notes : forall p : list cmd, wf_prog p = true ->
  exists s, exec_f (S (prog_depth p)) (fuel_of p) (top_tokens p) (Ok song_new) = Ok s /\
    Forall2 (fun tr t => Permutation (notes_of (tr_events tr)) (t_notes t)) (s_tracks s) (p_tracks (denote_prog p)).
Proof. exact notes_simulation. Qed.

(* Compile.run_source on the printed program, GIVEN the (tested) lexer link for this program *)
Theorem C03_run_source : forall (p : list cmd) (ls : lexstate), wf_prog p = true ->
  lex (mkLex 96 [] init_vars Sakura.Gen.VarRows.rhythm_rows false) (pprog p) 0 = Ok (top_tokens p, ls) -> lx_timebase ls = 96 ->
  (prog_depth p <= length (pprog p))%nat -> (fuel_of p <= STEPS)%nat ->
  exists s, run_source (pprog p) = Ok s /\ R s (denote_prog p).
Proof. exact run_source_simulation. Qed.

(* per command: one leaf token is one step of the semantics (here for the lettered note) *)
Theorem C03_step_note : forall base acc natural len gate vel timing oct,
  wf_cmd (CNote base acc natural len gate vel timing oct) = true ->
  forall (ec : list tok -> res song -> res song) (s : song) (q : perf) (f : nat), R s q ->
  exists s', step_song ec (TNote base acc (if natural then 1 else 0) (plen len) (osent gate 0) (vel_sentinel vel timing oct)
                                 (osent timing ISIZE_MIN) (osent oct (-1)) 0) s = Ok s' /\
             R s' (NoteSem.sem (S f) (CNote base acc natural len gate vel timing oct) q).
Proof. exact step_note. Qed.

Definition ex_n (b : Z) : cmd := CNote b 0 false None None None None None.
Definition ex0 : cmd := ex_n 0.
(* octave-once marks and their note, from ANY pair of related states: machine and specification agree, the octave is
   afterwards what it was before the marks (on both sides), and the one note added sounds in the octave the marks lead to -
   every mark moves one octave and stays within 0..10, so a mark at the limit changes nothing and takes nothing back
   (the defect repaired by /repo 51012d5: the octave was clamped, but the full mark was taken back after the note) *)
Theorem C03_octave_once : forall marks base acc natural len gate vel timing oct,
  wf_cmd (COnce marks base acc natural len gate vel timing oct) = true ->
  forall (d steps : nat) (s : song) (q : perf), (S (length marks) < steps)%nat -> R s q ->
  let c := COnce marks base acc natural len gate vel timing oct in
  exists s', exec_f (S (S d)) steps (tok_cmd c) (Ok s) = Ok s' /\ R s' (NoteSem.sem 1 c q) /\
    tr_octave (cur_track s') = tr_octave (cur_track s) /\
    t_oct (cur (NoteSem.sem 1 c q)) = t_oct (cur q) /\
    exists n, t_notes (cur (NoteSem.sem 1 c q)) = t_notes (cur q) ++ [n] /\
      n_key n = clampz 0 127 ((match oct with Some o => o | None => once_oct marks (t_oct (cur q)) end) * 12 + base + acc
                              + (if natural then 0 else keyflag_of q base) + p_keyshift q + t_key (cur q)).
Proof. exact once_simulation. Qed.
(* the octave the marks lead to, at the limits and in the middle *)
Example C03_once_oct_cases :
  once_oct [1] 5 = 6 /\ once_oct [-1] 5 = 4 /\ once_oct [1; 1] 5 = 7 /\ once_oct [1] 10 = 10 /\ once_oct [-1] 0 = 0 /\
  once_oct [1; 1] 9 = 10 /\ once_oct [1; -1] 10 = 9.
Proof. repeat split; reflexivity. Qed.
(* on the machine: o10 `c c, then o0 and a lowered c and c, then o5 `c, a lowered c, ``c and c - the note after a marked note is
   back in the octave before the mark *)
Example C03_octave_once_example :
  let p := [COct 10; COnce [1] 0 0 false None None None None None; ex0; COct 0; COnce [-1] 0 0 false None None None None None; ex0;
            COct 5; COnce [1] 0 0 false None None None None None; COnce [-1] 0 0 false None None None None None;
            COnce [1; 1] 0 0 false None None None None None; ex0] in
  wf_prog p = true /\ lex_of_prog p = Ok (top_tokens p) /\
  (exists s, exec_f (S (prog_depth p)) (fuel_of p) (top_tokens p) (Ok song_new) = Ok s /\
     map (fun tr => map (fun n => n_key n) (notes_of (tr_events tr))) (s_tracks s) = [[120; 120; 0; 0; 72; 48; 84; 60]]) /\
  map (fun t => map (fun n => n_key n) (t_notes t)) (p_tracks (denote_prog p)) = [[120; 120; 0; 0; 72; 48; 84; 60]].
Proof.
  split; [vm_compute; reflexivity|]. split; [vm_compute; reflexivity|].
  split; [eexists; split; vm_compute; reflexivity|vm_compute; reflexivity].
Qed.

(* ---- non-vacuity: "[2 c ) : e+8,50,90 > ] 'c > e g '2,80 TR(2) KF+(f) {g r n60, [ f ] }4.^16 Sub{a2,,70,3,3 } l8 b"
        a loop with ':', a chord with octave steps, and on a third track a tuplet containing a loop, a Sub, a key signature ---- *)
Definition ex_l8 : olen := Some (mkAtom false false [8] 0, []).
Definition ex_l2 : olen := Some (mkAtom false false [2] 0, []).
Definition ex_l4d : olen := Some (mkAtom false false [4] 1, [(true, mkAtom false false [1;6] 0)]).
Definition ex_prog : list cmd :=
  [CLoop (Some 2) [ex_n 0; CVelUp] (Some [CNote 4 1 false ex_l8 (Some 50) (Some 90) None None; COctUp]);
   CChord [ex_n 0; COctUp; ex_n 4; ex_n 7] ex_l2 (Some 80) None;
   CTrack 2; CKeyFlag true [5];
   CTuplet [ex_n 7; CRest None; CNoteN 60 None None None None; CLoop None [ex_n 5] None] ex_l4d;
   CSub [CNote 9 0 false ex_l2 None (Some 70) (Some 3) (Some 3)]; CLen ex_l8; ex_n 11].
Definition ex_tup (n : note) := (n_ch n, n_key n, n_start n, n_dur n, n_vel n).

Example C03_example :
  wf_prog ex_prog = true /\ lex_of_prog ex_prog = Ok (top_tokens ex_prog) /\
  exists s, exec_f (S (prog_depth ex_prog)) (fuel_of ex_prog) (top_tokens ex_prog) (Ok song_new) = Ok s /\
    map (fun tr => map ex_tup (notes_of (tr_events tr))) (s_tracks s)
    = [[(0, 60, 0, 86, 100); (0, 65, 96, 24, 90); (0, 72, 144, 86, 108);
        (0, 91, 240, 153, 116); (0, 88, 240, 153, 116); (0, 72, 240, 153, 116)];      (* the chord, last note first *)
       [];
       [(1, 67, 0, 37, 100); (1, 60, 84, 37, 100); (1, 66, 126, 37, 100); (1, 66, 168, 37, 100);
        (1, 45, 171, 172, 70); (1, 71, 168, 43, 100)]] /\
    map (fun t => map ex_tup (t_notes t)) (p_tracks (denote_prog ex_prog))
    = [[(0, 60, 0, 86, 100); (0, 65, 96, 24, 90); (0, 72, 144, 86, 108);
        (0, 72, 240, 153, 116); (0, 88, 240, 153, 116); (0, 91, 240, 153, 116)];
       [];
       [(1, 67, 0, 37, 100); (1, 60, 84, 37, 100); (1, 66, 126, 37, 100); (1, 66, 168, 37, 100);
        (1, 45, 171, 172, 70); (1, 71, 168, 43, 100)]].
Proof.
  split; [vm_compute; reflexivity|]. split; [vm_compute; reflexivity|].
  eexists. split; [vm_compute; reflexivity|]. split; vm_compute; reflexivity.
Qed.

(* the hypotheses of C03_run_source hold for it: the whole front half of compile() on the source text *)
Example C03_example_source : exists s, run_source (pprog ex_prog) = Ok s /\ R s (denote_prog ex_prog).
Proof.
  assert (Hl : exists ls, lex (mkLex 96 [] init_vars Sakura.Gen.VarRows.rhythm_rows false) (pprog ex_prog) 0 = Ok (top_tokens ex_prog, ls)
                          /\ lx_timebase ls = 96).
  { eexists. split; [vm_compute; reflexivity|reflexivity]. }
  destruct Hl as (ls & Hl & Htb).
  apply (C03_run_source ex_prog ls); [vm_compute; reflexivity|exact Hl|exact Htb|vm_compute; lia|].
  assert (E : fuel_of ex_prog = 27%nat) by (vm_compute; reflexivity). rewrite E. unfold STEPS. lia.
Qed.

(* ---- where model and specification differ OUTSIDE the hypotheses (each excluded by wf_prog) ---- *)
Definition ex_one (c : cmd) : list (list (Z * Z * Z * Z * Z)) * list (list (Z * Z * Z * Z * Z)) * bool :=
  (match exec_f 3 20 (top_tokens [c]) (Ok song_new) with
   | Ok s => map (fun tr => map ex_tup (notes_of (tr_events tr))) (s_tracks s) | _ => [] end,
   map (fun t => map ex_tup (t_notes t)) (p_tracks (denote_prog [c])),
   wf_prog [c]).

(* `c,0`: gate 0 is the code's "unset" (default gate 90 %), the semantics says duration 0 *)
Example C03_gate_zero_refuted :
  ex_one (CNote 0 0 false None (Some 0) None None None) = ([[(0, 60, 0, 86, 100)]], [[(0, 60, 0, 0, 100)]], false).
Proof. vm_compute. reflexivity. Qed.
(* `c,,,5`: an empty velocity field before a timing reads as velocity 0 *)
Example C03_empty_velocity_refuted :
  ex_one (CNote 0 0 false None None None (Some 5) None) = ([[(0, 60, 5, 86, 0)]], [[(0, 60, 5, 86, 100)]], false).
Proof. vm_compute. reflexivity. Qed.
(* `'c',,200`: a chord velocity is not clamped *)
Example C03_chord_velocity_refuted :
  ex_one (CChord [ex_n 0] None None (Some 200)) = ([[(0, 60, 0, 86, 200)]], [[(0, 60, 0, 86, 127)]], false).
Proof. vm_compute. reflexivity. Qed.
(* `'c',0` and `'c',-5`: a chord gate <= 0 is "unset" *)
Example C03_chord_gate_refuted :
  ex_one (CChord [ex_n 0] None (Some 0) None) = ([[(0, 60, 0, 86, 100)]], [[(0, 60, 0, 0, 100)]], false) /\
  ex_one (CChord [ex_n 0] None (Some (-5)) None) = ([[(0, 60, 0, 86, 100)]], [[(0, 60, 0, -4, 100)]], false).
Proof. split; vm_compute; reflexivity. Qed.
(* `[0 c]`: the machine runs a loop of count 0 once (C05_count_zero_runs_once) *)
Example C03_loop_zero_refuted :
  ex_one (CLoop (Some 0) [ex_n 0] None) = ([[(0, 60, 0, 86, 100)]], [[]], false).
Proof. vm_compute. reflexivity. Qed.
(* `TR(1000)`: outside the modelled range *)
Example C03_track_range_refuted :
  exec_f 3 20 (top_tokens [CTrack 1000]) (Ok song_new) = Unsupported U_RUN_TRACKNO /\ wf_prog [CTrack 1000] = false.
Proof. split; vm_compute; reflexivity. Qed.
(* INSIDE the hypotheses, but the reason R compares multisets: `'ce'` is written e first *)
Example C03_chord_order :
  ex_one (CChord [ex_n 0; ex_n 4] None None None)
  = ([[(0, 64, 0, 86, 100); (0, 60, 0, 86, 100)]], [[(0, 60, 0, 86, 100); (0, 64, 0, 86, 100)]], true).
Proof. vm_compute. reflexivity. Qed.

(* ================================================================================================== *)
(* C03_transpose - the metamorphic law: a program run under a raised key shift plays the same notes, moved.
     transp d n n'        proofs/TransposeP.v   n' is n with the same channel, start, duration and velocity, and the keys are
                                                clampz 0 127 x  and  clampz 0 127 (x + d)  for one unclamped key x: the clamp of
                                                the documented semantics is applied on BOTH sides.  For a note that was not
                                                clamped (0 < key < 127) this is key' = clampz 0 127 (key + d), and key' = key + d
                                                when that is in 0..127 (C03_transp_exact).  Without such a proviso the law is
                                                false: o10 b sounds 127 (clamped from 131), KeyShift(-12) o10 b sounds 119, not 115
     keeps_prog ks tk p   proofs/TransposeP.v   the side condition, checked through loops, chords, tuplets and Sub blocks:
                                                p contains no KeyShift (ks = false) / no TrackKey (tk = false) - a later
                                                KeyShift / TrackKey is absolute and overwrites the earlier one
     moved_after q d P P' proofs/TransposeP.v   P and P' added the same notes to those the tracks of q already held, the keys on
                                                track i moved by d i; same_but_keys: current track, time base, key signature and
                                                per track pointer, channel, l o v q t are equal
   What is moved: lettered notes, chord notes, notes with an explicit octave, octave-once notes AND n-notes (runner.rs
   exec_note_n adds track_key and key_shift like set_note_info_with_default_value does), on every channel (channel 10 /
   rhythm is not exempt); a key signature (KeyFlag) and octave commands inside p are unaffected by the shift.
   Proved on spec/NoteSem.v by induction over the fuel of `sem` (every nested block runs with the fuel below), then carried
   to exec() on the tokens by C03_exec.
   An octave change is NOT such a law in general (n-notes and notes with an explicit octave do not follow it, o is
   absolute, > < and the octave-once marks stop at 0 and 10, a new track starts at o5): see C03_octave_not_a_shift.
   It is one for the programs that use the octave only through the track's current octave (keeps3_prog _ _ false p: no
   o > < octave-once marks, no octave written on a note, no n-note) and octaves inside 0..10: C03_transpose_octave. *)
From Sakura.Proofs Require Import TransposeP.

Theorem C03_transp_exact : forall (d : Z) (n n' : note),
  transp d n n' -> 0 < n_key n < 127 -> 0 <= n_key n + d <= 127 ->
  n_key n' = n_key n + d /\ n_ch n' = n_ch n /\ n_start n' = n_start n /\ n_dur n' = n_dur n /\ n_vel n' = n_vel n.
Proof. exact transp_exact_all. Qed.

(* MAIN, on the machine.  For every well-formed program p without KeyShift: exec() on the tokens of p and on the tokens of
   KeyShift(k) p terminates normally, and per track the sounded notes of the second run are those of the first (up to
   the order in which a chord's notes are stored) with every key moved by k. *)
Theorem C03_transpose : forall (p : list cmd) (k : Z), wf_prog p = true -> keeps_prog false true p = true ->
  let p' := CKeyShift k :: p in
  exists s s',
    exec_f (S (prog_depth p)) (fuel_of p) (top_tokens p) (Ok song_new) = Ok s /\
    exec_f (S (prog_depth p')) (fuel_of p') (top_tokens p') (Ok song_new) = Ok s' /\
    Forall2 (fun tr tr' => exists l l', Permutation (notes_of (tr_events tr)) l /\ Permutation (notes_of (tr_events tr')) l' /\
                                        Forall2 (transp k) l l') (s_tracks s) (s_tracks s').
Proof. exact keyshift_exec. Qed.

(* the same law in the documented semantics (no well-formedness needed), in order, with everything else equal *)
Theorem C03_transpose_sem : forall (p : list cmd) (k : Z), keeps_prog false true p = true ->
  Forall2 (fun t t' => Forall2 (transp k) (t_notes t) (t_notes t')) (p_tracks (denote_prog p)) (p_tracks (denote_prog (CKeyShift k :: p)))
  /\ same_but_keys (denote_prog p) (denote_prog (CKeyShift k :: p)).
Proof. exact keyshift_law0. Qed.

(* KeyShift anywhere: after any commands `pre`, KeyShift(a + k) instead of KeyShift(a) moves the notes played from there
   on by k, on every track; the notes played before are the same. *)
Theorem C03_transpose_at : forall (pre p : list cmd) (a k : Z), keeps_prog false true p = true ->
  let P := denote_prog (pre ++ CKeyShift a :: p) in
  let P' := denote_prog (pre ++ CKeyShift (a + k) :: p) in
  moved_after (denote_prog pre) (fun _ => k) P P' /\ same_but_keys P P'.
Proof. exact keyshift_law. Qed.

(* TrackKey: the notes played from there on are moved by k on the track TrackKey was given on (the current track after
   `pre`), the other tracks are not touched - for programs p without a further TrackKey (KeyShift may occur). *)
Theorem C03_transpose_track_key : forall (pre p : list cmd) (a k : Z), keeps_prog true false p = true ->
  let P := denote_prog (pre ++ CTrackKey a :: p) in
  let P' := denote_prog (pre ++ CTrackKey (a + k) :: p) in
  moved_after (denote_prog pre) (fun i => if Nat.eqb i (p_cur (denote_prog pre)) then k else 0) P P' /\ same_but_keys P P' /\
  forall i, i <> p_cur (denote_prog pre) -> t_notes (nth i (p_tracks P') d0) = t_notes (nth i (p_tracks P) d0).
Proof. exact trackkey_law_full. Qed.

(* both on the machine: exec() on the tokens of the two programs ends in states related (C03_exec's R) to the two
   denotations, which the law relates *)
Theorem C03_transpose_at_exec : forall (pre p : list cmd) (a k : Z),
  wf_prog pre = true -> wf_prog p = true -> keeps_prog false true p = true ->
  let X := pre ++ CKeyShift a :: p in
  let X' := pre ++ CKeyShift (a + k) :: p in
  exists s s',
    exec_f (S (prog_depth X)) (fuel_of X) (top_tokens X) (Ok song_new) = Ok s /\ R s (denote_prog X) /\
    exec_f (S (prog_depth X')) (fuel_of X') (top_tokens X') (Ok song_new) = Ok s' /\ R s' (denote_prog X') /\
    moved_after (denote_prog pre) (fun _ => k) (denote_prog X) (denote_prog X') /\ same_but_keys (denote_prog X) (denote_prog X').
Proof. exact keyshift_exec_at. Qed.

Theorem C03_transpose_track_key_exec : forall (pre p : list cmd) (a k : Z),
  wf_prog pre = true -> wf_prog p = true -> keeps_prog true false p = true ->
  let X := pre ++ CTrackKey a :: p in
  let X' := pre ++ CTrackKey (a + k) :: p in
  exists s s',
    exec_f (S (prog_depth X)) (fuel_of X) (top_tokens X) (Ok song_new) = Ok s /\ R s (denote_prog X) /\
    exec_f (S (prog_depth X')) (fuel_of X') (top_tokens X') (Ok song_new) = Ok s' /\ R s' (denote_prog X') /\
    moved_after (denote_prog pre) (fun i => if Nat.eqb i (p_cur (denote_prog pre)) then k else 0) (denote_prog X) (denote_prog X') /\
    same_but_keys (denote_prog X) (denote_prog X').
Proof. exact trackkey_exec_at. Qed.

(* the fuel of the documented semantics is immaterial above the nesting depth (what makes `denote_prog` of a program and
   of its parts comparable) *)
Theorem C03_sem_fuel : forall (f f' : nat) (l : list cmd) (q : perf),
  (prog_depth l <= f)%nat -> (prog_depth l <= f')%nat -> sem_prog f l q = sem_prog f' l q.
Proof. exact sem_prog_fuel_any. Qed.

(* non-vacuity, on the program of C03_example (loop with ':', chord, tuplet with n60 and a nested loop, Sub with an explicit
   octave, three tracks): the side condition holds, and the machine's notes under KeyShift(3) are the notes + 3 *)
Definition ex_keys (s : res song) : list (list Z) :=
  match s with Ok s => map (fun tr => map (fun n => n_key n) (notes_of (tr_events tr))) (s_tracks s) | _ => [] end.
Example C03_transpose_example :
  wf_prog ex_prog = true /\ keeps_prog false true ex_prog = true /\ keeps_prog true false ex_prog = true /\
  ex_keys (exec_f (S (prog_depth ex_prog)) (fuel_of ex_prog) (top_tokens ex_prog) (Ok song_new))
  = [[60; 65; 72; 91; 88; 72]; []; [67; 60; 66; 66; 45; 71]] /\
  ex_keys (exec_f (S (prog_depth (CKeyShift 3 :: ex_prog))) (fuel_of (CKeyShift 3 :: ex_prog)) (top_tokens (CKeyShift 3 :: ex_prog)) (Ok song_new))
  = [[63; 68; 75; 94; 91; 75]; []; [70; 63; 69; 69; 48; 74]] /\
  (* TrackKey(3) in front: the first track only *)
  ex_keys (exec_f (S (prog_depth (CTrackKey 3 :: ex_prog))) (fuel_of (CTrackKey 3 :: ex_prog)) (top_tokens (CTrackKey 3 :: ex_prog)) (Ok song_new))
  = [[63; 68; 75; 94; 91; 75]; []; [67; 60; 66; 66; 45; 71]] /\
  (* the clamp on both sides: KeyShift(100) *)
  ex_keys (exec_f (S (prog_depth (CKeyShift 100 :: ex_prog))) (fuel_of (CKeyShift 100 :: ex_prog)) (top_tokens (CKeyShift 100 :: ex_prog)) (Ok song_new))
  = [[127; 127; 127; 127; 127; 127]; []; [127; 127; 127; 127; 127; 127]].
Proof. repeat split; vm_compute; reflexivity. Qed.

(* the side condition is needed: a KeyShift inside p overwrites the one in front *)
Example C03_transpose_needs_side_condition :
  let p := [ex0; CKeyShift 1; ex0] in
  keeps_prog false true p = false /\
  map (fun t => map (fun n => n_key n) (t_notes t)) (p_tracks (denote_prog p)) = [[60; 61]] /\
  map (fun t => map (fun n => n_key n) (t_notes t)) (p_tracks (denote_prog (CKeyShift 5 :: p))) = [[65; 61]].
Proof. repeat split; vm_compute; reflexivity. Qed.
(* the clamp is needed in the statement: o10 b is 127 (from 131); under KeyShift(-12) it is 119 = clamp (131 - 12), not 127 - 12 *)
Example C03_transpose_clamp :
  let p := [COct 10; ex_n 11] in
  map (fun t => map (fun n => n_key n) (t_notes t)) (p_tracks (denote_prog p)) = [[127]] /\
  map (fun t => map (fun n => n_key n) (t_notes t)) (p_tracks (denote_prog (CKeyShift (-12) :: p))) = [[119]].
Proof. split; vm_compute; reflexivity. Qed.
(* an octave step in front is not a shift by 12 of everything: n60 and a note with an explicit octave stay, o is absolute,
   and > stops at octave 10 *)
Example C03_octave_not_a_shift :
  let keys p := map (fun t => map (fun n => n_key n) (t_notes t)) (p_tracks (denote_prog p)) in
  let p := [ex0; CNoteN 60 None None None None; CNote 0 0 false None None None None (Some 5); COct 5; ex0] in
  keys p = [[60; 60; 60; 60]] /\ keys (COctUp :: p) = [[72; 60; 60; 60]] /\
  keys [COct 10; ex0] = [[120]] /\ keys [COct 10; COctUp; ex0] = [[120]].
Proof. repeat split; vm_compute; reflexivity. Qed.

(* the octave: o(a + j) instead of o(a) moves the notes played from there on, on the track it is given on, by 12 j;
   other tracks (also those created later) are not touched.  only_track c d i = if i = c then d else 0 *)
Theorem C03_transpose_octave : forall (pre p : list cmd) (a j : Z),
  0 <= a <= 10 -> 0 <= a + j <= 10 -> keeps3_prog true true false p = true ->
  moved_after (denote_prog pre) (only_track (p_cur (denote_prog pre)) (12 * j))
              (denote_prog (pre ++ COct a :: p)) (denote_prog (pre ++ COct (a + j) :: p)).
Proof. exact octave_law. Qed.

Theorem C03_transpose_octave_exec : forall (pre p : list cmd) (a j : Z),
  wf_prog pre = true -> wf_prog p = true -> 0 <= a <= 10 -> 0 <= a + j <= 10 -> keeps3_prog true true false p = true ->
  let X := pre ++ COct a :: p in
  let X' := pre ++ COct (a + j) :: p in
  exists s s',
    exec_f (S (prog_depth X)) (fuel_of X) (top_tokens X) (Ok song_new) = Ok s /\ R s (denote_prog X) /\
    exec_f (S (prog_depth X')) (fuel_of X') (top_tokens X') (Ok song_new) = Ok s' /\ R s' (denote_prog X') /\
    moved_after (denote_prog pre) (only_track (p_cur (denote_prog pre)) (12 * j)) (denote_prog X) (denote_prog X').
Proof. exact octave_exec_at. Qed.

(* non-vacuity: "c o4 [2 c 'eg' ] {c d e}4 TR(2) c" against the same with o6: the first track from the o on + 24,
   the note before it and the other track the same *)
Example C03_transpose_octave_example :
  let p := [CLoop (Some 2) [ex0; CChord [ex_n 4; ex_n 7] None None None] None; CTuplet [ex0; ex_n 2; ex_n 4] None; CTrack 2; ex0] in
  keeps3_prog true true false p = true /\ wf_prog p = true /\
  ex_keys (exec_f 4 60 (top_tokens ([ex0] ++ COct 4 :: p)) (Ok song_new)) = [[60; 48; 55; 52; 48; 55; 52; 48; 50; 52]; []; [60]] /\
  ex_keys (exec_f 4 60 (top_tokens ([ex0] ++ COct 6 :: p)) (Ok song_new)) = [[60; 72; 79; 76; 72; 79; 76; 72; 74; 76]; []; [60]].
Proof. repeat split; vm_compute; reflexivity. Qed.

Print Assumptions C03_tuplet_count.
Print Assumptions C03_exec.
Print Assumptions C03_exec_tokens.
Print Assumptions C03_exec_from.
Print Assumptions C03_initial.
Print Assumptions C03_notes.
Print Assumptions C03_run_source.
Print Assumptions C03_step_note.
Print Assumptions C03_octave_once.
Print Assumptions C03_transp_exact.
Print Assumptions C03_transpose.
Print Assumptions C03_transpose_sem.
Print Assumptions C03_transpose_at.
Print Assumptions C03_transpose_track_key.
Print Assumptions C03_transpose_at_exec.
Print Assumptions C03_transpose_track_key_exec.
Print Assumptions C03_sem_fuel.
Print Assumptions C03_transpose_octave.
Print Assumptions C03_transpose_octave_exec.
