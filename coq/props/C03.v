(* C03 - notes in the MIDI file are the notes the MML text denotes (statements only). *)
From Sakura.Model Require Import Base Event Song Token LexCore RunCore Compile.
From Sakura.Spec Require Import NoteSem.

(* the documented defaults are the defaults of the model's initial state (Track::new / Song::new):
   octave 5, velocity 100, gate 90 %, quarter note = time base 96, channel 0 for the first track, vAdd 8 *)
Theorem C03_defaults :
  let t := cur_track song_new in
  tr_octave t = 5 /\ tr_velocity t = 100 /\ tr_qlen t = 90 /\ tr_length t = 96 /\ s_timebase song_new = 96
  /\ tr_channel t = 0 /\ s_v_add song_new = NoteSem.vAdd /\ tr_timing t = 0.
Proof. repeat split; reflexivity. Qed.

Print Assumptions C03_defaults.
