(* C19 - errors carry the right line, never derail the music, and the log stays bounded.
   This file contains only the property statements; every proof is `exact <lemma>`.

   `LOOP f n ls s ln h acc` is the main loop of lexer::lex at a command boundary (see props/C18.v, C18_loop_is_lex);
   ls carries the log (lx_logs).  Constants (SAKURA_MAX_LOGS, SAKURA_MAX_LOGS_CHARS, LEX_MAX_ERROR) and message texts
   (msg_X ja = the text of message X in the language of the song, lx_ja ls; the msg_en_ / msg_ja_ constants) are regenerated from /repo on every run (coq/gen/Consts.v, Messages.v).

   Proved on the model, for all inputs: the log bounds; the exact effect of an unknown character / an unknown
   word / End at a command boundary; the line counter over any mixture of separators, line breaks, comments and
   unknown characters.  NOT proved (correspondence + oracle only, tools/props/c19.py): line counting INSIDE command
   readers (get_note_length's line-break continuation, get_token_nest), the [PRINT](line) entries (PRINT is outside
   the modelled fragment), and "with debug off nothing is written to stdout" (observed on the process; the pin
   C19_unguarded_prints lists the only print sites of the library that are not behind a debug test). *)
From Coq Require Import String.
From Sakura.Model Require Import Base Cursor Song Token LexCore RunCore Compile Msg.
From Sakura.Gen Require Import Consts Messages SysFuncRows WriteSites.
From Sakura.Proofs Require Import LayoutP LogP LocalityP LogExecP FuelMonoP.
From Sakura.Gen Require Import VarRows.
Open Scope list_scope.
Open Scope Z_scope.

(* ---- the log stays bounded ---- *)
Theorem C19_constants : SAKURA_MAX_LOGS = 100 /\ LEX_MAX_ERROR = 30 /\ SAKURA_MAX_LOGS_CHARS = 4096.
Proof. exact consts_documented. Qed.

(* every function of the model that writes the log keeps it at <= SAKURA_MAX_LOGS (= 100) entries *)
Theorem C19_log_bound :
  (forall s m, zlen (s_logs s) <= SAKURA_MAX_LOGS -> zlen (s_logs (add_log s m)) <= SAKURA_MAX_LOGS) /\
  (forall ls m, zlen (lx_logs ls) <= SAKURA_MAX_LOGS -> zlen (lx_logs (lx_add_log ls m)) <= SAKURA_MAX_LOGS) /\
  (forall ls s ln m, zlen (lx_logs ls) <= SAKURA_MAX_LOGS -> zlen (lx_logs (lex_error ls s ln m)) <= SAKURA_MAX_LOGS) /\
  (forall ls s ln c, zlen (lx_logs ls) <= SAKURA_MAX_LOGS -> zlen (lx_logs (read_error_cmd ls s ln c)) <= SAKURA_MAX_LOGS) /\
  (forall s m, zlen (s_logs s) <= SAKURA_MAX_LOGS -> zlen (s_logs (runtime_error s m)) <= SAKURA_MAX_LOGS) /\
  zlen (s_logs song_new) <= SAKURA_MAX_LOGS.
Proof.
  repeat split.
  - exact add_log_ok.
  - exact lx_add_log_ok.
  - exact lex_error_ok.
  - exact read_error_cmd_ok.
  - exact runtime_error_ok.
  - exact song_new_ok.
Qed.

(* the whole lexer: whatever the source, lex keeps the bound *)
Theorem C19_lex_log_bound : forall ls src ln toks ls',
  lex ls src ln = Ok (toks, ls') -> zlen (lx_logs ls) <= SAKURA_MAX_LOGS -> zlen (lx_logs ls') <= SAKURA_MAX_LOGS.
Proof. exact lex_log_ok. Qed.

(* lex_error (unknown characters): below LEX_MAX_ERROR entries it adds exactly one entry of the documented form;
   at LEX_MAX_ERROR one "too many errors" notice; above, nothing - so these reports never take the log beyond
   LEX_MAX_ERROR + 1 (= 31) entries *)
Theorem C19_lex_error_cap : forall ls s ln m,
  (zlen (lx_logs ls) < LEX_MAX_ERROR ->
     lx_logs (lex_error ls s ln m)
     = lx_logs ls ++ [zs "[ERROR](" ++ show_int ln ++ zs ") " ++ msg_UnknownChar (lx_ja ls) ++ zs ": """ ++ m ++ zs """ "
                      ++ msg_Near (lx_ja ls) ++ zs " """ ++ near_text s ++ zs """"]) /\
  (zlen (lx_logs ls) = LEX_MAX_ERROR ->
     lx_logs (lex_error ls s ln m)
     = lx_logs ls ++ [zs "[ERROR](" ++ show_int ln ++ zs ") " ++ msg_TooManyErrorsInLexer (lx_ja ls)]) /\
  (LEX_MAX_ERROR < zlen (lx_logs ls) -> lex_error ls s ln m = ls) /\
  (zlen (lx_logs ls) <= LEX_MAX_ERROR + 1 -> zlen (lx_logs (lex_error ls s ln m)) <= LEX_MAX_ERROR + 1) /\
  lx_timebase (lex_error ls s ln m) = lx_timebase ls /\ lx_vars (lex_error ls s ln m) = lx_vars ls /\
  lx_rhythm (lex_error ls s ln m) = lx_rhythm ls.
Proof. exact lex_error_spec. Qed.

(* get_logs_str: at most SAKURA_MAX_LOGS_CHARS characters plus "...", for every log - hence for every compilation *)
Theorem C19_log_chars :
  (forall l, zlen (logs_str l) <= SAKURA_MAX_LOGS_CHARS + 3) /\
  (forall src bytes log, compile src = Ok (bytes, log) -> zlen log <= 4096 + 3).
Proof. split; [exact logs_str_bound | exact compile_log_bound]. Qed.

(* ---- an unknown character at a command boundary ----
   c is unknown when zen2han c is no upper-case letter and none of the command characters cmd_codes; then one call of
   lex_error with the character as message and the text AFTER it as "near", no token, exactly this one character
   consumed, line counter untouched: the rest of the piece is lexed as if the character were absent. *)
Theorem C19_unknown_char_step : forall f n ls (c : Z) r ln h acc,
  is_upper (zen2han c) = false -> ~ In (zen2han c) cmd_codes ->
  LOOP f (S n) ls (c :: r) ln h acc = LOOP f n (lex_error ls r ln [zen2han c]) r ln h acc.
Proof. exact unknown_char_step_in. Qed.
(* the unknown printable ASCII characters, computed from that definition *)
Theorem C19_unknown_ascii :
  filter (fun c => negb (cmd_code (zen2han c))) (map Z.of_nat (seq 33 94))
  = zs "!%*+,-.0123456789=\^hijkmsuwxz}~".
Proof. exact unknown_ascii. Qed.

(* ---- an unknown bare upper-case word ----
   unknown_word ls w r1 ln: w is a complete word starting with a capital (r1 does not continue it), not End.. / END..,
   not System / SYSTEM / PlayFrom., not a system function, not a variable of ls, not followed by ++, --, and (after
   blanks) not by '=' or ".s(".  Then one "Syntax Error" entry naming w WITH THE LINE OF THE WORD (ln, also when a
   /* */ comment with line breaks follows the word: repo fix), no token; the word and the blanks (and /* */ comments)
   after it are consumed. *)
Theorem C19_unknown_word_step : forall f n ls (c : Z) (w' r1 : list Z) ln h acc,
  unknown_word ls (zen2han c :: w') r1 ln = true ->
  LOOP f (S n) ls (c :: w' ++ r1) ln h acc
  = LOOP f n (read_error_cmd ls (fst (skip_space r1 ln)) ln (zen2han c :: w'))
         (fst (skip_space r1 ln)) (snd (skip_space r1 ln)) h acc.
Proof. exact unknown_word_step. Qed.
Theorem C19_syntax_error_entry : forall ls s ln w, zlen (lx_logs ls) < SAKURA_MAX_LOGS ->
  lx_logs (read_error_cmd ls s ln w)
  = lx_logs ls ++ [zs "[ERROR](" ++ show_int ln ++ zs ") " ++ msg_ScriptSyntaxError (lx_ja ls) ++ zs " """ ++ w ++ zs """ "
                   ++ msg_Near (lx_ja ls) ++ zs " """ ++ near_text_raw s ++ zs """"].
Proof. exact read_error_cmd_entry. Qed.

(* ---- End / END: everything after it yields no token ---- *)
Theorem C19_end : forall f n ls (c : Z) r ln h acc, zen2han c = 69 ->
  prefixb (zs "nd") r || prefixb (zs "ND") r = true ->
  LOOP f (S n) ls (c :: r) ln h acc = Ok (acc, ls).
Proof. exact end_step. Qed.

(* ---- the line counter ----
   Items as in C18 plus LBad c (an unknown character).  After any such sequence its1, the LineNo token pushed at the
   next line break carries the initial line + the number of LF consumed up to and including it, and the loop goes on
   with initial line + number of LF in the whole text. *)
Theorem C19_line_counter : forall f n (its1 its2 : list litem) ls r ln h acc,
  forallb litem_ok (its1 ++ LNewline :: its2) = true ->
  exists ls',
  LOOP f (length (its1 ++ LNewline :: its2) + n) ls (print_items (its1 ++ LNewline :: its2) ++ r) ln h acc
  = LOOP f n ls' r (ln + count_nl (print_items (its1 ++ LNewline :: its2))) h
      (acc ++ items_toks ln its1 ++ [TLineNo (ln + count_nl (print_items (its1 ++ [LNewline])))]
           ++ items_toks (ln + count_nl (print_items (its1 ++ [LNewline]))) its2).
Proof. exact line_counter. Qed.
(* a source consisting only of such items: the tokens are LineNo / Comment only, the log is what the unknown characters
   add one after the other (items_ls), each with the line it stands on *)
Theorem C19_only_layout_and_errors : forall (its : list litem) ls ln, forallb litem_ok its = true ->
  lex_pre (print_items its) = false ->     (* no FUNCTION / Function met by lex_preprocess (it scans `#` comments too): see C18_loop_is_lex *)
  lex ls (print_items its) ln = Ok (TLineNo ln :: items_toks ln its, items_ls ls [] ln its)
  /\ erase_lineno (items_toks ln its) = [].
Proof. intros its ls ln H N. split; [exact (lex_items its ls ln H N) | exact (items_toks_layout its ln)]. Qed.

(* ---- silence: the library's print sites not behind a debug test (census of /repo/src, regenerated) are exactly the
   unreachable "[SYSTEM_ERROR] FUNCTION NOT SET" of read_upper_command and dump_midi's explicit flag_stdout ---- *)
Theorem C19_unguarded_prints :
  unguarded_prints_lib = [("lexer.rs", "read_upper_command"); ("midi.rs", "dump_midi")]%string.
Proof. reflexivity. Qed.

(* non-vacuity: "c!de" style input at loop level, an unknown word, End, and a mixed layout/error source *)
Example C19_example :
  (exists ls', lex (mkLex 96 [] [] [] false) (zs "c!de") 0
     = Ok ([TLineNo 0; TNote 0 0 0 [] 0 (-1) ISIZE_MIN (-1) 0; TNote 2 0 0 [] 0 (-1) ISIZE_MIN (-1) 0;
            TNote 4 0 0 [] 0 (-1) ISIZE_MIN (-1) 0], ls')
     /\ lx_logs ls' = [zs "[ERROR](0) Unknown Character: ""!"" near ""de"""]) /\
  unknown_word (mkLex 96 [] [] [] false) (zs "Foo") (zs " c") 3 = true /\
  lx_logs (read_error_cmd (mkLex 96 [] [] [] false) (zs "c") 3 (zs "Foo")) = [zs "[ERROR](3) Syntax Error ""Foo"" near ""c"""] /\
  lex (mkLex 96 [] [] [] false) (zs "End c") 0 = Ok ([TLineNo 0], mkLex 96 [] [] [] false) /\
  forallb litem_ok [LBad 33; LNewline; LLine [120]; LBad 126; LNewline] = true /\
  lx_logs (items_ls (mkLex 96 [] [] [] false) [] 0 [LBad 33; LNewline; LLine [120]; LBad 126; LNewline])
  = [zs "[ERROR](0) Unknown Character: ""!"" near """ ++ [8629] ++ zs "//x" ++ [8629] ++ zs "~" ++ [8629] ++ zs """";
     zs "[ERROR](2) Unknown Character: ""~"" near """ ++ [8629] ++ zs """"].
Proof. repeat split; try (vm_compute; reflexivity). eexists; split; vm_compute; reflexivity. Qed.

(* ================================================================================================== *)
(* THE WHOLE PIPELINE MODEL, every source (proofs/LogExecP.v).
   The log of the song that exec() returns never has more than SAKURA_MAX_LOGS = 100 entries: the lexer keeps the bound
   (C19_lex_log_bound), Song::new + the lexer's log starts within it, every arm of the runner keeps it - the arms that write
   are the time / time-signature / RPN argument errors (runtime_error), the "Undefined" warning of a macro call (add_log),
   and the lexing done AT RUN TIME for macro calls and PLAY parts (the song's log goes through the lexer and comes back:
   ls_of_song / song_with_ls) - and so does exec_f at any nesting.  get_logs_str then cuts the text at
   SAKURA_MAX_LOGS_CHARS = 4096 characters plus "...".  ([PRINT] entries belong to the script fragment, model/Script.v.) *)
Theorem C19_compile_log_entries : forall (src : list Z) (s : song),
  run_source src = Ok s -> zlen (s_logs s) <= SAKURA_MAX_LOGS /\ (length (s_logs s) <= 100)%nat.
Proof. exact (fun src s E => conj (run_source_logs src s E) (compile_log_entries src s E)). Qed.
Theorem C19_exec_log_bound : forall (steps d : nat) (toks : list tok) (s s2 : song),
  zlen (s_logs s) <= SAKURA_MAX_LOGS -> exec_f d steps toks (Ok s) = Ok s2 -> zlen (s_logs s2) <= SAKURA_MAX_LOGS.
Proof. exact exec_f_logs_inv. Qed.
Theorem C19_compile_log_chars : forall (src : list Z) (bytes : list Z) (log : list Z),
  compile src = Ok (bytes, log) -> zlen log <= SAKURA_MAX_LOGS_CHARS + 3.
Proof. exact compile_log_bound. Qed.

(* End / END at command position: the loop answers at once, whatever follows the word (the loop tests the PREFIX End / END) ... *)
Theorem C19_after_end_loop : forall f n ls (c : Z) (r t : list Z) ln h acc, zen2han c = 69 ->
  prefixb (zs "nd") r || prefixb (zs "ND") r = true ->
  LOOP f (S n) ls (c :: r ++ t) ln h acc = Ok (acc, ls) /\ LOOP f (S n) ls (c :: r) ln h acc = Ok (acc, ls).
Proof. exact after_end_loop. Qed.
(* ... and for the whole lexer, on a program read command by command (LocalityP.runs, C18_lex_compositional_partial) followed by
   End: the tokens and the lexer state are those of the isolated runs, the same with any text t after the word and with none.
   The premises are stated for both texts: the scan of lex_preprocess finds no FUNCTION (it stops at the WORD End / END, so
   `Endx FUNCTION ..` is scanned on while the loop has stopped - the pre-scan and the loop do not agree on what ends a text),
   and the commands run in isolation (the last command's stop character may be the E itself only if that is text_ok). *)
Theorem C19_after_end_partial : forall (its0 : list litem) (p : cprog) (t : list Z) ls ln lsA lnA hA accA lsB lnB hB accB,
  forallb litem_ok its0 = true -> forallb is_layout its0 = true ->
  lex_pre (print_items its0 ++ print_cprog p ++ zs "End" ++ t) = false -> lex_pre (print_items its0 ++ print_cprog p ++ zs "End") = false ->
  (forall f, runs f ls (ln + items_lines its0) false ([TLineNo ln] ++ items_toks ln its0) p (zs "End" ++ t) lsA lnA hA accA) ->
  (forall f, runs f ls (ln + items_lines its0) false ([TLineNo ln] ++ items_toks ln its0) p (zs "End") lsB lnB hB accB) ->
  lex ls (print_items its0 ++ print_cprog p ++ zs "End" ++ t) ln = Ok (accA, lsA) /\
  lex ls (print_items its0 ++ print_cprog p ++ zs "End") ln = Ok (accA, lsA).
Proof. exact after_end_lex. Qed.
Example C19_after_end_example : exists acc ls',
  lex ls00 (zs "c d;End [ x { FUNCTION F(){ } TR(") 0 = Ok (acc, ls') /\ lex ls00 (zs "c d;End") 0 = Ok (acc, ls') /\ length acc = 3%nat.
Proof. exact end_example. Qed.

(* ... and at the level of compile (bytes AND log): under the same premises, the text with anything after the word compiles to
   exactly what the text ending with the word compiles to - provided that one does not run out of fuel.  (run_source hands
   exec() the nesting fuel S (length src): the longer text has more of it, so the answer of the shorter one carries over by
   C05_exec_fuel_mono; the converse direction would need the shorter text's fuel to suffice.) *)
Theorem C19_after_end_compile : forall (its0 : list litem) (p : cprog) (t : list Z) lsA lnA hA accA lsB lnB hB accB,
  forallb litem_ok its0 = true -> forallb is_layout its0 = true ->
  lex_pre (print_items its0 ++ print_cprog p ++ zs "End" ++ t) = false -> lex_pre (print_items its0 ++ print_cprog p ++ zs "End") = false ->
  (forall f, runs f (mkLex 96 [] init_vars rhythm_rows false) (0 + items_lines its0) false ([TLineNo 0] ++ items_toks 0 its0) p (zs "End" ++ t) lsA lnA hA accA) ->
  (forall f, runs f (mkLex 96 [] init_vars rhythm_rows false) (0 + items_lines its0) false ([TLineNo 0] ++ items_toks 0 its0) p (zs "End") lsB lnB hB accB) ->
  compile (print_items its0 ++ print_cprog p ++ zs "End") <> OutOfFuel ->
  compile (print_items its0 ++ print_cprog p ++ zs "End" ++ t) = compile (print_items its0 ++ print_cprog p ++ zs "End").
Proof. exact after_end_compile. Qed.
Example C19_after_end_compile_example :
  compile (zs "c d;End [ x { FUNCTION F(){ } TR(") = compile (zs "c d;End") /\
  exists bytes log, compile (zs "c d;End") = Ok (bytes, log).
Proof. exact end_compile_example. Qed.

Print Assumptions C19_constants.
Print Assumptions C19_log_bound.
Print Assumptions C19_lex_log_bound.
Print Assumptions C19_lex_error_cap.
Print Assumptions C19_log_chars.
Print Assumptions C19_unknown_char_step.
Print Assumptions C19_unknown_ascii.
Print Assumptions C19_unknown_word_step.
Print Assumptions C19_syntax_error_entry.
Print Assumptions C19_end.
Print Assumptions C19_line_counter.
Print Assumptions C19_only_layout_and_errors.
Print Assumptions C19_unguarded_prints.
Print Assumptions C19_compile_log_entries.
Print Assumptions C19_exec_log_bound.
Print Assumptions C19_compile_log_chars.
Print Assumptions C19_after_end_loop.
Print Assumptions C19_after_end_partial.
Print Assumptions C19_after_end_compile.
