(* C12 - tracks are independent; TrackSync aligns them.
   Statements only; every proof is `exact <lemma>` (proofs/TrackIndepP.v).
   PLAY with literal parts is in the pipeline model (RunCore.exec_play) and takes part in the correspondence; there is
   no theorem about PLAY here: its law is checked on the implementation by the oracle of tools/props/c12.py.

     dtrk               the default element of `nth` on track lists
     cur_ok s           the current track exists
     same_cur s l2      l2 is a track list with the same current track as s (all OTHER tracks arbitrary)
     lift s l2 r        the result r of a step on s, transplanted into l2 (current track and globals of r)
     frame_rel s s'     same current index, same number of tracks, every other track identical
     globals_eq a b     a and b agree on everything but the track list and the current index *)
From Sakura.Model Require Import Base Cursor Length Event Song Token LoopMachine LexCore RunCore.
From Sakura.Proofs Require Import BlockP TrackIndepP TrackBlocksP TrackSwitchP.
Open Scope Z_scope.

(* change_cur_track(n): a pending octave-once is first settled (Song.settle_octave_once: undone on the OLD current
   track - the one it was written on - and cleared); apart from that octave the existing tracks are untouched; the
   missing tracks up to n are created, each as Track::new(timebase, its own index - 1), i.e. on channel
   clamp(index - 1, 0, 15); n becomes current *)
Theorem C12_default_channel : forall (s : song) (n : nat),
  let s' := change_cur_track s n in
  let s0 := settle_octave_once s in
  let old := length (s_tracks s) in
  s_cur s' = n /\ cur_ok s' /\
  s_set_cur (s_set_tracks s' []) 0 = s_set_cur (s_set_tracks s0 []) 0 /\
  s_tracks s' = s_tracks s0 ++ map (default_track (s_timebase s)) (seq old (S n - old)) /\
  length (s_tracks s') = Nat.max old (S n) /\
  (forall i, (i < old)%nat -> nth i (s_tracks s') dtrk = nth i (s_tracks s0) dtrk) /\
  (forall i, (i < old)%nat -> i <> s_cur s -> nth i (s_tracks s') dtrk = nth i (s_tracks s) dtrk) /\
  (forall i, (old <= i < length (s_tracks s'))%nat ->
     nth i (s_tracks s') dtrk = track_new (s_timebase s) (Z.of_nat i - 1) /\
     tr_channel (nth i (s_tracks s') dtrk) = Z.max 0 (Z.min 15 (Z.of_nat i - 1))).
Proof. exact change_cur_track_law. Qed.

(* what settling does: only the octave of the current track and the flag *)
Theorem C12_settle_octave_once : forall s : song,
  let s1 := settle_octave_once s in
  s_octave_once s1 = 0 /\ s_cur s1 = s_cur s /\ length (s_tracks s1) = length (s_tracks s) /\
  (forall i, i <> s_cur s -> nth i (s_tracks s1) dtrk = nth i (s_tracks s) dtrk) /\
  (cur_ok s -> cur_track s1 = tr_set_octave (cur_track s) (tr_octave (cur_track s) - s_octave_once s)) /\
  s_set_octave_once (s_set_tracks s1 []) 0 = s_set_octave_once (s_set_tracks s []) 0 /\
  (s_octave_once s = 0 -> s1 = s).
Proof. exact settle_octave_once_law. Qed.

(* whatever order tracks are first used in *)
Theorem C12_default_channel_any_order : forall (ns : list nat) (s : song),
  let s' := fold_left change_cur_track ns s in
  exists k l0, s_tracks s' = l0 ++ map (default_track (s_timebase s)) (seq (length (s_tracks s)) k) /\
               length l0 = length (s_tracks s) /\ (s_octave_once s = 0 -> l0 = s_tracks s) /\
               s_timebase s' = s_timebase s.
Proof. exact change_cur_track_any_order. Qed.

(* the Track arm of exec() on an existing track: a pending octave-once (the backquote / double-quote commands) is
   settled on the OLD current track, then the track is switched; nothing else changes *)
Theorem C12_track_token : forall (ec : list tok -> res song -> res song) (s : song) (i : nat),
  (i < length (s_tracks s))%nat -> (i <= 999)%nat ->
  step_song ec (TTrack (Z.of_nat i)) s = Ok (s_set_cur (settle_octave_once s) i).
Proof. exact step_track_gen. Qed.

Theorem C12_track_token_plain : forall (ec : list tok -> res song -> res song) (s : song) (i : nat),
  (i < length (s_tracks s))%nat -> (i <= 999)%nat -> s_octave_once s = 0 ->
  step_song ec (TTrack (Z.of_nat i)) s = Ok (s_set_cur s i).
Proof. exact step_track. Qed.

(* TrackSync: every track's pointer becomes the current track's; nothing else changes *)
Theorem C12_sync : forall s : song,
  let s' := track_sync s in
  let tp := tr_timepos (cur_track s) in
  s_set_tracks s' [] = s_set_tracks s [] /\
  length (s_tracks s') = length (s_tracks s) /\
  (forall i, (i < length (s_tracks s))%nat ->
     nth i (s_tracks s') dtrk = tr_set_timepos (nth i (s_tracks s) dtrk) tp /\
     tr_timepos (nth i (s_tracks s') dtrk) = tp) /\
  (cur_ok s -> cur_track s' = cur_track s).
Proof. exact track_sync_law. Qed.

(* frame: a track-local token changes no track but the current one *)
Theorem C12_frame : forall (ec : list tok -> res song -> res song) (t : tok) (s s' : song),
  track_local t = true -> step_song ec t s = Ok s' ->
  s_cur s' = s_cur s /\ length (s_tracks s') = length (s_tracks s) /\
  (forall i, i <> s_cur s -> nth i (s_tracks s') dtrk = nth i (s_tracks s) dtrk) /\
  s_timebase s' = s_timebase s.
Proof. exact step_frame. Qed.

(* independence: its effect on the current track (and on the global flags, and whether it fails) is the
   same whatever the other tracks are *)
Theorem C12_frame_indep : forall (ec : list tok -> res song -> res song) (t : tok) (s : song) (l2 : list track),
  track_local t = true -> same_cur s l2 ->
  step_song ec t (s_set_tracks s l2) = lift s l2 (step_song ec t s).
Proof. exact step_indep. Qed.

(* both, for blocks of track-local tokens *)
Theorem C12_block_frame : forall (ec : list tok -> res song -> res song) (A : list tok),
  local_block A -> forall s s', fold_steps ec A (Ok s) = Ok s' -> frame_rel s s'.
Proof. exact fold_frame. Qed.

Theorem C12_block_indep : forall (ec : list tok -> res song -> res song) (A : list tok),
  local_block A -> forall s l2, same_cur s l2 ->
  fold_steps ec A (Ok (s_set_tracks s l2)) = lift s l2 (fold_steps ec A (Ok s)).
Proof. exact fold_indep. Qed.

(* the start tick remembered from the last chord (harmony_time) is read only while a chord is open: hnorm forgets
   it in states without an open chord, and no track-local token can tell the difference *)
Theorem C12_harmony_time_dead : forall (ec : list tok -> res song -> res song) (t : tok) (s : song),
  track_local t = true ->
  hnorm_res (step_song ec t (hnorm s)) = hnorm_res (step_song ec t s).
Proof. exact step_hnorm. Qed.

(* partial: blocks of track-local tokens only (no loops, Sub, tuplets inside the blocks), no octave-once pending at
   the start, each block leaving the song-global chord / octave-once registers as it found them (up to the dead
   harmony_time, so chords are allowed).  "TR(i) A TR(j) B" and "TR(j) B TR(i) A" then build the same tracks and
   the same global registers: track i is what A alone makes of it, track j what B alone makes of it. *)
Theorem C12_commute_partial : forall (ec : list tok -> res song -> res song) (A B : list tok) (s : song) (i j : nat) (sA sB : song),
  local_block A -> local_block B -> i <> j ->
  (i < length (s_tracks s))%nat -> (j < length (s_tracks s))%nat -> (i <= 999)%nat -> (j <= 999)%nat ->
  s_octave_once s = 0 ->
  fold_steps ec A (Ok (s_set_cur s i)) = Ok sA -> globals_eq (hnorm sA) (hnorm s) ->
  fold_steps ec B (Ok (s_set_cur s j)) = Ok sB -> globals_eq (hnorm sB) (hnorm s) ->
  exists r1 r2,
    fold_steps ec (TTrack (Z.of_nat i) :: A ++ TTrack (Z.of_nat j) :: B) (Ok s) = Ok r1 /\
    fold_steps ec (TTrack (Z.of_nat j) :: B ++ TTrack (Z.of_nat i) :: A) (Ok s) = Ok r2 /\
    s_tracks r1 = s_tracks r2 /\ globals_eq (hnorm r1) (hnorm r2) /\ s_cur r1 = j /\ s_cur r2 = i /\
    s_tracks r1 = upd_nth j (fun _ => nth j (s_tracks sB) dtrk) (upd_nth i (fun _ => nth i (s_tracks sA) dtrk) (s_tracks s)).
Proof. exact blocks_commute_h. Qed.

(* ---- non-vacuity ---- *)
Definition ex_c := TNote 0 0 0 [] 0 (-1) ISIZE_MIN (-1) 0.
Definition ex_e := TNote 4 0 0 [56] 0 (-1) ISIZE_MIN (-1) 0.
Definition ex_s3 : song := change_cur_track (change_cur_track song_new 5) 2.     (* TR(5) TR(2): six tracks *)
Definition ex_A := [ex_c; THarmonyBegin; ex_c; ex_e; THarmonyEnd [50] (-1) None; TOctaveOnce 1; ex_e].
Definition ex_B := [TOctave 6; TRest 1 [50]; ex_e; TVoice [10]; TChannel 12].

Example C12_example_channels :
  map tr_channel (s_tracks ex_s3) = [0; 0; 1; 2; 3; 4] /\ s_cur ex_s3 = 2%nat /\
  map tr_channel (s_tracks (change_cur_track song_new 20)) = [0; 0; 1; 2; 3; 4; 5; 6; 7; 8; 9; 10; 11; 12; 13; 14; 15; 15; 15; 15; 15].
Proof. split; [|split]; vm_compute; reflexivity. Qed.

Example C12_example_sync :
  exists s, fold_steps (exec_f 1 10) [TTrack 3; ex_c; ex_e; TTrackSync] (Ok song_new) = Ok s /\
    map tr_timepos (s_tracks s) = [144; 144; 144; 144].
Proof. eexists. split; vm_compute; reflexivity. Qed.

Example C12_example_commute :
  local_block ex_A /\ local_block ex_B /\ s_octave_once ex_s3 = 0 /\
  exists sA sB,
    fold_steps (exec_f 1 10) ex_A (Ok (s_set_cur ex_s3 1)) = Ok sA /\ globals_eq (hnorm sA) (hnorm ex_s3) /\
    fold_steps (exec_f 1 10) ex_B (Ok (s_set_cur ex_s3 4)) = Ok sB /\ globals_eq (hnorm sB) (hnorm ex_s3) /\
    s_harmony_time sA = 96 /\ s_harmony_time ex_s3 = 0 /\
    length (tr_events (nth 1 (s_tracks sA) dtrk)) = 4%nat /\ length (tr_events (nth 4 (s_tracks sB) dtrk)) = 2%nat.
Proof.
  split; [repeat constructor|]. split; [repeat constructor|]. split; [reflexivity|].
  eexists. eexists. split; [vm_compute; reflexivity|]. split; [vm_compute; reflexivity|].
  split; [vm_compute; reflexivity|]. split; vm_compute; repeat split; reflexivity.
Qed.

(* TR(1) ` TR(2): the pending octave-once is settled on track 1, track 2 is untouched *)
Example C12_example_track_token :
  exists s, fold_steps (exec_f 1 10) [TTrack 1; TOctaveOnce 1; TTrack 2] (Ok ex_s3) = Ok s /\
    map tr_octave (s_tracks s) = [5; 5; 5; 5; 5; 5] /\ s_octave_once s = 0 /\ s_cur s = 2%nat.
Proof. eexists. split; vm_compute; repeat split; reflexivity. Qed.

Example C12_example_indep :
  same_cur (s_set_cur ex_s3 1) (s_tracks (change_cur_track (s_set_cur ex_s3 1) 30)).
Proof. repeat split; vm_compute; reflexivity || lia. Qed.

(* ================================================================================================== *)
(* BLOCKS WITH LOOPS, Sub AND TUPLETS (proofs/TrackBlocksP.v), at the level of exec() itself.
     block_ok d steps A   (computable) the loop brackets of A are balanced (LoopExecP.parse_toks answers a structured program),
                          the state-free step bound of that program is below `steps`, every other token of A is track-local
                          (TrackIndepP.track_local) or a line-number token, or a Sub / tuplet token whose children are a
                          block again (block_ok (d-1)); no track switch, no TrackSync, no song-global command, no macro call
     pair_fuel_ok         the step bounds of the two blocks plus the two track tokens stay below `steps`
     gnorm                forgets the two DEAD registers: the start tick of the last chord while no chord is open (hnorm)
                          and the line number (read only by log entries, which no token of a block writes)
   exec() of such a block is a transformer with four properties (TrackBlocksP.localT): errors pass through, no track but the
   current one changes, the run is the same whatever the other tracks are, and states that differ only in the dead
   registers are not told apart.  The properties are closed under composition, loops (LoopSpec.passes) and the Sub / tuplet
   arms - C12_block_local - and give the commutation as for C12_commute_partial.
   Side conditions stated explicitly (the property says "and on song-global settings"): no octave-once pending and the
   break flag down at the start; each block, run on its own track, leaves the song-global registers as it found them up to
   the dead ones (globals_eq (gnorm ..)): this covers the chord registers, the octave-once register, the random seed (a block
   with .Random reservations that draws numbers changes the seed and is outside) and the key / tempo / time registers. *)
Theorem C12_block_local : forall (steps d : nat) (A : list tok), block_ok d steps A = true -> localT (exec_f d steps A).
Proof. exact block_local. Qed.

Theorem C12_commute_blocks : forall (d steps : nat) (A B : list tok) (s : song) (i j : nat) (sA sB : song),
  block_ok (S d) steps A = true -> block_ok (S d) steps B = true -> pair_fuel_ok steps A B = true -> i <> j ->
  (i < length (s_tracks s))%nat -> (j < length (s_tracks s))%nat -> (i <= 999)%nat -> (j <= 999)%nat ->
  s_octave_once s = 0 -> s_break_flag s = 0 ->
  exec_f (S d) steps A (Ok (s_set_cur s i)) = Ok sA -> globals_eq (gnorm sA) (gnorm s) ->
  exec_f (S d) steps B (Ok (s_set_cur s j)) = Ok sB -> globals_eq (gnorm sB) (gnorm s) ->
  exists r1 r2,
    exec_f (S d) steps (TTrack (Z.of_nat i) :: A ++ TTrack (Z.of_nat j) :: B) (Ok s) = Ok r1 /\
    exec_f (S d) steps (TTrack (Z.of_nat j) :: B ++ TTrack (Z.of_nat i) :: A) (Ok s) = Ok r2 /\
    s_tracks r1 = s_tracks r2 /\ globals_eq (gnorm r1) (gnorm r2) /\ s_cur r1 = j /\ s_cur r2 = i /\
    s_tracks r1 = upd_nth j (fun _ => nth j (s_tracks sB) dtrk) (upd_nth i (fun _ => nth i (s_tracks sA) dtrk) (s_tracks s)).
Proof. exact blocks_commute_exec. Qed.

(* non-vacuity: A = [2 c Sub{e >} ] v90 (a loop around a Sub block), B = {c e}4 o6 [3 e : r8 ] (a tuplet, a loop with ':') on
   tracks 1 and 4 of a six-track song; the Sub block moves the line number (7), which gnorm forgets *)
Example C12_example_blocks :
  block_ok 2 100 xb_A = true /\ block_ok 2 100 xb_B = true /\ pair_fuel_ok 100 xb_A xb_B = true /\
  exists sA sB,
    exec_f 2 100 xb_A (Ok (s_set_cur xb_s 1)) = Ok sA /\ globals_eq (gnorm sA) (gnorm xb_s) /\
    exec_f 2 100 xb_B (Ok (s_set_cur xb_s 4)) = Ok sB /\ globals_eq (gnorm sB) (gnorm xb_s) /\
    s_lineno sA = 7 /\ s_lineno xb_s = 0 /\
    length (tr_events (nth 1 (s_tracks sA) dtrk)) = 4%nat /\ length (tr_events (nth 4 (s_tracks sB) dtrk)) = 5%nat.
Proof. exact blocks_example. Qed.

(* ================================================================================================== *)
(* WHAT STANDS BETWEEN TWO BLOCKS OF ONE TRACK - a switch to other tracks and back, or nothing - CHANGES NOTHING ON THAT
   TRACK (proofs/TrackSwitchP.v).
     with_tracks_upto s j   s with the tracks missing up to number j appended, each the default track of its own number
                            (C12_default_channel); s itself when track j exists
   One step: `TR(j) TR(i)` executed while track i is current and no octave-once mark is pending gives back the SAME song -
   every field of every existing track (events, open ties `tr_tie_notes`, reservations `tr_rsv`, time pointer, length,
   octave ...), every song-global register, the current-track index - except that the tracks up to j exist afterwards.
   With an octave-once mark pending the switch settles it (C12_settle_octave_once) and that is the ONLY other effect
   (C12_switch_and_back_pending). *)
Theorem C12_switch_and_back : forall (ec : list tok -> res song -> res song) (s : song) (j : nat),
  cur_ok s -> (s_cur s <= 999)%nat -> (j <= 999)%nat -> s_octave_once s = 0 ->
  let s' := with_tracks_upto s j in
  fold_steps ec [TTrack (Z.of_nat j); TTrack (Z.of_nat (s_cur s))] (Ok s) = Ok s' /\
  (forall d steps, s_break_flag s = 0 -> (2 < steps)%nat ->
     exec_f (S d) steps [TTrack (Z.of_nat j); TTrack (Z.of_nat (s_cur s))] (Ok s) = Ok s') /\
  s' = s_set_tracks s (s_tracks s ++ map (default_track (s_timebase s)) (seq (length (s_tracks s)) (S j - length (s_tracks s)))) /\
  s_cur s' = s_cur s /\ cur_track s' = cur_track s /\ s_set_tracks s' [] = s_set_tracks s [] /\
  (forall k, (k < length (s_tracks s))%nat -> nth k (s_tracks s') dtrk = nth k (s_tracks s) dtrk) /\
  length (s_tracks s') = Nat.max (length (s_tracks s)) (S j) /\
  (forall k, (length (s_tracks s) <= k < length (s_tracks s'))%nat ->
     nth k (s_tracks s') dtrk = track_new (s_timebase s) (Z.of_nat k - 1)) /\
  ((j < length (s_tracks s))%nat -> s' = s).
Proof. exact switch_and_back_law. Qed.

Theorem C12_switch_and_back_pending : forall (ec : list tok -> res song -> res song) (s : song) (j : nat),
  cur_ok s -> (s_cur s <= 999)%nat -> (j <= 999)%nat ->
  fold_steps ec [TTrack (Z.of_nat j); TTrack (Z.of_nat (s_cur s))] (Ok s) = Ok (with_tracks_upto (settle_octave_once s) j).
Proof. exact switch_and_back_gen. Qed.

(* Programs, blocks as for C12_commute_blocks (loops, Sub, tuplets; triple_fuel_ok: the step bounds of the three blocks plus
   the three track tokens stay below `steps`): "TR(i) A TR(j) B TR(i) C" and "TR(i) A C TR(j) B" build the same tracks and the
   same global registers (up to the dead ones); track i is what `A C` alone makes of it (third conjunct), track j what B
   alone makes of it.  Whatever A left open on track i - a tie (`c&`), reservations, a chord-free state of any kind - C finds it.
   Side conditions: A leaves NO OCTAVE-ONCE MARK pending (s_octave_once sA = 0; C12_group_needs_no_pending_once shows why);
   C and B, run from the state A left, leave the song-global registers as they found them up to the dead ones (as in
   C12_commute_blocks; A itself may change them).  Tracks i and j exist (tracks are created by the first TR that names a
   higher number, C12_default_channel_any_order: the order of creation does not matter). *)
Theorem C12_group_blocks : forall (d steps : nat) (A B C : list tok) (s : song) (i j : nat) (sA sB sC : song),
  block_ok (S d) steps A = true -> block_ok (S d) steps B = true -> block_ok (S d) steps C = true ->
  triple_fuel_ok steps A B C = true -> i <> j ->
  (i < length (s_tracks s))%nat -> (j < length (s_tracks s))%nat -> (i <= 999)%nat -> (j <= 999)%nat ->
  s_octave_once s = 0 -> s_break_flag s = 0 ->
  exec_f (S d) steps A (Ok (s_set_cur s i)) = Ok sA -> s_octave_once sA = 0 ->
  exec_f (S d) steps C (Ok sA) = Ok sC -> globals_eq (gnorm sC) (gnorm sA) ->
  exec_f (S d) steps B (Ok (s_set_cur sA j)) = Ok sB -> globals_eq (gnorm sB) (gnorm sA) ->
  exists r1 r2,
    exec_f (S d) steps (TTrack (Z.of_nat i) :: A ++ TTrack (Z.of_nat j) :: B ++ TTrack (Z.of_nat i) :: C) (Ok s) = Ok r1 /\
    exec_f (S d) steps (TTrack (Z.of_nat i) :: (A ++ C) ++ TTrack (Z.of_nat j) :: B) (Ok s) = Ok r2 /\
    exec_f (S d) steps (A ++ C) (Ok (s_set_cur s i)) = Ok sC /\
    s_tracks r1 = s_tracks r2 /\ globals_eq (gnorm r1) (gnorm r2) /\ s_cur r1 = i /\ s_cur r2 = j /\
    s_tracks r1 = upd_nth j (fun _ => nth j (s_tracks sB) dtrk) (upd_nth i (fun _ => nth i (s_tracks sC) dtrk) (s_tracks s)).
Proof. exact group_blocks_exec. Qed.

(* an OPEN TIE across the gap: A = `c&` on track 1, B = `e` on track 2, C = `c d` on track 1.  After A the note waits in
   tr_tie_notes; both programs give ONE c of 182 ticks (96 + the gate 86 of the second c) followed by d, and the tie list is empty *)
Definition sw_n (b slur : Z) : tok := TNote b 0 0 [] 0 (-1) ISIZE_MIN (-1) slur.
Definition sw_A : list tok := [sw_n 0 1].
Definition sw_B : list tok := [sw_n 4 0].
Definition sw_C : list tok := [sw_n 0 0; sw_n 2 0].
Definition sw_s : song := change_cur_track song_new 5.
Definition sw_view (r : res song) : list (Z * list (Z * Z * Z) * Z) :=
  match r with
  | Ok s => map (fun t => (tr_timepos t, map (fun e => (e_time e, e_v1 e, e_v2 e)) (tr_events t), Z.of_nat (length (tr_tie_notes t)))) (s_tracks s)
  | _ => []
  end.
Example C12_example_open_tie :
  block_ok 2 100 sw_A = true /\ block_ok 2 100 sw_B = true /\ block_ok 2 100 sw_C = true /\ triple_fuel_ok 100 sw_A sw_B sw_C = true /\
  sw_view (exec_f 2 100 (TTrack 1 :: sw_A) (Ok sw_s)) = [(0, [], 0); (96, [], 1); (0, [], 0); (0, [], 0); (0, [], 0); (0, [], 0)] /\
  exec_f 2 100 (TTrack 1 :: sw_A ++ TTrack 2 :: sw_B ++ TTrack 1 :: sw_C) (Ok sw_s)
    = exec_f 2 100 (TTrack 2 :: sw_B ++ TTrack 1 :: sw_A ++ sw_C) (Ok sw_s) /\
  sw_view (exec_f 2 100 (TTrack 1 :: sw_A ++ TTrack 2 :: sw_B ++ TTrack 1 :: sw_C) (Ok sw_s))
    = [(0, [], 0); (288, [(0, 60, 182); (192, 62, 86)], 0); (96, [(0, 64, 86)], 0); (0, [], 0); (0, [], 0); (0, [], 0)] /\
  sw_view (exec_f 2 100 (TTrack 1 :: (sw_A ++ sw_C) ++ TTrack 2 :: sw_B) (Ok sw_s))
    = [(0, [], 0); (288, [(0, 60, 182); (192, 62, 86)], 0); (96, [(0, 64, 86)], 0); (0, [], 0); (0, [], 0); (0, [], 0)] /\
  exists sA sB sC,
    exec_f 2 100 sw_A (Ok (s_set_cur sw_s 1)) = Ok sA /\ s_octave_once sA = 0 /\ length (tr_tie_notes (cur_track sA)) = 1%nat /\
    exec_f 2 100 sw_C (Ok sA) = Ok sC /\ globals_eq (gnorm sC) (gnorm sA) /\
    exec_f 2 100 sw_B (Ok (s_set_cur sA 2)) = Ok sB /\ globals_eq (gnorm sB) (gnorm sA).
Proof.
  split; [vm_compute; reflexivity|]. split; [vm_compute; reflexivity|]. split; [vm_compute; reflexivity|].
  split; [vm_compute; reflexivity|]. split; [vm_compute; reflexivity|]. split; [vm_compute; reflexivity|].
  split; [vm_compute; reflexivity|]. split; [vm_compute; reflexivity|].
  eexists. eexists. eexists. split; [vm_compute; reflexivity|]. split; [vm_compute; reflexivity|].
  split; [vm_compute; reflexivity|]. split; [vm_compute; reflexivity|]. split; [vm_compute; reflexivity|].
  split; vm_compute; reflexivity.
Qed.

(* why A must not end with an octave-once mark: A = "c `" - the switch settles the mark, so the c of C sounds at 60 in
   "TR(1) c ` TR(2) e TR(1) c d" and at 72 in "TR(1) c ` c d TR(2) e" (the implementation agrees, tools/one_core.py) *)
Definition sw_A1 : list tok := [sw_n 0 0; TOctaveOnce 1].
Example C12_group_needs_no_pending_once :
  block_ok 2 100 sw_A1 = true /\ triple_fuel_ok 100 sw_A1 sw_B sw_C = true /\
  sw_view (exec_f 2 100 (TTrack 1 :: sw_A1 ++ TTrack 2 :: sw_B ++ TTrack 1 :: sw_C) (Ok sw_s))
    = [(0, [], 0); (288, [(0, 60, 86); (96, 60, 86); (192, 62, 86)], 0); (96, [(0, 64, 86)], 0); (0, [], 0); (0, [], 0); (0, [], 0)] /\
  sw_view (exec_f 2 100 (TTrack 1 :: (sw_A1 ++ sw_C) ++ TTrack 2 :: sw_B) (Ok sw_s))
    = [(0, [], 0); (288, [(0, 60, 86); (96, 72, 86); (192, 62, 86)], 0); (96, [(0, 64, 86)], 0); (0, [], 0); (0, [], 0); (0, [], 0)] /\
  exists sA, exec_f 2 100 sw_A1 (Ok (s_set_cur sw_s 1)) = Ok sA /\ s_octave_once sA = 1.
Proof.
  split; [vm_compute; reflexivity|]. split; [vm_compute; reflexivity|]. split; [vm_compute; reflexivity|].
  split; [vm_compute; reflexivity|]. eexists. split; vm_compute; reflexivity.
Qed.

(* a switch to a track that does not exist yet, and back: tracks 1..3 are created on their default channels, track 0 and
   the globals are untouched; with a mark pending only the octave of track 0 is taken back *)
Example C12_example_switch_and_back :
  fold_steps (exec_f 1 10) [TTrack 3; TTrack 0] (Ok song_new) = Ok (with_tracks_upto song_new 3) /\
  map tr_channel (s_tracks (with_tracks_upto song_new 3)) = [0; 0; 1; 2] /\ with_tracks_upto sw_s 3 = sw_s /\
  exists s1, fold_steps (exec_f 1 10) [sw_n 0 1; TOctaveOnce 1] (Ok song_new) = Ok s1 /\ s_octave_once s1 = 1 /\
    fold_steps (exec_f 1 10) [TTrack 3; TTrack 0] (Ok s1) = Ok (with_tracks_upto (s_set_octave_once (upd_cur s1 (fun t => tr_set_octave t 5)) 0) 3) /\
    tr_octave (cur_track s1) = 6 /\ length (tr_tie_notes (cur_track s1)) = 1%nat.
Proof.
  split; [vm_compute; reflexivity|]. split; [vm_compute; reflexivity|]. split; [vm_compute; reflexivity|].
  eexists. split; [vm_compute; reflexivity|]. split; [vm_compute; reflexivity|]. split; [vm_compute; reflexivity|].
  split; vm_compute; reflexivity.
Qed.

(* ================================================================================================== *)
(* ANY NUMBER OF BLOCKS (proofs/TrackSwitchP.v).
     tprog                 a program: a list of (track number, block)
     render P              its tokens: TR(t1) b1 TR(t2) b2 ...
     blocks_of t P         the blocks addressed to track t, in their order
     grouped P             all blocks of a track concatenated under ONE track command, tracks in the order of their first
                           appearance - the `grouped` rendering of tools/props/c12.py
     prog_wf d steps n P   the tracks of P are below n (they exist) and below 1000, every block is a block (block_ok), the
                           state-free step bound of the whole text is below `steps`; prog_wf_b computes it
     nrun d steps bs s0 sf the blocks bs run one after the other from s0 to sf, each leaving the song-global registers as
                           it found them up to the dead ones (the side condition of C12_commute_blocks, for every block;
                           in particular no block leaves an octave-once mark pending)
   C12_program_tracks: EVERY TRACK IS WHAT ITS OWN BLOCKS ALONE MAKE OF IT - `alone t` is the run of the blocks of track t,
   with nothing in between, from the start state with t current; the run of the whole program gives track t of `alone t`, for
   every t, whatever stands between two blocks of t.  Hence every rendering with the same blocks per track builds the same
   tracks: any interleaving that keeps the order of the blocks of each track (C12_permute_program: the n-block form of
   C12_commute_blocks), and all blocks of a track under one track command (C12_group_program). *)
Theorem C12_program_tracks : forall (d steps : nat) (P : tprog) (s : song) (alone : nat -> song),
  prog_wf (S d) steps (length (s_tracks s)) P -> s_octave_once s = 0 -> s_break_flag s = 0 ->
  (forall t, (t < length (s_tracks s))%nat -> nrun (S d) steps (blocks_of t P) (s_set_cur s t) (alone t)) ->
  exists r, exec_f (S d) steps (render P) (Ok s) = Ok r /\
    length (s_tracks r) = length (s_tracks s) /\ globals_eq (gnorm r) (gnorm s) /\
    s_cur r = last (map fst P) (s_cur s) /\
    (forall t, (t < length (s_tracks s))%nat -> nth t (s_tracks r) dtrk = nth t (s_tracks (alone t)) dtrk).
Proof. exact program_tracks. Qed.

Theorem C12_permute_program : forall (d steps : nat) (P Q : tprog) (s : song) (alone : nat -> song),
  prog_wf (S d) steps (length (s_tracks s)) P -> prog_wf (S d) steps (length (s_tracks s)) Q ->
  (forall t, blocks_of t Q = blocks_of t P) ->
  s_octave_once s = 0 -> s_break_flag s = 0 ->
  (forall t, (t < length (s_tracks s))%nat -> nrun (S d) steps (blocks_of t P) (s_set_cur s t) (alone t)) ->
  exists r1 r2, exec_f (S d) steps (render P) (Ok s) = Ok r1 /\ exec_f (S d) steps (render Q) (Ok s) = Ok r2 /\
    s_tracks r1 = s_tracks r2 /\ globals_eq (gnorm r1) (gnorm r2) /\
    length (s_tracks r1) = length (s_tracks s) /\
    (forall t, (t < length (s_tracks s))%nat -> nth t (s_tracks r1) dtrk = nth t (s_tracks (alone t)) dtrk).
Proof. exact program_permute. Qed.

Theorem C12_group_program : forall (d steps : nat) (P : tprog) (s : song) (alone : nat -> song),
  prog_wf (S d) steps (length (s_tracks s)) P -> prog_wf (S d) steps (length (s_tracks s)) (grouped P) ->
  s_octave_once s = 0 -> s_break_flag s = 0 ->
  (forall t, (t < length (s_tracks s))%nat -> nrun (S d) steps (blocks_of t P) (s_set_cur s t) (alone t)) ->
  exists r1 r2, exec_f (S d) steps (render P) (Ok s) = Ok r1 /\ exec_f (S d) steps (render (grouped P)) (Ok s) = Ok r2 /\
    s_tracks r1 = s_tracks r2 /\ globals_eq (gnorm r1) (gnorm r2) /\
    length (s_tracks r1) = length (s_tracks s) /\
    (forall t, (t < length (s_tracks s))%nat -> nth t (s_tracks r1) dtrk = nth t (s_tracks (alone t)) dtrk).
Proof. exact program_grouped. Qed.

Theorem C12_prog_wf_computed : forall (d steps n : nat) (P : tprog), prog_wf_b d steps n P = true -> prog_wf d steps n P.
Proof. exact prog_wf_b_ok. Qed.

(* non-vacuity: six blocks on tracks 1, 2, 4 of a six-track song; track 1 gets `c&` | `c d&` | `d Sub{a}` - a tie left open
   at the end of its first AND of its second block, completed in the next one; track 4 a loop *)
Definition sw_P : tprog :=
  [(1%nat, [sw_n 0 1]); (2%nat, [sw_n 4 0; TOctave 6]); (1%nat, [sw_n 0 0; sw_n 2 1]);
   (4%nat, [TLoopBegin 2; sw_n 5 0; TLoopEnd]); (2%nat, [sw_n 7 0]); (1%nat, [sw_n 2 0; TSub [sw_n 9 0]])].
Definition sw_alone (t : nat) : song :=
  match run_blocks 2 100 (blocks_of t sw_P) (Ok (s_set_cur sw_s t)) with Ok x => x | _ => sw_s end.
Example C12_example_program :
  prog_wf_b 2 100 6 sw_P = true /\ prog_wf_b 2 100 6 (grouped sw_P) = true /\ s_octave_once sw_s = 0 /\ s_break_flag sw_s = 0 /\
  length (s_tracks sw_s) = 6%nat /\
  (forall t, (t < 6)%nat -> nrun 2 100 (blocks_of t sw_P) (s_set_cur sw_s t) (sw_alone t)) /\
  map fst (grouped sw_P) = [1; 2; 4]%nat /\ map (fun tb => length (snd tb)) (grouped sw_P) = [5; 3; 3]%nat /\
  sw_view (exec_f 2 100 (render sw_P) (Ok sw_s))
    = [(0, [], 0); (384, [(0, 60, 182); (192, 62, 182); (384, 69, 86)], 0); (192, [(0, 64, 86); (96, 79, 86)], 0);
       (0, [], 0); (192, [(0, 65, 86); (96, 65, 86)], 0); (0, [], 0)] /\
  sw_view (exec_f 2 100 (render (grouped sw_P)) (Ok sw_s)) = sw_view (exec_f 2 100 (render sw_P) (Ok sw_s)).
Proof.
  split; [vm_compute; reflexivity|]. split; [vm_compute; reflexivity|]. split; [reflexivity|]. split; [reflexivity|].
  split; [reflexivity|]. split.
  { intros t Ht. destruct t as [|[|[|[|[|[|t]]]]]]; try lia; vm_compute;
      repeat (first [apply nrun_nil | eapply nrun_cons; [vm_compute; reflexivity|vm_compute; reflexivity|]]). }
  split; [vm_compute; reflexivity|]. split; [vm_compute; reflexivity|]. split; vm_compute; reflexivity.
Qed.

(* ================================================================================================== *)
(* TRACKS THAT DO NOT EXIST YET.  The theorems above speak about existing tracks.  A track command creates the missing tracks
   up to its number, each the default track of its own number, whatever the order of first use: running a program whose track
   numbers are at most m (prog_upto) from s, or from s with the tracks up to m created beforehand, gives the same result up to
   those tracks (C12_precreate; errors are the same errors) - and the very same song when the program names track m
   (C12_create_named).  So the order in which tracks are created does not matter, and C12_group_program holds from a song
   that lacks the tracks (C12_group_program_create: `alone t` is then the run of the blocks of t from the song with the
   tracks created; m = the highest track number of the program). *)
Theorem C12_precreate : forall (d steps m : nat) (P : tprog) (s : song), prog_upto (S d) steps m P -> cur_ok s ->
  exec_f (S d) steps (render P) (Ok (with_tracks_upto s m)) = wtu_res m (exec_f (S d) steps (render P) (Ok s)).
Proof. exact program_precreate. Qed.

Theorem C12_create_named : forall (d steps m : nat) (P : tprog) (s r : song),
  prog_upto (S d) steps m P -> cur_ok s -> s_break_flag s = 0 -> In m (map fst P) ->
  exec_f (S d) steps (render P) (Ok (with_tracks_upto s m)) = Ok r -> exec_f (S d) steps (render P) (Ok s) = Ok r.
Proof. exact program_create_named. Qed.

Theorem C12_group_program_create : forall (d steps : nat) (P : tprog) (s : song) (m : nat) (alone : nat -> song),
  let s1 := with_tracks_upto s m in
  cur_ok s -> (length (s_tracks s) <= S m)%nat -> In m (map fst P) ->
  prog_wf (S d) steps (S m) P -> prog_wf (S d) steps (S m) (grouped P) ->
  s_octave_once s = 0 -> s_break_flag s = 0 ->
  (forall t, (t <= m)%nat -> nrun (S d) steps (blocks_of t P) (s_set_cur s1 t) (alone t)) ->
  exists r1 r2, exec_f (S d) steps (render P) (Ok s) = Ok r1 /\ exec_f (S d) steps (render (grouped P)) (Ok s) = Ok r2 /\
    s_tracks r1 = s_tracks r2 /\ globals_eq (gnorm r1) (gnorm r2) /\
    length (s_tracks r1) = S m /\
    (forall t, (t <= m)%nat -> nth t (s_tracks r1) dtrk = nth t (s_tracks (alone t)) dtrk).
Proof. exact program_grouped_create. Qed.

(* non-vacuity: the program of C12_example_program from Song::new() (only track 0 exists), m = 4:
   "TR(1) c& TR(2) e o6 TR(1) c d& TR(4) [2 f] TR(2) g TR(1) d Sub{a}" and "TR(1) c& c d& d Sub{a} TR(2) e o6 g TR(4) [2 f]"
   (the implementation gives the same bytes for both, tools/one_core.py) *)
Definition sw_alone0 (t : nat) : song :=
  match run_blocks 2 100 (blocks_of t sw_P) (Ok (s_set_cur (with_tracks_upto song_new 4) t)) with Ok x => x | _ => song_new end.
Example C12_example_program_create :
  cur_ok song_new /\ length (s_tracks song_new) = 1%nat /\ In 4%nat (map fst sw_P) /\
  prog_wf_b 2 100 5 sw_P = true /\ prog_wf_b 2 100 5 (grouped sw_P) = true /\
  (forall t, (t <= 4)%nat -> nrun 2 100 (blocks_of t sw_P) (s_set_cur (with_tracks_upto song_new 4) t) (sw_alone0 t)) /\
  sw_view (exec_f 2 100 (render sw_P) (Ok song_new))
    = [(0, [], 0); (384, [(0, 60, 182); (192, 62, 182); (384, 69, 86)], 0); (192, [(0, 64, 86); (96, 79, 86)], 0);
       (0, [], 0); (192, [(0, 65, 86); (96, 65, 86)], 0)] /\
  exec_f 2 100 (render (grouped sw_P)) (Ok song_new) = exec_f 2 100 (render [(1%nat, concat (blocks_of 1 sw_P)); (2%nat, concat (blocks_of 2 sw_P)); (4%nat, concat (blocks_of 4 sw_P))]) (Ok song_new) /\
  sw_view (exec_f 2 100 (render (grouped sw_P)) (Ok song_new)) = sw_view (exec_f 2 100 (render sw_P) (Ok song_new)).
Proof.
  split; [vm_compute; lia|]. split; [reflexivity|]. split; [vm_compute; tauto|].
  split; [vm_compute; reflexivity|]. split; [vm_compute; reflexivity|]. split.
  { intros t Ht. destruct t as [|[|[|[|[|t]]]]]; try lia; vm_compute;
      repeat (first [apply nrun_nil | eapply nrun_cons; [vm_compute; reflexivity|vm_compute; reflexivity|]]). }
  split; [vm_compute; reflexivity|]. split; vm_compute; reflexivity.
Qed.

Print Assumptions C12_default_channel.
Print Assumptions C12_settle_octave_once.
Print Assumptions C12_default_channel_any_order.
Print Assumptions C12_track_token.
Print Assumptions C12_track_token_plain.
Print Assumptions C12_sync.
Print Assumptions C12_frame.
Print Assumptions C12_frame_indep.
Print Assumptions C12_block_frame.
Print Assumptions C12_block_indep.
Print Assumptions C12_harmony_time_dead.
Print Assumptions C12_commute_partial.
Print Assumptions C12_block_local.
Print Assumptions C12_commute_blocks.
Print Assumptions C12_switch_and_back.
Print Assumptions C12_switch_and_back_pending.
Print Assumptions C12_group_blocks.
Print Assumptions C12_program_tracks.
Print Assumptions C12_permute_program.
Print Assumptions C12_group_program.
Print Assumptions C12_prog_wf_computed.
Print Assumptions C12_precreate.
Print Assumptions C12_create_named.
Print Assumptions C12_group_program_create.
