(* C14 - TIME, MeasureShift, rests and PlayFrom put events at the documented ticks.
   Statements only; every proof is `exact <lemma>` (proofs/TimeP.v, proofs/PlayFromP.v).

   The model: RunCore.exec_get_time / exec_time_signature / step_song are the arms of runner.rs exec();
   Compile.play_from is song.rs Track::play_from; Writer.normalize_and_sort is what midi.rs generate() writes.
   Vocabulary (TimeP.v):
     time_of shift num beat m b t = ((m - 1 + shift) * num + (b - 1)) * beat + t        beat_of tb den = (tb * 4) quot den
     cur_valid s     the current track exists (interpreter invariant)
     calm s          cur_valid, no tie pending, no chord open, no chord notes collected
     shiftable t     the fragment of the translation law: every token EXCEPT TIME, PlayFrom, `?`, TrackSync, track
                     changes, macro calls and slurred lettered notes; Sub and tuplet blocks of such tokens; loops
     shift_ev L e    e with time + L;   shift_song L s = the current track's pointer + L (nothing else)
     shifted L n s s'   s' is s moved by L: see C14_shifted_means
     exec_with ec fuel toks = exec() with `ec` running the children of blocks (exec_f (S d) k = exec_with (exec_f d k) k)
   Vocabulary (ShiftRsvP.v, the law with reservations):
     rshift d n st k   the track record of model/Reserve.v moved by d: pointer + d, the events beyond the first n with
                       time + d, v_on_time_start = st, every other field as in k (C14_rshift_means);
     rstart_ok d st k  st = v_on_time_start k + d whenever a v.onTime ramp is pending (the field is dead otherwise: the code
                       leaves -1 there when the ramp is over);   shift_rtrack d k = rshift d 0 (v_on_time_start k + d) k
     shiftable_r t     shiftable, or one of the reservation commands (x.Random, x.onNote / x.onCycle, v.onTime, controller
                       .onTime / .onNote / .onNoteWave / .Frequency, PB.onTime / p.onTime, Cresc / Decresc); blocks of such
                       (every token of `shiftable` - text metas, Port, TempoChange, SysEx ... included: C14_shift_r_extends)
     shifted_r L n s s'   `shifted` without "nothing is reserved on the track": see C14_shifted_r_means
     calm_r s          calm, but any reservation may be pending EXCEPT a v.onTime ramp
   Vocabulary (PlayFromP.v): retime tp e = e with time - tp; kept tp e = (NoteOn|Voice|CC|Meta|SysEx) at or after tp;
     chan_of e = the channel of e as the writer sends it (0..15; the channel field itself when that is 0..15: C14_playfrom_channel);
     latest_cc_ev tp ch no evs / latest_voice_ev tp ch evs = the LAST controller-`no` / program event ON CHANNEL ch of the
     list before tp (C14_latest_cc_means); compile() applies play_from to the time-sorted list, where that is the latest
     in time (C14_playfrom_latest_in_time); pf_early / pf_restored / pf_kept = the three segments of the result;
     pf_restored = pf_restored_cc ++ pf_restored_voice, both PER CHANNEL (a track may use several channels). *)
From Sakura.Model Require Import Base Cursor Length Event Writer Song Token LoopMachine LexCore RunCore Tie Compile.
From Sakura.Proofs Require Import SortP TimeP PlayFromP ShiftRsvP.
From Sakura.Model Require Reserve RunRsv.
From Coq Require Import Sorted.
Open Scope Z_scope.

(* ================================================================================================ *)
(* TIME(m:b:t), TIME(n)                                                                              *)

(* the value of the argument list: the documented formula, with the state's measure shift, numerator and beat *)
Theorem C14_time_formula : forall (s : song) (m b t : Z) (rest cmd : list Z),
  exec_get_time s (m :: b :: t :: rest) cmd
  = (((m - 1 + s_measure_shift s) * s_timesig_frac s + (b - 1)) * Z.quot (s_timebase s * 4) (s_timesig_deno s) + t, s).
Proof. exact get_time_three. Qed.

Theorem C14_time_ticks : forall (s : song) (n : Z) (cmd : list Z), exec_get_time s [n] cmd = (n, s).
Proof. exact get_time_one. Qed.

(* the code truncates: the beat IS 4*timebase/denominator exactly when the denominator divides 4*timebase *)
Theorem C14_beat_exact : forall tb den : Z, den <> 0 -> (Z.quot (tb * 4) den * den = 4 * tb <-> (den | 4 * tb)).
Proof. exact beat_exact. Qed.

Theorem C14_beat_is_division : forall tb den : Z, 0 <= tb -> 0 < den -> Z.quot (tb * 4) den = (4 * tb) / den.
Proof. exact beat_nonneg_div. Qed.

(* the four denominators: always exact for 2 and 4; for 8 (16) when the time base is even (a multiple of 4) *)
Theorem C14_beat_denominators : forall tb : Z,
  Z.quot (tb * 4) 2 = 2 * tb /\ Z.quot (tb * 4) 4 = tb /\
  ((2 | tb) -> 2 * Z.quot (tb * 4) 8 = tb) /\ ((4 | tb) -> 4 * Z.quot (tb * 4) 16 = tb).
Proof. intros tb. exact (conj (beat_den_2 tb) (conj (beat_den_4 tb) (conj (beat_den_8 tb) (beat_den_16 tb)))). Qed.

(* the TIME arm sets the current track's pointer to that value ... *)
Theorem C14_time_arm : forall (ec : list tok -> res song -> res song) (s : song) (m b t n : Z),
  step_song ec (TTime [m; b; t]) s
  = Ok (upd_cur s (fun trk => tr_set_timepos trk
         (((m - 1 + s_measure_shift s) * s_timesig_frac s + (b - 1)) * Z.quot (s_timebase s * 4) (s_timesig_deno s) + t))) /\
  step_song ec (TTime [n]) s = Ok (upd_cur s (fun trk => tr_set_timepos trk n)).
Proof. intros ec s m b t n. exact (conj (time_arm_three ec s m b t []) (time_arm_one ec s n)). Qed.

(* ... and changes nothing else: that one field of that one track *)
Theorem C14_time_arm_frame : forall (s : song) (v : Z), cur_valid s ->
  let s' := upd_cur s (fun trk => tr_set_timepos trk v) in
  tr_timepos (cur_track s') = v /\
  cur_track s' = tr_set_timepos (cur_track s) v /\
  s_set_tracks s' [] = s_set_tracks s [] /\
  length (s_tracks s') = length (s_tracks s) /\
  (forall i, i <> s_cur s -> nth i (s_tracks s') (track_new 0 0) = nth i (s_tracks s) (track_new 0 0)).
Proof. exact set_pointer_frame. Qed.

(* PlayFrom(m:b:t), PlayFrom(n) and `?` only record the point (the same formula / the current pointer) *)
Theorem C14_playfrom_arms : forall (ec : list tok -> res song -> res song) (s : song) (m b t n : Z),
  step_song ec (TPlayFrom [m; b; t]) s
  = Ok (s_set_play_from s (((m - 1 + s_measure_shift s) * s_timesig_frac s + (b - 1)) * Z.quot (s_timebase s * 4) (s_timesig_deno s) + t)) /\
  step_song ec (TPlayFrom [n]) s = Ok (s_set_play_from s n) /\
  step_song ec TPlayFromHere s = Ok (s_set_play_from s (tr_timepos (cur_track s))).
Proof.
  intros ec s m b t n.
  exact (conj (playfrom_arm_three ec s m b t []) (conj (playfrom_arm_one ec s n) (playfrom_here_arm ec s))).
Qed.

Theorem C14_measure_shift_arm : forall (ec : list tok -> res song -> res song) (s : song) (k : Z),
  step_song ec (TMeasureShift k) s = Ok (s_set_measure_shift s k).
Proof. exact measure_shift_arm. Qed.

(* ================================================================================================ *)
(* TimeSignature(n, d)                                                                               *)

Theorem C14_timesig_state : forall (ec : list tok -> res song -> res song) (s : song) (n d : Z) (rest : list Z),
  d = 2 \/ d = 4 \/ d = 8 \/ d = 16 -> cur_valid s ->
  exists s', step_song ec (TTimeSignature (n :: d :: rest)) s = Ok s' /\
    s_timesig_frac s' = value_range 2 n 64 /\ 2 <= s_timesig_frac s' <= 64 /\
    s_timesig_deno s' = d /\
    tr_events (cur_track s') = tr_events (cur_track s)
        ++ [ev_meta (tr_timepos (cur_track s)) 255 88 4 [value_range 2 n 64; Z.log2 d; 24; 8]] /\
    tr_timepos (cur_track s') = tr_timepos (cur_track s) /\
    s_measure_shift s' = s_measure_shift s /\ s_timebase s' = s_timebase s /\ s_tempo s' = s_tempo s /\
    s_logs s' = s_logs s /\ s_cur s' = s_cur s /\ cur_valid s' /\
    (forall i, i <> s_cur s -> nth i (s_tracks s') (track_new 0 0) = nth i (s_tracks s) (track_new 0 0)).
Proof. exact timesig_arm. Qed.

(* any other denominator is replaced by 4 (and an error is logged) *)
Theorem C14_timesig_other_deno : forall (s : song) (n d : Z) (rest : list Z),
  ~ (let d' := value_range 2 d 64 in d' = 2 \/ d' = 4 \/ d' = 8 \/ d' = 16) ->
  s_timesig_deno (exec_time_signature s (n :: d :: rest)) = 4 /\
  s_timesig_frac (exec_time_signature s (n :: d :: rest)) = value_range 2 n 64.
Proof. exact timesig_bad_deno. Qed.

(* TimeSignature(n,d) MeasureShift(k) TIME(m:b:t): where the next note starts *)
Theorem C14_time_after_signature : forall (ec : list tok -> res song -> res song) (s : song) (n d k m b t : Z),
  d = 2 \/ d = 4 \/ d = 8 \/ d = 16 -> cur_valid s ->
  exists s', run_toks ec [TTimeSignature [n; d]; TMeasureShift k; TTime [m; b; t]] (Ok s) = Ok s' /\
    tr_timepos (cur_track s') = ((m - 1 + k) * value_range 2 n 64 + (b - 1)) * Z.quot (s_timebase s * 4) d + t /\
    s_timesig_frac s' = value_range 2 n 64 /\ s_timesig_deno s' = d /\ s_measure_shift s' = k /\ s_cur s' = s_cur s.
Proof. exact time_after_signature. Qed.

(* ================================================================================================ *)
(* rests: the time-translation law                                                                   *)

(* a rest moves the pointer of the current track and does nothing else *)
Theorem C14_rest_is_shift : forall (ec : list tok -> res song -> res song) (s : song) (len : list Z),
  step_song ec (TRest 1 len) s = Ok (shift_song (calc_length len (s_timebase s) (tr_length (cur_track s))) s).
Proof. exact rest_is_shift. Qed.

(* what "s' is s moved by L, its first n events of the current track excepted" means, field by field: the pointer
   is L later; the first n events are the same and every later one is L later; every other field of the track,
   every other track and every global register is equal - except the start tick and the collected notes of a
   chord that is still open, which are L later too *)
Theorem C14_shifted_means : forall (L : Z) (n : nat) (s s' : song), shifted L n s s' ->
  tr_timepos (cur_track s') = tr_timepos (cur_track s) + L /\
  tr_events (cur_track s') = firstn n (tr_events (cur_track s)) ++ map (shift_ev L) (skipn n (tr_events (cur_track s))) /\
  tr_set_events (tr_set_timepos (cur_track s') 0) [] = tr_set_events (tr_set_timepos (cur_track s) 0) [] /\
  length (s_tracks s') = length (s_tracks s) /\
  (forall i, i <> s_cur s -> nth i (s_tracks s') (track_new 0 0) = nth i (s_tracks s) (track_new 0 0)) /\
  s_set_harmony_events (s_set_harmony_time (s_set_tracks s' []) 0) [] = s_set_harmony_events (s_set_harmony_time (s_set_tracks s []) 0) [] /\
  s_harmony_events s' = map (shift_ev L) (s_harmony_events s) /\
  (s_harmony_flag s = true -> s_harmony_time s' = s_harmony_time s + L).
Proof. exact shifted_unpack. Qed.

(* one token of the fragment, whatever executes the children of blocks as long as it respects the relation *)
Theorem C14_step_shift : forall (L : Z) (n : nat) (ec : list tok -> res song -> res song) (t : tok) (r r' : res song),
  respects L n ec -> shiftable t = true -> shifted_res L n r r' ->
  shifted_res L n (step_tok ec t r) (step_tok ec t r').
Proof. intros L n ec t r r' H. exact (step_tok_shift L n ec H t r r'). Qed.

(* exec() itself respects it at every nesting depth and loop fuel - loops, Sub and tuplet blocks included *)
Theorem C14_exec_respects : forall (L : Z) (n : nat) (steps d : nat) (X : list tok) (r r' : res song),
  forallb shiftable X = true -> shifted_res L n r r' -> shifted_res L n (exec_f d steps X r) (exec_f d steps X r').
Proof. intros L n steps d. exact (exec_f_shift L n steps d). Qed.

(* THE LAW: a program of the fragment started L ticks later does the same L ticks later (equal errors included) *)
Theorem C14_shift_law : forall (d steps : nat) (p : list tok) (s : song) (L : Z),
  forallb shiftable p = true -> calm s ->
  shifted_res L (length (tr_events (cur_track s)))
    (exec_f (S d) steps p (Ok s)) (exec_f (S d) steps p (Ok (shift_song L s))).
Proof.
  intros d steps p s L Hp Hs. rewrite !exec_f_with.
  exact (shift_law (exec_f d steps) steps p s L (exec_f_shift L _ steps d) Hp Hs).
Qed.

(* C14_rest_shift: exec (r<len> p) = shift L (exec p), L the length of the rest (the extra token costs one unit of
   loop fuel) *)
Theorem C14_rest_shift : forall (d steps fuel : nat) (p : list tok) (s : song) (len : list Z),
  let L := calc_length len (s_timebase s) (tr_length (cur_track s)) in
  forallb shiftable p = true -> calm s -> s_break_flag s = 0 ->
  shifted_res L (length (tr_events (cur_track s)))
    (exec_with (exec_f d steps) fuel p (Ok s))
    (exec_with (exec_f d steps) (S fuel) (TRest 1 len :: p) (Ok s)).
Proof.
  intros d steps fuel p s len L Hp Hs Hb.
  exact (rest_shift (exec_f d steps) fuel p s len (exec_f_shift L _ steps d) Hp Hs Hb).
Qed.

(* the same on a loop-free list executed arm by arm *)
Theorem C14_rest_shift_fold : forall (d steps : nat) (p : list tok) (s : song) (len : list Z),
  let L := calc_length len (s_timebase s) (tr_length (cur_track s)) in
  forallb shiftable p = true -> calm s ->
  shifted_res L (length (tr_events (cur_track s)))
    (run_toks (exec_f d steps) p (Ok s)) (run_toks (exec_f d steps) (TRest 1 len :: p) (Ok s)).
Proof.
  intros d steps p s len L Hp Hs.
  exact (rest_shift_fold (exec_f d steps) p s len (exec_f_shift L _ steps d) Hp Hs).
Qed.

(* ================================================================================================ *)
(* the time-translation law WITH reservations                                                        *)

(* (1) the Track methods of song.rs (model/Reserve.v) on the track moved by d.  d is ANY integer. *)

(* the moved track, field by field *)
Theorem C14_rshift_means : forall (d : Z) (n : nat) (st : Z) (k : Reserve.track),
  Reserve.tr_timepos (rshift d n st k) = Reserve.tr_timepos k + d /\
  Reserve.tr_events (rshift d n st k)
    = firstn n (Reserve.tr_events k) ++ map (shift_ev d) (skipn n (Reserve.tr_events k)) /\
  Reserve.tr_v_on_time_start (rshift d n st k) = st /\
  Reserve.set_v_on_time (Reserve.set_events (Reserve.set_timepos (rshift d n st k) 0) []) (Reserve.tr_v_on_time k) 0
    = Reserve.set_v_on_time (Reserve.set_events (Reserve.set_timepos k 0) []) (Reserve.tr_v_on_time k) 0.
Proof. intros d n st k. repeat split. Qed.

(* controller ramps (y.onTime, M.onTime, Fadein, Cresc, ...) and bend ramps (PB.onTime / p.onTime): the events appended
   are those of the unmoved track with time + d - same number, same order, same values (the value is a function of the
   offset j from the ramp's start and the thinning is `j % freq`, not the absolute tick) *)
Theorem C14_rsv_cc_ramp_shift : forall (d : Z) (n : nat) (st : Z) (k : Reserve.track) (cc : Z) (ia : list Z),
  (n <= length (Reserve.tr_events k))%nat ->
  Reserve.write_cc_on_time (rshift d n st k) cc ia = rshift d n st (Reserve.write_cc_on_time k cc ia).
Proof. exact write_cc_on_time_shift. Qed.

Theorem C14_rsv_pb_ramp_shift : forall (d : Z) (n : nat) (st : Z) (k : Reserve.track) (big : Z) (ia : list Z) (tb : Z),
  (n <= length (Reserve.tr_events k))%nat ->
  Reserve.write_pb_on_time (rshift d n st k) big ia tb = rshift d n st (Reserve.write_pb_on_time k big ia tb).
Proof. exact write_pb_on_time_shift. Qed.

(* the same, spelled out on the events *)
Theorem C14_rsv_ramp_events : forall (d : Z) (k : Reserve.track) (cc : Z) (ia : list Z),
  exists E, Reserve.tr_events (Reserve.write_cc_on_time k cc ia) = Reserve.tr_events k ++ E /\
    Reserve.tr_events (Reserve.write_cc_on_time (shift_rtrack d k) cc ia)
    = map (shift_ev d) (Reserve.tr_events k) ++ map (shift_ev d) E.
Proof. exact write_cc_on_time_events. Qed.

(* v.onTime: calc_v_on_time reads pointer - start, so the value is the same; the track afterwards is the moved one
   (when the ramp is over the start tick is -1 on both sides, and dead) *)
Theorem C14_rsv_v_on_time_shift : forall (d : Z) (n : nat) (st : Z) (k : Reserve.track) (def : Z), rstart_ok d st k ->
  exists st', Reserve.calc_v_on_time (rshift d n st k) def
              = (fst (Reserve.calc_v_on_time k def), rshift d n st' (snd (Reserve.calc_v_on_time k def))) /\
              rstart_ok d st' (snd (Reserve.calc_v_on_time k def)).
Proof. exact calc_v_on_time_shift. Qed.

(* v / q / t / o / l .onNote and .onCycle: no time involved *)
Theorem C14_rsv_on_note_shift : forall (w : Reserve.which) (d : Z) (n : nat) (st : Z) (k : Reserve.track) (def : Z),
  Reserve.calc_on_note w (rshift d n st k) def
  = (fst (Reserve.calc_on_note w k def), rshift d n st (snd (Reserve.calc_on_note w k def))).
Proof. exact calc_on_note_shift. Qed.

(* the six calls of one note, in the order of exec_note: the same five values *)
Theorem C14_rsv_note_values_shift : forall (d : Z) (n : nat) (st : Z) (k : Reserve.track) (v tm q : Z), rstart_ok d st k ->
  exists st', RunRsv.rsv_on_note (rshift d n st k) v tm q
              = (fst (RunRsv.rsv_on_note k v tm q), rshift d n st' (snd (RunRsv.rsv_on_note k v tm q))) /\
              rstart_ok d st' (snd (RunRsv.rsv_on_note k v tm q)) /\
              Reserve.tr_events (snd (RunRsv.rsv_on_note k v tm q)) = Reserve.tr_events k.
Proof. exact rsv_on_note_shift. Qed.

(* controller .onNote (one event at the note's start) and .onNoteWave (a ramp from the note's start) *)
Theorem C14_rsv_cc_on_note_shift : forall (d : Z) (n : nat) (st : Z) (k : Reserve.track) (sp : Z),
  (n <= length (Reserve.tr_events k))%nat ->
  Reserve.write_cc_on_note (rshift d n st k) (sp + d) = rshift d n st (Reserve.write_cc_on_note k sp) /\
  Reserve.write_cc_on_note_wave (rshift d n st k) (sp + d) = rshift d n st (Reserve.write_cc_on_note_wave k sp).
Proof. intros d n st k sp H. exact (conj (write_cc_on_note_shift d n st k sp H) (write_cc_on_note_wave_shift d n st k sp H)). Qed.

(* setting / removing reservations and the frequency: nothing to move.  (x.Random: Song::calc_rand_value is a function
   of the seed, the value and the width - no track, no tick; the seed is a global register, equal in related states.) *)
Theorem C14_rsv_setters_shift : forall (d : Z) (n : nat) (st : Z) (k : Reserve.track) (no : Z) (ia : list Z) (f : Z),
  Reserve.remove_cc_on (rshift d n st k) no = rshift d n st (Reserve.remove_cc_on k no) /\
  Reserve.remove_cc_on_note_wave (rshift d n st k) no = rshift d n st (Reserve.remove_cc_on_note_wave k no) /\
  Reserve.set_cc_on_note (rshift d n st k) no ia = rshift d n st (Reserve.set_cc_on_note k no ia) /\
  Reserve.set_cc_on_note_wave (rshift d n st k) no ia = rshift d n st (Reserve.set_cc_on_note_wave k no ia) /\
  Reserve.set_freq (rshift d n st k) f = rshift d n st (Reserve.set_freq k f).
Proof. intros d n st k no ia f. repeat split. Qed.

(* (2) the interpreter.  What "s' is s moved by L" means when reservations may be pending: as C14_shifted_means, and the
   reservation state of the track is the same except that the start tick of a PENDING v.onTime ramp is L later; the
   random seed (a global register) is the same *)
Theorem C14_shifted_r_means : forall (L : Z) (n : nat) (s s' : song), shifted_r L n s s' ->
  tr_timepos (cur_track s') = tr_timepos (cur_track s) + L /\
  tr_events (cur_track s') = firstn n (tr_events (cur_track s)) ++ map (shift_ev L) (skipn n (tr_events (cur_track s))) /\
  (rv_v_on_time (tr_rsv (cur_track s)) <> None ->
   rv_v_on_time_start (tr_rsv (cur_track s')) = rv_v_on_time_start (tr_rsv (cur_track s)) + L) /\
  rsv_set_start (tr_rsv (cur_track s')) 0 = rsv_set_start (tr_rsv (cur_track s)) 0 /\
  tr_set_rsv (tr_set_events (tr_set_timepos (cur_track s') 0) []) rsv_new
    = tr_set_rsv (tr_set_events (tr_set_timepos (cur_track s) 0) []) rsv_new /\
  length (s_tracks s') = length (s_tracks s) /\
  (forall i, i <> s_cur s -> nth i (s_tracks s') (track_new 0 0) = nth i (s_tracks s) (track_new 0 0)) /\
  s_set_harmony_events (s_set_harmony_time (s_set_tracks s' []) 0) [] = s_set_harmony_events (s_set_harmony_time (s_set_tracks s []) 0) [] /\
  s_harmony_events s' = map (shift_ev L) (s_harmony_events s) /\
  (s_harmony_flag s = true -> s_harmony_time s' = s_harmony_time s + L).
Proof. exact shifted_r_unpack. Qed.

(* rsv_set_start r st = r with v_on_time_start := st *)
Theorem C14_rsv_set_start_means : forall (r : rsv) (st : Z),
  rsv_set_start r st = mkRsv st (rv_v_on_time r) (rv_v r) (rv_q r) (rv_t r) (rv_o r) (rv_l r) (rv_freq r) (rv_cc_on_note r)
                             (rv_cc_on_note_wave r) (rv_v_rand r) (rv_q_rand r) (rv_t_rand r) (rv_o_rand r).
Proof. reflexivity. Qed.

(* the extension is conservative: the relation, the fragment and the start condition of the law without reservations
   are special cases *)
Theorem C14_shift_r_extends :
  (forall (L : Z) (n : nat) (s s' : song), shifted L n s s' -> shifted_r L n s s') /\
  (forall t : tok, shiftable t = true -> shiftable_r t = true) /\
  (forall s : song, calm s -> calm_r s) /\
  (forall (w : Reserve.which) (z : Z) (b : bool) (ia len : list Z),
     shiftable_r (TRandom w z) = true /\ shiftable_r (TOnNote w b ia) = true /\ shiftable_r (TVOnTime ia) = true /\
     shiftable_r (TCCOnTime z ia) = true /\ shiftable_r (TCCOnNote z ia) = true /\ shiftable_r (TCCOnNoteWave z ia) = true /\
     shiftable_r (TCCFreq z) = true /\ shiftable_r (TPBOnTime z ia) = true /\ shiftable_r (TDecresc len z z) = true).
Proof.
  split; [exact shifted_is_shifted_r|]. split; [exact shiftable_is_shiftable_r|]. split; [exact calm_is_calm_r|].
  intros w z b ia len. repeat split.
Qed.

(* one token - every arm of the note language on a track WITH reservations, and every reservation arm *)
Theorem C14_step_shift_reservations : forall (L : Z) (n : nat) (ec : list tok -> res song -> res song) (t : tok) (r r' : res song),
  respects_r L n ec -> shiftable_r t = true -> shifted_r_res L n r r' ->
  shifted_r_res L n (step_tok ec t r) (step_tok ec t r').
Proof. intros L n ec t r r' H. exact (step_tok_shift_r L n ec H t r r'). Qed.

Theorem C14_exec_respects_reservations : forall (L : Z) (n : nat) (steps d : nat) (X : list tok) (r r' : res song),
  forallb shiftable_r X = true -> shifted_r_res L n r r' -> shifted_r_res L n (exec_f d steps X r) (exec_f d steps X r').
Proof. intros L n steps d. exact (exec_f_shift_r L n steps d). Qed.

(* THE LAW with reservations: from a state with no v.onTime ramp pending (anything else may be reserved), a program of
   the fragment started L ticks later does the same L ticks later: the same values, the same seed, equal errors *)
Theorem C14_shift_law_reservations : forall (d steps : nat) (p : list tok) (s : song) (L : Z),
  forallb shiftable_r p = true -> calm_r s ->
  shifted_r_res L (length (tr_events (cur_track s)))
    (exec_f (S d) steps p (Ok s)) (exec_f (S d) steps p (Ok (shift_song L s))).
Proof.
  intros d steps p s L Hp Hs. rewrite !exec_f_with.
  exact (shift_law_r (exec_f d steps) steps p s L (exec_f_shift_r L _ steps d) Hp Hs).
Qed.

Theorem C14_rest_shift_reservations : forall (d steps fuel : nat) (p : list tok) (s : song) (len : list Z),
  let L := calc_length len (s_timebase s) (tr_length (cur_track s)) in
  forallb shiftable_r p = true -> calm_r s -> s_break_flag s = 0 ->
  shifted_r_res L (length (tr_events (cur_track s)))
    (exec_with (exec_f d steps) fuel p (Ok s))
    (exec_with (exec_f d steps) (S fuel) (TRest 1 len :: p) (Ok s)).
Proof.
  intros d steps fuel p s len L Hp Hs Hb.
  exact (rest_shift_r (exec_f d steps) fuel p s len (exec_f_shift_r L _ steps d) Hp Hs Hb).
Qed.

Theorem C14_rest_shift_fold_reservations : forall (d steps : nat) (p : list tok) (s : song) (len : list Z),
  let L := calc_length len (s_timebase s) (tr_length (cur_track s)) in
  forallb shiftable_r p = true -> calm_r s ->
  shifted_r_res L (length (tr_events (cur_track s)))
    (run_toks (exec_f d steps) p (Ok s)) (run_toks (exec_f d steps) (TRest 1 len :: p) (Ok s)).
Proof.
  intros d steps p s len L Hp Hs.
  exact (rest_shift_fold_r (exec_f d steps) p s len (exec_f_shift_r L _ steps d) Hp Hs).
Qed.

(* ================================================================================================ *)
(* PlayFrom: Track::play_from on ARBITRARY event lists                                               *)

(* the result is three segments: Meta/SysEx from before the point at tick 0; the restored controllers (channel 0..15,
   within a channel in ascending number) and then the restored programs (channel 0..15); everything kept, re-timed, in
   the original order.  So (d, first half): in the list play_from returns every restored event stands before every kept
   one, a note at tick 0 included *)
Theorem C14_playfrom : forall (tp : Z) (evs : list event),
  play_from tp evs = pf_early tp evs ++ pf_restored tp evs ++ pf_kept tp evs.
Proof. exact play_from_decomposition. Qed.

(* (a) note-ons before the point are dropped, those at or after it are kept with time - tp, in order *)
Theorem C14_playfrom_notes : forall (tp : Z) (evs : list event),
  filter (is_type NoteOn) (play_from tp evs)
  = map (retime tp) (filter (fun e => is_type NoteOn e && (tp <=? e_time e)) evs).
Proof. exact play_from_notes. Qed.

(* (b) program, controller, meta and SysEx events at or after the point: kept with time - tp, in order *)
Theorem C14_playfrom_kept : forall (tp : Z) (evs : list event) (ty : etype),
  ty = NoteOn \/ ty = Voice \/ ty = ControllChange \/ ty = Meta \/ ty = SysEx ->
  filter (is_type ty) (pf_kept tp evs) = map (retime tp) (filter (fun e => is_type ty e && (tp <=? e_time e)) evs).
Proof.
  intros tp evs ty H. apply play_from_kept_kind.
  destruct H as [-> | [-> | [-> | [-> | ->]]]]; reflexivity.
Qed.

(* Meta / SysEx from before the point are not lost: they are issued at tick 0, first of all *)
Theorem C14_playfrom_early : forall (tp : Z) (evs : list event),
  pf_early tp evs = map at_zero (filter (fun e => (is_type Meta e || is_type SysEx e) && (e_time e <? tp)) evs).
Proof. exact play_from_early. Qed.

(* the channel the statements speak of is the channel byte the writer sends (the field clamped to 0..15); for the
   events the compiler produces - channel 0..15 - it is the channel field itself *)
Theorem C14_playfrom_channel : forall e : event,
  chan_of e = Z.min (Z.max (e_ch e) 0) 15 /\ midi_ch (e_ch e) = chan_of e /\ (0 <= e_ch e <= 15 -> chan_of e = e_ch e).
Proof. exact chan_of_writer. Qed.

(* (c) PER CHANNEL 0..15 and controller number 0..127: exactly one restoring event when that controller was written ON
   THAT CHANNEL before the point, none otherwise; at tick 0, on that channel, carrying the value of the LATEST such
   write as the writer sends it (0..127) *)
Theorem C14_playfrom_restored_cc : forall (tp : Z) (evs : list event) (ch no : Z), 0 <= ch < 16 -> 0 <= no < 128 ->
  filter (fun e => (e_ch e =? ch) && (e_v1 e =? no)) (pf_restored_cc tp evs)
  = match latest_cc_ev tp ch no evs with
    | Some e => [ev_cc 0 ch no (value_range 0 (e_v2 e) 127)]
    | None => []
    end.
Proof. exact restored_cc_unique. Qed.

(* ... and nothing else is in that segment: every restored controller event is a controller change at tick 0 on a channel
   0..15 for a number 0..127 that WAS written on that channel before the point (no event for a pair never set) *)
Theorem C14_playfrom_restored_cc_shape : forall (tp : Z) (evs : list event) (e : event), In e (pf_restored_cc tp evs) ->
  e_type e = ControllChange /\ e_time e = 0 /\ 0 <= e_ch e < 16 /\ 0 <= e_v1 e < 128 /\ 0 <= e_v2 e <= 127 /\
  exists e0, latest_cc_ev tp (e_ch e) (e_v1 e) evs = Some e0 /\ e_v2 e = value_range 0 (e_v2 e0) 127.
Proof. exact restored_cc_shape. Qed.

(* the programs, after all the controllers (so that a bank select precedes its program): PER CHANNEL the latest Voice
   before the point, on that channel; exactly one when the channel had a program change before the point (and its
   number is not negative), none otherwise *)
Theorem C14_playfrom_restored_voice : forall (tp : Z) (evs : list event),
  pf_restored tp evs = pf_restored_cc tp evs ++ pf_restored_voice tp evs /\
  forall ch : Z, 0 <= ch < 16 ->
    filter (fun e => e_ch e =? ch) (pf_restored_voice tp evs)
    = match latest_voice_ev tp ch evs with Some e => if e_v1 e >=? 0 then [ev_voice 0 ch (e_v1 e)] else [] | None => [] end.
Proof. intros tp evs. exact (conj eq_refl (restored_voice_unique tp evs)). Qed.

Theorem C14_playfrom_restored_voice_shape : forall (tp : Z) (evs : list event) (e : event), In e (pf_restored_voice tp evs) ->
  e_type e = Voice /\ e_time e = 0 /\ 0 <= e_ch e < 16 /\ 0 <= e_v1 e /\
  exists e0, latest_voice_ev tp (e_ch e) evs = Some e0 /\ e_v1 e = e_v1 e0.
Proof. exact restored_voice_shape. Qed.

(* "latest" on a list: the last such event of the list before the point - of that channel *)
Theorem C14_latest_cc_means : forall (tp ch no : Z) (evs : list event) (e : event),
  latest_cc_ev tp ch no evs = Some e <->
  exists l1 l2, evs = l1 ++ e :: l2 /\ e_type e = ControllChange /\ e_time e < tp /\ chan_of e = ch /\ e_v1 e = no /\
    Forall (fun x => ~ (e_type x = ControllChange /\ e_time x < tp /\ chan_of x = ch /\ e_v1 x = no)) l2.
Proof. exact latest_cc_some. Qed.

Theorem C14_latest_cc_none : forall (tp ch no : Z) (evs : list event),
  latest_cc_ev tp ch no evs = None <->
  Forall (fun x => ~ (e_type x = ControllChange /\ e_time x < tp /\ chan_of x = ch /\ e_v1 x = no)) evs.
Proof. exact latest_cc_none. Qed.

Theorem C14_latest_voice_means : forall (tp ch : Z) (evs : list event) (e : event),
  latest_voice_ev tp ch evs = Some e <->
  exists l1 l2, evs = l1 ++ e :: l2 /\ e_type e = Voice /\ e_time e < tp /\ chan_of e = ch /\
    Forall (fun x => ~ (e_type x = Voice /\ e_time x < tp /\ chan_of x = ch)) l2.
Proof. exact latest_voice_some. Qed.

Theorem C14_latest_voice_none : forall (tp ch : Z) (evs : list event),
  latest_voice_ev tp ch evs = None <-> Forall (fun x => ~ (e_type x = Voice /\ e_time x < tp /\ chan_of x = ch)) evs.
Proof. exact latest_voice_none. Qed.

(* compile() hands play_from the TIME-SORTED events of each track (after the pending ties are flushed) ... *)
Theorem C14_playfrom_applied : forall s : song,
  (0 <= s_play_from s ->
   tracks_for_writer s
   = map (fun t => play_from (s_play_from s) (events_sort (tr_events (check_tie_notes (s_timebase s) t)))) (s_tracks s)) /\
  (s_play_from s < 0 ->
   tracks_for_writer s = map (fun t => tr_events (check_tie_notes (s_timebase s) t)) (s_tracks s)).
Proof. intros s. exact (conj (tracks_for_writer_play_from s) (tracks_for_writer_off s)). Qed.

(* ... and there the last such event of the list is the LATEST IN TIME before the point (every other write of that
   controller on that channel before the point is not later), and among the writes of that very tick the one written
   last; a controller of a channel is left alone exactly when the track never wrote it on that channel before the point;
   the same for the program of a channel.  evs: the track's events in the order the commands were executed (Sub{} and
   TIME may have written them out of time order) *)
Theorem C14_playfrom_latest_in_time : forall (tp ch no : Z) (evs : list event),
  (forall e, latest_cc_ev tp ch no (events_sort evs) = Some e ->
     In e evs /\ e_type e = ControllChange /\ e_time e < tp /\ chan_of e = ch /\ e_v1 e = no /\
     Forall (fun x => e_type x = ControllChange -> chan_of x = ch -> e_v1 x = no -> e_time x < tp -> e_time x <= e_time e) evs /\
     exists a b, at_time (e_time e) evs = a ++ e :: b /\
       Forall (fun x => ~ (e_type x = ControllChange /\ chan_of x = ch /\ e_v1 x = no)) b) /\
  (latest_cc_ev tp ch no (events_sort evs) = None <->
     Forall (fun x => ~ (e_type x = ControllChange /\ e_time x < tp /\ chan_of x = ch /\ e_v1 x = no)) evs) /\
  (forall e, latest_voice_ev tp ch (events_sort evs) = Some e ->
     In e evs /\ e_type e = Voice /\ e_time e < tp /\ chan_of e = ch /\
     Forall (fun x => e_type x = Voice -> chan_of x = ch -> e_time x < tp -> e_time x <= e_time e) evs /\
     exists a b, at_time (e_time e) evs = a ++ e :: b /\ Forall (fun x => ~ (e_type x = Voice /\ chan_of x = ch)) b) /\
  (latest_voice_ev tp ch (events_sort evs) = None <->
     Forall (fun x => ~ (e_type x = Voice /\ e_time x < tp /\ chan_of x = ch)) evs).
Proof.
  intros tp ch no evs.
  exact (conj (latest_cc_in_time tp ch no evs) (conj (latest_cc_sorted_none tp ch no evs)
        (conj (latest_voice_in_time tp ch evs) (latest_voice_sorted_none tp ch evs)))).
Qed.

(* (d) after the writer's normalize + stable sort: at tick 0 the early events, the restored ones, then whatever the
   kept segment has at tick 0 ... *)
Theorem C14_playfrom_sorted_tick0 : forall (tp : Z) (evs : list event),
  at_time 0 (normalize_and_sort (play_from tp evs))
  = pf_early tp evs ++ pf_restored tp evs ++ at_time 0 (split_note_off (pf_kept tp evs)).
Proof. exact play_from_sorted_tick0. Qed.

(* ... so every note-on of the written list - one at tick 0 too - has the whole block of restored events before it
   (what may precede the block are note-offs with a negative time, i.e. of notes with a negative gate) *)
Theorem C14_playfrom_sorted_order : forall (tp : Z) (evs l1 : list event) (e : event) (l2 : list event),
  normalize_and_sort (play_from tp evs) = l1 ++ e :: l2 -> e_type e = NoteOn ->
  exists a b, l1 = a ++ (pf_early tp evs ++ pf_restored tp evs) ++ b /\ Forall (fun x => e_type x = NoteOff /\ e_time x < 0) a.
Proof. exact play_from_sorted_order. Qed.

(* (e) what the code does with the other kinds: NoteOff, PitchBend, PitchBendRange and DirectSMF events are dropped,
   before AND after the point (the property text speaks of notes, program, controller and meta events only) *)
Theorem C14_playfrom_drops : forall (tp : Z) (evs : list event) (ty : etype),
  ty = NoteOff \/ ty = PitchBend \/ ty = PitchBendRange \/ ty = DirectSMF ->
  filter (is_type ty) (play_from tp evs) = [].
Proof.
  intros tp evs ty H. apply play_from_drops. destruct H as [-> | [-> | [-> | ->]]]; reflexivity.
Qed.

(* ================================================================================================ *)
(* non-vacuity: the hypotheses are satisfiable and the conclusions say something, by evaluation      *)

Example C14_example_time :
  exec_get_time song_new [2; 3; 7] [] = (583, song_new) /\                      (* ((2-1+0)*4 + 2) * 96 + 7 *)
  (exists s', run_toks (fun _ r => r) [TTimeSignature [6; 8]; TMeasureShift 2; TTime [2; 3; 7]] (Ok song_new) = Ok s' /\
              tr_timepos (cur_track s') = 967 /\ cur_valid song_new) /\           (* ((2-1+2)*6 + 2) * 48 + 7 *)
  (8 | 4 * 96) /\ Z.quot (96 * 4) 8 = 48.
Proof.
  split; [reflexivity|]. split; [eexists; split; [vm_compute; reflexivity|split; [reflexivity|vm_compute; lia]]|].
  split; [exists 48; reflexivity|reflexivity].
Qed.

Example C14_example_timesig :
  cur_valid song_new /\
  exists s', step_song (fun _ r => r) (TTimeSignature [100; 16]) song_new = Ok s' /\
    s_timesig_frac s' = 64 /\ s_timesig_deno s' = 16 /\ tr_events (cur_track s') = [ev_meta 0 255 88 4 [64; 4; 24; 8]].
Proof. split; [vm_compute; lia|]. eexists. split; [vm_compute; reflexivity|]. repeat split. Qed.

Definition ex14_c := TNote 0 0 0 [] 0 (-1) ISIZE_MIN (-1) 0.
Definition ex14_e := TNote 4 0 0 [56] 0 (-1) ISIZE_MIN (-1) 0.
(* c [2 e8] Sub{c} {c e8}4 'c e8' @5 *)
Definition ex14_p := [ex14_c; TLoopBegin 2; ex14_e; TLoopEnd; TSub [ex14_c]; TDiv 2 [52] [ex14_c; ex14_e];
                      THarmonyBegin; ex14_c; ex14_e; THarmonyEnd [] (-1) None; TVoice [5]].

Example C14_example_rest_shift :
  forallb shiftable ex14_p = true /\ calm song_new /\ s_break_flag song_new = 0 /\
  calc_length [50] 96 96 = 192 /\                                                (* r2 *)
  exists s1 s2, exec_with (exec_f 3 100) 100 ex14_p (Ok song_new) = Ok s1 /\
                exec_with (exec_f 3 100) 101 (TRest 1 [50] :: ex14_p) (Ok song_new) = Ok s2 /\
    map e_time (tr_events (cur_track s1)) = [0; 96; 144; 192; 192; 240; 288; 288; 384] /\
    map e_time (tr_events (cur_track s2)) = [192; 288; 336; 384; 384; 432; 480; 480; 576] /\
    tr_timepos (cur_track s1) = 384 /\ tr_timepos (cur_track s2) = 576.
Proof.
  split; [reflexivity|]. split; [repeat split; vm_compute; lia|]. split; [reflexivity|]. split; [vm_compute; reflexivity|].
  eexists. eexists. split; [vm_compute; reflexivity|]. split; [vm_compute; reflexivity|]. vm_compute. repeat split.
Qed.

(* y7,100 @5 c ? d e  as events:  CC7=100@0  Voice 4@0  c@0  [point 96]  d@96  e@192, plus CC7=90@50 and a pitch bend *)
Definition ex14_evs := [ev_cc 0 0 7 100; ev_voice 0 0 4; ev_note 0 0 60 86 100; ev_cc 50 0 7 90; ev_pitch_bend 60 0 9000;
                        ev_meta 10 255 81 3 [7; 161; 32]; ev_note 96 0 62 86 100; ev_cc 100 0 10 64; ev_note 192 0 64 86 100].

Example C14_example_playfrom :
  play_from 96 ex14_evs
  = [ev_meta 0 255 81 3 [7; 161; 32]; ev_cc 0 0 7 90; ev_voice 0 0 4; ev_note 0 0 62 86 100; ev_cc 4 0 10 64; ev_note 96 0 64 86 100] /\
  option_map e_v2 (latest_cc_ev 96 0 7 ex14_evs) = Some 90 /\ option_map e_v1 (latest_voice_ev 96 0 ex14_evs) = Some 4 /\
  latest_cc_ev 96 1 7 ex14_evs = None /\ latest_voice_ev 96 1 ex14_evs = None /\
  map e_type (normalize_and_sort (play_from 96 ex14_evs)) = [Meta; ControllChange; Voice; NoteOn; ControllChange; NoteOff; NoteOn; NoteOff].
Proof. vm_compute. repeat split. Qed.

(* TWO CHANNELS ON ONE TRACK:  CH(1) @5 y7,100 c CH(2) @9 y7,50 d CH(1) ? e  - the remaining note e sounds on channel 1
   (0 in the file), so the program and the volume set on THAT channel before the point are re-issued on it, and those of
   channel 2 on channel 2: per channel the controllers, then per channel the programs *)
Definition ex14_two := [ev_voice 0 0 4; ev_cc 0 0 7 100; ev_note 0 0 60 86 100;
                        ev_voice 96 1 8; ev_cc 96 1 7 50; ev_note 96 1 62 86 100; ev_note 192 0 64 86 100].
(* the code points of the text  CH(1) @5 y7,100 c CH(2) @9 y7,50 d CH(1) ? e *)
Definition ex14_two_src : list Z :=
  [67; 72; 40; 49; 41; 32; 64; 53; 32; 121; 55; 44; 49; 48; 48; 32; 99; 32;
   67; 72; 40; 50; 41; 32; 64; 57; 32; 121; 55; 44; 53; 48; 32; 100; 32; 67; 72; 40; 49; 41; 32; 63; 32; 101].

Example C14_example_playfrom_two_channels :
  play_from 192 ex14_two = [ev_cc 0 0 7 100; ev_cc 0 1 7 50; ev_voice 0 0 4; ev_voice 0 1 8; ev_note 0 0 64 86 100] /\
  pf_restored_cc 192 ex14_two = [ev_cc 0 0 7 100; ev_cc 0 1 7 50] /\
  pf_restored_voice 192 ex14_two = [ev_voice 0 0 4; ev_voice 0 1 8] /\
  option_map e_v2 (latest_cc_ev 192 0 7 ex14_two) = Some 100 /\ option_map e_v2 (latest_cc_ev 192 1 7 ex14_two) = Some 50 /\
  option_map e_v1 (latest_voice_ev 192 0 ex14_two) = Some 4 /\ option_map e_v1 (latest_voice_ev 192 1 ex14_two) = Some 8 /\
  latest_cc_ev 192 2 7 ex14_two = None /\ latest_cc_ev 192 0 10 ex14_two = None /\ latest_voice_ev 192 2 ex14_two = None /\
  (* the whole pipeline on the source text: B0 07 64, B1 07 32, C0 04, C1 08, then the note on channel 0 *)
  option_map fst (match compile ex14_two_src with Ok r => Some r | _ => None end)
  = Some [77; 84; 104; 100; 0; 0; 0; 6; 0; 1; 0; 1; 0; 96; 77; 84; 114; 107; 0; 0; 0; 26;
          0; 176; 7; 100; 0; 177; 7; 50; 0; 192; 4; 0; 193; 8; 0; 144; 64; 100; 86; 128; 64; 100; 0; 255; 47; 0].
Proof. vm_compute. repeat split. Qed.

(* y7,-1 c ? d  : the value in force is 0 (as written to the file);   CH(2) y7,100 CH(3) @5 c ? d : each on its channel;
   Sub{ r2 y7,50 } y7,100 c c c ? d : written out of time order - the value in force at 288 is 50 *)
Example C14_example_playfrom_corners :
  play_from 96 [ev_cc 0 0 7 (-1); ev_note 0 0 60 86 100; ev_note 96 0 62 86 100] = [ev_cc 0 0 7 0; ev_note 0 0 62 86 100] /\
  play_from 96 [ev_cc 0 1 7 100; ev_voice 0 2 4; ev_note 0 2 60 86 100; ev_note 96 2 62 86 100]
    = [ev_cc 0 1 7 100; ev_voice 0 2 4; ev_note 0 2 62 86 100] /\
  (let evs := [ev_cc 192 0 7 50; ev_cc 0 0 7 100; ev_note 0 0 60 86 100; ev_note 288 0 62 86 100] in
   play_from 288 evs = [ev_cc 0 0 7 100; ev_note 0 0 62 86 100] /\                 (* list order *)
   play_from 288 (events_sort evs) = [ev_cc 0 0 7 50; ev_note 0 0 62 86 100]) /\     (* what compile() does *)
  (* the same controller on two channels, the later write on the OTHER channel: both are in force, both re-issued;
     a later write on the same channel replaces the earlier one of that channel only *)
  play_from 96 [ev_cc 0 3 7 100; ev_cc 10 5 7 50; ev_cc 20 3 7 90; ev_note 96 3 62 86 100]
    = [ev_cc 0 3 7 90; ev_cc 0 5 7 50; ev_note 0 3 62 86 100] /\
  (* channel fields outside 0..15 (no command produces them) count as the channel the writer sends them on *)
  play_from 96 [ev_cc 0 (-2) 7 100; ev_cc 10 0 7 50; ev_voice 0 99 4; ev_note 96 0 62 86 100]
    = [ev_cc 0 0 7 50; ev_voice 0 15 4; ev_note 0 0 62 86 100].
Proof. vm_compute. repeat split. Qed.

(* ---- the law with reservations ---- *)
(* the code points of   EP.onTime(0,127,!8) l4 c d   and the tokens the model's lexer makes of them *)
Definition ex14_ramp_src : list Z :=
  [69; 80; 46; 111; 110; 84; 105; 109; 101; 40; 48; 44; 49; 50; 55; 44; 33; 56; 41; 32; 108; 52; 32; 99; 32; 100].
Definition ex14_e4 := TNote 4 0 0 [] 0 (-1) ISIZE_MIN (-1) 0.
Definition ex14_d := TNote 2 0 0 [] 0 (-1) ISIZE_MIN (-1) 0.
Definition ex14_ramp_p := [TLineNo 0; TCCOnTime 11 [0; 127; 48]; TLength [52]; ex14_c; ex14_d].
Definition ex14_cc (e : event) := (e_time e, e_v1 e, e_v2 e).

(* r%6 in front: the twelve expression events of the ramp (every 4th tick of 48) and the two notes are 6 ticks later,
   with the same values; the program is outside the fragment of C14_rest_shift and inside that of
   C14_rest_shift_reservations *)
Example C14_example_ramp_shift :
  (match lex (ls_of_song song_new) ex14_ramp_src 0 with Ok (t, _) => Some t | _ => None end) = Some ex14_ramp_p /\
  forallb shiftable ex14_ramp_p = false /\ forallb shiftable_r ex14_ramp_p = true /\ calm_r song_new /\ s_break_flag song_new = 0 /\
  calc_length [37; 54] 96 96 = 6 /\                                               (* r%6 *)
  exists s1 s2, exec_with (exec_f 3 100) 100 ex14_ramp_p (Ok song_new) = Ok s1 /\
                exec_with (exec_f 3 100) 101 (TRest 1 [37; 54] :: ex14_ramp_p) (Ok song_new) = Ok s2 /\
    map ex14_cc (tr_events (cur_track s1))
      = [(0, 11, 0); (4, 11, 10); (8, 11, 21); (12, 11, 31); (16, 11, 42); (20, 11, 52); (24, 11, 63); (28, 11, 74);
         (32, 11, 84); (36, 11, 95); (40, 11, 105); (44, 11, 116); (0, 60, 86); (96, 62, 86)] /\
    map ex14_cc (tr_events (cur_track s2))
      = [(6, 11, 0); (10, 11, 10); (14, 11, 21); (18, 11, 31); (22, 11, 42); (26, 11, 52); (30, 11, 63); (34, 11, 74);
         (38, 11, 84); (42, 11, 95); (46, 11, 105); (50, 11, 116); (6, 60, 86); (102, 62, 86)] /\
    tr_events (cur_track s2) = map (shift_ev 6) (tr_events (cur_track s1)) /\
    tr_timepos (cur_track s1) = 192 /\ tr_timepos (cur_track s2) = 198.
Proof.
  split; [vm_compute; reflexivity|]. split; [reflexivity|]. split; [reflexivity|].
  split; [repeat split; vm_compute; lia|]. split; [reflexivity|]. split; [vm_compute; reflexivity|].
  eexists. eexists. split; [vm_compute; reflexivity|]. split; [vm_compute; reflexivity|]. vm_compute. repeat split.
Qed.

(* every reservation arm in one program:
     v.onTime(40,100,!2) q.onNote(50,90) M.onNoteWave(0,127,!8) y10.onNote(0,64,127) v.Random(6) M.Frequency(3)
     PB.onTime(-100,3000,!8) Cresc=4,20,100 l4 c d [2 e] 'ce' Sub{ r4 EP.onTime(127,0,!4) } n60 *)
Definition ex14_rsv_src : list Z :=
  [118; 46; 111; 110; 84; 105; 109; 101; 40; 52; 48; 44; 49; 48; 48; 44; 33; 50; 41; 32; 113; 46; 111; 110; 78; 111; 116; 101;
   40; 53; 48; 44; 57; 48; 41; 32; 77; 46; 111; 110; 78; 111; 116; 101; 87; 97; 118; 101; 40; 48; 44; 49; 50; 55; 44; 33; 56; 41;
   32; 121; 49; 48; 46; 111; 110; 78; 111; 116; 101; 40; 48; 44; 54; 52; 44; 49; 50; 55; 41; 32; 118; 46; 82; 97; 110; 100; 111;
   109; 40; 54; 41; 32; 77; 46; 70; 114; 101; 113; 117; 101; 110; 99; 121; 40; 51; 41; 32; 80; 66; 46; 111; 110; 84; 105; 109;
   101; 40; 45; 49; 48; 48; 44; 51; 48; 48; 48; 44; 33; 56; 41; 32; 67; 114; 101; 115; 99; 61; 52; 44; 50; 48; 44; 49; 48; 48; 32;
   108; 52; 32; 99; 32; 100; 32; 91; 50; 32; 101; 93; 32; 39; 99; 101; 39; 32; 83; 117; 98; 123; 32; 114; 52; 32; 69; 80; 46; 111;
   110; 84; 105; 109; 101; 40; 49; 50; 55; 44; 48; 44; 33; 52; 41; 32; 125; 32; 110; 54; 48].
Definition ex14_rsv_p :=
  [TLineNo 0; TVOnTime [40; 100; 192]; TOnNote Reserve.WQ false [50; 90]; TCCOnNoteWave 1 [0; 127; 48];
   TCCOnNote 10 [0; 64; 127]; TRandom Reserve.WV 6; TCCFreq 3; TPBOnTime 1 [-100; 3000; 48]; TDecresc [52] 20 100;
   TLength [52]; ex14_c; ex14_d; TLoopBegin 2; ex14_e4; TLoopEnd; THarmonyBegin; ex14_c; ex14_e4; THarmonyEnd [] (-1) None;
   TSub [TLineNo 0; TRest 1 [52]; TCCOnTime 11 [127; 0; 96]]; TNoteN 60 [] 0 (-1) ISIZE_MIN 0].
Definition ex14_note (e : event) := (e_time e, e_v1 e, e_v2 e, e_v3 e).
Definition ex14_is (ty : etype) (e : event) := etype_eqb (e_type e) ty.

(* 7 notes (velocities from the v.onTime ramp and the random draws, gates from q.onNote), 147 controller and 16 bend
   events: all 6 ticks later, nothing else changed - the seed after the run included *)
Example C14_example_reservations_shift :
  (match lex (ls_of_song song_new) ex14_rsv_src 0 with Ok (t, _) => Some t | _ => None end) = Some ex14_rsv_p /\
  forallb shiftable ex14_rsv_p = false /\ forallb shiftable_r ex14_rsv_p = true /\
  exists s1 s2, exec_with (exec_f 3 100) 100 ex14_rsv_p (Ok song_new) = Ok s1 /\
                exec_with (exec_f 3 100) 101 (TRest 1 [37; 54] :: ex14_rsv_p) (Ok song_new) = Ok s2 /\
    map ex14_note (filter (ex14_is NoteOn) (tr_events (cur_track s1)))
      = [(0, 60, 48, 38); (96, 62, 86, 69); (192, 64, 86, 99); (288, 64, 86, 99); (384, 64, 86, 100); (384, 60, 86, 99);
         (480, 60, 86, 102)] /\
    map (fun ty => length (filter (ex14_is ty) (tr_events (cur_track s1)))) [NoteOn; ControllChange; PitchBend] = [7; 147; 16]%nat /\
    tr_events (cur_track s2) = map (shift_ev 6) (tr_events (cur_track s1)) /\
    tr_timepos (cur_track s1) = 576 /\ tr_timepos (cur_track s2) = 582 /\
    tr_rsv (cur_track s2) = tr_rsv (cur_track s1) /\ s_rand_seed s2 = s_rand_seed s1 /\ s_rand_seed s1 = 3772669589.
Proof.
  split; [vm_compute; reflexivity|]. split; [reflexivity|]. split; [reflexivity|].
  eexists. eexists. split; [vm_compute; reflexivity|]. split; [vm_compute; reflexivity|]. vm_compute. repeat split.
Qed.

(* the start condition of the law is needed: with a v.onTime ramp PENDING (v.onTime(0,127,!4) was executed before), a
   rest in front of `c` is a rest inside the ramp - the note is read 6 ticks further into it (velocity 7, not 0) *)
Example C14_example_pending_ramp_refuted :
  exists s0 s1 s2, step_song (fun _ r => r) (TVOnTime [0; 127; 96]) song_new = Ok s0 /\
    rv_v_on_time (tr_rsv (cur_track s0)) = Some [0; 127; 96] /\ ~ calm_r s0 /\
    run_toks (fun _ r => r) [ex14_c] (Ok s0) = Ok s1 /\ run_toks (fun _ r => r) [TRest 1 [37; 54]; ex14_c] (Ok s0) = Ok s2 /\
    map ex14_note (tr_events (cur_track s1)) = [(0, 60, 86, 0)] /\ map ex14_note (tr_events (cur_track s2)) = [(6, 60, 86, 7)] /\
    ~ shifted_r 6 0 s1 s2.
Proof.
  eexists. eexists. eexists. split; [vm_compute; reflexivity|]. split; [reflexivity|].
  split; [intros (_ & _ & _ & _ & H); vm_compute in H; discriminate H|].
  split; [vm_compute; reflexivity|]. split; [vm_compute; reflexivity|]. split; [reflexivity|]. split; [reflexivity|].
  intros H. apply shifted_r_unpack in H. destruct H as (_ & E & _). vm_compute in E. discriminate E.
Qed.

(* the law speaks of the interpreter's events.  In the FILE a start before tick 0 is written at tick 0, so with a
   negative timing near the start of the track - here reserved:  t.onNote(-10) l4 c d  - the events are 6 ticks later
   (-10, 86 -> -4, 92) but the first note-on of the file is at delta 0 with and without  r%6  in front (only its
   note-off moves: 76 -> 82).  The file-level law needs "no event before tick 0" (tools/props/c14.py ASSUMES) *)
Definition ex14_neg_src : list Z := [116; 46; 111; 110; 78; 111; 116; 101; 40; 45; 49; 48; 41; 32; 108; 52; 32; 99; 32; 100].
Definition ex14_neg_p := [TLineNo 0; TOnNote Reserve.WT false [-10]; TLength [52]; ex14_c; ex14_d].
Example C14_example_negative_timing_file_refuted :
  (match lex (ls_of_song song_new) ex14_neg_src 0 with Ok (t, _) => Some t | _ => None end) = Some ex14_neg_p /\
  forallb shiftable_r ex14_neg_p = true /\
  (exists s1 s2, exec_with (exec_f 3 100) 100 ex14_neg_p (Ok song_new) = Ok s1 /\
                 exec_with (exec_f 3 100) 101 (TRest 1 [37; 54] :: ex14_neg_p) (Ok song_new) = Ok s2 /\
     map e_time (tr_events (cur_track s1)) = [-10; 86] /\ map e_time (tr_events (cur_track s2)) = [-4; 92]) /\
  option_map fst (match compile ex14_neg_src with Ok r => Some r | _ => None end)
  = Some [77; 84; 104; 100; 0; 0; 0; 6; 0; 1; 0; 1; 0; 96; 77; 84; 114; 107; 0; 0; 0; 20;
          0; 144; 60; 100; 76; 128; 60; 100; 10; 144; 62; 100; 86; 128; 62; 100; 0; 255; 47; 0] /\
  option_map fst (match compile ([114; 37; 54; 32] ++ ex14_neg_src) with Ok r => Some r | _ => None end)       (* r%6 ... *)
  = Some [77; 84; 104; 100; 0; 0; 0; 6; 0; 1; 0; 1; 0; 96; 77; 84; 114; 107; 0; 0; 0; 20;
          0; 144; 60; 100; 82; 128; 60; 100; 10; 144; 62; 100; 86; 128; 62; 100; 0; 255; 47; 0].
Proof.
  split; [vm_compute; reflexivity|]. split; [reflexivity|].
  split; [eexists; eexists; split; [vm_compute; reflexivity|]; split; [vm_compute; reflexivity|]; vm_compute; split; reflexivity|].
  split; vm_compute; reflexivity.
Qed.

Print Assumptions C14_time_formula.
Print Assumptions C14_time_ticks.
Print Assumptions C14_beat_exact.
Print Assumptions C14_beat_is_division.
Print Assumptions C14_beat_denominators.
Print Assumptions C14_time_arm.
Print Assumptions C14_time_arm_frame.
Print Assumptions C14_playfrom_arms.
Print Assumptions C14_measure_shift_arm.
Print Assumptions C14_timesig_state.
Print Assumptions C14_timesig_other_deno.
Print Assumptions C14_time_after_signature.
Print Assumptions C14_rest_is_shift.
Print Assumptions C14_shifted_means.
Print Assumptions C14_step_shift.
Print Assumptions C14_exec_respects.
Print Assumptions C14_shift_law.
Print Assumptions C14_rest_shift.
Print Assumptions C14_rest_shift_fold.
Print Assumptions C14_playfrom.
Print Assumptions C14_playfrom_notes.
Print Assumptions C14_playfrom_kept.
Print Assumptions C14_playfrom_early.
Print Assumptions C14_playfrom_restored_cc.
Print Assumptions C14_playfrom_restored_cc_shape.
Print Assumptions C14_playfrom_restored_voice.
Print Assumptions C14_playfrom_restored_voice_shape.
Print Assumptions C14_playfrom_channel.
Print Assumptions C14_latest_cc_means.
Print Assumptions C14_latest_cc_none.
Print Assumptions C14_latest_voice_means.
Print Assumptions C14_latest_voice_none.
Print Assumptions C14_playfrom_latest_in_time.
Print Assumptions C14_playfrom_sorted_tick0.
Print Assumptions C14_playfrom_sorted_order.
Print Assumptions C14_playfrom_drops.
Print Assumptions C14_playfrom_applied.
Print Assumptions C14_rshift_means.
Print Assumptions C14_rsv_cc_ramp_shift.
Print Assumptions C14_rsv_pb_ramp_shift.
Print Assumptions C14_rsv_ramp_events.
Print Assumptions C14_rsv_v_on_time_shift.
Print Assumptions C14_rsv_on_note_shift.
Print Assumptions C14_rsv_note_values_shift.
Print Assumptions C14_rsv_cc_on_note_shift.
Print Assumptions C14_rsv_setters_shift.
Print Assumptions C14_shifted_r_means.
Print Assumptions C14_rsv_set_start_means.
Print Assumptions C14_shift_r_extends.
Print Assumptions C14_step_shift_reservations.
Print Assumptions C14_exec_respects_reservations.
Print Assumptions C14_shift_law_reservations.
Print Assumptions C14_rest_shift_reservations.
Print Assumptions C14_rest_shift_fold_reservations.
