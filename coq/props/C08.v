(* C08 - the output depends only on the source: deterministic, configuration- and entry-point-free.
   Statements only; proofs are `exact <lemma>` (proofs/DetP.v, proofs/LangP.v) or evaluation of the regenerated tables.

   PARTIAL BY NATURE. What is proved here, about the Gallina model and the regenerated data of /repo:
     * `Compile.compile_lang ja` is a Gallina function of the message language and the source text - the model has no
       process state, no hash seed, no debug level and no entry point to depend on, so "same source, same output" holds of
       the model by construction and is not restated as a theorem;
     * THE MESSAGE LANGUAGE (Song::set_language -> song.message_data, read only through song.get_message) is carried by the
       model: a flag of the lexer state and of the song (lx_ja, s_ja; `compile src = compile_lang false src`), every log
       site writes `msg_X ja`, the text of the regenerated catalogue in that language.  Proved for EVERY source (no
       fragment restriction, Unsupported / OutOfFuel / Panic outcomes included): the two languages give the same outcome
       and THE SAME BYTES; the lexer reads the same tokens; the song after lex and exec differs in the log and the flag
       only; the logs have the same number of entries, entry by entry equal up to the language of the catalogue messages
       they contain (`txtR`).  The same for the script-layer pipeline (Script.compile_script_lang).  The proof relates two
       runs whose states are equal except for the flag and the wording of the log: the caps (lx_add_log, add_log,
       lex_error) read the LENGTH of the log only, and get_logs_str cuts by characters after everything else is done;
     * the places where an ORDER exists in the code cannot reach the output: table lookups do not depend on the
       order of insertion (names pairwise distinct - checked on the regenerated table), and the numbering that
       init_reserved_words takes from the iteration order of a HashMap is never read (only contains_key is);
     * the random numbers are the xorshift orbit of the seed, the seed starts at the regenerated default constant
       and is only ever advanced by a draw (modelled reservation/note fragment of Reserve.v, which has no RandomSeed);
     * a SYNTACTIC census of /repo/src (gen/WriteSites.v, regenerated on every run) pins who writes the seed, who
       reads a clock / the environment / a hasher, where a HashMap is iterated and that there is no process-global
       mutable state. It is a text census (comments and test modules removed, no macro expansion, no data flow):
       a new writer or clock user changes a value below and breaks the proof obligation; it proves nothing about
       what the listed sites do.
   What is NOT provable here and is covered by differential runs only (tools/props/c08.py, on the implementation):
     fresh processes and fresh HashMap seeds (RandomState), compilations made earlier in the same process, the
     equality of the three library entry points, debug 0/1 leaving the bytes alone (the model carries no debug level:
     in the code `debug` only guards println! sites - pinned by the census of C19, observed on the process), and the
     command-line tool (argument parsing, file I/O, reseeding from the clock).
   The tie of the model to the implementation is re-established on every run in separate processes - in BOTH languages
   (compile_core / compile_core_ja vs lex/exec/generate with set_language) - so a hidden dependence of the
   implementation on process state or on the language also shows as a broken correspondence. *)
From Coq Require Import ZArith List Bool Permutation String.
From Sakura.Model Require Import Base Song Token LexCore Reserve Compile Msg Script.
From Sakura.Gen Require Import Consts SysFuncRows WriteSites.
From Sakura.Proofs Require Import DetP LangP LangScriptP.
Import ListNotations.
Open Scope Z_scope.

(* ---- table lookups: HashMap semantics (a later insert of the same key overrides) ---- *)
(* For pairwise distinct names the result of a lookup is the same for every order of the rows. *)
Theorem C08_lookup_order_independent :
  forall (rows rows' : list (list Z * (list Z * (Z * (Z * Z))))),
  NoDup (map fst rows) -> Permutation rows rows' ->
  forall (name : list Z) (acc : option (list Z * (Z * (Z * Z)))),
  sysfunc_lookup name rows acc = sysfunc_lookup name rows' acc.
Proof. exact sysfunc_lookup_perm. Qed.

(* ... and it is the row of that name, or nothing *)
Theorem C08_lookup_spec :
  forall (rows : list (list Z * (list Z * (Z * (Z * Z))))) (name : list Z), NoDup (map fst rows) ->
  (forall v, In (name, v) rows -> sysfunc_lookup name rows None = Some v) /\
  (~ In name (map fst rows) -> sysfunc_lookup name rows None = None).
Proof. exact sysfunc_lookup_spec. Qed.

(* the regenerated system-function table of mml_def.rs has no repeated name ... *)
Theorem C08_table_names_distinct : NoDup (map fst sysfunc_rows).
Proof. exact sysfunc_rows_distinct. Qed.

(* ... hence what the lexer model finds in it does not depend on the order of the rows *)
Theorem C08_system_functions_order_free :
  forall rows', Permutation sysfunc_rows rows' ->
  forall name, sysfunc_lookup name rows' None = sysfunc_lookup name sysfunc_rows None.
Proof. intros rows' Hp name. symmetry. apply sysfunc_lookup_perm; [exact sysfunc_rows_distinct | exact Hp]. Qed.

(* ---- the one iteration over a HashMap: init_reserved_words numbers the system-function names 100+i (as u8)
        along the map's iteration order, then inserts the fixed words; lexer.rs only asks contains_key ---- *)
Theorem C08_iteration_order :
  forall (order order' : list (list Z)) (fixed : list (list Z * Z)) (name : list Z),
  Permutation order order' ->
  contains_key (reserved_words order fixed) name = contains_key (reserved_words order' fixed) name.
Proof. exact reserved_contains_perm. Qed.

Theorem C08_reserved_is_membership :
  forall (order : list (list Z)) (fixed : list (list Z * Z)) (name : list Z),
  contains_key (reserved_words order fixed) name = existsb (fun k => list_eqb k name) order || contains_key fixed name.
Proof. exact reserved_contains_spec. Qed.

(* ---- randomness ---- *)
(* the i-th number is a function of the seed alone (the (i+1)-fold xorshift iterate); a fresh song starts from the
   regenerated default constant *)
Theorem C08_random_seeded :
  (forall (n : nat) (seed : Z) (i : nat), (i < n)%nat -> nth i (rand_seq seed n) 0 = Nat.iter (S i) rand_next seed) /\
  (forall channel timebase : Z, rs_seed (rstate_new channel timebase) = SAKURA_DEFAULT_RANDOM_SEED).
Proof. split; [exact rand_seq_nth | reflexivity]. Qed.

(* whatever the commands, the seed is only ever advanced by draws: it stays on the orbit of the initial seed *)
Theorem C08_seed_orbit :
  forall (cs : list rcmd) (s : rstate), exists k : nat, rs_seed (exec_cmds s cs) = Nat.iter k rand_next (rs_seed s).
Proof. exact seed_orbit. Qed.

(* a draw with a positive width consumes exactly one number, any other draw none *)
Theorem C08_draw_consumes :
  forall (s : rstate) (v w : Z), rs_seed (snd (draw s v w)) = if w >? 0 then rand_next (rs_seed s) else rs_seed s.
Proof. exact draw_seed. Qed.

(* ---- the census of /repo/src (syntactic; see the header) ---- *)
Definition only_in (file : string) (sites : list (string * string)) : bool :=
  forallb (fun p => String.eqb (fst p) file) sites.
Definition files_of (sites : list (string * string)) : list string := map fst sites.

Theorem C08_write_sites :
  (* the seed is assigned in exactly four places: RandomSeed at lex time and at run time, the generator's own
     step, and the command-line tool's reseeding from the clock *)
  files_of rand_seed_writers = ["lexer.rs"; "main.rs"; "runner.rs"; "song.rs"]%string /\
  (* it is initialised once, with the default constant, and read only by the generator step *)
  length rand_seed_inits = 1%nat /\ rand_seed_init_is_default = true /\
  files_of rand_seed_readers = ["song.rs"]%string /\
  (* clocks, explicit hashers and thread identity appear in main.rs only; the only library use of the
     environment is get_build_number *)
  clock_users <> [] /\ only_in "main.rs" clock_users = true /\ only_in "main.rs" hasher_users = true /\
  filter (fun p => negb (String.eqb (fst p) "main.rs")) env_users = [("lib.rs", "get_build_number")]%string /\
  (* no process-global mutable state *)
  global_state_sites = [] /\
  (* one iteration over a HashMap (the numbering of C08_iteration_order); reserved_words is only asked contains_key *)
  hashmap_iteration_sites = [("mml_def.rs", "init_reserved_words")]%string /\
  reserved_words_other_uses = [] /\ reserved_words_lookups <> [].
Proof. repeat split; try reflexivity; discriminate. Qed.


(* ---- the message language (every source; `j1 j2 : bool` are two languages, false = en, true = ja) ---- *)
(* `txtR a b` (proofs/LangP.v): the texts a and b are built from the same pieces, where a piece is either the same
   literal text on both sides or a catalogue message (Msg.all_messages) in any two languages *)
Theorem C08_text_relation :
  (forall l, txtR l l) /\
  (forall (m : bool -> list Z) j1 j2, In m all_messages -> txtR (m j1) (m j2)) /\
  (forall a b c d, txtR a b -> txtR c d -> txtR (a ++ c) (b ++ d)) /\
  (forall a b, txtR a b -> (a = [] <-> b = [])).
Proof. exact (conj txt_same (conj txt_msg (conj txt_app txtR_nil))). Qed.

(* the lexer: the same tokens, the same time base / variables / rhythm table, logs equal entry by entry up to the language *)
Theorem C08_language_lexer : forall (j1 j2 : bool) (tb : Z) (vars : list (list Z * vval)) (rhythm : list (Z * list Z)) (src : list Z) (ln : Z),
  match lex (mkLex tb [] vars rhythm j1) src ln, lex (mkLex tb [] vars rhythm j2) src ln with
  | Ok (toks1, ls1), Ok (toks2, ls2) =>
      toks1 = toks2 /\ lx_timebase ls1 = lx_timebase ls2 /\ lx_vars ls1 = lx_vars ls2 /\ lx_rhythm ls1 = lx_rhythm ls2 /\
      Forall2 txtR (lx_logs ls1) (lx_logs ls2)
  | Panic p, Panic q => p = q
  | OutOfFuel, OutOfFuel => True
  | Unsupported u, Unsupported v => u = v
  | _, _ => False
  end.
Proof. exact language_lexer. Qed.

(* the pipeline: the same outcome and, when there is a file, THE SAME BYTES *)
Theorem C08_language_noninterference : forall (j1 j2 : bool) (src : list Z),
  match compile_lang j1 src, compile_lang j2 src with
  | Ok (bytes1, _), Ok (bytes2, _) => bytes1 = bytes2
  | Panic p, Panic q => p = q
  | OutOfFuel, OutOfFuel => True
  | Unsupported u, Unsupported v => u = v
  | _, _ => False
  end.
Proof. exact language_noninterference. Qed.

(* the song after lex and exec differs between two languages in s_logs and the flag only; the logs have the same number of
   entries, equal entry by entry up to the language of the messages *)
Theorem C08_language_only_in_log : forall (j1 j2 : bool) (src : list Z),
  match run_source_lang j1 src, run_source_lang j2 src with
  | Ok s1, Ok s2 =>
      s_set_ja (s_set_logs s1 []) false = s_set_ja (s_set_logs s2 []) false /\
      Forall2 txtR (s_logs s1) (s_logs s2) /\ length (s_logs s1) = length (s_logs s2)
  | Panic p, Panic q => p = q
  | OutOfFuel, OutOfFuel => True
  | Unsupported u, Unsupported v => u = v
  | _, _ => False
  end.
Proof. exact language_only_in_log. Qed.

(* the script-layer pipeline (model/Script.v: PRINT, variables, IF / WHILE / FOR with the loop limit, user functions): the same *)
Theorem C08_language_script_noninterference : forall (j1 j2 : bool) (src : list Z),
  match compile_script_lang j1 src, compile_script_lang j2 src with
  | Ok (bytes1, _), Ok (bytes2, _) => bytes1 = bytes2
  | Panic p, Panic q => p = q
  | OutOfFuel, OutOfFuel => True
  | Unsupported u, Unsupported v => u = v
  | _, _ => False
  end.
Proof. exact language_script_noninterference. Qed.
Theorem C08_language_script_only_in_log : forall (j1 j2 : bool) (src : list Z),
  match run_script_lang j1 src, run_script_lang j2 src with
  | Ok st1, Ok st2 =>
      ss_scopes st1 = ss_scopes st2 /\ ss_funcs st1 = ss_funcs st2 /\ ss_needs st1 = ss_needs st2 /\
      s_set_ja (s_set_logs (ss_song st1) []) false = s_set_ja (s_set_logs (ss_song st2) []) false /\
      Forall2 txtR (s_logs (ss_song st1)) (s_logs (ss_song st2)) /\
      length (s_logs (ss_song st1)) = length (s_logs (ss_song st2))
  | Panic p, Panic q => p = q
  | OutOfFuel, OutOfFuel => True
  | Unsupported u, Unsupported v => u = v
  | _, _ => False
  end.
Proof. exact language_script_only_in_log. Qed.

(* ---- non-vacuity ---- *)
(* a lookup that finds something, in the table and in its reversal; the hypothesis of distinct names is needed *)
Example C08_example_lookup :
  Permutation sysfunc_rows (rev sysfunc_rows) /\
  sysfunc_lookup (zs "Tempo") sysfunc_rows None = Some (zs "Tempo", (73, (0, 0))) /\
  sysfunc_lookup (zs "Tempo") (rev sysfunc_rows) None = Some (zs "Tempo", (73, (0, 0))) /\
  sysfunc_lookup (zs "NoSuchCommand") sysfunc_rows None = None /\
  (let a := (zs "X", (zs "A", (0, (0, 0)))) in let b := (zs "X", (zs "B", (0, (0, 0)))) in
   Permutation [a; b] [b; a] /\ sysfunc_lookup (zs "X") [a; b] None <> sysfunc_lookup (zs "X") [b; a] None).
Proof.
  split; [apply Permutation_rev|]. split; [vm_compute; reflexivity|]. split; [vm_compute; reflexivity|].
  split; [vm_compute; reflexivity|]. split; [apply perm_swap | vm_compute; discriminate].
Qed.

(* the numbers DO depend on the iteration order (so the theorem says something), membership does not *)
Example C08_example_reserved :
  let o1 := [zs "Tempo"; zs "Track"] in let o2 := [zs "Track"; zs "Tempo"] in let fixed := [(zs "IF", 0); (zs "If", 0)] in
  Permutation o1 o2 /\
  get_key (reserved_words o1 fixed) (zs "Tempo") = Some 100 /\ get_key (reserved_words o2 fixed) (zs "Tempo") = Some 101 /\
  contains_key (reserved_words o1 fixed) (zs "Tempo") = true /\ contains_key (reserved_words o2 fixed) (zs "Tempo") = true /\
  contains_key (reserved_words o1 fixed) (zs "If") = true /\ contains_key (reserved_words o2 fixed) (zs "c") = false.
Proof. split; [apply perm_swap | repeat split]. Qed.

Example C08_example_random :
  rand_seq 1 3 = [270369; 67634689; 2647435461] /\
  0 < SAKURA_DEFAULT_RANDOM_SEED < 2 ^ 32 /\
  (let s := exec_cmds (rstate_new 0 96) [RRandom WV 10; RNote 0; RNote 2; RRest; RNoteN 60] in
   rs_seed s = Nat.iter 3 rand_next SAKURA_DEFAULT_RANDOM_SEED /\ rs_seed s <> SAKURA_DEFAULT_RANDOM_SEED).
Proof. split; [reflexivity|]. split; [vm_compute; split; reflexivity|]. split; [vm_compute; reflexivity | vm_compute; discriminate]. Qed.

(* the language DOES change the log: one source, the same bytes, two different log texts (an unknown character, an unknown
   word, a missing parenthesis, a SysEx without values), both of four entries; `compile` is the English run *)
Example C08_example_language :
  let src := zs "c!de Foo TR(1 SysEx= " in
  exists bytes log_ja log_en,
    compile_lang true src = Ok (bytes, log_ja) /\ compile_lang false src = Ok (bytes, log_en) /\ compile src = Ok (bytes, log_en) /\
  log_ja <> log_en /\
  match run_source_lang true src, run_source_lang false src with
    | Ok s1, Ok s2 => length (s_logs s1) = 4%nat /\ length (s_logs s2) = 4%nat /\ s_ja s1 = true /\ s_ja s2 = false
    | _, _ => False
    end.
Proof.
  cbv zeta.
  destruct (compile_lang true (zs "c!de Foo TR(1 SysEx= ")) as [[b1 l1]| | |] eqn:E1; try (vm_compute in E1; discriminate E1).
  destruct (compile_lang false (zs "c!de Foo TR(1 SysEx= ")) as [[b2 l2]| | |] eqn:E2; try (vm_compute in E2; discriminate E2).
  exists b1, l1, l2. vm_compute in E1. vm_compute in E2. injection E1 as <- <-. injection E2 as <- <-.
  split; [reflexivity|]. split; [reflexivity|]. split; [vm_compute; reflexivity|]. split; [discriminate|].
  vm_compute. repeat split; reflexivity.
Qed.

(* the script layer: a redefined function (a warning), a type mismatch, PRINT - the same bytes, two wordings, three entries *)
Example C08_example_language_script :
  let src := zs "FUNCTION F(){ c } FUNCTION F(){ d } INT A=(1,2) PRINT(A) F()" in
  exists bytes log_ja log_en,
    compile_script_lang true src = Ok (bytes, log_ja) /\ compile_script_lang false src = Ok (bytes, log_en) /\
    compile_script src = Ok (bytes, log_en) /\ log_ja <> log_en /\
    match run_script_lang true src, run_script_lang false src with
    | Ok s1, Ok s2 => length (s_logs (ss_song s1)) = 3%nat /\ length (s_logs (ss_song s2)) = 3%nat
    | _, _ => False
    end.
Proof.
  cbv zeta.
  destruct (compile_script_lang true (zs "FUNCTION F(){ c } FUNCTION F(){ d } INT A=(1,2) PRINT(A) F()")) as [[b1 l1]| | |] eqn:E1;
    try (vm_compute in E1; discriminate E1).
  destruct (compile_script_lang false (zs "FUNCTION F(){ c } FUNCTION F(){ d } INT A=(1,2) PRINT(A) F()")) as [[b2 l2]| | |] eqn:E2;
    try (vm_compute in E2; discriminate E2).
  exists b1, l1, l2. vm_compute in E1. vm_compute in E2. injection E1 as <- <-. injection E2 as <- <-.
  split; [reflexivity|]. split; [reflexivity|]. split; [vm_compute; reflexivity|]. split; [discriminate|].
  vm_compute. split; reflexivity.
Qed.

Print Assumptions C08_lookup_order_independent.
Print Assumptions C08_lookup_spec.
Print Assumptions C08_table_names_distinct.
Print Assumptions C08_system_functions_order_free.
Print Assumptions C08_iteration_order.
Print Assumptions C08_reserved_is_membership.
Print Assumptions C08_random_seeded.
Print Assumptions C08_seed_orbit.
Print Assumptions C08_draw_consumes.
Print Assumptions C08_write_sites.
Print Assumptions C08_text_relation.
Print Assumptions C08_language_lexer.
Print Assumptions C08_language_noninterference.
Print Assumptions C08_language_only_in_log.
Print Assumptions C08_language_script_noninterference.
Print Assumptions C08_language_script_only_in_log.
