(* C17 - Japanese (sutoton) and full-width text become the same MML; ASCII is untouched.
   This file contains only the property statements; every proof is `exact <lemma>`.
   Text = list of Unicode scalar values. `convert` is the model of sutoton::convert, `conv_loop f sl s`
   its main loop from vocabulary list `sl` and remaining text `s` with fuel `f`; `sutoton_table` is
   regenerated from sutoton.rs on every run; longest_match / translit / segmented / passthru / strip_right /
   width_map are the specification (spec/RewriteSpec.v). *)
From Sakura.Model Require Import Base Cursor Cursor2 Zen2han Sutoton.
From Sakura.Gen Require Import SutotonTable.
From Sakura.Spec Require Import RewriteSpec.
From Sakura.Proofs Require Import SutotonP.
From Coq Require Import Sorted.

(* The invariant of the vocabulary list: sorted by non-increasing length of the name IN UTF-8 BYTES
   (that is what `sort_by(|a, b| b.name.len().cmp(&a.name.len()))` compares), unique non-empty names. *)
Definition by_bytes_desc (a b : item) : Prop := utf8_bytes (fst a) >= utf8_bytes (fst b).
Definition vocabulary_ok (l : list item) : Prop :=
  Sorted by_bytes_desc l /\ NoDup (map fst l) /\ Forall (fun it => fst it <> []) l.
Definition list_ok (sl : slist) : Prop := sl_sorted sl = true /\ vocabulary_ok (sl_items sl).

(* It holds after init_items, after every set_item + sort_items with a non-empty name, hence after
   every '~' arm of convert (read_definition is the only place where the list changes; it returns the
   list, the rest of the text and the number of line breaks it stepped over); and the
   insertion sort of the model is THE stable sort by descending byte length. *)
Theorem C17_sorted_invariant :
  list_ok init_items /\
  (forall sl name value, list_ok sl -> name <> [] -> list_ok (sort_items (set_item name value sl))) /\
  (forall sl r, list_ok sl -> list_ok (fst (fst (read_definition sl r)))) /\
  (forall l l', Sorted by_bytes_desc l' ->
     (forall k, filter (fun e => utf8_bytes (fst e) =? k) l' = filter (fun e => utf8_bytes (fst e) =? k) l) ->
     l' = sort_desc l).
Proof. exact sorted_invariant. Qed.

(* On such a list the first match of the scan is the longest vocabulary word that is a prefix of the
   remaining text (and there is a match iff some word is a prefix); it is the specification's
   longest_match. *)
Theorem C17_longest : forall (L : list item) (rest : list Z), vocabulary_ok L ->
  (forall e, scan L rest = Some e <-> is_longest L rest e) /\
  (scan L rest = None <-> forall e, In e L -> ~ is_prefix (fst e) rest) /\
  scan L rest = longest_match L rest.
Proof. exact longest_all. Qed.

(* The width map, for every code point, by arithmetic. *)
Theorem C17_zen2han : forall c : Z,
  (0xFF01 <= c <= 0xFF5E -> zen2han c = c - 0xFEE0) /\
  ((0x2002 <= c <= 0x200B \/ c = 0x3000 \/ c = 0xFEFF) -> zen2han c = 32) /\
  (~ (0xFF01 <= c <= 0xFF5E) -> ~ (0x2002 <= c <= 0x200B \/ c = 0x3000 \/ c = 0xFEFF) -> zen2han c = c).
Proof. exact zen2han_cases. Qed.

Theorem C17_zen2han_is_width_map : forall c : Z, zen2han c = width_map c.
Proof. exact zen2han_spec. Qed.

(* The regenerated table: names are unique; no word is empty, contains an ASCII character or starts
   with a character the converter treats specially; every MML value is ASCII without '~', '{', '/'. *)
Theorem C17_table_no_ascii :
  NoDup (map fst sutoton_table) /\
  forall n v, In (n, v) sutoton_table ->
    n <> [] /\ (forall c, In c n -> 128 <= c) /\ is_special (hd 0 n) = false /\
    (forall c, In c v -> 0 <= c < 128 /\ c <> 126 /\ c <> 123 /\ c <> 47).
Proof. exact table_facts. Qed.

(* ASCII text without '~' whose strings {"..."} and comments // ...\n, /* ... */ are closed (their
   content is arbitrary, Japanese included) passes through unchanged apart from trailing white space (convert ends with trim_end: leading
   white space is kept so that line numbers are right). *)
Theorem C17_ascii_identity : forall s : list Z, passthru is_ascii s -> convert s = Ok (strip_right s).
Proof. exact ascii_identity. Qed.

(* Closed strings and comments of the three forms the converter knows are copied verbatim, whatever
   they contain, whatever the vocabulary, whatever follows. *)
Theorem C17_strings_comments_verbatim : forall (f : nat) (sl : slist) (r : list Z), list_ok sl ->
  (forall body, occursb [34; 125] ([123; 34] ++ body) = false ->
     (length ([123; 34] ++ body ++ [34; 125] ++ r)%Z < f)%nat ->
     conv_loop f sl ([123; 34] ++ body ++ [34; 125] ++ r)
     = bind (conv_loop f sl r) (fun o => Ok ([123; 34] ++ body ++ [34; 125] ++ o))) /\
  (forall body, ~ In 10 body ->
     (length ([47; 47] ++ body ++ [10] ++ r)%Z < f)%nat ->
     conv_loop f sl ([47; 47] ++ body ++ [10] ++ r)
     = bind (conv_loop f sl r) (fun o => Ok ([47; 47] ++ body ++ [10] ++ o))) /\
  (forall body, occursb [42; 47] ([47; 42] ++ body) = false ->
     (length ([47; 42] ++ body ++ [42; 47] ++ r)%Z < f)%nat ->
     conv_loop f sl ([47; 42] ++ body ++ [42; 47] ++ r)
     = bind (conv_loop f sl r) (fun o => Ok ([47; 42] ++ body ++ [42; 47] ++ o))).
Proof. exact verbatim_all. Qed.

(* Unterminated strings and comments (the terminator occurs nowhere): everything up to the end of the
   text is copied and the terminator - a line break for // - is appended (exact behaviour; such text
   is outside the identity theorem). *)
Theorem C17_unterminated : forall (f : nat) (sl : slist) (body : list Z), list_ok sl ->
  (occursb [34; 125] ([123; 34] ++ body) = false -> (length ([123; 34] ++ body)%Z < f)%nat ->
     conv_loop f sl ([123; 34] ++ body) = Ok ([123; 34] ++ body ++ [34; 125])) /\
  (~ In 10 body -> (length ([47; 47] ++ body)%Z < f)%nat ->
     conv_loop f sl ([47; 47] ++ body) = Ok ([47; 47] ++ body ++ [10])) /\
  (occursb [42; 47] ([47; 42] ++ body) = false -> (length ([47; 42] ++ body)%Z < f)%nat ->
     conv_loop f sl ([47; 42] ++ body) = Ok ([47; 42] ++ body ++ [42; 47])).
Proof. exact conv_unterminated. Qed.

(* ... but the '#' line-comment forms of the lexer are not protected: "c # ド" becomes "c # c"
   (known finding C17-hash-comment-text). *)
Theorem C17_hash_comment_refuted :
  convert [99; 32; 35; 32; 12489] = Ok [99; 32; 35; 32; 99] /\ [99; 32; 35; 32; 99] <> strip_right [99; 32; 35; 32; 12489].
Proof. exact hash_comment_refuted. Qed.

(* A definition ~{name}={mml} (non-empty name, no braces inside) is removed from the text but its line
   breaks stay: it emits exactly as many line breaks (character 10) as name and mml contain, nothing else
   (so every later line keeps its number), and it applies from its point on: the rest is converted with the
   list updated by set_item + sort_items, the list stays valid, and its scan is the specification's
   longest_match over `define name mml` of the old rows.
   line_breaks s = count_occ Z.eq_dec s 10 (spec/RewriteSpec.v). *)
Theorem C17_user_defs : forall (f : nat) (sl : slist) (name value r : list Z),
  list_ok sl -> name <> [] -> brace_free name = true -> brace_free value = true ->
  (length (def_text name value ++ r) < f)%nat ->
  let sl' := sort_items (set_item name value sl) in
  conv_loop f sl (def_text name value ++ r)
  = bind (conv_loop f sl' r) (fun o => Ok (repeat 10 (line_breaks (name ++ value)) ++ o)) /\ list_ok sl' /\
  forall s, scan (sl_items sl') s = longest_match (define name value (sl_items sl)) s.
Proof. exact conv_user_def. Qed.

(* A definition written on one line emits nothing (before the repair of the line numbers this was what
   every definition did, line breaks inside it included). *)
Theorem C17_user_defs_one_line : forall (f : nat) (sl : slist) (name value r : list Z),
  list_ok sl -> name <> [] -> brace_free name = true -> brace_free value = true ->
  ~ In 10 name -> ~ In 10 value ->
  (length (def_text name value ++ r) < f)%nat ->
  conv_loop f sl (def_text name value ++ r) = conv_loop f (sort_items (set_item name value sl)) r.
Proof. exact conv_user_def_one_line. Qed.

(* The '~' arm keeps the line count, however it ends (no '{' after '~'; a name but no value; an empty
   name; a proper definition) and whatever it steps over (blanks, /* */ comments with line breaks in
   them, nested braces): `removed` is the text from the marker c ('~', OVERLINE or their full-width
   forms) to where the reading stops, `rest` what follows; the arm contributes `out` to the converted text,
   and out is definition_residue removed = repeat 10 (line_breaks removed): the line breaks of the removed
   text and nothing else. No side condition: CR (13) is not a line break on either side (the compiler's
   line counter counts LF only). *)
Theorem C17_definition_keeps_line_count : forall (f : nat) (sl : slist) (c : Z) (r : list Z),
  list_ok sl -> zen2han c = 126 \/ zen2han c = 8254 -> (length (c :: r) < f)%nat ->
  exists sl' removed rest out,
    c :: r = removed ++ rest /\ sl' = fst (fst (read_definition sl r)) /\ rest = snd (fst (read_definition sl r)) /\
    list_ok sl' /\
    conv_loop f sl (c :: r) = bind (conv_loop f sl' rest) (fun o => Ok (out ++ o)) /\
    out = definition_residue removed /\ line_breaks out = line_breaks removed.
Proof. exact definition_keeps_line_count. Qed.

(* The counter returned by read_definition is that number: the text it read has that many line breaks. *)
Theorem C17_read_definition_lines : forall (sl : slist) (r : list Z),
  exists removed, r = removed ++ snd (fst (read_definition sl r)) /\
    snd (read_definition sl r) = Z.of_nat (line_breaks removed).
Proof. exact read_definition_lines. Qed.

(* Homomorphism: an unambiguous reading (every word is the longest match at its position, single
   characters start no word, nothing special) converts to the concatenation of the words' MML and the
   width map of the other characters - for every valid list and whatever follows ... *)
Theorem C17_homomorphism_general : forall (f : nat) (sl : slist) (ps : list piece) (tail : list Z),
  list_ok sl -> segmented (sl_items sl) ps tail = true ->
  (length (src_of ps ++ tail) < f)%nat ->
  conv_loop f sl (src_of ps ++ tail) = bind (conv_loop f sl tail) (fun o => Ok (translit ps ++ o)).
Proof. exact conv_homomorphism. Qed.

(* ... in particular for convert and the built-in table. *)
Theorem C17_homomorphism : forall ps : list piece,
  segmented sutoton_table ps [] = true -> convert (src_of ps) = Ok (strip_right (translit ps)).
Proof. exact homomorphism. Qed.

(* Consequently a Japanese source (words, ASCII, full-width forms, wide spaces) and its
   transliteration are converted to the same MML - hence compile to the same MIDI. *)
Theorem C17_same_mml : forall ps : list piece,
  segmented sutoton_table ps [] = true -> ascii_out ps = true ->
  convert (src_of ps) = convert (translit ps).
Proof. exact convert_same_mml. Qed.

(* convert returns for every input (no panic site exists; the fuel S (length src) is enough), the loop
   returns from every valid list, and fuel above the text length never matters. *)
Theorem C17_total :
  (forall s, exists o, convert s = Ok o) /\
  (forall f sl s, list_ok sl -> (length s < f)%nat -> exists o, conv_loop f sl s = Ok o) /\
  (forall f1 f2 sl s, list_ok sl -> (length s < f1)%nat -> (length s < f2)%nat ->
     conv_loop f1 sl s = conv_loop f2 sl s).
Proof. exact total_all. Qed.

(* ---- non-vacuity ---- *)
(* トラック3ドレミ / テンポ改120 read as words + digits is unambiguous, and the theorem computes on it *)
Definition ex_reading : list piece :=
  [PWord [12488; 12521; 12483; 12463] [84; 114; 97; 99; 107; 61]; PChar 51;
   PWord [12489] [99]; PWord [12524] [100]; PChar 12288;
   PWord [12486; 12531; 12509; 25913] [84; 101; 109; 112; 111; 67; 104; 97; 110; 103; 101; 61]; PChar 65297; PChar 50].
Example C17_example_reading :
  segmented sutoton_table ex_reading [] = true /\ ascii_out ex_reading = true /\
  convert (src_of ex_reading) = Ok [84; 114; 97; 99; 107; 61; 51; 99; 100; 32;
                                    84; 101; 109; 112; 111; 67; 104; 97; 110; 103; 101; 61; 49; 50].
Proof. repeat split; vm_compute; reflexivity. Qed.

(* c {"ド"}/*レ*/d is in the class of the identity theorem *)
Example C17_example_passthru :
  passthru is_ascii (99 :: 32 :: [123; 34] ++ [12489] ++ [34; 125] ++ [47; 42] ++ [12524] ++ [42; 47] ++ [100]).
Proof.
  apply pt_char; [unfold is_ascii; lia | lia | intros [? _]; lia | intros [? _]; lia|].
  apply pt_char; [unfold is_ascii; lia | lia | intros [? _]; lia | intros [? _]; lia|].
  apply pt_string; [reflexivity|]. apply pt_block; [reflexivity|].
  apply pt_char; [unfold is_ascii; lia | lia | intros [? _]; lia | intros [? _]; lia|]. apply pt_nil.
Qed.

(* ~{じゅー}={c} satisfies the hypotheses of C17_user_defs; the unit test of sutoton.rs computes *)
Example C17_example_definition :
  brace_free [12376; 12517; 12540] = true /\ brace_free [99] = true /\
  convert (def_text [12376; 12517; 12540] [99] ++ [12489; 12376; 12517; 12540; 12524]) = Ok [99; 99; 100].
Proof. repeat split; vm_compute; reflexivity. Qed.

(* a definition over three lines: ~{x\ny}={c\nd} then ド - two line breaks are written, then the rest *)
Example C17_example_multiline_definition :
  brace_free [120; 10; 121] = true /\ brace_free [99; 10; 100] = true /\
  line_breaks ([120; 10; 121] ++ [99; 10; 100]) = 2%nat /\
  convert (def_text [120; 10; 121] [99; 10; 100] ++ [12489; 120; 10; 121]) = Ok [10; 10; 99; 99; 10; 100].
Proof. repeat split; vm_compute; reflexivity. Qed.

(* the witness of the repaired finding (C19): "~{x}={c\nd}\nPRINT(1)\n!" keeps PRINT on line 2 and '!' on line 3 *)
Example C17_example_line_numbers_kept :
  convert ([126; 123; 120; 125; 61; 123; 99; 10; 100; 125; 10] ++ [80; 82; 73; 78; 84; 40; 49; 41; 10; 33])
  = Ok ([10; 10] ++ [80; 82; 73; 78; 84; 40; 49; 41; 10; 33]).
Proof. vm_compute. reflexivity. Qed.

(* the four ways the arm ends, each stepping over line breaks; read_definition returns (list, rest, count):
   "~ /*\n*/ c"            no '{' after the marker and a comment: 1 line break, rest "c";
   "~{a\n} /*\n\n*/ c"     a name but no value: 3, rest "c";
   "~{}=/*\n*/{\nv}c"       empty name: 2, rest "c", the list is unchanged;
   "~ {a} = /*\n*/ {v\n}c" proper definition with blanks and a comment between the parts: 2, rest "c";
   and "c" + that definition + "\na" converts to "c\n\nc\nv" (a -> "v\n", the final line break is trimmed) *)
Example C17_example_four_endings :
  snd (read_definition init_items [32; 47; 42; 10; 42; 47; 32; 99]) = 1 /\
  snd (fst (read_definition init_items [32; 47; 42; 10; 42; 47; 32; 99])) = [99] /\
  snd (read_definition init_items [123; 97; 10; 125; 32; 47; 42; 10; 10; 42; 47; 32; 99]) = 3 /\
  snd (fst (read_definition init_items [123; 97; 10; 125; 32; 47; 42; 10; 10; 42; 47; 32; 99])) = [99] /\
  read_definition init_items [123; 125; 61; 47; 42; 10; 42; 47; 123; 10; 118; 125; 99] = (init_items, [99], 2) /\
  snd (read_definition init_items [32; 123; 97; 125; 32; 61; 32; 47; 42; 10; 42; 47; 32; 123; 118; 10; 125; 99]) = 2 /\
  snd (fst (read_definition init_items [32; 123; 97; 125; 32; 61; 32; 47; 42; 10; 42; 47; 32; 123; 118; 10; 125; 99])) = [99] /\
  convert ([99; 126] ++ [32; 123; 97; 125; 32; 61; 32; 47; 42; 10; 42; 47; 32; 123; 118; 10; 125; 99] ++ [10; 97])
  = Ok [99; 10; 10; 99; 10; 118].
Proof. repeat split; vm_compute; reflexivity. Qed.

Print Assumptions C17_sorted_invariant.
Print Assumptions C17_longest.
Print Assumptions C17_zen2han.
Print Assumptions C17_zen2han_is_width_map.
Print Assumptions C17_table_no_ascii.
Print Assumptions C17_ascii_identity.
Print Assumptions C17_strings_comments_verbatim.
Print Assumptions C17_unterminated.
Print Assumptions C17_hash_comment_refuted.
Print Assumptions C17_user_defs.
Print Assumptions C17_user_defs_one_line.
Print Assumptions C17_definition_keeps_line_count.
Print Assumptions C17_read_definition_lines.
Print Assumptions C17_homomorphism_general.
Print Assumptions C17_homomorphism.
Print Assumptions C17_same_mml.
Print Assumptions C17_total.
