(* C17 - Japanese (sutoton) and full-width text become the same MML; ASCII is untouched.
   This file contains only the property statements; every proof is `exact <lemma>`.
   Text = list of Unicode scalar values. `convert` is the model of sutoton::convert, `conv_loop f sl s`
   its main loop from vocabulary list `sl` and remaining text `s` with fuel `f`; `sutoton_table` is
   regenerated from sutoton.rs on every run; longest_match / translit / segmented / passthru / strip_right /
   width_map are the specification (spec/RewriteSpec.v). *)
From Sakura.Model Require Import Base Cursor Cursor2 Zen2han Sutoton.
From Sakura.Gen Require Import SutotonTable.
From Sakura.Spec Require Import RewriteSpec.
From Sakura.Proofs Require Import SutotonP.
From Coq Require Import Sorted.

(* The invariant of the vocabulary list: sorted by non-increasing length of the name IN UTF-8 BYTES
   (that is what `sort_by(|a, b| b.name.len().cmp(&a.name.len()))` compares), unique non-empty names. *)
Definition by_bytes_desc (a b : item) : Prop := utf8_bytes (fst a) >= utf8_bytes (fst b).
Definition vocabulary_ok (l : list item) : Prop :=
  Sorted by_bytes_desc l /\ NoDup (map fst l) /\ Forall (fun it => fst it <> []) l.
Definition list_ok (sl : slist) : Prop := sl_sorted sl = true /\ vocabulary_ok (sl_items sl).

(* It holds after init_items, after every set_item + sort_items with a non-empty name, hence after
   every '~' arm of convert (read_definition is the only place where the list changes); and the
   insertion sort of the model is THE stable sort by descending byte length. *)
Theorem C17_sorted_invariant :
  list_ok init_items /\
  (forall sl name value, list_ok sl -> name <> [] -> list_ok (sort_items (set_item name value sl))) /\
  (forall sl r, list_ok sl -> list_ok (fst (read_definition sl r))) /\
  (forall l l', Sorted by_bytes_desc l' ->
     (forall k, filter (fun e => utf8_bytes (fst e) =? k) l' = filter (fun e => utf8_bytes (fst e) =? k) l) ->
     l' = sort_desc l).
Proof. exact sorted_invariant. Qed.

(* On such a list the first match of the scan is the longest vocabulary word that is a prefix of the
   remaining text (and there is a match iff some word is a prefix); it is the specification's
   longest_match. *)
Theorem C17_longest : forall (L : list item) (rest : list Z), vocabulary_ok L ->
  (forall e, scan L rest = Some e <-> is_longest L rest e) /\
  (scan L rest = None <-> forall e, In e L -> ~ is_prefix (fst e) rest) /\
  scan L rest = longest_match L rest.
Proof. exact longest_all. Qed.

(* The width map, for every code point, by arithmetic. *)
Theorem C17_zen2han : forall c : Z,
  (0xFF01 <= c <= 0xFF5E -> zen2han c = c - 0xFEE0) /\
  ((0x2002 <= c <= 0x200B \/ c = 0x3000 \/ c = 0xFEFF) -> zen2han c = 32) /\
  (~ (0xFF01 <= c <= 0xFF5E) -> ~ (0x2002 <= c <= 0x200B \/ c = 0x3000 \/ c = 0xFEFF) -> zen2han c = c).
Proof. exact zen2han_cases. Qed.

Theorem C17_zen2han_is_width_map : forall c : Z, zen2han c = width_map c.
Proof. exact zen2han_spec. Qed.

(* The regenerated table: names are unique; no word is empty, contains an ASCII character or starts
   with a character the converter treats specially; every MML value is ASCII without '~', '{', '/'. *)
Theorem C17_table_no_ascii :
  NoDup (map fst sutoton_table) /\
  forall n v, In (n, v) sutoton_table ->
    n <> [] /\ (forall c, In c n -> 128 <= c) /\ is_special (hd 0 n) = false /\
    (forall c, In c v -> 0 <= c < 128 /\ c <> 126 /\ c <> 123 /\ c <> 47).
Proof. exact table_facts. Qed.

(* ASCII text without '~' whose strings {"..."} and comments // ...\n, /* ... */ are closed (their
   content is arbitrary, Japanese included) passes through unchanged apart from trailing white space (convert ends with trim_end: leading
   white space is kept so that line numbers are right). *)
Theorem C17_ascii_identity : forall s : list Z, passthru is_ascii s -> convert s = Ok (strip_right s).
Proof. exact ascii_identity. Qed.

(* Closed strings and comments of the three forms the converter knows are copied verbatim, whatever
   they contain, whatever the vocabulary, whatever follows. *)
Theorem C17_strings_comments_verbatim : forall (f : nat) (sl : slist) (r : list Z), list_ok sl ->
  (forall body, occursb [34; 125] ([123; 34] ++ body) = false ->
     (length ([123; 34] ++ body ++ [34; 125] ++ r)%Z < f)%nat ->
     conv_loop f sl ([123; 34] ++ body ++ [34; 125] ++ r)
     = bind (conv_loop f sl r) (fun o => Ok ([123; 34] ++ body ++ [34; 125] ++ o))) /\
  (forall body, ~ In 10 body ->
     (length ([47; 47] ++ body ++ [10] ++ r)%Z < f)%nat ->
     conv_loop f sl ([47; 47] ++ body ++ [10] ++ r)
     = bind (conv_loop f sl r) (fun o => Ok ([47; 47] ++ body ++ [10] ++ o))) /\
  (forall body, occursb [42; 47] ([47; 42] ++ body) = false ->
     (length ([47; 42] ++ body ++ [42; 47] ++ r)%Z < f)%nat ->
     conv_loop f sl ([47; 42] ++ body ++ [42; 47] ++ r)
     = bind (conv_loop f sl r) (fun o => Ok ([47; 42] ++ body ++ [42; 47] ++ o))).
Proof. exact verbatim_all. Qed.

(* Unterminated strings and comments (the terminator occurs nowhere): everything up to the end of the
   text is copied and the terminator - a line break for // - is appended (exact behaviour; such text
   is outside the identity theorem). *)
Theorem C17_unterminated : forall (f : nat) (sl : slist) (body : list Z), list_ok sl ->
  (occursb [34; 125] ([123; 34] ++ body) = false -> (length ([123; 34] ++ body)%Z < f)%nat ->
     conv_loop f sl ([123; 34] ++ body) = Ok ([123; 34] ++ body ++ [34; 125])) /\
  (~ In 10 body -> (length ([47; 47] ++ body)%Z < f)%nat ->
     conv_loop f sl ([47; 47] ++ body) = Ok ([47; 47] ++ body ++ [10])) /\
  (occursb [42; 47] ([47; 42] ++ body) = false -> (length ([47; 42] ++ body)%Z < f)%nat ->
     conv_loop f sl ([47; 42] ++ body) = Ok ([47; 42] ++ body ++ [42; 47])).
Proof. exact conv_unterminated. Qed.

(* ... but the '#' line-comment forms of the lexer are not protected: "c # ド" becomes "c # c"
   (known finding C17-hash-comment-text). *)
Theorem C17_hash_comment_refuted :
  convert [99; 32; 35; 32; 12489] = Ok [99; 32; 35; 32; 99] /\ [99; 32; 35; 32; 99] <> strip_right [99; 32; 35; 32; 12489].
Proof. exact hash_comment_refuted. Qed.

(* A definition ~{name}={mml} (non-empty name, no braces inside) emits nothing and applies from its
   point on: the rest is converted with the list updated by set_item + sort_items, the list stays
   valid, and its scan is the specification's longest_match over `define name mml` of the old rows. *)
Theorem C17_user_defs : forall (f : nat) (sl : slist) (name value r : list Z),
  list_ok sl -> name <> [] -> brace_free name = true -> brace_free value = true ->
  (length (def_text name value ++ r) < f)%nat ->
  let sl' := sort_items (set_item name value sl) in
  conv_loop f sl (def_text name value ++ r) = conv_loop f sl' r /\ list_ok sl' /\
  forall s, scan (sl_items sl') s = longest_match (define name value (sl_items sl)) s.
Proof. exact conv_user_def. Qed.

(* Homomorphism: an unambiguous reading (every word is the longest match at its position, single
   characters start no word, nothing special) converts to the concatenation of the words' MML and the
   width map of the other characters - for every valid list and whatever follows ... *)
Theorem C17_homomorphism_general : forall (f : nat) (sl : slist) (ps : list piece) (tail : list Z),
  list_ok sl -> segmented (sl_items sl) ps tail = true ->
  (length (src_of ps ++ tail) < f)%nat ->
  conv_loop f sl (src_of ps ++ tail) = bind (conv_loop f sl tail) (fun o => Ok (translit ps ++ o)).
Proof. exact conv_homomorphism. Qed.

(* ... in particular for convert and the built-in table. *)
Theorem C17_homomorphism : forall ps : list piece,
  segmented sutoton_table ps [] = true -> convert (src_of ps) = Ok (strip_right (translit ps)).
Proof. exact homomorphism. Qed.

(* Consequently a Japanese source (words, ASCII, full-width forms, wide spaces) and its
   transliteration are converted to the same MML - hence compile to the same MIDI. *)
Theorem C17_same_mml : forall ps : list piece,
  segmented sutoton_table ps [] = true -> ascii_out ps = true ->
  convert (src_of ps) = convert (translit ps).
Proof. exact convert_same_mml. Qed.

(* convert returns for every input (no panic site exists; the fuel S (length src) is enough), the loop
   returns from every valid list, and fuel above the text length never matters. *)
Theorem C17_total :
  (forall s, exists o, convert s = Ok o) /\
  (forall f sl s, list_ok sl -> (length s < f)%nat -> exists o, conv_loop f sl s = Ok o) /\
  (forall f1 f2 sl s, list_ok sl -> (length s < f1)%nat -> (length s < f2)%nat ->
     conv_loop f1 sl s = conv_loop f2 sl s).
Proof. exact total_all. Qed.

(* ---- non-vacuity ---- *)
(* トラック3ドレミ / テンポ改120 read as words + digits is unambiguous, and the theorem computes on it *)
Definition ex_reading : list piece :=
  [PWord [12488; 12521; 12483; 12463] [84; 114; 97; 99; 107; 61]; PChar 51;
   PWord [12489] [99]; PWord [12524] [100]; PChar 12288;
   PWord [12486; 12531; 12509; 25913] [84; 101; 109; 112; 111; 67; 104; 97; 110; 103; 101; 61]; PChar 65297; PChar 50].
Example C17_example_reading :
  segmented sutoton_table ex_reading [] = true /\ ascii_out ex_reading = true /\
  convert (src_of ex_reading) = Ok [84; 114; 97; 99; 107; 61; 51; 99; 100; 32;
                                    84; 101; 109; 112; 111; 67; 104; 97; 110; 103; 101; 61; 49; 50].
Proof. repeat split; vm_compute; reflexivity. Qed.

(* c {"ド"}/*レ*/d is in the class of the identity theorem *)
Example C17_example_passthru :
  passthru is_ascii (99 :: 32 :: [123; 34] ++ [12489] ++ [34; 125] ++ [47; 42] ++ [12524] ++ [42; 47] ++ [100]).
Proof.
  apply pt_char; [unfold is_ascii; lia | lia | intros [? _]; lia | intros [? _]; lia|].
  apply pt_char; [unfold is_ascii; lia | lia | intros [? _]; lia | intros [? _]; lia|].
  apply pt_string; [reflexivity|]. apply pt_block; [reflexivity|].
  apply pt_char; [unfold is_ascii; lia | lia | intros [? _]; lia | intros [? _]; lia|]. apply pt_nil.
Qed.

(* ~{じゅー}={c} satisfies the hypotheses of C17_user_defs; the unit test of sutoton.rs computes *)
Example C17_example_definition :
  brace_free [12376; 12517; 12540] = true /\ brace_free [99] = true /\
  convert (def_text [12376; 12517; 12540] [99] ++ [12489; 12376; 12517; 12540; 12524]) = Ok [99; 99; 100].
Proof. repeat split; vm_compute; reflexivity. Qed.

Print Assumptions C17_sorted_invariant.
Print Assumptions C17_longest.
Print Assumptions C17_zen2han.
Print Assumptions C17_zen2han_is_width_map.
Print Assumptions C17_table_no_ascii.
Print Assumptions C17_ascii_identity.
Print Assumptions C17_strings_comments_verbatim.
Print Assumptions C17_unterminated.
Print Assumptions C17_hash_comment_refuted.
Print Assumptions C17_user_defs.
Print Assumptions C17_homomorphism_general.
Print Assumptions C17_homomorphism.
Print Assumptions C17_same_mml.
Print Assumptions C17_total.
