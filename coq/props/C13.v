(* C13 - ties and slurs (&) join notes as documented without disturbing the rest.
   Statements only; proofs are `exact <lemma>` (proofs/TieP.v).  Model: model/Tie.v (check_tie_notes and
   tie_mode_port / bend / gate / alpe of runner.rs), the slur branch of RunCore.emit_note (exec_note), the
   final flush in Compile.tracks_for_writer (flush_tie_notes in generate).

   A tied group is the list `first :: rest` of note events collected in tr_tie_notes, in the order written,
   each ev_note time ch key gate vel (e_time, e_ch, e_v1, e_v2, e_v3).  Every theorem is for ARBITRARY groups.
   Vocabulary (proofs/TieP.v section 0, none of it refers to the model's loops):
     group_end first rest   = time + gate of the LAST note of the group
     runs first rest        = the maximal runs of equal pitch, each as (its first note, end of its last note)
                              - characterised by C13_runs_maximal
     set_v2 e d             = the note e with duration d (start, channel, key, velocity unchanged)
     announce ch br t0      = [PitchBendRange 12 at max(0, t0-1)] when the track had no bend range (br <= 0), else []
     eff_br br              = 12 when br <= 0, else br;   eff_tv tb tv = timebase*4/8 when tv = 0, else tv
     bend_value diff br     = clamp(0, trunc(f32(diff*8192/br)) + 8192, 16383)        (mode 1)
     port_out, port_ramp    = the notes and glides of mode 0 (below)
     note_count l           = number of NoteOn events of l *)
From Sakura.Model Require Import Base Event Song F32 Tie RunCore Compile.
From Sakura.Proofs Require Import ExtP TieP.
From Coq Require Import Sorted.

(* runs = the group cut into consecutive non-empty blocks of one pitch, neighbouring blocks of different
   pitch, each reported as (first note of the block, time + gate of the block's last note) *)
Theorem C13_runs_maximal : forall (first : event) (rest : list event), is_runs (first :: rest) (runs first rest).
Proof. exact runs_is_runs. Qed.

(* Slur modes 0-2, all notes of the group of one pitch: exactly ONE note, the first one, sounding from the
   first start to the last note's end.  Modes 0 and 2 write nothing else and leave the bend range alone;
   mode 1 also writes bend 8192 at the start and at the end, and announces the bend range if the track
   had none. *)
Theorem C13_same_pitch_merge : forall (tb : Z) (t : track) (first : event) (rest : list event),
  tr_tie_notes t = first :: rest -> Forall (fun e => e_v1 e = e_v1 first) rest ->
  let en := group_end first rest in
  let whole := set_v2 first (en - e_time first) in
  (tr_tie_mode t = 0 \/ tr_tie_mode t = 2 ->
     tr_events (check_tie_notes tb t) = tr_events t ++ [whole]
     /\ tr_bend_range (check_tie_notes tb t) = tr_bend_range t)
  /\ (tr_tie_mode t = 1 ->
     tr_events (check_tie_notes tb t) =
       tr_events t ++ announce (tr_channel t) (tr_bend_range t) (e_time first)
       ++ [ev_pitch_bend (e_time first) (tr_channel t) 8192; whole; ev_pitch_bend en (tr_channel t) 8192]).
Proof. exact same_pitch_merge. Qed.

(* Slur(2,v): one note per run of equal pitch (run i sounds its first note); it lasts until the next run
   begins when v = 0, exactly v ticks otherwise; the last run lasts to the end of the group.  Nothing else
   is written. *)
Theorem C13_mode_gate : forall (tb : Z) (t : track) (first : event) (rest : list event),
  tr_tie_notes t = first :: rest -> tr_tie_mode t = 2 ->
  let rs := runs first rest in
  let tv := tr_tie_value t in
  exists out, tr_events (check_tie_notes tb t) = tr_events t ++ out /\ length out = length rs /\
    forall i d, (i < length rs)%nat ->
      let h := fst (nth i rs (d, 0)) in
      nth i out d =
        set_v2 h (if (S i <? length rs)%nat
                  then (if tv =? 0 then e_time (fst (nth (S i) rs (d, 0))) - e_time h else tv)
                  else group_end first rest - e_time h).
Proof. exact mode_gate_runs. Qed.

(* Slur(3): exactly the notes written - same type, start, channel, key, velocity, in the same order -
   every one ending where the group ends; nothing else *)
Theorem C13_mode_alpe : forall (tb : Z) (t : track) (first : event) (rest : list event),
  tr_tie_notes t = first :: rest -> tr_tie_mode t = 3 ->
  let out := map (fun e => set_v2 e (group_end first rest - e_time e)) (first :: rest) in
  tr_events (check_tie_notes tb t) = tr_events t ++ out
  /\ length out = length (first :: rest)
  /\ map (fun e => (e_type e, e_time e, e_ch e, e_v1 e, e_v3 e, e_data e)) out
     = map (fun e => (e_type e, e_time e, e_ch e, e_v1 e, e_v3 e, e_data e)) (first :: rest)
  /\ Forall (fun e => e_time e + e_v2 e = group_end first rest) out
  /\ tr_bend_range (check_tie_notes tb t) = tr_bend_range t.
Proof. exact mode_alpe_spec. Qed.

(* Slur(1): in this order - the bend-range announcement (if the track had none), bend 8192 at the start,
   one bend per pitch change (= per run after the first) at the changing note's start with the value of
   the difference to the FIRST note, the first note lasting to the end of the group, bend 8192 at the end *)
Theorem C13_mode_bend : forall (tb : Z) (t : track) (first : event) (rest : list event),
  tr_tie_notes t = first :: rest -> tr_tie_mode t = 1 ->
  let ch := tr_channel t in
  let br := eff_br (tr_bend_range t) in
  let en := group_end first rest in
  tr_events (check_tie_notes tb t) =
    tr_events t ++ announce ch (tr_bend_range t) (e_time first)
    ++ [ev_pitch_bend (e_time first) ch 8192]
    ++ map (fun p => ev_pitch_bend (e_time (fst p)) ch (bend_value (e_v1 (fst p) - e_v1 first) br)) (tl (runs first rest))
    ++ [set_v2 first (en - e_time first); ev_pitch_bend en ch 8192]
  /\ tr_bend_range (check_tie_notes tb t) = br.
Proof. exact mode_bend_spec. Qed.

(* at the range the track gets by default (12) the f32 expression is exactly the truncated quotient *)
Theorem C13_bend_value_range12 : forall d : Z, -127 <= d <= 127 ->
  bend_value d 12 = value_range 0 (Z.quot (d * 8192) 12 + 8192) 16383.
Proof. exact bend_value_12. Qed.

(* Slur(0,v): per run of equal pitch one note (its first note); every run but the last lasts exactly until
   the next run starts and is preceded in the list by the glide into the next pitch and followed by
   bend 8192 at the next run's start; the last run lasts to the end of the group.  The bend range is
   announced (once) only if there is a pitch change. *)
Theorem C13_mode_port : forall (tb : Z) (t : track) (first : event) (rest : list event),
  tr_tie_notes t = first :: rest -> tr_tie_mode t = 0 ->
  let ch := tr_channel t in
  let rs := runs first rest in
  tr_events (check_tie_notes tb t) =
    tr_events t ++ (if (2 <=? length rs)%nat then announce ch (tr_bend_range t) (e_time first) else [])
    ++ port_out ch (eff_tv tb (tr_tie_value t)) (eff_br (tr_bend_range t)) rs
  /\ tr_bend_range (check_tie_notes tb t) = (if (2 <=? length rs)%nat then eff_br (tr_bend_range t) else tr_bend_range t).
Proof. exact mode_port_spec. Qed.

Theorem C13_mode_port_unfold : forall (ch tv br : Z) (h h' : event) (en en' : Z) (rs : list (event * Z)),
  port_out ch tv br [(h, en)] = [set_v2 h (en - e_time h)]
  /\ port_out ch tv br ((h, en) :: (h', en') :: rs) =
       port_ramp ch tv br h h' ++ [set_v2 h (e_time h' - e_time h); ev_pitch_bend (e_time h') ch 8192]
       ++ port_out ch tv br ((h', en') :: rs).
Proof. intros. split; reflexivity. Qed.

(* the glide from run h into run h': bends only, on the track's channel, at strictly increasing ticks of
   [start(h') - tv, start(h')), each the clamped value of step j of tv *)
Theorem C13_mode_port_ramp : forall (ch tv br : Z) (h h' : event),
  Forall (fun e => exists j, 0 <= j < tv /\
                   e = ev_pitch_bend (e_time h' - tv + j) ch
                         (value_range 0 (port_v (bend_from (e_v1 h' - e_v1 h) br) j tv + 8192) 16383))
         (port_ramp ch tv br h h')
  /\ StronglySorted (fun a b => e_time a < e_time b) (port_ramp ch tv br h h').
Proof. exact port_ramp_shape. Qed.

(* every pitch bend written by check_tie_notes is a legal 14-bit value - all modes, all groups *)
Theorem C13_bend_in_range : forall (tb : Z) (t : track),
  Forall (fun e => e_type e = NoteOn) (tr_tie_notes t) ->
  exists new, tr_events (check_tie_notes tb t) = tr_events t ++ new /\
              Forall (fun e => e_type e = PitchBend -> 0 <= e_v1 e <= 16383) new.
Proof. exact bend_in_range. Qed.

(* the group is cleared, in every mode (also when nothing was pending) *)
Theorem C13_clears : forall (tb : Z) (t : track), tr_tie_notes (check_tie_notes tb t) = [].
Proof. exact check_clears. Qed.

(* no note is sounded twice: never more NoteOn events than notes written; exactly as many in mode 3, one
   in mode 1, one per run in modes 0 and 2 (so: as many as written when neighbouring pitches differ) *)
Theorem C13_no_double : forall (tb : Z) (t : track),
  Forall (fun e => e_type e = NoteOn) (tr_tie_notes t) ->
  exists new, tr_events (check_tie_notes tb t) = tr_events t ++ new /\
    (note_count new <= length (tr_tie_notes t))%nat /\
    (tr_tie_mode t = 3 -> note_count new = length (tr_tie_notes t)) /\
    (tr_tie_mode t = 1 -> tr_tie_notes t <> [] -> note_count new = 1%nat) /\
    (tr_tie_mode t = 0 \/ tr_tie_mode t = 2 -> forall first rest, tr_tie_notes t = first :: rest ->
       note_count new = length (runs first rest) /\
       (neighbours_differ first rest -> note_count new = length (tr_tie_notes t))).
Proof. exact no_double. Qed.

(* frame: check_tie_notes touches nothing but the event list (appending), the pending group and the bend
   range (which only ever goes from "none" to 12) *)
Theorem C13_frame : forall (tb : Z) (t : track),
  let t' := check_tie_notes tb t in
  tr_timepos t' = tr_timepos t /\ tr_channel t' = tr_channel t /\ tr_length t' = tr_length t /\
  tr_octave t' = tr_octave t /\ tr_velocity t' = tr_velocity t /\ tr_qlen t' = tr_qlen t /\
  tr_timing t' = tr_timing t /\ tr_track_key t' = tr_track_key t /\
  tr_tie_mode t' = tr_tie_mode t /\ tr_tie_value t' = tr_tie_value t /\
  (exists new, tr_events t' = tr_events t ++ new) /\
  (tr_bend_range t' = tr_bend_range t \/ (tr_bend_range t <= 0 /\ tr_bend_range t' = 12)).
Proof. exact check_frame. Qed.

(* the time pointer: a lettered note outside a chord advances the pointer of its track by its full length
   whatever its '&' (slur) is and whether or not it closes a group; apart from the event list, the pending
   group and the bend range, the state afterwards is the same for every slur value: other tracks
   untouched, song-level state untouched except the consumed octave-once, which is undone *)
Theorem C13_pointer : forall (s : song) (ev : event) (notelen slur : Z),
  cur_valid s -> s_harmony_flag s = false ->
  exists s', emit_note s ev notelen true slur = Ok s' /\
    s_cur s' = s_cur s /\ length (s_tracks s') = length (s_tracks s) /\
    (forall i d, i <> s_cur s -> nth i (s_tracks s') d = nth i (s_tracks s) d) /\
    s_set_tracks s' [] = s_set_octave_once (s_set_tracks s []) 0 /\
    tie_frame_eq (cur_track s')
                 (tr_set_octave (tr_set_timepos (cur_track s) (tr_timepos (cur_track s) + notelen))
                                (tr_octave (cur_track s) - s_octave_once s)).
Proof. exact emit_note_pointer. Qed.

(* '&' collects; the first note without '&' joins the group, closes it and writes it (as the mode
   theorems say); a note outside a group is written directly *)
Theorem C13_group : forall (s : song) (ev : event) (notelen slur : Z),
  cur_valid s -> s_harmony_flag s = false ->
  exists s', emit_note s ev notelen true slur = Ok s' /\
    let t := cur_track s in let t' := cur_track s' in
    (1 <= slur -> tr_tie_notes t' = tr_tie_notes t ++ [ev] /\ tr_events t' = tr_events t) /\
    (slur < 1 -> tr_tie_notes t = [] -> tr_tie_notes t' = [] /\
       (* since the pipeline model knows controller reservations: the values reserved for this note (y.onNote,
          y.onNoteWave) are written before it - channel events without payload, none when nothing is reserved *)
       exists cc, Forall plain_ev cc /\ tr_events t' = tr_events t ++ cc ++ [ev] /\ (tr_rsv t = rsv_new -> cc = [])) /\
    (slur < 1 -> tr_tie_notes t <> [] -> tr_tie_notes t' = [] /\
       exists first rest, tr_tie_notes t ++ [ev] = first :: rest /\
         tr_events t' = tr_events t ++ tie_out (s_timebase s) t first rest).
Proof. exact emit_note_group. Qed.

(* a group still pending at the end of the song is written: what reaches the SMF writer is, for every
   track, the event list after check_tie_notes - as it is without PlayFrom, through the PlayFrom cut `post`
   (the same function for every track, C14's subject) otherwise *)
Theorem C13_flush_at_end : forall s : song,
  length (tracks_for_writer s) = length (s_tracks s) /\
  (exists post : list event -> list event,
     (s_play_from s < 0 -> forall evs, post evs = evs) /\
     tracks_for_writer s = map (fun t => post (tr_events (check_tie_notes (s_timebase s) t))) (s_tracks s)) /\
  forall i t, nth_error (s_tracks s) i = Some t ->
    (s_play_from s < 0 ->
       nth_error (tracks_for_writer s) i = Some (tr_events (check_tie_notes (s_timebase s) t)))
    /\ (forall first rest, tr_tie_notes t = first :: rest ->
          tr_events (check_tie_notes (s_timebase s) t) = tr_events t ++ tie_out (s_timebase s) t first rest)
    /\ (tr_tie_notes t = [] -> tr_events (check_tie_notes (s_timebase s) t) = tr_events t)
    /\ (forall e, tr_tie_notes t = [e] -> tr_tie_mode t <> 1 ->
          tr_events (check_tie_notes (s_timebase s) t) = tr_events t ++ [e]).
Proof. exact flush_at_end. Qed.

(* ---- non-vacuity: concrete groups (timebase 96, quarter notes at gate 90%) ---- *)
Definition ex_track (mode tv br : Z) (g : list event) : track :=
  tr_set_tie (tr_set_timepos (track_new 96 0) 384) mode tv br [ev_voice 0 0 4] g.
Definition nt (t k gate : Z) : event := ev_note t 0 k gate 100.

Example C13_example_runs :
  runs (nt 0 60 86) [nt 96 60 86; nt 192 62 86; nt 240 64 20; nt 260 64 30] = [(nt 0 60 86, 182); (nt 192 62 86, 278); (nt 240 64 20, 290)]
  /\ group_end (nt 0 60 86) [nt 96 60 86; nt 192 62 86; nt 240 64 20; nt 260 64 30] = 290.
Proof. split; reflexivity. Qed.

(* l4 c&c8&c16 : one note of 96+48+(gate of the last) *)
Example C13_example_same_pitch :
  let g := [nt 0 60 86; nt 96 60 43; nt 144 60 21] in
  Forall (fun e => e_v1 e = 60) (tl g) /\
  tr_events (check_tie_notes 96 (ex_track 0 0 (-1) g)) = [ev_voice 0 0 4; nt 0 60 165] /\
  tr_events (check_tie_notes 96 (ex_track 2 10 (-1) g)) = [ev_voice 0 0 4; nt 0 60 165] /\
  tr_events (check_tie_notes 96 (ex_track 1 0 (-1) g)) =
    [ev_voice 0 0 4; ev_pitch_bend_range 0 0 12; ev_pitch_bend 0 0 8192; nt 0 60 165; ev_pitch_bend 165 0 8192].
Proof. split; [repeat constructor | vm_compute; repeat split]. Qed.

(* Slur(2,v) l4 c&c&d8&e *)
Example C13_example_gate :
  let g := [nt 0 60 86; nt 96 60 86; nt 192 62 43; nt 240 64 86] in
  tr_events (check_tie_notes 96 (ex_track 2 0 (-1) g)) = [ev_voice 0 0 4; nt 0 60 192; nt 192 62 48; nt 240 64 86] /\
  tr_events (check_tie_notes 96 (ex_track 2 10 (-1) g)) = [ev_voice 0 0 4; nt 0 60 10; nt 192 62 10; nt 240 64 86].
Proof. vm_compute. split; reflexivity. Qed.

(* l4 Slur(3) c&e&g *)
Example C13_example_alpe :
  tr_events (check_tie_notes 96 (ex_track 3 0 (-1) [nt 0 60 86; nt 96 64 86; nt 192 67 86])) =
    [ev_voice 0 0 4; nt 0 60 278; nt 96 64 182; nt 192 67 86] /\
  tr_tie_notes (check_tie_notes 96 (ex_track 3 0 (-1) [nt 0 60 86; nt 96 64 86; nt 192 67 86])) = [].
Proof. vm_compute. split; reflexivity. Qed.

(* l4 Slur(1) c&d&c (bends back to the first pitch) and c&>c&<<c at range 12 (clamped at both ends) *)
Example C13_example_bend :
  tr_events (check_tie_notes 96 (ex_track 1 0 (-1) [nt 0 60 86; nt 96 62 86; nt 192 60 86])) =
    [ev_voice 0 0 4; ev_pitch_bend_range 0 0 12; ev_pitch_bend 0 0 8192; ev_pitch_bend 96 0 9557; ev_pitch_bend 192 0 8192;
     nt 0 60 278; ev_pitch_bend 278 0 8192] /\
  tr_events (check_tie_notes 96 (ex_track 1 0 12 [nt 10 60 86; nt 106 72 86; nt 202 48 86])) =
    [ev_voice 0 0 4; ev_pitch_bend 10 0 8192; ev_pitch_bend 106 0 16383; ev_pitch_bend 202 0 0; nt 10 60 278; ev_pitch_bend 288 0 8192] /\
  (-127 <= 12 <= 127) /\ bend_value 12 12 = 16383 /\ bend_value 2 12 = 9557.
Proof. vm_compute. repeat split; discriminate. Qed.

(* Slur(0,4) l4 c&c&d : the glide occupies the 4 ticks before d (step 0 has value 8192 = no change, skipped) *)
Example C13_example_port :
  tr_events (check_tie_notes 96 (ex_track 0 4 (-1) [nt 0 60 86; nt 96 60 86; nt 192 62 86])) =
    [ev_voice 0 0 4; ev_pitch_bend_range 0 0 12; ev_pitch_bend 189 0 8533; ev_pitch_bend 190 0 8874; ev_pitch_bend 191 0 9215;
     nt 0 60 192; ev_pitch_bend 192 0 8192; nt 192 62 86] /\
  tr_bend_range (check_tie_notes 96 (ex_track 0 4 (-1) [nt 0 60 86; nt 96 60 86; nt 192 62 86])) = 12 /\
  port_ramp 0 4 12 (nt 0 60 192) (nt 192 62 86) = [ev_pitch_bend 189 0 8533; ev_pitch_bend 190 0 8874; ev_pitch_bend 191 0 9215].
Proof. vm_compute. repeat split. Qed.

(* the pointer law and the group life cycle on a song: track 0 at tick 384 *)
Definition ex_song (g : list event) : song := s_set_tracks song_new [ex_track 3 0 (-1) g].
Example C13_example_pointer :
  cur_valid (ex_song []) /\ s_harmony_flag (ex_song []) = false /\
  (forall slur, In slur [0; 1; 10] ->
     match emit_note (ex_song [nt 288 60 86]) (nt 384 64 86) 96 true slur with
     | Ok s' => tr_timepos (cur_track s') = 480
     | _ => False
     end) /\
  match emit_note (ex_song [nt 288 60 86]) (nt 384 64 86) 96 true 0 with
  | Ok s' => tr_events (cur_track s') = [ev_voice 0 0 4; nt 288 60 182; nt 384 64 86] /\ tr_tie_notes (cur_track s') = []
  | _ => False
  end.
Proof.
  split; [unfold cur_valid; cbn; lia|]. split; [reflexivity|]. split.
  - intros slur [<-|[<-|[<-|[]]]]; vm_compute; reflexivity.
  - vm_compute. split; reflexivity.
Qed.

(* `c&` at the end of a track *)
Example C13_example_flush :
  tracks_for_writer (ex_song [nt 288 60 86]) = [[ev_voice 0 0 4; nt 288 60 86]].
Proof. vm_compute. reflexivity. Qed.

Print Assumptions C13_runs_maximal.
Print Assumptions C13_same_pitch_merge.
Print Assumptions C13_mode_gate.
Print Assumptions C13_mode_alpe.
Print Assumptions C13_mode_bend.
Print Assumptions C13_bend_value_range12.
Print Assumptions C13_mode_port.
Print Assumptions C13_mode_port_unfold.
Print Assumptions C13_mode_port_ramp.
Print Assumptions C13_bend_in_range.
Print Assumptions C13_clears.
Print Assumptions C13_no_double.
Print Assumptions C13_frame.
Print Assumptions C13_pointer.
Print Assumptions C13_group.
Print Assumptions C13_flush_at_end.
