(* C13 - ties and slurs (&) join notes as documented without disturbing the rest.
   Statements only; proofs are `exact <lemma>` (proofs/TieP.v).  Model: model/Tie.v (check_tie_notes and
   tie_mode_port / bend / gate / alpe of runner.rs), the slur branch of RunCore.emit_note (exec_note), the
   final flush in Compile.tracks_for_writer (flush_tie_notes in generate).

   A tied group is the list `first :: rest` of note events collected in tr_tie_notes, in the order written,
   each ev_note time ch key gate vel (e_time, e_ch, e_v1, e_v2, e_v3).  Every theorem is for ARBITRARY groups.
   Vocabulary (proofs/TieP.v section 0, none of it refers to the model's loops):
     group_end first rest   = time + gate of the LAST note of the group
     runs first rest        = the maximal runs of equal pitch, each as (its first note, end of its last note)
                              - characterised by C13_runs_maximal
     set_v2 e d             = the note e with duration d (start, channel, key, velocity unchanged)
     announce ch br t0      = [PitchBendRange 12 at max(0, t0-1)] when the track had no bend range (br <= 0), else []
     eff_br br              = 12 when br <= 0, else br;   eff_tv tb tv = timebase*4/8 when tv = 0, else tv
     bend_value diff br     = clamp(0, trunc(f32(diff*8192/br)) + 8192, 16383)        (mode 1)
     port_out, port_ramp    = the notes and glides of mode 0 (below)
     note_count l           = number of NoteOn events of l *)
From Sakura.Model Require Import Base Event Song F32 Tie RunCore Compile.
From Sakura.Proofs Require Import ExtP TieP TieAccP.
From Coq Require Import Sorted.

(* runs = the group cut into consecutive non-empty blocks of one pitch, neighbouring blocks of different
   pitch, each reported as (first note of the block, time + gate of the block's last note) *)
Theorem C13_runs_maximal : forall (first : event) (rest : list event), is_runs (first :: rest) (runs first rest).
Proof. exact runs_is_runs. Qed.

(* Slur modes 0-2, all notes of the group of one pitch: exactly ONE note, the first one, sounding from the
   first start to the last note's end.  Modes 0 and 2 write nothing else and leave the bend range alone;
   mode 1 also writes bend 8192 at the start and at the end, and announces the bend range if the track
   had none. *)
Theorem C13_same_pitch_merge : forall (tb : Z) (t : track) (first : event) (rest : list event),
  tr_tie_notes t = first :: rest -> Forall (fun e => e_v1 e = e_v1 first) rest ->
  let en := group_end first rest in
  let whole := set_v2 first (en - e_time first) in
  (tr_tie_mode t = 0 \/ tr_tie_mode t = 2 ->
     tr_events (check_tie_notes tb t) = tr_events t ++ [whole]
     /\ tr_bend_range (check_tie_notes tb t) = tr_bend_range t)
  /\ (tr_tie_mode t = 1 ->
     tr_events (check_tie_notes tb t) =
       tr_events t ++ announce (tr_channel t) (tr_bend_range t) (e_time first)
       ++ [ev_pitch_bend (e_time first) (tr_channel t) 8192; whole; ev_pitch_bend en (tr_channel t) 8192]).
Proof. exact same_pitch_merge. Qed.

(* Slur(2,v): one note per run of equal pitch (run i sounds its first note); it lasts until the next run
   begins when v = 0, exactly v ticks otherwise; the last run lasts to the end of the group.  Nothing else
   is written. *)
Theorem C13_mode_gate : forall (tb : Z) (t : track) (first : event) (rest : list event),
  tr_tie_notes t = first :: rest -> tr_tie_mode t = 2 ->
  let rs := runs first rest in
  let tv := tr_tie_value t in
  exists out, tr_events (check_tie_notes tb t) = tr_events t ++ out /\ length out = length rs /\
    forall i d, (i < length rs)%nat ->
      let h := fst (nth i rs (d, 0)) in
      nth i out d =
        set_v2 h (if (S i <? length rs)%nat
                  then (if tv =? 0 then e_time (fst (nth (S i) rs (d, 0))) - e_time h else tv)
                  else group_end first rest - e_time h).
Proof. exact mode_gate_runs. Qed.

(* Slur(3): exactly the notes written - same type, start, channel, key, velocity, in the same order -
   every one ending where the group ends; nothing else *)
Theorem C13_mode_alpe : forall (tb : Z) (t : track) (first : event) (rest : list event),
  tr_tie_notes t = first :: rest -> tr_tie_mode t = 3 ->
  let out := map (fun e => set_v2 e (group_end first rest - e_time e)) (first :: rest) in
  tr_events (check_tie_notes tb t) = tr_events t ++ out
  /\ length out = length (first :: rest)
  /\ map (fun e => (e_type e, e_time e, e_ch e, e_v1 e, e_v3 e, e_data e)) out
     = map (fun e => (e_type e, e_time e, e_ch e, e_v1 e, e_v3 e, e_data e)) (first :: rest)
  /\ Forall (fun e => e_time e + e_v2 e = group_end first rest) out
  /\ tr_bend_range (check_tie_notes tb t) = tr_bend_range t.
Proof. exact mode_alpe_spec. Qed.

(* Slur(1): in this order - the bend-range announcement (if the track had none), bend 8192 at the start,
   one bend per pitch change (= per run after the first) at the changing note's start with the value of
   the difference to the FIRST note, the first note lasting to the end of the group, bend 8192 at the end *)
Theorem C13_mode_bend : forall (tb : Z) (t : track) (first : event) (rest : list event),
  tr_tie_notes t = first :: rest -> tr_tie_mode t = 1 ->
  let ch := tr_channel t in
  let br := eff_br (tr_bend_range t) in
  let en := group_end first rest in
  tr_events (check_tie_notes tb t) =
    tr_events t ++ announce ch (tr_bend_range t) (e_time first)
    ++ [ev_pitch_bend (e_time first) ch 8192]
    ++ map (fun p => ev_pitch_bend (e_time (fst p)) ch (bend_value (e_v1 (fst p) - e_v1 first) br)) (tl (runs first rest))
    ++ [set_v2 first (en - e_time first); ev_pitch_bend en ch 8192]
  /\ tr_bend_range (check_tie_notes tb t) = br.
Proof. exact mode_bend_spec. Qed.

(* at the range the track gets by default (12) the f32 expression is exactly the truncated quotient *)
Theorem C13_bend_value_range12 : forall d : Z, -127 <= d <= 127 ->
  bend_value d 12 = value_range 0 (Z.quot (d * 8192) 12 + 8192) 16383.
Proof. exact bend_value_12. Qed.

(* Slur(0,v): per run of equal pitch one note (its first note); every run but the last lasts exactly until
   the next run starts and is preceded in the list by the glide into the next pitch and followed by
   bend 8192 at the next run's start; the last run lasts to the end of the group.  The bend range is
   announced (once) only if there is a pitch change. *)
Theorem C13_mode_port : forall (tb : Z) (t : track) (first : event) (rest : list event),
  tr_tie_notes t = first :: rest -> tr_tie_mode t = 0 ->
  let ch := tr_channel t in
  let rs := runs first rest in
  tr_events (check_tie_notes tb t) =
    tr_events t ++ (if (2 <=? length rs)%nat then announce ch (tr_bend_range t) (e_time first) else [])
    ++ port_out ch (eff_tv tb (tr_tie_value t)) (eff_br (tr_bend_range t)) rs
  /\ tr_bend_range (check_tie_notes tb t) = (if (2 <=? length rs)%nat then eff_br (tr_bend_range t) else tr_bend_range t).
Proof. exact mode_port_spec. Qed.

Theorem C13_mode_port_unfold : forall (ch tv br : Z) (h h' : event) (en en' : Z) (rs : list (event * Z)),
  port_out ch tv br [(h, en)] = [set_v2 h (en - e_time h)]
  /\ port_out ch tv br ((h, en) :: (h', en') :: rs) =
       port_ramp ch tv br h h' ++ [set_v2 h (e_time h' - e_time h); ev_pitch_bend (e_time h') ch 8192]
       ++ port_out ch tv br ((h', en') :: rs).
Proof. intros. split; reflexivity. Qed.

(* the glide from run h into run h': bends only, on the track's channel, at strictly increasing ticks of
   [start(h') - tv, start(h')), each the clamped value of step j of tv *)
Theorem C13_mode_port_ramp : forall (ch tv br : Z) (h h' : event),
  Forall (fun e => exists j, 0 <= j < tv /\
                   e = ev_pitch_bend (e_time h' - tv + j) ch
                         (value_range 0 (port_v (bend_from (e_v1 h' - e_v1 h) br) j tv + 8192) 16383))
         (port_ramp ch tv br h h')
  /\ StronglySorted (fun a b => e_time a < e_time b) (port_ramp ch tv br h h').
Proof. exact port_ramp_shape. Qed.

(* every pitch bend written by check_tie_notes is a legal 14-bit value - all modes, all groups *)
Theorem C13_bend_in_range : forall (tb : Z) (t : track),
  Forall (fun e => e_type e = NoteOn) (tr_tie_notes t) ->
  exists new, tr_events (check_tie_notes tb t) = tr_events t ++ new /\
              Forall (fun e => e_type e = PitchBend -> 0 <= e_v1 e <= 16383) new.
Proof. exact bend_in_range. Qed.

(* the group is cleared, in every mode (also when nothing was pending) *)
Theorem C13_clears : forall (tb : Z) (t : track), tr_tie_notes (check_tie_notes tb t) = [].
Proof. exact check_clears. Qed.

(* no note is sounded twice: never more NoteOn events than notes written; exactly as many in mode 3, one
   in mode 1, one per run in modes 0 and 2 (so: as many as written when neighbouring pitches differ) *)
Theorem C13_no_double : forall (tb : Z) (t : track),
  Forall (fun e => e_type e = NoteOn) (tr_tie_notes t) ->
  exists new, tr_events (check_tie_notes tb t) = tr_events t ++ new /\
    (note_count new <= length (tr_tie_notes t))%nat /\
    (tr_tie_mode t = 3 -> note_count new = length (tr_tie_notes t)) /\
    (tr_tie_mode t = 1 -> tr_tie_notes t <> [] -> note_count new = 1%nat) /\
    (tr_tie_mode t = 0 \/ tr_tie_mode t = 2 -> forall first rest, tr_tie_notes t = first :: rest ->
       note_count new = length (runs first rest) /\
       (neighbours_differ first rest -> note_count new = length (tr_tie_notes t))).
Proof. exact no_double. Qed.

(* frame: check_tie_notes touches nothing but the event list (appending), the pending group and the bend
   range (which only ever goes from "none" to 12) *)
Theorem C13_frame : forall (tb : Z) (t : track),
  let t' := check_tie_notes tb t in
  tr_timepos t' = tr_timepos t /\ tr_channel t' = tr_channel t /\ tr_length t' = tr_length t /\
  tr_octave t' = tr_octave t /\ tr_velocity t' = tr_velocity t /\ tr_qlen t' = tr_qlen t /\
  tr_timing t' = tr_timing t /\ tr_track_key t' = tr_track_key t /\
  tr_tie_mode t' = tr_tie_mode t /\ tr_tie_value t' = tr_tie_value t /\
  (exists new, tr_events t' = tr_events t ++ new) /\
  (tr_bend_range t' = tr_bend_range t \/ (tr_bend_range t <= 0 /\ tr_bend_range t' = 12)).
Proof. exact check_frame. Qed.

(* the time pointer: a lettered note outside a chord advances the pointer of its track by its full length
   whatever its '&' (slur) is and whether or not it closes a group; apart from the event list, the pending
   group and the bend range, the state afterwards is the same for every slur value: other tracks
   untouched, song-level state untouched except the consumed octave-once, which is undone *)
Theorem C13_pointer : forall (s : song) (ev : event) (notelen slur : Z),
  cur_valid s -> s_harmony_flag s = false ->
  exists s', emit_note s ev notelen true slur = Ok s' /\
    s_cur s' = s_cur s /\ length (s_tracks s') = length (s_tracks s) /\
    (forall i d, i <> s_cur s -> nth i (s_tracks s') d = nth i (s_tracks s) d) /\
    s_set_tracks s' [] = s_set_octave_once (s_set_tracks s []) 0 /\
    tie_frame_eq (cur_track s')
                 (tr_set_octave (tr_set_timepos (cur_track s) (tr_timepos (cur_track s) + notelen))
                                (tr_octave (cur_track s) - s_octave_once s)).
Proof. exact emit_note_pointer. Qed.

(* '&' collects; the first note without '&' joins the group, closes it and writes it (as the mode
   theorems say); a note outside a group is written directly *)
Theorem C13_group : forall (s : song) (ev : event) (notelen slur : Z),
  cur_valid s -> s_harmony_flag s = false ->
  exists s', emit_note s ev notelen true slur = Ok s' /\
    let t := cur_track s in let t' := cur_track s' in
    (1 <= slur -> tr_tie_notes t' = tr_tie_notes t ++ [ev] /\ tr_events t' = tr_events t) /\
    (slur < 1 -> tr_tie_notes t = [] -> tr_tie_notes t' = [] /\
       (* since the pipeline model knows controller reservations: the values reserved for this note (y.onNote,
          y.onNoteWave) are written before it - channel events without payload, none when nothing is reserved *)
       exists cc, Forall plain_ev cc /\ tr_events t' = tr_events t ++ cc ++ [ev] /\ (tr_rsv t = rsv_new -> cc = [])) /\
    (slur < 1 -> tr_tie_notes t <> [] -> tr_tie_notes t' = [] /\
       exists first rest, tr_tie_notes t ++ [ev] = first :: rest /\
         tr_events t' = tr_events t ++ tie_out (s_timebase s) t first rest).
Proof. exact emit_note_group. Qed.

(* a group still pending at the end of the song is written: what reaches the SMF writer is, for every
   track, the event list after check_tie_notes - as it is without PlayFrom, through the PlayFrom cut `post`
   (the same function for every track, C14's subject) otherwise *)
Theorem C13_flush_at_end : forall s : song,
  length (tracks_for_writer s) = length (s_tracks s) /\
  (exists post : list event -> list event,
     (s_play_from s < 0 -> forall evs, post evs = evs) /\
     tracks_for_writer s = map (fun t => post (tr_events (check_tie_notes (s_timebase s) t))) (s_tracks s)) /\
  forall i t, nth_error (s_tracks s) i = Some t ->
    (s_play_from s < 0 ->
       nth_error (tracks_for_writer s) i = Some (tr_events (check_tie_notes (s_timebase s) t)))
    /\ (forall first rest, tr_tie_notes t = first :: rest ->
          tr_events (check_tie_notes (s_timebase s) t) = tr_events t ++ tie_out (s_timebase s) t first rest)
    /\ (tr_tie_notes t = [] -> tr_events (check_tie_notes (s_timebase s) t) = tr_events t)
    /\ (forall e, tr_tie_notes t = [e] -> tr_tie_mode t <> 1 ->
          tr_events (check_tie_notes (s_timebase s) t) = tr_events t ++ [e]).
Proof. exact flush_at_end. Qed.

(* ---- accuracy of the f32 expressions (proofs/TieAccP.v: from the IEEE binary32 rounding-error bound of each
   operation and the grid of its result, no evaluation over a finite domain) ----

   Slur(1): (d as f32 * 8192f32 / R as f32) as isize is EXACTLY the truncated quotient, for every difference a
   product with 8192 keeps below 2^24 and every range below 2^24 (the product is exact, the division is rounded
   once, and that rounding cannot cross an integer: the quotient of two integers below 2^24 is at least 1/R away
   from the next integer above it and the rounding error is below 1/R).  Generalises C13_bend_value_range12. *)
Theorem C13_bend_value_exact : forall d R : Z, Z.abs d <= 2047 -> 0 < R < 2 ^ 24 ->
  bend_value d R = value_range 0 (Z.quot (d * 8192) R + 8192) 16383.
Proof. exact bend_value_exact. Qed.

(* in the units of the property, for a bend inside the range (|d| <= R): the emitted value v is 8192 + trunc(8192 d / R),
   |v - (8192 + 8192 d / R)| <= 1 (written v R against 8192 R + 8192 d); a full range up (d = R, exact value 16384)
   is the 14-bit maximum 16383 *)
Theorem C13_bend_value_exact_or_close : forall d R : Z, Z.abs d <= 2047 -> 0 < R < 2 ^ 24 -> - R <= d <= R ->
  (d < R -> bend_value d R = Z.quot (d * 8192) R + 8192) /\ (d = R -> bend_value d R = 16383) /\
  Z.abs (bend_value d R * R - (8192 * R + 8192 * d)) <= R.
Proof. exact bend_value_close. Qed.

(* Slur(0), the target of a glide, (d as f32 * (8192f32 / R as f32)) as isize - here 8192 / R is rounded before the
   multiplication: the target has the sign of d, lies between 0 and the exact value 8192 d / R and within 1 of it
   (|bf| R against 8192 |d|); it is the truncated quotient whenever R does not divide 8192 d, and always at the range
   12 (the only range a track ever gets: runner.rs sets bend_range to 12 and nothing else does).  It is NOT always
   the truncated quotient: C13_accuracy_tight. *)
Theorem C13_bend_from_accuracy : forall d R : Z, Z.abs d <= 127 -> 1 <= R <= 8192 ->
  (0 <= d -> 0 <= bend_from d R) /\ (d <= 0 -> bend_from d R <= 0) /\
  Z.abs d * 8192 - R <= Z.abs (bend_from d R) * R <= Z.abs d * 8192.
Proof. exact bend_from_accuracy. Qed.
Theorem C13_bend_from_exact : forall d R : Z, Z.abs d <= 127 -> 1 <= R <= 8192 ->
  (d * 8192) mod R <> 0 -> bend_from d R = Z.quot (d * 8192) R.
Proof. exact bend_from_exact. Qed.
Theorem C13_bend_from_range12 : forall d : Z, -127 <= d <= 127 -> bend_from d 12 = Z.quot (d * 8192) 12.
Proof. exact bend_from_12. Qed.

(* Slur(0,tv), step j of the glide, (bf as f32 * (j as f32 / tv as f32)) as isize (C13_mode_port_ramp: the event at
   tick start(h') - tv + j carries this value + 8192, clamped): for a target |bf| < 2^b and 2^b * tv < 2^24
   (tv <= 1023 for targets up to 8192 = a glide within the bend range; tv <= 127 for any two notes at range 12)
   the value has the sign of bf, lies between 0 and the line bf j / tv and within 1 of it - it is the exact value
   truncated toward 0, or one nearer to 0 when the exact value is an integer (this happens: C13_accuracy_tight, so
   `< 1` would be false) *)
Theorem C13_port_ramp_accuracy : forall b bf j tv : Z,
  0 <= b -> Z.abs bf < 2 ^ b -> 0 <= j < tv -> 2 ^ b * tv < 2 ^ 24 ->
  (0 <= bf -> 0 <= port_v bf j tv) /\ (bf <= 0 -> port_v bf j tv <= 0) /\
  Z.abs bf * j - tv <= Z.abs (port_v bf j tv) * tv <= Z.abs bf * j.
Proof. exact port_accuracy. Qed.
Theorem C13_port_ramp_accuracy_exact : forall b bf j tv : Z,
  0 <= b -> Z.abs bf < 2 ^ b -> 0 <= j < tv -> 2 ^ b * tv < 2 ^ 24 ->
  (bf * j) mod tv <> 0 -> port_v bf j tv = Z.quot (bf * j) tv.
Proof. exact port_accuracy_exact. Qed.

(* any glide length below 2^24 (the lengths up to which `tv as f32` is exact): |y| - 1 - e < |v| <= |y| + e with
   y = bf j / tv and e = 2^(b-24) (e < 0.001 for b = 14), v still on the side of bf.  `<= 1` and `between 0 and the
   line` do fail for long glides: C13_accuracy_tight. *)
Theorem C13_port_ramp_accuracy_any_len : forall b bf j tv : Z,
  0 <= b <= 23 -> Z.abs bf < 2 ^ b -> 0 <= j < tv -> tv < 2 ^ 24 ->
  (0 <= bf -> 0 <= port_v bf j tv) /\ (bf <= 0 -> port_v bf j tv <= 0) /\
  (Z.abs (port_v bf j tv) * tv - Z.abs bf * j) * 2 ^ 24 <= 2 ^ b * tv /\
  (Z.abs bf * j - (Z.abs (port_v bf j tv) + 1) * tv) * 2 ^ 24 < 2 ^ b * tv.
Proof. exact port_accuracy_any. Qed.

(* the end points: step 0 has the value 0 (bend 8192, the centre; it equals the initial `last_v` and is not written);
   no step goes beyond the target bf - the last step tv - 1 is about bf (tv - 1) / tv by the theorems above, the
   target itself is never written: the event at start(h') is bend 8192 again (C13_mode_port_unfold), where the next
   note sounds at its own pitch *)
Theorem C13_port_ramp_ends : forall bf j tv : Z, Z.abs bf < 2 ^ 23 -> 0 <= j < tv -> tv < 2 ^ 24 ->
  port_v bf 0 tv = 0 /\ (bf <> 0 -> Z.abs (port_v bf j tv) <= Z.abs bf).
Proof. exact port_ends. Qed.

(* the events of a glide between two notes d semitones apart, d within the bend range R, over at most 1023 ticks:
   none at step 0, none clamped, each within 1 of the line from 8192 to 8192 + bend_from d R and within 2 of the
   ideal line from 8192 to 8192 + 8192 d / R at its tick *)
Theorem C13_port_ramp_events : forall (ch tv R : Z) (h h' : event),
  let d := e_v1 h' - e_v1 h in
  Z.abs d <= 127 -> 1 <= R <= 8192 -> Z.abs d <= R -> tv <= 1023 ->
  Forall (fun e => exists j, 1 <= j < tv /\ e = ev_pitch_bend (e_time h' - tv + j) ch (port_v (bend_from d R) j tv + 8192) /\
            Z.abs ((e_v1 e - 8192) * tv - bend_from d R * j) <= tv /\
            Z.abs ((e_v1 e - 8192) * (R * tv) - 8192 * d * j) <= 2 * (R * tv))
         (port_ramp ch tv R h h').
Proof. exact port_ramp_events. Qed.

(* what is false: the natural stronger statements, each with its witness (values confirmed on the implementation's f32
   arithmetic: harness kind f32ops, and `Slur(0,10360) [30 r1] l4 c&b`, `Slur(0,4097) [12 r1] l4 c&>c`) *)
Theorem C13_bend_from_quot_refuted :
  ~ (forall d R, Z.abs d <= 127 -> 1 <= R <= 8192 -> bend_from d R = Z.quot (d * 8192) R).
Proof. exact bend_from_quot_refuted. Qed.
Theorem C13_port_ramp_within1_refuted :
  ~ (forall bf j tv, Z.abs bf <= 8192 -> 0 <= j < tv -> tv < 2 ^ 24 -> Z.abs (port_v bf j tv * tv - bf * j) <= tv).
Proof. exact port_within1_refuted. Qed.
Theorem C13_port_ramp_below_line_refuted :
  ~ (forall bf j tv, Z.abs bf <= 8192 -> 0 <= j < tv -> tv < 2 ^ 24 -> Z.abs (port_v bf j tv * tv) <= Z.abs (bf * j)).
Proof. exact port_below_line_refuted. Qed.

(* ---- non-vacuity: concrete groups (timebase 96, quarter notes at gate 90%) ---- *)
Definition ex_track (mode tv br : Z) (g : list event) : track :=
  tr_set_tie (tr_set_timepos (track_new 96 0) 384) mode tv br [ev_voice 0 0 4] g.
Definition nt (t k gate : Z) : event := ev_note t 0 k gate 100.

Example C13_example_runs :
  runs (nt 0 60 86) [nt 96 60 86; nt 192 62 86; nt 240 64 20; nt 260 64 30] = [(nt 0 60 86, 182); (nt 192 62 86, 278); (nt 240 64 20, 290)]
  /\ group_end (nt 0 60 86) [nt 96 60 86; nt 192 62 86; nt 240 64 20; nt 260 64 30] = 290.
Proof. split; reflexivity. Qed.

(* l4 c&c8&c16 : one note of 96+48+(gate of the last) *)
Example C13_example_same_pitch :
  let g := [nt 0 60 86; nt 96 60 43; nt 144 60 21] in
  Forall (fun e => e_v1 e = 60) (tl g) /\
  tr_events (check_tie_notes 96 (ex_track 0 0 (-1) g)) = [ev_voice 0 0 4; nt 0 60 165] /\
  tr_events (check_tie_notes 96 (ex_track 2 10 (-1) g)) = [ev_voice 0 0 4; nt 0 60 165] /\
  tr_events (check_tie_notes 96 (ex_track 1 0 (-1) g)) =
    [ev_voice 0 0 4; ev_pitch_bend_range 0 0 12; ev_pitch_bend 0 0 8192; nt 0 60 165; ev_pitch_bend 165 0 8192].
Proof. split; [repeat constructor | vm_compute; repeat split]. Qed.

(* Slur(2,v) l4 c&c&d8&e *)
Example C13_example_gate :
  let g := [nt 0 60 86; nt 96 60 86; nt 192 62 43; nt 240 64 86] in
  tr_events (check_tie_notes 96 (ex_track 2 0 (-1) g)) = [ev_voice 0 0 4; nt 0 60 192; nt 192 62 48; nt 240 64 86] /\
  tr_events (check_tie_notes 96 (ex_track 2 10 (-1) g)) = [ev_voice 0 0 4; nt 0 60 10; nt 192 62 10; nt 240 64 86].
Proof. vm_compute. split; reflexivity. Qed.

(* l4 Slur(3) c&e&g *)
Example C13_example_alpe :
  tr_events (check_tie_notes 96 (ex_track 3 0 (-1) [nt 0 60 86; nt 96 64 86; nt 192 67 86])) =
    [ev_voice 0 0 4; nt 0 60 278; nt 96 64 182; nt 192 67 86] /\
  tr_tie_notes (check_tie_notes 96 (ex_track 3 0 (-1) [nt 0 60 86; nt 96 64 86; nt 192 67 86])) = [].
Proof. vm_compute. split; reflexivity. Qed.

(* l4 Slur(1) c&d&c (bends back to the first pitch) and c&>c&<<c at range 12 (clamped at both ends) *)
Example C13_example_bend :
  tr_events (check_tie_notes 96 (ex_track 1 0 (-1) [nt 0 60 86; nt 96 62 86; nt 192 60 86])) =
    [ev_voice 0 0 4; ev_pitch_bend_range 0 0 12; ev_pitch_bend 0 0 8192; ev_pitch_bend 96 0 9557; ev_pitch_bend 192 0 8192;
     nt 0 60 278; ev_pitch_bend 278 0 8192] /\
  tr_events (check_tie_notes 96 (ex_track 1 0 12 [nt 10 60 86; nt 106 72 86; nt 202 48 86])) =
    [ev_voice 0 0 4; ev_pitch_bend 10 0 8192; ev_pitch_bend 106 0 16383; ev_pitch_bend 202 0 0; nt 10 60 278; ev_pitch_bend 288 0 8192] /\
  (-127 <= 12 <= 127) /\ bend_value 12 12 = 16383 /\ bend_value 2 12 = 9557.
Proof. vm_compute. repeat split; discriminate. Qed.

(* Slur(0,4) l4 c&c&d : the glide occupies the 4 ticks before d (step 0 has value 8192 = no change, skipped) *)
Example C13_example_port :
  tr_events (check_tie_notes 96 (ex_track 0 4 (-1) [nt 0 60 86; nt 96 60 86; nt 192 62 86])) =
    [ev_voice 0 0 4; ev_pitch_bend_range 0 0 12; ev_pitch_bend 189 0 8533; ev_pitch_bend 190 0 8874; ev_pitch_bend 191 0 9215;
     nt 0 60 192; ev_pitch_bend 192 0 8192; nt 192 62 86] /\
  tr_bend_range (check_tie_notes 96 (ex_track 0 4 (-1) [nt 0 60 86; nt 96 60 86; nt 192 62 86])) = 12 /\
  port_ramp 0 4 12 (nt 0 60 192) (nt 192 62 86) = [ev_pitch_bend 189 0 8533; ev_pitch_bend 190 0 8874; ev_pitch_bend 191 0 9215].
Proof. vm_compute. repeat split. Qed.

(* the pointer law and the group life cycle on a song: track 0 at tick 384 *)
Definition ex_song (g : list event) : song := s_set_tracks song_new [ex_track 3 0 (-1) g].
Example C13_example_pointer :
  cur_valid (ex_song []) /\ s_harmony_flag (ex_song []) = false /\
  (forall slur, In slur [0; 1; 10] ->
     match emit_note (ex_song [nt 288 60 86]) (nt 384 64 86) 96 true slur with
     | Ok s' => tr_timepos (cur_track s') = 480
     | _ => False
     end) /\
  match emit_note (ex_song [nt 288 60 86]) (nt 384 64 86) 96 true 0 with
  | Ok s' => tr_events (cur_track s') = [ev_voice 0 0 4; nt 288 60 182; nt 384 64 86] /\ tr_tie_notes (cur_track s') = []
  | _ => False
  end.
Proof.
  split; [unfold cur_valid; cbn; lia|]. split; [reflexivity|]. split.
  - intros slur [<-|[<-|[<-|[]]]]; vm_compute; reflexivity.
  - vm_compute. split; reflexivity.
Qed.

(* `c&` at the end of a track *)
Example C13_example_flush :
  tracks_for_writer (ex_song [nt 288 60 86]) = [[ev_voice 0 0 4; nt 288 60 86]].
Proof. vm_compute. reflexivity. Qed.

(* accuracy: instances, and the bounds are tight.
   - mode 1: 5 semitones at range 7 -> 8192 + trunc(40960 / 7) = 14043; a full range up is clamped to 16383
   - the target of a glide at range 41 over 41 semitones is 8191, not 8192 (8192 / 41 is rounded down first)
   - distance exactly 1 on a short glide: `Slur(0,22) l4 c&c+` (target 682, step 13 of 22: the line passes through 403,
     the value is 402 - the implementation writes bend 8594 at tick 87)
   - long glides: 11 semitones at range 12 over 10360 ticks, step 5309: line 3848.00009, value 3847 (more than 1 below);
     an octave over 4097 ticks, step 2049: line 4096.9998, value 4097 (beyond the line) *)
Example C13_accuracy_tight :
  (Z.abs 5 <= 2047 /\ 0 < 7 < 2 ^ 24 /\ bend_value 5 7 = 14043 /\ Z.quot (5 * 8192) 7 + 8192 = 14043) /\
  bend_value 7 7 = 16383 /\ bend_value (-7) 7 = 0 /\
  (bend_from 41 41 = 8191 /\ 41 * 8192 = 8192 * 41) /\ bend_from 1 12 = 682 /\ bend_from (-11) 12 = -7509 /\
  (port_v 682 13 22 = 402 /\ 682 * 13 = 403 * 22 /\ 2 ^ 10 * 22 < 2 ^ 24) /\
  (port_v 7509 5309 10360 = 3847 /\ 3847 * 10360 < 7509 * 5309 - 10360) /\
  (port_v 8192 2049 4097 = 4097 /\ 8192 * 2049 < 4097 * 4097) /\
  port_v (-682) 5 7 = -487 /\ (-682 * 5) mod 7 <> 0 /\ Z.quot (-682 * 5) 7 = -487.
Proof. vm_compute. repeat split; try reflexivity; discriminate. Qed.

(* the glide of C13_example_port again, by C13_port_ramp_events: 2 semitones at range 12 over 4 ticks *)
Example C13_example_port_events :
  (Z.abs (62 - 60) <= 127 /\ 1 <= 12 <= 8192 /\ Z.abs (62 - 60) <= 12 /\ 4 <= 1023) /\
  bend_from (62 - 60) 12 = 1365 /\
  map (fun j => port_v 1365 j 4 + 8192) [1; 2; 3] = [8533; 8874; 9215] /\
  map (fun j => Z.quot (1365 * j) 4 + 8192) [1; 2; 3] = [8533; 8874; 9215].
Proof. vm_compute. repeat split; discriminate. Qed.

Print Assumptions C13_runs_maximal.
Print Assumptions C13_same_pitch_merge.
Print Assumptions C13_mode_gate.
Print Assumptions C13_mode_alpe.
Print Assumptions C13_mode_bend.
Print Assumptions C13_bend_value_range12.
Print Assumptions C13_mode_port.
Print Assumptions C13_mode_port_unfold.
Print Assumptions C13_mode_port_ramp.
Print Assumptions C13_bend_in_range.
Print Assumptions C13_clears.
Print Assumptions C13_no_double.
Print Assumptions C13_frame.
Print Assumptions C13_pointer.
Print Assumptions C13_group.
Print Assumptions C13_flush_at_end.
Print Assumptions C13_bend_value_exact.
Print Assumptions C13_bend_value_exact_or_close.
Print Assumptions C13_bend_from_accuracy.
Print Assumptions C13_bend_from_exact.
Print Assumptions C13_bend_from_range12.
Print Assumptions C13_port_ramp_accuracy.
Print Assumptions C13_port_ramp_accuracy_exact.
Print Assumptions C13_port_ramp_accuracy_any_len.
Print Assumptions C13_port_ramp_ends.
Print Assumptions C13_port_ramp_events.
Print Assumptions C13_bend_from_quot_refuted.
Print Assumptions C13_port_ramp_within1_refuted.
Print Assumptions C13_port_ramp_below_line_refuted.
