(* C16 - onNote/onCycle/onTime reservations and .Random act on the right notes and ticks.
   Statements only; proofs are `exact <lemma>`. Model: model/Reserve.v (function-for-function after
   song.rs), f32 through model/F32.v; specification vocabulary: spec/ReserveSpec.v. *)
From Sakura.Model Require Import Base Event F32 Reserve.
From Sakura.Spec Require Import ReserveSpec.
From Sakura.Proofs Require Import ReserveP.

(* x.onNote(v1..vn), x in v/q/t/o/l (`w`): over ANY value list vs and ANY run of following notes (one
   default per note, `defs`): note i < |vs| gets vs[i]; from note |vs| on the notes get their own
   default and the reservation is cleared (by the first such note). What stays in the track: the last
   applied value is stored in velocity/qlen/timing/octave (store_last), nothing is stored for l; no
   other field changes. *)
Theorem C16_on_note : forall (w : which) (k : track) (vs defs : list Z),
  vs <> [] -> get_res w k = mkOnres (Some vs) 0 false ->
  run_calls (calc_on_note w) k defs =
    (firstn (length defs) vs ++ skipn (length vs) defs,
     set_res w (store_last w k (firstn (length defs) vs))
       (if (length defs <=? length vs)%nat then mkOnres (Some vs) (Z.of_nat (length defs)) false
        else mkOnres None 0 false)).
Proof. exact on_note_spec. Qed.

Print Assumptions C16_on_note.
