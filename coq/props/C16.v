(* C16 - onNote/onCycle/onTime reservations and .Random act on the right notes and ticks.
   Statements only; proofs are `exact <lemma>`. Model: model/Reserve.v (function-for-function after
   song.rs: calc_{v,t,qlen,o,l}_on_note, calc_v_on_time, write_cc_on_time, write_pb_on_time,
   set/write_cc_on_note, rand, calc_rand_value), f32 through model/F32.v; specification vocabulary
   (ticks, seg_starts, locate, ramp_spec, cc_notes): spec/ReserveSpec.v. `run_calls f k defs` calls
   the method once per note, `defs` being the value each note would have without a reservation. *)
From Sakura.Model Require Import Base Event F32 Reserve.
From Sakura.Spec Require Import ReserveSpec.
From Sakura.Proofs Require Import ReserveP RampAccP.
From Coq Require Import Sorted.

(* x.onNote(v1..vn), x in v/q/t/o/l (`w`), for ANY value list vs and ANY run of following notes: note
   i < |vs| gets vs[i]; from note |vs| on every note gets its own default and the reservation is
   cleared (by the first such note). What stays in the track: the last applied value is stored in
   velocity/qlen/timing/octave, nothing is stored for l (store_last); no other field changes. *)
Theorem C16_on_note : forall (w : which) (k : track) (vs defs : list Z),
  vs <> [] -> get_res w k = mkOnres (Some vs) 0 false ->
  run_calls (calc_on_note w) k defs =
    (firstn (length defs) vs ++ skipn (length vs) defs,
     set_res w (store_last w k (firstn (length defs) vs))
       (if (length defs <=? length vs)%nat then mkOnres (Some vs) (Z.of_nat (length defs)) false
        else mkOnres None 0 false)).
Proof. exact on_note_spec. Qed.

Theorem C16_on_note_nth : forall (w : which) (k : track) (vs defs : list Z) (i : nat),
  vs <> [] -> get_res w k = mkOnres (Some vs) 0 false -> (i < length defs)%nat ->
  nth i (fst (run_calls (calc_on_note w) k defs)) 0 = if (i <? length vs)%nat then nth i vs 0 else nth i defs 0.
Proof. exact on_note_nth. Qed.

(* x.onCycle: note i gets vs[i mod |vs|] for every i; the reservation is never cleared *)
Theorem C16_on_cycle : forall (w : which) (k : track) (vs defs : list Z),
  vs <> [] -> get_res w k = mkOnres (Some vs) 0 true ->
  let rs := map (fun i => nth (i mod length vs) vs 0) (seq 0 (length defs)) in
  exists j, (j <= length vs)%nat /\
  run_calls (calc_on_note w) k defs = (rs, set_res w (store_last w k rs) (mkOnres (Some vs) (Z.of_nat j) true)).
Proof. exact on_cycle_spec. Qed.

(* no reservation (never made, used up, or cancelled by a plain v/q/t/o/l, whose runner arm sets the list
   to None): the note takes its own default and the track is unchanged *)
Theorem C16_cancel : forall (w : which) (k : track) (def : Z),
  r_list (get_res w k) = None -> calc_on_note w k def = (def, k).
Proof. exact cancel_spec. Qed.

(* the runner arms: x.onNote / x.onCycle install the list at index 0 (the hypothesis of C16_on_note / C16_on_cycle);
   a plain v/q/t/o/l clears the reservation (the hypothesis of C16_cancel), v also the v.onTime ramp *)
Theorem C16_arms : forall (w : which) (cyc : bool) (ia : list Z) (v : Z) (s : rstate),
  get_res w (rs_k (exec_cmd s (ROnNote w cyc ia))) = mkOnres (Some ia) 0 cyc
  /\ r_list (get_res w (rs_k (exec_cmd s (RPlain w v)))) = None
  /\ (w = WV -> tr_v_on_time (rs_k (exec_cmd s (RPlain w v))) = None).
Proof. intros w cyc ia v s. split; [apply on_note_arm | apply plain_arm_cancels]. Qed.

(* Controller.onNote: with pending lists l (all at index 0), the notes starting at `starts` emit, note j
   writing the j-th value of every list that still has one (in reservation order, at the note's start, on
   the track's channel); afterwards exactly the lists with more than |starts| values remain, advanced *)
Theorem C16_cc_on_note : forall (k : track) (starts : list Z),
  all_at 0 (tr_cc_on_note k) ->
  tr_events (run_cc_notes k starts) = tr_events k ++ cc_notes (tr_channel k) 0 (map cc_view (tr_cc_on_note k)) starts
  /\ (starts <> [] ->
      tr_cc_on_note (run_cc_notes k starts) =
        map (adv (length starts)) (filter (alive (length starts)) (tr_cc_on_note k))).
Proof. exact cc_on_note_spec. Qed.

Theorem C16_cc_on_note_set : forall (k : track) (no : Z) (ia : list Z),
  tr_cc_on_note (set_cc_on_note k no ia) = filter (fun c => negb (cc_no c =? no)) (tr_cc_on_note k) ++ [mkCC no ia 0]
  /\ tr_cc_on_note_wave (set_cc_on_note k no ia) = filter (fun c => negb (cc_no c =? no)) (tr_cc_on_note_wave k)
  /\ tr_events (set_cc_on_note k no ia) = tr_events k
  /\ (all_at 0 (tr_cc_on_note k) -> all_at 0 (tr_cc_on_note (set_cc_on_note k no ia))).
Proof. exact set_cc_on_note_spec. Qed.

(* Controller.onTime(lo,hi,len,...): segment s starts where segment s-1 ended (seg_starts; a segment of
   length <= 0 takes no time), and writes one event per tick of `ticks freq len` at start + j with the
   clamped interpolated value; freq is the configured frequency, anything below 1 counting as 1 *)
Theorem C16_ramp_ticks : forall (k : track) (cc : Z) (ia : list Z),
  tr_events (write_cc_on_time k cc ia) =
  tr_events k ++ ramp_spec (fun t v => ev_cc t (tr_channel k) cc v) ramp_value (Z.max 1 (tr_freq k)) 127
                           (tr_timepos k) (triples ia).
Proof. exact cc_on_time_spec. Qed.

(* pitch bend: the same with 14-bit values (PB: lo+8192, p: lo*128), sampled every timebase/32 ticks *)
Theorem C16_pb_ramp_ticks : forall (k : track) (is_big : Z) (ia : list Z) (tb : Z),
  tr_events (write_pb_on_time k is_big ia tb) =
  tr_events k ++ ramp_spec (fun t v => ev_pitch_bend t (tr_channel k) v) ramp_value (pb_freq tb) 16383
                           (tr_timepos k) (map (pb_segment is_big) (triples ia))
  /\ 1 <= pb_freq tb /\ (32 <= tb -> pb_freq tb = tb / 32).
Proof. intros k is_big ia tb. split; [apply pb_on_time_spec | apply pb_freq_ge1]. Qed.

(* the ticks of a segment are exactly the j with 0 <= j < len and freq | j, each once, ascending *)
Theorem C16_ticks_exact : forall freq len : Z, 1 <= freq ->
  (forall j, In j (ticks freq len) <-> 0 <= j < len /\ (freq | j)) /\ StronglySorted Z.lt (ticks freq len).
Proof. exact ticks_exact. Qed.

(* the first event of every segment sits on the segment start with value clamp(lo)
   (f32 conversions evaluated by the kernel on the stated range, RB = 65536) *)
Theorem C16_ramp_start : forall (mk : Z -> Z -> event) (b freq maxv lo hi len : Z),
  1 <= freq -> - RB <= lo <= RB -> - RB <= hi - lo <= RB -> 0 < len <= RB ->
  exists rest,
    map (fun j => mk (b + j) (value_range 0 (ramp_value lo hi j len) maxv)) (ticks freq len)
    = mk b (value_range 0 lo maxv) :: rest.
Proof. exact ramp_start_spec. Qed.

(* ---- how close the ramp values are to the straight line ------------------------------------------------------------
   The value at offset j of a segment (lo, hi, len) is ((hi - lo) as f32 * (j as f32 / len as f32) + lo as f32) as isize:
   three binary32 roundings and a truncation.  Against the exact point y = lo + (hi - lo) * j / len of the line (written
   without division: y * len = lo * len + (hi - lo) * j) the theorems are proved from the IEEE rounding-error bound of
   each operation (proofs/F32RoundP.v, F32ErrP.v over Floats.SpecFloat; no evaluation over a finite domain):

   for 0 <= lo, hi < 2^b and len < 2^25 / (3 * 2^b)  -  b = 7: controller / velocity values 0..127, len <= 87381 ticks;
   b = 14: bend values 0..16383, len <= 682 ticks  -  the value v satisfies  y - 1 <= v <= y,  i.e. v is y rounded down,
   or y - 1 when y is an integer (this happens: C16_ramp_accuracy_tight; so `< 1` would be false, `<= 1` is exact);
   the clamp value_range 0 v (2^b - 1) of the writers is the identity on it, so with C16_ramp_ticks / C16_pb_ramp_ticks /
   C16_v_on_time this is a statement about the emitted events. *)
Theorem C16_ramp_accuracy : forall b lo hi j len : Z,
  0 <= b -> 0 <= lo < 2 ^ b -> 0 <= hi < 2 ^ b -> 0 <= j < len -> 3 * 2 ^ b * len < 2 ^ 25 ->
  value_range 0 (ramp_value lo hi j len) (2 ^ b - 1) = ramp_value lo hi j len /\
  lo * len + (hi - lo) * j - len <= ramp_value lo hi j len * len <= lo * len + (hi - lo) * j.
Proof. exact ramp_accuracy_clamp. Qed.

(* the two instances, in the units of the property: |v - (lo + (hi - lo) * j / len)| <= 1 *)
Theorem C16_ramp_accuracy_cc : forall lo hi j len : Z,
  0 <= lo <= 127 -> 0 <= hi <= 127 -> 0 <= j < len -> len <= 87381 ->
  value_range 0 (ramp_value lo hi j len) 127 = ramp_value lo hi j len /\
  Z.abs (ramp_value lo hi j len * len - (lo * len + (hi - lo) * j)) <= len.
Proof.
  intros lo hi j len Hlo Hhi Hj Hlen.
  destruct (ramp_accuracy_clamp 7 lo hi j len) as [Hc Ha]; [lia | change (2 ^ 7) with 128; lia | change (2 ^ 7) with 128; lia | lia
    | change (2 ^ 7) with 128; change (2 ^ 25) with 33554432; lia |].
  change (2 ^ 7 - 1) with 127 in Hc. split; [exact Hc | lia].
Qed.
Theorem C16_ramp_accuracy_bend : forall lo hi j len : Z,
  0 <= lo <= 16383 -> 0 <= hi <= 16383 -> 0 <= j < len -> len <= 682 ->
  value_range 0 (ramp_value lo hi j len) 16383 = ramp_value lo hi j len /\
  Z.abs (ramp_value lo hi j len * len - (lo * len + (hi - lo) * j)) <= len.
Proof.
  intros lo hi j len Hlo Hhi Hj Hlen.
  destruct (ramp_accuracy_clamp 14 lo hi j len) as [Hc Ha]; [lia | change (2 ^ 14) with 16384; lia | change (2 ^ 14) with 16384; lia | lia
    | change (2 ^ 14) with 16384; change (2 ^ 25) with 33554432; lia |].
  change (2 ^ 14 - 1) with 16383 in Hc. split; [exact Hc | lia].
Qed.

(* any length below 2^24 (the lengths up to which `len as f32` is exact): y - 1 - e < v <= y + e with e = 3 * 2^(b-25)
   (e < 0.000012 for b = 7, e < 0.0015 for b = 14), and v >= 0 *)
Theorem C16_ramp_accuracy_any_len : forall b lo hi j len : Z,
  0 <= b <= 23 -> 0 <= lo < 2 ^ b -> 0 <= hi < 2 ^ b -> 0 <= j < len -> len < 2 ^ 24 ->
  (ramp_value lo hi j len * len - (lo * len + (hi - lo) * j)) * 2 ^ 25 <= 3 * 2 ^ b * len /\
  (lo * len + (hi - lo) * j - (ramp_value lo hi j len + 1) * len) * 2 ^ 25 < 3 * 2 ^ b * len /\
  0 <= ramp_value lo hi j len.
Proof. exact ramp_accuracy_any. Qed.

(* the bounds are tight: distance exactly 1 occurs on short ramps (25 -> 0 over 5 ticks, offset 3: the line passes through
   10, the value is 9); and `<= 1` does fail for long ramps, where the f32 error exceeds 1 / len: a controller ramp
   121 -> 0 over 713973 ticks (line: 58.0000014, value 57) and a bend ramp 16294 -> 0 over 4413 ticks (line: 8123.0002,
   value 8122) - values confirmed on the implementation's f32 arithmetic.  The distance stays below 1 + e by the theorem above. *)
Example C16_ramp_accuracy_tight :
  ramp_value 25 0 3 5 = 9 /\ 25 * 5 + (0 - 25) * 3 = 10 * 5 /\
  (ramp_value 121 0 371738 713973 = 57 /\ 57 * 713973 < 121 * 713973 + (0 - 121) * 371738 - 713973) /\
  (ramp_value 16294 0 2213 4413 = 8122 /\ 8122 * 4413 < 16294 * 4413 + (0 - 16294) * 2213 - 4413).
Proof. vm_compute. repeat split; reflexivity. Qed.

(* every value written is a 7-bit value (14-bit for bend), on the track's channel *)
Theorem C16_ramp_range : forall (k : track) (cc : Z) (ia : list Z), exists new,
  tr_events (write_cc_on_time k cc ia) = tr_events k ++ new /\
  Forall (fun e => e_type e = ControllChange /\ e_ch e = tr_channel k /\ e_v1 e = cc /\ 0 <= e_v2 e <= 127) new.
Proof. exact cc_on_time_range. Qed.
Theorem C16_pb_ramp_range : forall (k : track) (is_big : Z) (ia : list Z) (tb : Z), exists new,
  tr_events (write_pb_on_time k is_big ia tb) = tr_events k ++ new /\
  Forall (fun e => e_type e = PitchBend /\ e_ch e = tr_channel k /\ 0 <= e_v1 e <= 16383) new.
Proof. exact pb_on_time_range. Qed.

(* v.onTime: a note at relative time cur = timepos - start gets the interpolated value of the segment
   that contains cur (segments laid end to end), its own default outside; at or past the end the
   reservation is cleared. (isize_min is the code's "no value" sentinel.) *)
Theorem C16_v_on_time : forall (k : track) (ia : list Z) (def : Z),
  tr_v_on_time k = Some ia -> lens_nonneg (triples ia) ->
  let cur := tr_timepos k - tr_v_on_time_start k in
  calc_v_on_time k def =
    (match locate (triples ia) cur with
     | Some (lo, hi, len, j) => let v := ramp_value lo hi j len in if v =? isize_min then def else v
     | None => def
     end,
     if seg_total (triples ia) <=? cur then set_v_on_time k None (-1) else k).
Proof. exact v_on_time_spec. Qed.

Theorem C16_v_on_time_locate : forall (segs : list (Z * Z * Z)) (c : Z), lens_nonneg segs ->
  (forall lo hi len j, locate segs c = Some (lo, hi, len, j) ->
     0 <= j < len /\ exists pre post, segs = pre ++ (lo, hi, len) :: post /\ c = seg_total pre + j)
  /\ (c < 0 \/ seg_total segs <= c -> locate segs c = None).
Proof. intros segs c H. split; [intros lo hi len j; apply locate_spec; assumption | apply locate_outside; assumption]. Qed.

(* x.Random(r): the value moves by d with -(r/2) <= d < r - r/2, hence |d| <= r/2; r <= 0 changes
   nothing and draws no number *)
Theorem C16_random_width : forall seed val r : Z,
  (0 <= seed < 2 ^ 32 -> 0 < r ->
   let '(v, s') := calc_rand_value seed val r in
   - (r / 2) <= v - val < r - r / 2 /\ Z.abs (v - val) <= r / 2 /\ s' = rand_next seed /\ 0 <= s' < 2 ^ 32)
  /\ (r <= 0 -> calc_rand_value seed val r = (val, seed)).
Proof. intros seed val r. split; [apply rand_value_width | apply rand_value_off]. Qed.

(* the random numbers are a function of the seed alone: number i is the (i+1)-fold xorshift iterate *)
Theorem C16_random_reproducible : forall (n : nat) (seed : Z) (i : nat),
  (i < n)%nat -> nth i (rand_seq seed n) 0 = Nat.iter (S i) rand_next seed.
Proof. exact rand_seq_iter. Qed.

(* the generator stays inside the non-zero u32 values (so it never degenerates to the constant 0) *)
Theorem C16_random_nonzero : forall seed : Z, 0 < seed < 2 ^ 32 -> 0 < rand_next seed < 2 ^ 32.
Proof. exact rand_next_nonzero. Qed.

(* ---- non-vacuity ---- *)
Definition ex_onres0 := mkOnres None 0 false.
Definition ex_track : track :=
  mkTrack 96 2 100 90 0 5 (-1) None ex_onres0 ex_onres0 ex_onres0 ex_onres0 ex_onres0 4 [] [] [].

Example C16_example_on_note :
  let k := set_res WV ex_track (mkOnres (Some [10; 20; 30]) 0 false) in
  get_res WV k = mkOnres (Some [10; 20; 30]) 0 false /\
  fst (run_calls (calc_on_note WV) k [100; 100; 100; 100; 77]) = [10; 20; 30; 100; 77] /\
  tr_velocity (snd (run_calls (calc_on_note WV) k [100; 100; 100; 100; 77])) = 30 /\
  r_list (tr_v (snd (run_calls (calc_on_note WV) k [100; 100; 100; 100; 77]))) = None.
Proof. repeat split. Qed.

Example C16_example_on_cycle :
  let k := set_res WL ex_track (mkOnres (Some [48; 24]) 0 true) in
  fst (run_calls (calc_on_note WL) k [-1; -1; -1; -1; -1]) = [48; 24; 48; 24; 48] /\
  snd (run_calls (calc_on_note WL) k [-1; -1; -1]) = set_res WL ex_track (mkOnres (Some [48; 24]) 1 true).
Proof. repeat split. Qed.

Example C16_example_cc_on_note :
  let k := set_cc_on_note (set_cc_on_note ex_track 1 [1; 2; 3]) 7 [100]  in
  all_at 0 (tr_cc_on_note k) /\
  tr_events (run_cc_notes k [0; 96; 192; 288]) = [ev_cc 0 2 1 1; ev_cc 0 2 7 100; ev_cc 96 2 1 2; ev_cc 192 2 1 3] /\
  tr_cc_on_note (run_cc_notes k [0; 96; 192; 288]) = [].
Proof. split; [repeat constructor | split; reflexivity]. Qed.

Example C16_example_ramp :
  tr_events (write_cc_on_time ex_track 1 [0; 127; 8; 127; 0; 8]) =
    [ev_cc 96 2 1 0; ev_cc 100 2 1 63; ev_cc 104 2 1 127; ev_cc 108 2 1 63] /\
  ticks 4 8 = [0; 4] /\ seg_starts 96 [(0, 127, 8); (127, 0, 8)] = [96; 104] /\
  (- RB <= 0 <= RB /\ - RB <= 127 - 0 <= RB /\ 0 < 8 <= RB) /\
  map e_v1 (tr_events (write_pb_on_time ex_track 1 [-8192; 8191; 6] 96)) = [0; 8191].
Proof. split; [reflexivity|]. split; [reflexivity|]. split; [reflexivity|]. split; [unfold RB; lia | reflexivity]. Qed.

Example C16_example_v_on_time :
  let k := set_timepos (set_v_on_time ex_track (Some [0; 127; 384; 127; 40; 192]) 96) 480 in
  lens_nonneg (triples [0; 127; 384; 127; 40; 192]) /\
  locate (triples [0; 127; 384; 127; 40; 192]) 384 = Some (127, 40, 192, 0) /\
  calc_v_on_time k 100 = (127, k) /\
  calc_v_on_time (set_timepos k 192) 100 = (31, set_timepos k 192) /\
  calc_v_on_time (set_timepos k 672) 100 = (100, set_v_on_time (set_timepos k 672) None (-1)).
Proof. split; [repeat constructor; cbn; lia | vm_compute; repeat split; reflexivity]. Qed.

Example C16_example_random :
  (0 <= 3958587042 < 2 ^ 32) /\
  rand_values 3958587042 100 8 3 = [97; 96; 96] /\ calc_rand_value 3958587042 100 0 = (100, 3958587042).
Proof. split; [lia|]. split; reflexivity. Qed.

Print Assumptions C16_on_note.
Print Assumptions C16_on_note_nth.
Print Assumptions C16_on_cycle.
Print Assumptions C16_cancel.
Print Assumptions C16_arms.
Print Assumptions C16_cc_on_note.
Print Assumptions C16_cc_on_note_set.
Print Assumptions C16_ramp_ticks.
Print Assumptions C16_pb_ramp_ticks.
Print Assumptions C16_ticks_exact.
Print Assumptions C16_ramp_start.
Print Assumptions C16_ramp_range.
Print Assumptions C16_pb_ramp_range.
Print Assumptions C16_v_on_time.
Print Assumptions C16_v_on_time_locate.
Print Assumptions C16_random_width.
Print Assumptions C16_random_reproducible.
Print Assumptions C16_random_nonzero.
Print Assumptions C16_ramp_accuracy.
Print Assumptions C16_ramp_accuracy_cc.
Print Assumptions C16_ramp_accuracy_bend.
Print Assumptions C16_ramp_accuracy_any_len.
