(* C09 - macros, string variables and Rhythm blocks expand to exactly their text.
   This file contains only the property statements; every proof is `exact <lemma>` (proofs/MacroP.v).
     model   model/RunCore.v : replace_all, subst_args, the TValue arm of step_song, exec_f
             model/LexCore.v : rhythm_expand, rhythm_get, lex
     meaning spec/MacroSpec.v : replaced (a relation), simultaneous, rhythm_expansion, arg_inert, body_inert
             spec/LoopSpec.v  : structured programs (C05)
     tables  gen/VarRows.v (mml_def.rs) against gen/DocMacros.v (command.md)
   Text is a list of code points: 35 = '#', 63 = '?', 40 41 = '(' ')', 123 125 = '{' '}'. *)
From Coq Require Import List ZArith Bool Lia.
From Sakura.Model Require Import Base Cursor Length Event Song Token LoopMachine LexCore Tie RunCore Compile.
From Sakura.Spec Require Import MacroSpec LoopSpec.
From Sakura.Gen Require Import VarRows DocMacros.
From Sakura.Proofs Require Import LoopP MacroP.
Import ListNotations.
Open Scope Z_scope.

(* ================================================================================================ *)
(* 1. str::replace                                                                                    *)

(* For every non-empty pattern, every replacement and every text: the model's replace_all, with any fuel of at
   least the length of the text, computes THE output related to the text by `replaced` - the leftmost occurrence
   is replaced, the search goes on behind it, the replacement text is never searched again. *)
Theorem C09_replace_all_spec : forall (pat rep s : list Z) (fuel : nat),
  pat <> [] -> (length s <= fuel)%nat ->
  forall out, replaced pat rep s out <-> replace_all fuel pat rep s = out.
Proof. intros pat rep s fuel Hp Hf. exact (replace_all_spec pat rep Hp s fuel Hf). Qed.

(* the relation determines its output (so the specification does not leave a choice to the model) *)
Theorem C09_replaced_functional : forall (pat rep s o1 o2 : list Z),
  pat <> [] -> replaced pat rep s o1 -> replaced pat rep s o2 -> o1 = o2.
Proof. intros pat rep s o1 o2 Hp H1 H2. exact (replaced_unique pat rep s o1 H1 o2 H2). Qed.

(* the two notions of occurrence used in the specification agree *)
Theorem C09_contains_occurs : forall p s : list Z, contains p s = true <-> occurs_in p s.
Proof. exact contains_occurs. Qed.

(* "aa" -> "b" in "aaaxaa" = "baxb": overlapping candidates are taken from the left *)
Example C09_replace_example :
  replaced [97; 97] [98] [97; 97; 97; 120; 97; 97] [98; 97; 120; 98] /\
  replace_all 6 [97; 97] [98] [97; 97; 97; 120; 97; 97] = [98; 97; 120; 98].
Proof.
  split; [|reflexivity].
  apply (proj2 (C09_replace_all_spec [97; 97] [98] [97; 97; 97; 120; 97; 97] 6 ltac:(discriminate) (le_n _) _)).
  reflexivity.
Qed.

(* ================================================================================================ *)
(* 2. "#?k" substitution                                                                              *)

(* The program replaces "#?1", then "#?2", ... one after the other.  That is the simultaneous replacement of all
   placeholders by their arguments when
     - there are fewer than 10 arguments,
     - no argument contains "#?" or ends with '#'            (arg_inert),
     - the body contains neither "##" nor "#?#"              (body_inert).
   Each condition is needed: see the five `_refuted` lemmas below. *)
Theorem C09_subst_spec : forall (args : list (option marg)) (body : list Z),
  (length args < 10)%nat ->
  forallb (fun a => arg_inert (marg_to_s a)) args = true ->
  body_inert body = true ->
  subst_args 1 args body = simultaneous (map marg_to_s args) body.
Proof. exact subst_spec. Qed.

(* integer arguments (#M(5), Unison{cde},7) always satisfy the condition on arguments *)
Theorem C09_subst_int_args_inert : forall v : Z, arg_inert (marg_to_s (Some (MInt v))) = true.
Proof. exact show_int_inert. Qed.

(* Unison{cde},7 : "Sub{ Key=#?2 #?1 Key=0 } #?1" -> "Sub{ Key=7 cde Key=0 } cde" *)
Example C09_subst_example :
  let body := [83; 117; 98; 123; 32; 75; 101; 121; 61; 35; 63; 50; 32; 35; 63; 49; 32; 75; 101; 121; 61; 48; 32; 125; 32; 35; 63; 49] in
  let args := [Some (MStr [99; 100; 101]); Some (MInt 7)] in
  (length args < 10)%nat /\ forallb (fun a => arg_inert (marg_to_s a)) args = true /\ body_inert body = true /\
  subst_args 1 args body
  = [83; 117; 98; 123; 32; 75; 101; 121; 61; 55; 32; 99; 100; 101; 32; 75; 101; 121; 61; 48; 32; 125; 32; 99; 100; 101].
Proof. cbv zeta. repeat split; vm_compute; reflexivity || lia. Qed.

(* where sequential and simultaneous replacement differ - one witness outside each side condition *)
(* #M({#?2},{x}) with body "#?1": the inserted "#?2" is replaced again *)
Theorem C09_subst_arg_with_placeholder_refuted :
  subst_args 1 [Some (MStr [35; 63; 50]); Some (MStr [120])] [35; 63; 49] = [120] /\
  simultaneous [[35; 63; 50]; [120]] [35; 63; 49] = [35; 63; 50].
Proof. exact subst_arg_with_placeholder_refuted. Qed.
(* ten arguments a..j, body "#?10": "#?1" is a prefix of "#?10", the result is "a0" instead of "j" *)
Theorem C09_subst_ten_arguments_refuted :
  let args := map (fun c => [c]) [97; 98; 99; 100; 101; 102; 103; 104; 105; 106] in
  subst_args 1 (map (fun a => Some (MStr a)) args) [35; 63; 49; 48] = [97; 48] /\
  simultaneous args [35; 63; 49; 48] = [106].
Proof. exact subst_ten_arguments_refuted. Qed.
(* #M({#},{x}) with body "#?1?2": the argument "#" and the "?2" behind it form a placeholder *)
Theorem C09_subst_arg_ending_hash_refuted :
  arg_inert [35] = false /\
  subst_args 1 [Some (MStr [35]); Some (MStr [120])] [35; 63; 49; 63; 50] = [120] /\
  simultaneous [[35]; [120]] [35; 63; 49; 63; 50] = [35; 63; 50].
Proof. exact subst_arg_ending_hash_refuted. Qed.
(* body "##?1", #M({?2},{x}): no argument contains "#?", yet "#" + "?2" is replaced in the second pass *)
Theorem C09_subst_body_double_hash_refuted :
  arg_inert [63; 50] = true /\ arg_inert [120] = true /\ body_inert [35; 35; 63; 49] = false /\
  subst_args 1 [Some (MStr [63; 50]); Some (MStr [120])] [35; 35; 63; 49] = [120] /\
  simultaneous [[63; 50]; [120]] [35; 35; 63; 49] = [35; 63; 50].
Proof. exact subst_body_double_hash_refuted. Qed.
(* body "#?#?12" with an EMPTY first argument: "#?" + "" + "2" *)
Theorem C09_subst_body_hash_q_hash_refuted :
  arg_inert [] = true /\ body_inert [35; 63; 35; 63; 49; 50] = false /\
  subst_args 1 [Some (MStr []); Some (MStr [120])] [35; 63; 35; 63; 49; 50] = [120] /\
  simultaneous [[]; [120]] [35; 63; 35; 63; 49; 50] = [35; 63; 50].
Proof. exact subst_body_hash_q_hash_refuted. Qed.

(* ================================================================================================ *)
(* 3. executing a string variable / macro                                                             *)

(* The token `name(args)` of a string variable whose value is `body`: if lexing the text (arguments substituted)
   at this point defines nothing - the lexer state comes back as it went in: no `=` definition, no TimeBase, no
   `$`, nothing logged - then executing the token is executing the tokens of the text on the same song, as a
   nested exec() (here: any function `ec` taking the place of the nested exec, in particular exec_f d steps). *)
Theorem C09_macro_inline : forall (ec : list tok -> res song -> res song)
    (name : list Z) (args : option (list (option marg))) (lineno : Z) (s : song) (body : list Z) (tag : Z) (toks : list tok),
  vars_get name (s_vars s) = Some (VStr body tag) ->
  lex (ls_of_song s) (call_text args body) lineno = Ok (toks, ls_of_song s) ->
  step_song ec (TValue name args lineno) s = ec toks (Ok s).
Proof. exact macro_inline_step. Qed.

(* without the restriction: the nested exec() starts from the song updated with what the text defined *)
Theorem C09_macro_step_general : forall (ec : list tok -> res song -> res song)
    (name : list Z) (args : option (list (option marg))) (lineno : Z) (s : song) (body : list Z) (tag : Z)
    (toks : list tok) (ls' : lexstate),
  vars_get name (s_vars s) = Some (VStr body tag) ->
  lex (ls_of_song s) (call_text args body) lineno = Ok (toks, ls') ->
  step_song ec (TValue name args lineno) s = ec toks (Ok (song_with_ls s ls')).
Proof. exact macro_step_general. Qed.

(* the nested exec() has one unit less of nesting fuel than an inlined text would have; that never matters:
   more nesting fuel does not change an answer other than OutOfFuel *)
Theorem C09_exec_depth_mono : forall (steps d : nat) (toks : list tok) (s : song) (r : res song),
  exec_f d steps toks (Ok s) = r -> r <> OutOfFuel -> exec_f (S d) steps toks (Ok s) = r.
Proof. intros steps d toks s r. exact (exec_f_depth_mono steps d toks s r). Qed.

(* PARTIAL (token level, call site between two balanced token lists).
   p1, q, p2 are structured programs (spec/LoopSpec.v: loops `[n a]`, `[n a : b]` nested to any depth around
   arbitrary non-loop tokens, so their token lists are balanced by construction).  If, in the state in which the
   call is reached, `name` is a string variable and its text lexes to the tokens of q without defining anything,
   then the token list with the call and the token list with q written in its place execute to the same result.
   The two `cost` hypotheses say that the per-loop fuel `steps` suffices (cost is the explicit bound of C05).
   What is missing for the property as worded (on SOURCE TEXT): lex (pre ++ call ++ post) = lex pre ++ [TValue] ++
   lex post and lex (pre ++ text ++ post) = lex pre ++ lex text ++ lex post (compositionality of the lexer at
   command boundaries), and call sites inside Sub{...} / a tuplet / another macro text; call sites INSIDE loop
   bodies are the next theorem (for contexts of quiet tokens, where the call-site condition holds at every pass).
   What is missing is covered by the oracle of tools/props/c09.py only. *)
Theorem C09_macro_inline_seq_partial : forall (steps d : nat) (p1 q p2 : prog tok)
    (name : list Z) (args : option (list (option marg))) (ln : Z) (s0 : song),
  leaves_ok p1 = true -> leaves_ok q = true -> leaves_ok p2 = true ->
  (cost tok (res song) (step_tok (exec_f d steps)) halted (count1 count_of)
        (papp p1 (PCons (Leaf (TValue name args ln)) p2)) (Ok s0) < steps)%nat ->
  (cost tok (res song) (step_tok (exec_f d steps)) halted (count1 count_of) (papp p1 (papp q p2)) (Ok s0) < steps)%nat ->
  (forall s1, sem tok (res song) (step_tok (exec_f d steps)) halted (count1 count_of) p1 (Ok s0) = Ok s1 ->
              s_break_flag s1 = 0 ->
              exists body tag, vars_get name (s_vars s1) = Some (VStr body tag) /\
                               lex (ls_of_song s1) (call_text args body) ln = Ok (toks_of q, ls_of_song s1)) ->
  exec_f (S d) steps (toks_of p1 ++ [TValue name args ln] ++ toks_of p2) (Ok s0) <> OutOfFuel ->
  exec_f (S d) steps (toks_of p1 ++ toks_of q ++ toks_of p2) (Ok s0)
  = exec_f (S d) steps (toks_of p1 ++ [TValue name args ln] ++ toks_of p2) (Ok s0).
Proof. exact macro_inline_exec. Qed.

(* PARTIAL (token level, call sites ANYWHERE in a structured program: top level, inside loops nested to any depth,
   before or after a ':', any number of call sites).  c is a context: a structured program whose leaves are tokens
   (Some t) or the place of the call (None).  `fill tok tv c` puts the call token at every such place, `splice tok q c`
   the structured program q.  All tokens of c and q are `quiet` (notes, rests, every state command, chords, track /
   channel / voice / tempo / key commands ...: everything except Sub, tuplets, nested macro calls and the three
   commands that can write to the log), so the lexer state ls0 in which the text of the macro lexes to the tokens of
   q - defining nothing - is the lexer state at every pass.  wcost is the per-loop fuel bound of C05 read off the
   program (counts do not depend on the state).
   Missing for the property as worded: the same as for C09_macro_inline_seq_partial on the lexer side, and call
   sites inside Sub{...} / a tuplet / another macro text (nested exec() calls, not positions of the token list). *)
Theorem C09_macro_inline_loops_partial : forall (steps d : nat) (c : prog (option tok)) (q : prog tok)
    (name : list Z) (args : option (list (option marg))) (ln : Z) (ls0 : lexstate) (body : list Z) (tag : Z) (s0 : song),
  ctx_leaves tok (fun t => quiet_tok t = true) c ->
  all_leaves tok (fun t => quiet_tok t = true) q ->
  vars_get name (lx_vars ls0) = Some (VStr body tag) ->
  lex ls0 (call_text args body) ln = Ok (toks_of q, ls0) ->
  ls_of_song s0 = ls0 ->
  (wcost tok cnt0 (fill tok (TValue name args ln) c) < steps)%nat ->
  (wcost tok cnt0 (splice tok q c) < steps)%nat ->
  (wcost tok cnt0 q < steps)%nat ->
  exec_f (S d) steps (toks_of (fill tok (TValue name args ln) c)) (Ok s0) <> OutOfFuel ->
  exec_f (S d) steps (toks_of (splice tok q c)) (Ok s0)
  = exec_f (S d) steps (toks_of (fill tok (TValue name args ln) c)) (Ok s0).
Proof. exact macro_inline_ctx. Qed.

(* the token list of a structured program is what exec() is given: [ and ] and : are the loop tokens *)
Theorem C09_toks_of_flatten : forall p : prog tok, leaves_ok p = true -> map to_ltok (toks_of p) = flatten p.
Proof. exact (proj2 to_ltok_unflat). Qed.

(* non-vacuity:   #A={d [2 e]}   then the tokens of   c #A g   against those of   c d [2 e] g   *)
Definition ex_ls : lexstate :=
  match lex (mkLex 96 [] init_vars rhythm_rows false) [35; 65; 61; 123; 100; 32; 91; 50; 32; 101; 93; 125] 0 with
  | Ok (_, ls) => ls
  | _ => mkLex 0 [] [] [] false
  end.
Definition ex_s0 : song := song_after_lex ex_ls.
Definition ex_note (b : Z) : tok := TNote b 0 0 [] 0 (-1) ISIZE_MIN (-1) 0.
Definition ex_call : tok := TValue [35; 65] None 0.
Definition ex_p1 : prog tok := PCons (Leaf (ex_note 0)) PNil.
Definition ex_p2 : prog tok := PCons (Leaf (ex_note 7)) PNil.
Definition ex_q : prog tok :=
  PCons (Leaf (TLineNo 0)) (PCons (Leaf (ex_note 2)) (PCons (Loop 2 (PCons (Leaf (ex_note 4)) PNil) None) PNil)).

Example C09_macro_inline_example :
  vars_get [35; 65] (s_vars ex_s0) = Some (VStr [100; 32; 91; 50; 32; 101; 93] 0) /\
  lex (ls_of_song ex_s0) (call_text None [100; 32; 91; 50; 32; 101; 93]) 0 = Ok (toks_of ex_q, ls_of_song ex_s0) /\
  step_song (exec_f 3 100) ex_call ex_s0 = exec_f 3 100 (toks_of ex_q) (Ok ex_s0) /\
  exec_f 4 100 (toks_of ex_p1 ++ toks_of ex_q ++ toks_of ex_p2) (Ok ex_s0)
  = exec_f 4 100 (toks_of ex_p1 ++ [ex_call] ++ toks_of ex_p2) (Ok ex_s0) /\
  match exec_f 4 100 (toks_of ex_p1 ++ [ex_call] ++ toks_of ex_p2) (Ok ex_s0) with
  | Ok s' => length (tr_events (cur_track s')) = 5%nat
  | _ => False
  end.
Proof.
  assert (Hv : vars_get [35; 65] (s_vars ex_s0) = Some (VStr [100; 32; 91; 50; 32; 101; 93] 0)) by (vm_compute; reflexivity).
  assert (Hl : lex (ls_of_song ex_s0) (call_text None [100; 32; 91; 50; 32; 101; 93]) 0 = Ok (toks_of ex_q, ls_of_song ex_s0))
    by (vm_compute; reflexivity).
  split; [exact Hv|]. split; [exact Hl|].
  split; [exact (C09_macro_inline (exec_f 3 100) _ None 0 ex_s0 _ 0 _ Hv Hl)|].
  split; [|vm_compute; reflexivity].
  apply (C09_macro_inline_seq_partial 100 3 ex_p1 ex_q ex_p2 [35; 65] None 0 ex_s0); try reflexivity.
  - vm_compute. lia.
  - vm_compute. lia.
  - intros s1 E _. vm_compute in E. injection E as <-.
    exists [100; 32; 91; 50; 32; 101; 93], 0. split; vm_compute; reflexivity.
  - vm_compute. discriminate.
Qed.

(*   c [3 #A : e ] #A g   against   c [3 d [2 e] : e ] d [2 e] g   (the definition of #A as above) *)
Definition ex_ctx : prog (option tok) :=
  PCons (Leaf (Some (ex_note 0)))
    (PCons (Loop 3 (PCons (Leaf None) PNil) (Some (PCons (Leaf (Some (ex_note 4))) PNil)))
       (PCons (Leaf None) (PCons (Leaf (Some (ex_note 7))) PNil))).

Example C09_macro_inline_loops_example :
  toks_of (fill tok ex_call ex_ctx)
  = [ex_note 0; TLoopBegin 3; ex_call; TLoopBreak; ex_note 4; TLoopEnd; ex_call; ex_note 7] /\
  exec_f 4 100 (toks_of (splice tok ex_q ex_ctx)) (Ok ex_s0) = exec_f 4 100 (toks_of (fill tok ex_call ex_ctx)) (Ok ex_s0) /\
  match exec_f 4 100 (toks_of (fill tok ex_call ex_ctx)) (Ok ex_s0) with
  | Ok s' => length (tr_events (cur_track s')) = 16%nat
  | _ => False
  end.
Proof.
  split; [reflexivity|]. split; [|vm_compute; reflexivity].
  apply (C09_macro_inline_loops_partial 100 3 ex_ctx ex_q [35; 65] None 0 ex_ls [100; 32; 91; 50; 32; 101; 93] 0 ex_s0).
  - cbn. repeat split; reflexivity.
  - cbn. repeat split; reflexivity.
  - vm_compute. reflexivity.
  - vm_compute. reflexivity.
  - vm_compute. reflexivity.
  - vm_compute. lia.
  - vm_compute. lia.
  - vm_compute. lia.
  - vm_compute. discriminate.
Qed.

(* ================================================================================================ *)
(* 4. Rhythm{...}                                                                                     *)

(* For every table and every text: with any fuel above the length of the text, rhythm_expand is the documented
   expansion - a letter 0x40..0x7F with a non-empty definition is replaced by it, "Sub"/"SUB" is kept (as SUB), a
   parenthesised span is copied verbatim without its outer parentheses (nesting counted), everything else is
   unchanged. *)
Theorem C09_rhythm : forall (tbl : list (Z * list Z)) (fuel : nat) (text : list Z),
  (length text < fuel)%nat ->
  rhythm_expand fuel tbl text = rhythm_expansion (fun c => rhythm_get c tbl) text.
Proof. exact rhythm_expand_spec. Qed.

(* `$x{t}` puts (x, t) in front of the table: afterwards x stands for t, every other character as before ... *)
Theorem C09_rhythm_redefine : forall (tbl : list (Z * list Z)) (x : Z) (t : list Z) (c : Z),
  rhythm_get c ((x, t) :: tbl) = redefine (fun c0 => rhythm_get c0 tbl) x t c.
Proof. exact rhythm_get_redefine. Qed.
(* ... and of two definitions of a letter the later one counts, the earlier one is dead *)
Theorem C09_rhythm_last_wins : forall (tbl : list (Z * list Z)) (x : Z) (t1 t2 : list Z) (c : Z),
  rhythm_get c ((x, t2) :: (x, t1) :: tbl) = rhythm_get c ((x, t2) :: tbl).
Proof. exact rhythm_get_last_wins. Qed.

(* "bs(v10(x))hSubs" with the built-in table = "n36,n38,v10(x)n42,SUBn38," ; and the lexer on `$b{n35,}`:
   the new row is in front (instances by computation - a statement for every body would need a symbolic
   evaluation of lex_f, which is not available) *)
Example C09_rhythm_example :
  rhythm_expand 16 rhythm_rows [98; 115; 40; 118; 49; 48; 40; 120; 41; 41; 104; 83; 117; 98; 115]
  = [110; 51; 54; 44; 110; 51; 56; 44; 118; 49; 48; 40; 120; 41; 110; 52; 50; 44; 83; 85; 66; 110; 51; 56; 44] /\
  (exists toks, lex (mkLex 96 [] init_vars rhythm_rows false) [36; 98; 123; 110; 51; 53; 44; 125] 0
                = Ok (toks, mkLex 96 [] init_vars ((98, [110; 51; 53; 44]) :: rhythm_rows) false)) /\
  (* $b{n35,} $b{n40,} Rhythm{bs}  lexes like  n40,n38, *)
  (exists ls, lex (mkLex 96 [] init_vars rhythm_rows false)
                  [36; 98; 123; 110; 51; 53; 44; 125; 32; 36; 98; 123; 110; 52; 48; 44; 125; 32; 82; 104; 121; 116; 104; 109; 123; 98; 115; 125] 0
              = Ok ([TLineNo 0; TLineNo 0; TNoteN 40 [] 0 (-1) ISIZE_MIN 0; TNoteN 38 [] 0 (-1) ISIZE_MIN 0], ls)).
Proof. split; [vm_compute; reflexivity|]. split; eexists; vm_compute; reflexivity. Qed.

(* ================================================================================================ *)
(* 5. the built-in texts against command.md                                                           *)

(* every string macro documented in command.md (table "Macro and Voice List", value in quotes) starts out with
   exactly the documented text; these are OctaveUnison, Unison5th, Unison3th, Unison *)
Theorem C09_builtin_macros : forall name text : list Z,
  In (name, text) doc_macro_rows -> vars_get name init_vars = Some (VStr text 0).
Proof. exact builtin_macros_documented. Qed.
Theorem C09_builtin_macro_names : map fst doc_macro_rows =
  [ [79; 99; 116; 97; 118; 101; 85; 110; 105; 115; 111; 110]; [85; 110; 105; 115; 111; 110; 53; 116; 104];
    [85; 110; 105; 115; 111; 110; 51; 116; 104]; [85; 110; 105; 115; 111; 110] ].
Proof. exact doc_macro_names. Qed.
(* the only other text macro of mml_def.rs is RndTiming; command.md does not list it *)
Theorem C09_builtin_macros_complete : map fst (filter (fun r => fst (snd r) =? 1) var_rows) =
  map fst doc_macro_rows ++ [[82; 110; 100; 84; 105; 109; 105; 110; 103]].
Proof. exact code_macro_names. Qed.

(* rhythm letters of command.md (b s h H o c _): all but H have the documented text in mml_def.rs *)
Theorem C09_rhythm_letters : forall (c : Z) (t : list Z),
  In (c, t) doc_rhythm_rows -> c <> 72 -> rhythm_get c rhythm_rows = t.
Proof. exact rhythm_letters_documented. Qed.
(* the excluded row really differs: H (72) is "n50," in the program and "n44," in command.md *)
Theorem C09_rhythm_letter_H_differs :
  rhythm_get 72 rhythm_rows = [110; 53; 48; 44] /\ In (72, [110; 52; 52; 44]) doc_rhythm_rows.
Proof. exact rhythm_letter_H_differs. Qed.
(* m, M, L are defined by the program and not documented *)
Theorem C09_rhythm_letters_undocumented :
  filter (fun r => negb (existsb (Z.eqb (fst r)) (map fst doc_rhythm_rows))) rhythm_rows =
  [(109, [110; 52; 54; 44]); (77, [110; 52; 55; 44]); (76, [110; 52; 51; 44])].
Proof. exact rhythm_letters_undocumented. Qed.

Example C09_builtin_example :
  In ([85; 110; 105; 115; 111; 110], [83; 117; 98; 123; 32; 75; 101; 121; 61; 35; 63; 50; 32; 35; 63; 49; 32; 75; 101; 121; 61; 48; 32; 125; 32; 35; 63; 49])
     doc_macro_rows /\ In (98, [110; 51; 54; 44]) doc_rhythm_rows.
Proof. split; cbn; tauto. Qed.

Print Assumptions C09_replace_all_spec.
Print Assumptions C09_replaced_functional.
Print Assumptions C09_contains_occurs.
Print Assumptions C09_subst_spec.
Print Assumptions C09_subst_int_args_inert.
Print Assumptions C09_subst_arg_with_placeholder_refuted.
Print Assumptions C09_subst_ten_arguments_refuted.
Print Assumptions C09_subst_arg_ending_hash_refuted.
Print Assumptions C09_subst_body_double_hash_refuted.
Print Assumptions C09_subst_body_hash_q_hash_refuted.
Print Assumptions C09_macro_inline.
Print Assumptions C09_macro_step_general.
Print Assumptions C09_exec_depth_mono.
Print Assumptions C09_macro_inline_seq_partial.
Print Assumptions C09_macro_inline_loops_partial.
Print Assumptions C09_toks_of_flatten.
Print Assumptions C09_rhythm.
Print Assumptions C09_rhythm_redefine.
Print Assumptions C09_rhythm_last_wins.
Print Assumptions C09_builtin_macros.
Print Assumptions C09_builtin_macro_names.
Print Assumptions C09_builtin_macros_complete.
Print Assumptions C09_rhythm_letters.
Print Assumptions C09_rhythm_letter_H_differs.
Print Assumptions C09_rhythm_letters_undocumented.
