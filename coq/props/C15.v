(* C15 - every command emits the MIDI message the standard and the command list prescribe. *)
From Sakura.Proofs Require Import CmdP.
