(* C15 - every command emits the MIDI message the standard and the command list prescribe.
   Statements only; proofs are `exact <lemma>` (or a vm_compute check of the regenerated tables lifted by
   a lemma of proofs/CmdP.v).  Tables: gen/SysFuncTable.v (mml_def.rs init_system_functions), gen/VoiceTable.v
   (init_variables), gen/DocTable.v (command.md, voice.md) - regenerated from /repo on every run;
   spec/GmSpec.v holds the constants of the MIDI standards, written by hand. *)
From Coq Require Import String.
From Sakura.Model Require Import Base Event Utf8 Cmd Writer.
From Sakura.Spec Require Import SmfSpec TrackSpec GmSpec Utf8Spec CmdSpec.
From Sakura.Gen Require Import SysFuncTable VoiceTable DocTable.
From Sakura.Proofs Require Import CmdP.

(* ============================ table theorems ============================ *)

(* every named controller command carries the controller number that command.md documents (CC#n) and that
   the MIDI standard assigns to the controller of that name; every documented CC#n row is such a command *)
Theorem C15_cc_numbers :
  (forall r, In r sysfuncs -> sf_type r = TkControlChangeCommand ->
     assoc (sf_name r) doc_cc = Some (sf_tag1 r) /\ assoc (sf_name r) named_controllers = Some (sf_tag1 r)) /\
  (forall n v, In (n, v) doc_cc ->
     exists r, In r sysfuncs /\ sf_name r = n /\ sf_type r = TkControlChangeCommand /\ sf_tag1 r = v).
Proof. split; [exact cc_numbers | exact doc_cc_defined]. Qed.

(* Rows of command.md that share a description without being spellings of one command (the description
   was copied: VibratoDepth/VibratoDelay say "set VibratoRate", Array says "define string variables",
   CONTINUE says "exit from loop", Include says "Unimplemented").  They are excluded from C15_aliases by
   name, and C15_doc_copy_paste_not_aliases shows that each of them really is not an alias group. *)
Definition doc_copy_paste_groups : list (list (list Z)) :=
  [ map zs ["System.q2Add"; "q2Add"; "System.Include"; "Include"; "INCLUDE"]%string;
    map zs ["VibratoRate"; "VibratoDepth"; "VibratoDelay"]%string;
    map zs ["Str"; "STR"; "Array"; "ARRAY"]%string;
    map zs ["BREAK"; "Break"; "EXIT"; "Exit"; "CONTINUE"; "Continue"]%string ].

(* all spellings that command.md documents as one command (same description up to the example, same
   CC#n, or `=NAME`) are registered with the same token type, argument type and tags *)
Theorem C15_aliases : forall g, In g doc_alias_groups -> ~ In g doc_copy_paste_groups ->
  forall a b ra rb, In a g -> In b g ->
    find_sysfunc a sysfuncs = Some ra -> find_sysfunc b sysfuncs = Some rb ->
    sf_type ra = sf_type rb /\ sf_arg ra = sf_arg rb /\ sf_tag1 ra = sf_tag1 rb /\ sf_tag2 ra = sf_tag2 rb.
Proof. apply aliases_from_check. vm_compute. reflexivity. Qed.
Theorem C15_doc_copy_paste_not_aliases : forall g, In g doc_copy_paste_groups ->
  In g doc_alias_groups /\ group_ok g = false.
Proof. apply exceptions_from_check. vm_compute. reflexivity. Qed.
(* names are unique, so "the row of a name" is well defined; every documented command is registered
   (End/END are recognised by lex() itself, `Result` is documented but not a command) *)
Theorem C15_rows_unique : forall r, In r sysfuncs -> find_sysfunc (sf_name r) sysfuncs = Some r.
Proof. exact find_row. Qed.
Theorem C15_doc_commands_defined : forall n, In n doc_command_names ->
  ~ In n (map zs ["End"; "END"; "Result"]%string) -> exists r, In r sysfuncs /\ sf_name r = n.
Proof. apply defined_from_check. vm_compute. reflexivity. Qed.

(* every name of voice.md (128 voices, drum sets, drum notes) is defined with its documented number; no
   definition contradicts voice.md or command.md; the General MIDI sound set / percussion map names
   carry their GM numbers; voice.md lists every program 1..128 exactly once, in order *)
Theorem C15_voices :
  (forall n v, In (n, v) doc_all_voices -> assoc n voices = Some v) /\
  (forall n v d, In (n, v) voices -> assoc n doc_all_voices = Some d -> d = v) /\
  (forall n v d, In (n, v) doc_values -> assoc n voices = Some d -> d = v) /\
  (forall n v, In (n, v) gm_programs -> assoc n voices = Some v /\ assoc n doc_voices = Some v) /\
  (forall n v, In (n, v) gm_percussion -> assoc n voices = Some v /\ assoc n doc_drumnotes = Some v) /\
  map snd doc_voices = map Z.of_nat (seq 1 128).
Proof. exact voices_thm. Qed.

(* RPN / NRPN commands select the standard's parameter: pitch bend sensitivity 0,0; fine tune 0,1; coarse
   tune 0,2; GS/XG vibrato rate/depth/delay 1,8/9/10, cutoff 1,32, resonance 1,33, EG 1,99/100/102 *)
Theorem C15_rpn_addresses :
  (forall r, In r sysfuncs -> sf_type r = TkRPNCommand -> assoc (sf_name r) named_rpn = Some (sf_tag1 r, sf_tag2 r)) /\
  (forall r, In r sysfuncs -> sf_type r = TkNRPNCommand -> assoc (sf_name r) named_nrpn = Some (sf_tag1 r, sf_tag2 r)) /\
  (forall n a, In (n, a) named_rpn -> exists r, In r sysfuncs /\ sf_name r = n /\ sf_type r = TkRPNCommand /\ (sf_tag1 r, sf_tag2 r) = a) /\
  (forall n a, In (n, a) named_nrpn -> exists r, In r sysfuncs /\ sf_name r = n /\ sf_type r = TkNRPNCommand /\ (sf_tag1 r, sf_tag2 r) = a).
Proof. exact rpn_addresses. Qed.

(* text commands carry the SMF meta event type of their name *)
Theorem C15_meta_types : forall r, In r sysfuncs -> sf_type r = TkMetaText ->
  assoc (sf_name r) named_text_meta = Some (sf_tag1 r).
Proof. exact meta_types. Qed.

(* non-vacuity of the table theorems *)
Example C15_tables_example :
  (exists r, In r sysfuncs /\ sf_type r = TkControlChangeCommand /\ sf_name r = zs "Reverb" /\ sf_tag1 r = 91) /\
  (exists g, In g doc_alias_groups /\ ~ In g doc_copy_paste_groups /\ In (zs "Tempo") g /\ In (zs "BPM") g /\
             find_sysfunc (zs "BPM") sysfuncs <> None) /\
  In (zs "SteelGuitar", 26) doc_all_voices /\ In (zs "Gunshot", 128) voices /\
  (exists r, In r sysfuncs /\ sf_type r = TkNRPNCommand /\ sf_name r = zs "VibratoRate") /\
  zlen sysfuncs = sysfunc_count /\ (150 <= sysfunc_count).
Proof.
  split; [|split; [|split; [|split; [|split; [|split]]]]].
  - exists (mkSF (zs "Reverb") TkControlChangeCommand 42 91 0). split; [|repeat split].
    apply (proj1 (find_sysfunc_In (zs "Reverb") sysfuncs _ eq_refl)).
  - exists (map zs ["Tempo"; "TEMPO"; "T"; "BPM"]%string).
    split; [|split; [|split; [|split]]].
    + apply mem_group_In. vm_compute. reflexivity.
    + intros H. apply mem_group_In in H. vm_compute in H. discriminate.
    + vm_compute. auto.
    + vm_compute. auto 6.
    + vm_compute. discriminate.
  - apply assoc_In. vm_compute. reflexivity.
  - apply assoc_In. vm_compute. reflexivity.
  - exists (mkSF (zs "VibratoRate") TkNRPNCommand 42 1 8). split; [|repeat split].
    apply (proj1 (find_sysfunc_In (zs "VibratoRate") sysfuncs _ eq_refl)).
  - exact sysfunc_count_ok.
  - vm_compute. discriminate.
Qed.

Print Assumptions C15_cc_numbers.
Print Assumptions C15_aliases.
Print Assumptions C15_doc_copy_paste_not_aliases.
Print Assumptions C15_rows_unique.
Print Assumptions C15_doc_commands_defined.
Print Assumptions C15_voices.
Print Assumptions C15_rpn_addresses.
Print Assumptions C15_meta_types.
