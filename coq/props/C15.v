(* C15 - every command emits the MIDI message the standard and the command list prescribe.
   Statements only; proofs are `exact <lemma>` (or a vm_compute check of the regenerated tables lifted by
   a lemma of proofs/CmdP.v).  Tables: gen/SysFuncTable.v (mml_def.rs init_system_functions), gen/VoiceTable.v
   (init_variables), gen/DocTable.v (command.md, voice.md) - regenerated from /repo on every run;
   spec/GmSpec.v holds the constants of the MIDI standards, written by hand. *)
From Coq Require Import String.
From Sakura.Model Require Import Base Event Utf8 Cmd Writer.
From Sakura.Spec Require Import SmfSpec TrackSpec GmSpec Utf8Spec CmdSpec.
From Sakura.Gen Require Import SysFuncTable VoiceTable DocTable.
From Sakura.Proofs Require Import WriterP CmdP.

(* ============================ table theorems ============================ *)

(* every named controller command carries the controller number that command.md documents (CC#n) and that
   the MIDI standard assigns to the controller of that name; every documented CC#n row is such a command *)
Theorem C15_cc_numbers :
  (forall r, In r sysfuncs -> sf_type r = TkControlChangeCommand ->
     assoc (sf_name r) doc_cc = Some (sf_tag1 r) /\ assoc (sf_name r) named_controllers = Some (sf_tag1 r)) /\
  (forall n v, In (n, v) doc_cc ->
     exists r, In r sysfuncs /\ sf_name r = n /\ sf_type r = TkControlChangeCommand /\ sf_tag1 r = v).
Proof. split; [exact cc_numbers | exact doc_cc_defined]. Qed.

(* Rows of command.md that share a description without being spellings of one command (the description
   was copied: VibratoDepth/VibratoDelay say "set VibratoRate", Array says "define string variables",
   CONTINUE says "exit from loop", Include says "Unimplemented").  They are excluded from C15_aliases by
   name, and C15_doc_copy_paste_not_aliases shows that each of them really is not an alias group. *)
Definition doc_copy_paste_groups : list (list (list Z)) :=
  [ map zs ["System.q2Add"; "q2Add"; "System.Include"; "Include"; "INCLUDE"]%string;
    map zs ["VibratoRate"; "VibratoDepth"; "VibratoDelay"]%string;
    map zs ["Str"; "STR"; "Array"; "ARRAY"]%string;
    map zs ["BREAK"; "Break"; "EXIT"; "Exit"; "CONTINUE"; "Continue"]%string ].

(* all spellings that command.md documents as one command (same description up to the example, same
   CC#n, or `=NAME`) are registered with the same token type, argument type and tags *)
Theorem C15_aliases : forall g, In g doc_alias_groups -> ~ In g doc_copy_paste_groups ->
  forall a b ra rb, In a g -> In b g ->
    find_sysfunc a sysfuncs = Some ra -> find_sysfunc b sysfuncs = Some rb ->
    sf_type ra = sf_type rb /\ sf_arg ra = sf_arg rb /\ sf_tag1 ra = sf_tag1 rb /\ sf_tag2 ra = sf_tag2 rb.
Proof. apply aliases_from_check. vm_compute. reflexivity. Qed.
Theorem C15_doc_copy_paste_not_aliases : forall g, In g doc_copy_paste_groups ->
  In g doc_alias_groups /\ group_ok g = false.
Proof. apply exceptions_from_check. vm_compute. reflexivity. Qed.
(* names are unique, so "the row of a name" is well defined; every documented command is registered
   (End/END are recognised by lex() itself, `Result` is documented but not a command) *)
Theorem C15_rows_unique : forall r, In r sysfuncs -> find_sysfunc (sf_name r) sysfuncs = Some r.
Proof. exact find_row. Qed.
Theorem C15_doc_commands_defined : forall n, In n doc_command_names ->
  ~ In n (map zs ["End"; "END"; "Result"]%string) -> exists r, In r sysfuncs /\ sf_name r = n.
Proof. apply defined_from_check. vm_compute. reflexivity. Qed.

(* every name of voice.md (128 voices, drum sets, drum notes) is defined with its documented number; no
   definition contradicts voice.md or command.md; the General MIDI sound set / percussion map names
   carry their GM numbers; voice.md lists every program 1..128 exactly once, in order *)
Theorem C15_voices :
  (forall n v, In (n, v) doc_all_voices -> assoc n voices = Some v) /\
  (forall n v d, In (n, v) voices -> assoc n doc_all_voices = Some d -> d = v) /\
  (forall n v d, In (n, v) doc_values -> assoc n voices = Some d -> d = v) /\
  (forall n v, In (n, v) gm_programs -> assoc n voices = Some v /\ assoc n doc_voices = Some v) /\
  (forall n v, In (n, v) gm_percussion -> assoc n voices = Some v /\ assoc n doc_drumnotes = Some v) /\
  map snd doc_voices = map Z.of_nat (seq 1 128).
Proof. exact voices_thm. Qed.

(* RPN / NRPN commands select the standard's parameter: pitch bend sensitivity 0,0; fine tune 0,1; coarse
   tune 0,2; GS/XG vibrato rate/depth/delay 1,8/9/10, cutoff 1,32, resonance 1,33, EG 1,99/100/102 *)
Theorem C15_rpn_addresses :
  (forall r, In r sysfuncs -> sf_type r = TkRPNCommand -> assoc (sf_name r) named_rpn = Some (sf_tag1 r, sf_tag2 r)) /\
  (forall r, In r sysfuncs -> sf_type r = TkNRPNCommand -> assoc (sf_name r) named_nrpn = Some (sf_tag1 r, sf_tag2 r)) /\
  (forall n a, In (n, a) named_rpn -> exists r, In r sysfuncs /\ sf_name r = n /\ sf_type r = TkRPNCommand /\ (sf_tag1 r, sf_tag2 r) = a) /\
  (forall n a, In (n, a) named_nrpn -> exists r, In r sysfuncs /\ sf_name r = n /\ sf_type r = TkNRPNCommand /\ (sf_tag1 r, sf_tag2 r) = a).
Proof. exact rpn_addresses. Qed.

(* text commands carry the SMF meta event type of their name *)
Theorem C15_meta_types : forall r, In r sysfuncs -> sf_type r = TkMetaText ->
  assoc (sf_name r) named_text_meta = Some (sf_tag1 r).
Proof. exact meta_types. Qed.

(* non-vacuity of the table theorems *)
Example C15_tables_example :
  (exists r, In r sysfuncs /\ sf_type r = TkControlChangeCommand /\ sf_name r = zs "Reverb" /\ sf_tag1 r = 91) /\
  (exists g, In g doc_alias_groups /\ ~ In g doc_copy_paste_groups /\ In (zs "Tempo") g /\ In (zs "BPM") g /\
             find_sysfunc (zs "BPM") sysfuncs <> None) /\
  In (zs "SteelGuitar", 26) doc_all_voices /\ In (zs "Gunshot", 128) voices /\
  (exists r, In r sysfuncs /\ sf_type r = TkNRPNCommand /\ sf_name r = zs "VibratoRate") /\
  zlen sysfuncs = sysfunc_count /\ (150 <= sysfunc_count).
Proof.
  split; [|split; [|split; [|split; [|split; [|split]]]]].
  - exists (mkSF (zs "Reverb") TkControlChangeCommand 42 91 0). split; [|repeat split].
    apply (proj1 (find_sysfunc_In (zs "Reverb") sysfuncs _ eq_refl)).
  - exists (map zs ["Tempo"; "TEMPO"; "T"; "BPM"]%string).
    split; [|split; [|split; [|split]]].
    + apply mem_group_In. vm_compute. reflexivity.
    + intros H. apply mem_group_In in H. vm_compute in H. discriminate.
    + vm_compute. auto.
    + vm_compute. auto 6.
    + vm_compute. discriminate.
  - apply assoc_In. vm_compute. reflexivity.
  - apply assoc_In. vm_compute. reflexivity.
  - exists (mkSF (zs "VibratoRate") TkNRPNCommand 42 1 8). split; [|repeat split].
    apply (proj1 (find_sysfunc_In (zs "VibratoRate") sysfuncs _ eq_refl)).
  - exact sysfunc_count_ok.
  - vm_compute. discriminate.
Qed.

(* ============================ message theorems (all values, no enumeration) ============================ *)
(* Bytes are those of midi.rs generate_track (model/Writer.v) for the events the modelled arm adds; the decoder is
   the SMF specification decoder (spec/SmfSpec.v).  time = the track's time pointer (first delta), ch = channel 0..15. *)

(* y / CC / named controllers: Bn cc vv *)
Theorem C15_cc_bytes : forall time ch no v, 0 <= time < 2 ^ 28 -> 0 <= ch <= 15 -> 0 <= no <= 127 -> 0 <= v <= 127 ->
  generate_track (cmd_cc time ch no v) = Ok (push_delta time ++ [176 + ch; no; v] ++ EOT) /\
  decode_track (push_delta time ++ [176 + ch; no; v] ++ EOT) = Some [(time, MCC ch no v); EOTmsg].
Proof. exact cc_bytes. Qed.
(* a named controller command runs that arm with the row's controller number (C15_cc_numbers says which) *)
Theorem C15_named_controller : forall r st v, In r sysfuncs -> sf_type r = TkControlChangeCommand ->
  run_command (sf_name r) st [v] [] = Ok (cmd_cc (c_time st) (c_ch st) (sf_tag1 r) v).
Proof. exact named_controller_runs. Qed.

(* @n / Voice(n): program n-1; with banks: bank select MSB on controller 0, then LSB on controller 32, then the
   program change (this is the order of exec_voice and the order the MIDI standard requires); n is clamped to 1..128 *)
Theorem C15_program :
  (forall time ch n, 0 <= time < 2 ^ 28 -> 0 <= ch <= 15 -> 1 <= n <= 128 ->
     generate_track (cmd_voice time ch [n]) = Ok (push_delta time ++ [192 + ch; n - 1] ++ EOT) /\
     decode_track (push_delta time ++ [192 + ch; n - 1] ++ EOT) = Some [(time, MProgram ch (n - 1)); EOTmsg]) /\
  (forall time ch n msb lsb, 0 <= time < 2 ^ 28 -> 0 <= ch <= 15 -> 1 <= n <= 128 -> 0 <= msb <= 127 -> 0 <= lsb <= 127 ->
     generate_track (cmd_voice time ch [n; msb; lsb]) =
       Ok (push_delta time ++ [176 + ch; 0; msb; 0; 176 + ch; 32; lsb; 0; 192 + ch; n - 1] ++ EOT) /\
     decode_track (push_delta time ++ [176 + ch; 0; msb; 0; 176 + ch; 32; lsb; 0; 192 + ch; n - 1] ++ EOT) =
       Some [(time, MCC ch CC_BANK_MSB msb); (0, MCC ch CC_BANK_LSB lsb); (0, MProgram ch (n - 1)); EOTmsg]) /\
  (forall time ch n, cmd_voice time ch [n] = [ev_voice time ch (clamp 1 128 n - 1)]).
Proof. split; [exact program_bytes | split; [exact program_bank_bytes | exact voice1_eq]]. Qed.

(* Tempo: FF 51 03 tt tt tt with tttttt = 60,000,000 / bpm (big-endian) for the range 10..300 the code enforces;
   anything outside is clamped into it *)
Theorem C15_tempo :
  (forall time bpm, 0 <= time < 2 ^ 28 -> 10 <= bpm <= 300 ->
     generate_track (cmd_tempo time bpm) = Ok (push_delta time ++ [255; 81; 3] ++ tempo_payload bpm ++ EOT) /\
     decode_track (push_delta time ++ [255; 81; 3] ++ tempo_payload bpm ++ EOT) = Some [(time, MMeta 81 (tempo_payload bpm)); EOTmsg]) /\
  (forall bpm, 10 <= bpm <= 300 ->
     exists a b c, tempo_payload bpm = [a; b; c] /\ 0 <= a < 256 /\ 0 <= b < 256 /\ 0 <= c < 256 /\
                   (a * 256 + b) * 256 + c = 60000000 / bpm) /\
  (forall time bpm, cmd_tempo time bpm = cmd_tempo time (clamp 10 300 bpm)).
Proof. split; [exact tempo_bytes | split; [exact tempo_payload_value | exact tempo_clamps]]. Qed.

(* TimeSignature(nn, dd): FF 58 04 nn log2(dd) 18 08 for numerators 2..64 and denominators 2, 4, 8, 16; other
   numerators are clamped to 2..64, other denominators are replaced by 4 (with an error message, not modelled) *)
Theorem C15_timesig :
  (forall time nn dd l, 0 <= time < 2 ^ 28 -> 2 <= nn <= 64 -> log2_denominator dd = Some l ->
     generate_track (cmd_timesig time [nn; dd]) = Ok (push_delta time ++ [255; 88; 4; nn; l; 24; 8] ++ EOT) /\
     decode_track (push_delta time ++ [255; 88; 4; nn; l; 24; 8] ++ EOT) = Some [(time, MMeta 88 [nn; l; 24; 8]); EOTmsg]) /\
  (forall time a0 a1, cmd_timesig time [a0; a1] = cmd_timesig time [clamp 2 64 a0; timesig_deno a1]).
Proof. split; [exact timesig_bytes | exact timesig_clamps]. Qed.

(* pitch bend: En lsb msb, 14 bits LSB first; PitchBend(v) sends v + 8192 (centre 8192 = 00 40); p(v) sends 128*v *)
Theorem C15_bend :
  (forall time ch v, 0 <= time < 2 ^ 28 -> 0 <= ch <= 15 -> -8192 <= v <= 8191 ->
     let v14 := v + BEND_CENTRE in
     generate_track (cmd_pitch_bend time ch true v) = Ok (push_delta time ++ [224 + ch; bend_lsb v14; bend_msb v14] ++ EOT) /\
     decode_track (push_delta time ++ [224 + ch; bend_lsb v14; bend_msb v14] ++ EOT)
       = Some [(time, MBend ch (bend_lsb v14) (bend_msb v14)); EOTmsg] /\
     0 <= bend_lsb v14 < 128 /\ 0 <= bend_msb v14 < 128 /\ bend_lsb v14 + 128 * bend_msb v14 = v + 8192) /\
  (forall time ch v, 0 <= time < 2 ^ 28 -> 0 <= ch <= 15 -> 0 <= v <= 127 ->
     generate_track (cmd_pitch_bend time ch false v) = Ok (push_delta time ++ [224 + ch; 0; v] ++ EOT) /\
     decode_track (push_delta time ++ [224 + ch; 0; v] ++ EOT) = Some [(time, MBend ch 0 v); EOTmsg]).
Proof. split; [exact bend_big_bytes | exact bend_small_bytes]. Qed.

(* RPN / NRPN: select the parameter (101,100 / 99,98: MSB then LSB), then the value on data entry (6); the named
   commands run this with the row's address (C15_rpn_addresses says which) *)
Theorem C15_rpn_nrpn :
  (forall time ch m l v, 0 <= time < 2 ^ 28 -> 0 <= ch <= 15 -> 0 <= m <= 127 -> 0 <= l <= 127 -> 0 <= v <= 127 ->
     generate_track (cmd_rpn time ch m l v) =
       Ok (push_delta time ++ [176 + ch; 101; m; 0; 176 + ch; 100; l; 0; 176 + ch; 6; v] ++ EOT) /\
     decode_track (push_delta time ++ [176 + ch; 101; m; 0; 176 + ch; 100; l; 0; 176 + ch; 6; v] ++ EOT) =
       Some [(time, MCC ch CC_RPN_MSB m); (0, MCC ch CC_RPN_LSB l); (0, MCC ch CC_DATA_ENTRY v); EOTmsg]) /\
  (forall time ch m l v, 0 <= time < 2 ^ 28 -> 0 <= ch <= 15 -> 0 <= m <= 127 -> 0 <= l <= 127 -> 0 <= v <= 127 ->
     generate_track (cmd_nrpn time ch m l v) =
       Ok (push_delta time ++ [176 + ch; 99; m; 0; 176 + ch; 98; l; 0; 176 + ch; 6; v] ++ EOT) /\
     decode_track (push_delta time ++ [176 + ch; 99; m; 0; 176 + ch; 98; l; 0; 176 + ch; 6; v] ++ EOT) =
       Some [(time, MCC ch CC_NRPN_MSB m); (0, MCC ch CC_NRPN_LSB l); (0, MCC ch CC_DATA_ENTRY v); EOTmsg]) /\
  (forall r st v, In r sysfuncs -> sf_type r = TkRPNCommand ->
     run_command (sf_name r) st [v] [] = Ok (cmd_rpn (c_time st) (c_ch st) (sf_tag1 r) (sf_tag2 r) v)) /\
  (forall r st v, In r sysfuncs -> sf_type r = TkNRPNCommand ->
     run_command (sf_name r) st [v] [] = Ok (cmd_nrpn (c_time st) (c_ch st) (sf_tag1 r) (sf_tag2 r) v)).
Proof.
  split; [|split; [|split; [exact named_rpn_runs | exact named_nrpn_runs]]];
    intros; unfold CC_RPN_MSB, CC_RPN_LSB, CC_NRPN_MSB, CC_NRPN_LSB, CC_DATA_ENTRY; apply select_data_bytes; lia.
Qed.

(* Roland checksum of Event::sysex: for data `pre, -1, body, -2, post` (no marker inside pre/body) the byte written
   for -2 makes (sum of the body bytes as written + checksum) a multiple of 128; the GS DT1 messages of the GSEffect
   arm are exactly F0 41 dev 42 12 <address data> <checksum> F7 *)
Theorem C15_roland_checksum :
  (forall time pre body post, Forall (fun x => x <> -1) pre -> no_marker body ->
     let cs := roland_checksum (map as_u8 body) in
     ev_sysex time (pre ++ [-1] ++ body ++ [-2] ++ post) true
       = ev_sysex_raw time (map as_u8 pre ++ map as_u8 body ++ [cs] ++ sysex_sum_loop post false (zsum body)) /\
     0 <= cs < 128 /\ (zsum (map as_u8 body) + cs) mod 128 = 0 /\ roland_ok (map as_u8 body ++ [cs]) = true) /\
  (forall time dev body, 0 <= dev <= 255 -> Forall (fun x => 0 <= x <= 255) body ->
     gs_dt1 time dev body = ev_sysex_raw time (240 :: GS_DT1 dev body)).
Proof. split; [exact roland_checksum_law | exact gs_dt1_eq]. Qed.

(* every {..} group of a message carries its own checksum (after repo fix: the sum starts from 0 at every group): the loop
   outside a group, with ANY sum s left behind by earlier groups, writes the next group with the checksum of that group
   alone; the second statement spells it out for two groups in one message *)
Theorem C15_roland_checksum_every_group :
  (forall pre body post s, Forall (fun x => x <> -1) pre -> no_marker body ->
     let cs := roland_checksum (map as_u8 body) in
     sysex_sum_loop (pre ++ [-1] ++ body ++ [-2] ++ post) false s
       = map as_u8 pre ++ map as_u8 body ++ [cs] ++ sysex_sum_loop post false (zsum body) /\
     (zsum (map as_u8 body) + cs) mod 128 = 0) /\
  (forall time pre b1 mid b2 post,
     Forall (fun x => x <> -1) pre -> no_marker b1 -> Forall (fun x => x <> -1) mid -> no_marker b2 ->
     ev_sysex time (pre ++ [-1] ++ b1 ++ [-2] ++ mid ++ [-1] ++ b2 ++ [-2] ++ post) true
       = ev_sysex_raw time (map as_u8 pre ++ map as_u8 b1 ++ [roland_checksum (map as_u8 b1)] ++
                            map as_u8 mid ++ map as_u8 b2 ++ [roland_checksum (map as_u8 b2)] ++ sysex_sum_loop post false (zsum b2))).
Proof. split; [exact roland_checksum_every_group | exact roland_checksum_two_groups]. Qed.
Example C15_two_groups_example :
  e_data (ev_sysex 0 [240; 65; 16; 66; 18; -1; 64; 0; 127; 0; -2; -1; 64; 1; 48; 5; -2; 247] true)
  = Some [240; 65; 16; 66; 18; 64; 0; 127; 0; 65; 64; 1; 48; 5; 10; 247].
Proof. vm_compute. reflexivity. Qed.

(* resets and universal device control: the standard strings (stored with their F0; the writer emits F0 len rest) *)
Theorem C15_resets :
  (forall time dev,
     cmd_sysex_reset time dev 0 = [ev_sysex_raw time (240 :: GM_SYSTEM_ON)] /\
     cmd_sysex_reset time dev 1 = [ev_sysex_raw time (240 :: GS_RESET dev)] /\
     cmd_sysex_reset time dev 2 = [ev_sysex_raw time (240 :: XG_SYSTEM_ON dev)]) /\
  (forall time v, 0 <= v <= 127 -> cmd_sysex_command time 1 [v] = [ev_sysex_raw time (240 :: MASTER_VOLUME v)]) /\
  (forall time v, -8192 <= v <= 8191 -> cmd_sysex_command time 2 [v] = [ev_sysex_raw time (240 :: MASTER_BALANCE (v + BEND_CENTRE))]) /\
  (forall time payload, 0 <= time < 2 ^ 28 -> forallb byte_ok payload = true -> zlen payload + 1 < 2 ^ 28 ->
     generate_track [ev_sysex_raw time (240 :: payload)] =
       Ok (push_delta time ++ [240] ++ push_delta (zlen payload) ++ payload ++ EOT) /\
     decode_track (push_delta time ++ [240] ++ push_delta (zlen payload) ++ payload ++ EOT) = Some [(time, MSysEx payload); EOTmsg]).
Proof. split; [exact reset_eq | split; [exact master_volume_eq | split; [exact master_balance_eq | exact sysex_track]]]. Qed.

(* text commands: the payload is the UTF-8 encoding (RFC 3629: the strict decoder gives the characters back) of a
   prefix `kept` of the text - a whole number of characters -, shorter than 128 bytes, longest such prefix; the
   length byte equals the payload length; on the wire FF ty len payload *)
Theorem C15_text :
  (forall time ty txt, Forall scalar txt ->
     exists kept rest,
       txt = kept ++ rest /\
       cmd_meta_text time ty txt = [ev_meta time 255 ty (zlen (utf8 kept)) (utf8 kept)] /\
       utf8 txt = utf8 kept ++ utf8 rest /\
       utf8_decode (utf8 kept) = Some kept /\
       zlen (utf8 kept) < 128 /\
       (rest = [] \/ exists c r, rest = c :: r /\ 128 <= zlen (utf8 (kept ++ [c])))) /\
  (forall time ty txt, 0 <= time < 2 ^ 28 -> 1 <= ty <= 7 -> Forall scalar txt ->
     let p := utf8 (fit_below 128 txt) in
     generate_track (cmd_meta_text time ty txt) = Ok (push_delta time ++ [255; ty; zlen p] ++ p ++ EOT) /\
     decode_track (push_delta time ++ [255; ty; zlen p] ++ p ++ EOT) = Some [(time, MMeta ty p); EOTmsg] /\ zlen p < 128) /\
  (forall r st txt, In r sysfuncs -> sf_type r = TkMetaText ->
     run_command (sf_name r) st [] txt = Ok (cmd_meta_text (c_time st) (sf_tag1 r) txt)).
Proof. split; [exact meta_text_thm | split; [exact meta_text_bytes | exact text_runs]]. Qed.
(* the model's encoder (Rust's String::push) is the RFC's bit layout, which the strict decoder inverts *)
Theorem C15_utf8 :
  (forall s, utf8_encode s = utf8 s) /\ (forall s, Forall scalar s -> utf8_decode (utf8 s) = Some s).
Proof. split; [exact utf8_encode_spec | exact utf8_roundtrip]. Qed.

(* Capstone: for EVERY spelling for which the command list / the standards prescribe messages (prescription_of:
   the row's own name or its documentation alias group) and EVERY argument tuple of the documented domain
   (spec_msgs <> None), the command model - dispatched through the regenerated system function table - produces
   events whose track decodes, under the SMF grammar, to exactly the prescribed messages.
   No command is excluded. *)
Theorem C15_model_meets_prescription : forall n p st args txt ms,
  prescription_of n = Some p ->
  spec_msgs p (c_ch st) (c_dev st) args txt = Some ms ->
  0 <= c_time st < 2 ^ 28 -> 0 <= c_ch st <= 15 -> c_dev st = DEFAULT_DEVICE -> Forall scalar txt ->
  exists evs, run_any n st args txt = Ok evs /\
    generate_track evs = Ok (enc_track (spec_items (c_time st) ms) ++ EOT) /\
    decode_track (enc_track (spec_items (c_time st) ms) ++ EOT) = Some (spec_items (c_time st) ms ++ [EOTmsg]).
Proof. exact model_meets_prescription. Qed.
(* non-vacuity of the message theorems: concrete instances inside every hypothesis *)
Example C15_messages_example :
  generate_track (cmd_cc 96 2 7 100) = Ok [96; 178; 7; 100; 0; 255; 47; 0] /\
  generate_track (cmd_voice 0 0 [26; 1; 2]) = Ok [0; 176; 0; 1; 0; 176; 32; 2; 0; 192; 25; 0; 255; 47; 0] /\
  generate_track (cmd_tempo 0 120) = Ok [0; 255; 81; 3; 7; 161; 32; 0; 255; 47; 0] /\ tempo_payload 120 = [7; 161; 32] /\
  generate_track (cmd_timesig 0 [6; 8]) = Ok [0; 255; 88; 4; 6; 3; 24; 8; 0; 255; 47; 0] /\ log2_denominator 8 = Some 3 /\
  generate_track (cmd_pitch_bend 0 0 true 0) = Ok [0; 224; 0; 64; 0; 255; 47; 0] /\
  generate_track (cmd_pitch_bend 0 0 false 127) = Ok [0; 224; 0; 127; 0; 255; 47; 0] /\
  run_command (zs "VibratoRate") (mkC 0 0 16) [64] [] = Ok (cmd_nrpn 0 0 1 8 64) /\
  e_data (gs_dt1 0 16 [64; 1; 48; 5]) = Some [240; 65; 16; 66; 18; 64; 1; 48; 5; 10; 247] /\
  no_marker [64; 1; 48; 5] /\
  run_command (zs "TrackName") (mkC 0 0 16) [] [104; 105] = Ok [ev_meta 0 255 3 2 [104; 105]] /\
  Forall scalar [104; 8364; 128512] /\ utf8 [104; 8364; 128512] = [104; 226; 130; 172; 240; 159; 152; 128] /\
  (exists ms, prescription_of (zs "BPM") = Some PTempo /\ spec_msgs PTempo 0 16 [120] [] = Some ms /\
              run_any (zs "BPM") (mkC 0 0 16) [120] [] = Ok [ev_meta 0 255 81 3 [7; 161; 32]]).
Proof.
  repeat match goal with |- _ /\ _ => split end; try (vm_compute; reflexivity).
  - repeat constructor; lia.
  - repeat constructor; unfold scalar; lia.
  - eexists. split; [vm_compute; reflexivity|]. split; [vm_compute; reflexivity|].
    vm_compute. reflexivity.
Qed.

Print Assumptions C15_cc_numbers.
Print Assumptions C15_aliases.
Print Assumptions C15_doc_copy_paste_not_aliases.
Print Assumptions C15_rows_unique.
Print Assumptions C15_doc_commands_defined.
Print Assumptions C15_voices.
Print Assumptions C15_rpn_addresses.
Print Assumptions C15_meta_types.
Print Assumptions C15_cc_bytes.
Print Assumptions C15_named_controller.
Print Assumptions C15_program.
Print Assumptions C15_tempo.
Print Assumptions C15_timesig.
Print Assumptions C15_bend.
Print Assumptions C15_rpn_nrpn.
Print Assumptions C15_roland_checksum.
Print Assumptions C15_roland_checksum_every_group.
Print Assumptions C15_resets.
Print Assumptions C15_text.
Print Assumptions C15_utf8.
Print Assumptions C15_model_meets_prescription.
