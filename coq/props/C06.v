(* C06 - Sub, tuplets (Div) and chords obey their time-pointer laws for any contents.
   Statements only; every proof is `exact <lemma>` (proofs/BlockP.v).

   The model: RunCore.step_song ec t s is the arm of runner.rs exec() for the token t, `ec` being exec() applied to
   the children of a Sub / Div token (RunCore.exec_f instantiates ec := exec_f d steps).  The Sub and Div laws
   are stated for EVERY ec and EVERY children list X - nothing is assumed about what X contains or does.
   The chord and share laws quantify over every list of notes; they are stated on the left-to-right fold
   of step_song (BlockP.fold_steps) and carried over to exec() itself by C06_exec_loopfree.
     cur_ok s    the current track exists (invariant of the interpreter)
     quiet s     cur_ok, no chord open, no tie pending *)
From Sakura.Model Require Import Base Cursor Length Event Song Token LoopMachine LexCore RunCore.
From Sakura.Proofs Require Import BlockP.
Open Scope Z_scope.

(* ---- Sub ---- *)

(* Sub{X} = X, then the time pointer of the current track is put back to where it stood *)
Theorem C06_sub : forall (ec : list tok -> res song -> res song) (X : list tok) (s s' : song),
  step_song ec (TSub X) s = Ok s' ->
  exists s2, ec X (Ok s) = Ok s2 /\
             s' = upd_cur s2 (fun t => tr_set_timepos t (tr_timepos (cur_track s))).
Proof. exact sub_law. Qed.

(* frame: everything except that one time pointer is exactly as X left it *)
Theorem C06_sub_frame : forall (ec : list tok -> res song -> res song) (X : list tok) (s s' : song),
  step_song ec (TSub X) s = Ok s' ->
  exists s2, ec X (Ok s) = Ok s2 /\
    s_set_tracks s' [] = s_set_tracks s2 [] /\
    length (s_tracks s') = length (s_tracks s2) /\
    (forall i, i <> s_cur s2 -> nth i (s_tracks s') (track_new 0 0) = nth i (s_tracks s2) (track_new 0 0)) /\
    (cur_ok s2 -> cur_track s' = tr_set_timepos (cur_track s2) (tr_timepos (cur_track s))).
Proof. exact sub_frame. Qed.

Theorem C06_sub_restores : forall (ec : list tok -> res song -> res song) (X : list tok) (s s' s2 : song),
  step_song ec (TSub X) s = Ok s' -> ec X (Ok s) = Ok s2 -> cur_ok s2 ->
  s_cur s' = s_cur s2 /\ tr_timepos (cur_track s') = tr_timepos (cur_track s).
Proof. exact sub_restores. Qed.

(* ---- tuplet ---- *)

(* {X}L = X run with the default length set to L quot cnt, then the pointer is forced to start + L and the
   default length is the old one again *)
Theorem C06_div : forall (ec : list tok -> res song -> res song) (cnt : Z) (len : list ch) (X : list tok) (s s' : song),
  step_song ec (TDiv cnt len X) s = Ok s' ->
  exists s2, ec X (Ok (div_entry cnt len s)) = Ok s2 /\
    s' = upd_cur s2 (fun t => tr_set_length (tr_set_timepos t (tr_timepos (cur_track s) + div_len len s))
                                            (tr_length (cur_track s))).
Proof. exact div_law. Qed.

Theorem C06_div_advance : forall (ec : list tok -> res song -> res song) (cnt : Z) (len : list ch) (X : list tok) (s s' s2 : song),
  step_song ec (TDiv cnt len X) s = Ok s' -> ec X (Ok (div_entry cnt len s)) = Ok s2 -> cur_ok s2 ->
  s_cur s' = s_cur s2 /\
  tr_timepos (cur_track s') = tr_timepos (cur_track s) + calc_length len (s_timebase s) (tr_length (cur_track s)).
Proof. exact div_advance. Qed.

Theorem C06_div_restores_length : forall (ec : list tok -> res song -> res song) (cnt : Z) (len : list ch) (X : list tok) (s s' s2 : song),
  step_song ec (TDiv cnt len X) s = Ok s' -> ec X (Ok (div_entry cnt len s)) = Ok s2 -> cur_ok s2 ->
  tr_length (cur_track s') = tr_length (cur_track s).
Proof. exact div_restores_length. Qed.

(* the state X starts in: default length = L quot cnt (cnt > 0), pointer untouched *)
Theorem C06_div_children_length : forall (cnt : Z) (len : list ch) (s : song), cur_ok s -> cnt > 0 ->
  tr_length (cur_track (div_entry cnt len s)) = Z.quot (calc_length len (s_timebase s) (tr_length (cur_track s))) cnt /\
  tr_timepos (cur_track (div_entry cnt len s)) = tr_timepos (cur_track s).
Proof. exact div_children_length. Qed.

Theorem C06_div_frame : forall (ec : list tok -> res song -> res song) (cnt : Z) (len : list ch) (X : list tok) (s s' : song),
  step_song ec (TDiv cnt len X) s = Ok s' ->
  exists s2, ec X (Ok (div_entry cnt len s)) = Ok s2 /\
    s_set_tracks s' [] = s_set_tracks s2 [] /\
    length (s_tracks s') = length (s_tracks s2) /\
    (forall i, i <> s_cur s2 -> nth i (s_tracks s') (track_new 0 0) = nth i (s_tracks s2) (track_new 0 0)) /\
    (cur_ok s2 -> cur_track s' = tr_set_length (tr_set_timepos (cur_track s2) (tr_timepos (cur_track s) + div_len len s))
                                               (tr_length (cur_track s))).
Proof. exact div_frame. Qed.

(* a note written without a length lasts the default length of the state it is executed in (inside a tuplet:
   the share), and advances the pointer by it; an explicit length is kept *)
Theorem C06_note_length : forall (ec : list tok -> res song -> res song) (base flag natural : Z) (len : list ch)
    (qlen vel timing oct : Z) (s : song),
  cur_ok s -> s_harmony_flag s = false -> tr_tie_notes (cur_track s) = [] ->
  tr_rsv (cur_track s) = rsv_new ->       (* nothing reserved on the track: an l.onNote / v.onNote / .Random ... would change the note *)
  exists s',
    step_song ec (TNote base flag natural len qlen vel timing oct 0) s = Ok s' /\
    tr_timepos (cur_track s') = tr_timepos (cur_track s) + calc_length len (s_timebase s) (tr_length (cur_track s)) /\
    tr_events (cur_track s') = tr_events (cur_track s) ++ [note_event s (TNote base flag natural len qlen vel timing oct 0)] /\
    tr_length (cur_track s') = tr_length (cur_track s) /\
    cur_ok s' /\ s_harmony_flag s' = false /\ tr_tie_notes (cur_track s') = [] /\
    s_timebase s' = s_timebase s /\ s_cur s' = s_cur s /\ tr_rsv (cur_track s') = rsv_new.
Proof. exact note_plain. Qed.

Theorem C06_no_length_is_default : forall tb d : Z, calc_length [] tb d = d.
Proof. exact calc_length_empty. Qed.

(* C06_div_share: a tuplet of n counted elements without lengths of their own (lettered notes, numbered notes,
   rests), children executed in order: after k elements the pointer stands at start + k * (L quot n), every
   note lasts (L quot n) * gate / 100, and the tuplet ends at start + L with the old default length *)
Theorem C06_div_share : forall (ec : list tok -> res song -> res song) (len : list ch) (X : list tok) (s : song),
  quiet s -> Forall plain_elem X -> X <> [] ->
  let n := Z.of_nat (length X) in
  let D := calc_length len (s_timebase s) (tr_length (cur_track s)) in
  let tp := tr_timepos (cur_track s) in
  (forall X1 X2, X = X1 ++ X2 ->
     exists s1 evs, fold_steps ec X1 (Ok (div_entry n len s)) = Ok s1 /\
       tr_timepos (cur_track s1) = tp + Z.of_nat (length X1) * Z.quot D n /\
       tr_length (cur_track s1) = Z.quot D n /\
       tr_events (cur_track s1) = tr_events (cur_track s) ++ evs /\
       Forall (share_event (Z.quot D n)) evs) /\
  exists s', step_song (fold_steps ec) (TDiv n len X) s = Ok s' /\
    tr_timepos (cur_track s') = tp + D /\ tr_length (cur_track s') = tr_length (cur_track s).
Proof. exact div_share_law. Qed.

(* the same with the children executed by exec() *)
Theorem C06_div_share_exec : forall (d steps : nat) (len : list ch) (X : list tok) (s : song),
  quiet s -> Forall plain_elem X -> X <> [] -> (length X < steps)%nat -> s_break_flag s = 0 ->
  let n := Z.of_nat (length X) in
  let D := calc_length len (s_timebase s) (tr_length (cur_track s)) in
  let tp := tr_timepos (cur_track s) in
  (forall X1 X2, X = X1 ++ X2 ->
     exists s1 evs, exec_f (S d) steps X1 (Ok (div_entry n len s)) = Ok s1 /\
       tr_timepos (cur_track s1) = tp + Z.of_nat (length X1) * Z.quot D n /\
       tr_length (cur_track s1) = Z.quot D n /\
       tr_events (cur_track s1) = tr_events (cur_track s) ++ evs /\
       Forall (share_event (Z.quot D n)) evs) /\
  exists s', step_song (exec_f (S d) steps) (TDiv n len X) s = Ok s' /\
    tr_timepos (cur_track s') = tp + D /\ tr_length (cur_track s') = tr_length (cur_track s).
Proof. exact div_share_exec. Qed.

(* ---- chord ---- *)

(* 'ns'L,q,v for ANY list ns of lettered notes: |ns| new events, all at the start tick, all lasting L*q'/100
   (q' = the chord's gate, else the track's), with the chord's velocity when given; the pointer ends at
   start + L; every other track and the default length are untouched; no chord stays open.
   (The collected notes are written last-first: the keys appear in reverse order.) *)
Theorem C06_chord : forall (ec : list tok -> res song -> res song) (ns : list tok) (len : list ch) (q : Z) (vel : option Z) (s : song),
  Forall is_chord_note ns -> cur_ok s -> s_harmony_flag s = false -> s_harmony_events s = [] -> s_octave_once s = 0 ->
  tr_rsv (cur_track s) = rsv_new ->       (* nothing reserved on the track *)
  let trk := cur_track s in
  let note_len := calc_length len (s_timebase s) (tr_length trk) in
  let q' := if q <? 0 then tr_qlen trk else q in
  q' <> 0 ->
  exists s' evs,
    fold_steps ec ([THarmonyBegin] ++ ns ++ [THarmonyEnd len q vel]) (Ok s) = Ok s' /\
    tr_events (cur_track s') = tr_events trk ++ evs /\
    length evs = length ns /\
    Forall (fun e => e_type e = NoteOn /\ e_ch e = tr_channel trk /\
                     e_time e = tr_timepos trk /\
                     e_v2 e = Z.quot (note_len * q') 100 /\
                     (forall v, vel = Some v -> e_v3 e = v)) evs /\
    map e_v1 evs = rev (map (fun t => e_v1 (note_event s t)) ns) /\
    tr_timepos (cur_track s') = tr_timepos trk + note_len /\
    tr_length (cur_track s') = tr_length trk /\
    s_harmony_flag s' = false /\ s_harmony_events s' = [] /\ s_octave_once s' = 0 /\ cur_ok s' /\
    (forall i, i <> s_cur s -> nth i (s_tracks s') (track_new 0 0) = nth i (s_tracks s) (track_new 0 0)) /\
    s_cur s' = s_cur s /\ s_timebase s' = s_timebase s.
Proof. exact chord_law. Qed.

(* exec() on any loop-free token list is the fold (per-loop fuel above the length of the list; break_flag down),
   so the fold-level laws above are laws of exec() *)
Theorem C06_exec_loopfree : forall (d steps : nat) (toks : list tok) (s : song),
  loop_free toks = true -> (length toks < steps)%nat -> s_break_flag s = 0 ->
  exec_f (S d) steps toks (Ok s) = fold_steps (exec_f d steps) toks (Ok s).
Proof. exact exec_f_loopfree. Qed.

Theorem C06_chord_exec : forall (d steps : nat) (ns : list tok) (len : list ch) (q : Z) (vel : option Z) (s : song),
  Forall is_chord_note ns -> (length ns + 2 < steps)%nat -> s_break_flag s = 0 ->
  exec_f (S d) steps ([THarmonyBegin] ++ ns ++ [THarmonyEnd len q vel]) (Ok s)
  = fold_steps (exec_f d steps) ([THarmonyBegin] ++ ns ++ [THarmonyEnd len q vel]) (Ok s).
Proof. exact chord_exec_f. Qed.

(* ---- non-vacuity: Sub{c {de}4 'ce'2,50} c  and friends on the initial song, by evaluation ---- *)
Definition ex_c := TNote 0 0 0 [] 0 (-1) ISIZE_MIN (-1) 0.
Definition ex_e := TNote 4 0 0 [] 0 (-1) ISIZE_MIN (-1) 0.
Definition ex_g4 := TNote 7 0 0 [52] 0 (-1) ISIZE_MIN (-1) 0.
Definition ex_ec := exec_f 3 100.
Definition ex_X := [ex_c; TDiv 2 [52] [ex_c; ex_e]; THarmonyBegin; ex_c; ex_e; THarmonyEnd [50] 50 None].

Example C06_example_sub :
  exists s', step_song ex_ec (TSub ex_X) song_new = Ok s' /\
    (exists s2, ex_ec ex_X (Ok song_new) = Ok s2 /\ cur_ok s2 /\ tr_timepos (cur_track s2) = 384) /\
    tr_timepos (cur_track s') = 0 /\ length (tr_events (cur_track s')) = 5%nat.
Proof. eexists. split; [vm_compute; reflexivity|]. split; [eexists; split; [vm_compute; reflexivity|]|]; vm_compute; repeat split; lia. Qed.

Example C06_example_div :
  exists s' s2, step_song ex_ec (TDiv 3 [50] [ex_c; ex_e; ex_g4]) song_new = Ok s' /\
    ex_ec [ex_c; ex_e; ex_g4] (Ok (div_entry 3 [50] song_new)) = Ok s2 /\ cur_ok s2 /\
    tr_timepos (cur_track s2) = 224 /\                     (* 64 + 64 + 96: the explicit length is kept *)
    tr_timepos (cur_track s') = 192 /\ tr_length (cur_track s') = 96 /\
    map e_v2 (tr_events (cur_track s')) = [57; 57; 86].
Proof. eexists. eexists. split; [vm_compute; reflexivity|]. split; [vm_compute; reflexivity|]. vm_compute. repeat split; lia. Qed.

Example C06_example_share :
  quiet song_new /\ Forall plain_elem [ex_c; TRest 1 []; TNoteN 60 [] 0 (-1) ISIZE_MIN 0] /\
  s_break_flag song_new = 0 /\
  exists s', step_song (exec_f 2 100) (TDiv 3 [52] [ex_c; TRest 1 []; TNoteN 60 [] 0 (-1) ISIZE_MIN 0]) song_new = Ok s' /\
    map (fun e => (e_time e, e_v2 e)) (tr_events (cur_track s')) = [(0, 28); (64, 28)] /\ tr_timepos (cur_track s') = 96.
Proof.
  split; [repeat split; vm_compute; lia|]. split.
  - constructor; [left; unfold ex_c; repeat eexists|].
    constructor; [right; right; reflexivity|].
    constructor; [right; left; repeat eexists|constructor].
  - split; [reflexivity|]. eexists. split; [vm_compute; reflexivity|]. vm_compute. split; reflexivity.
Qed.

Example C06_example_chord :
  Forall is_chord_note [ex_c; ex_e; ex_g4] /\ cur_ok song_new /\ s_harmony_flag song_new = false /\
  s_harmony_events song_new = [] /\ s_octave_once song_new = 0 /\
  (if 50 <? 0 then tr_qlen (cur_track song_new) else 50) <> 0 /\
  exists s', exec_f 1 100 ([THarmonyBegin] ++ [ex_c; ex_e; ex_g4] ++ [THarmonyEnd [50] 50 (Some 33)]) (Ok song_new) = Ok s' /\
    map (fun e => (e_time e, e_v1 e, e_v2 e, e_v3 e)) (tr_events (cur_track s')) = [(0, 67, 96, 33); (0, 64, 96, 33); (0, 60, 96, 33)] /\
    tr_timepos (cur_track s') = 192.
Proof.
  split; [repeat constructor; unfold is_chord_note, ex_c, ex_e, ex_g4; repeat eexists|].
  split; [vm_compute; lia|]. repeat (split; [reflexivity || (vm_compute; lia)|]).
  eexists. split; [vm_compute; reflexivity|]. vm_compute. split; reflexivity.
Qed.

Print Assumptions C06_sub.
Print Assumptions C06_sub_frame.
Print Assumptions C06_sub_restores.
Print Assumptions C06_div.
Print Assumptions C06_div_advance.
Print Assumptions C06_div_restores_length.
Print Assumptions C06_div_children_length.
Print Assumptions C06_div_frame.
Print Assumptions C06_note_length.
Print Assumptions C06_no_length_is_default.
Print Assumptions C06_div_share.
Print Assumptions C06_div_share_exec.
Print Assumptions C06_chord.
Print Assumptions C06_exec_loopfree.
Print Assumptions C06_chord_exec.
