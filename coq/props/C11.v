(* C11 - IF / FOR / WHILE / BREAK / CONTINUE and user functions behave like the unrolled program.
   This file contains only the property statements; every proof is `exact <lemma>`.

     model    model/Script.v     : script tokens (stok), exec_s = the pos / loop_stack machine of exec() over them, the arms
                                   sstep (exec_if / exec_while / exec_for, Break / Continue / Return, CallUserFunction, PRINT ...),
                                   eval_tok (expression tokens, calls inside expressions), the script lexer, compile_script
     meaning  spec/ScriptSem.v   : statements and expressions over abstract leaves, signals Normal | Brk | Cont | Ret,
                                   frames, the big-step semantics `sem` (n = nesting budget of blocks and calls)
     link     proofs/ScriptP.v   : ML (the language of the model as an instance of the semantics), stmt_of / expr_of / prog_of
                                   (script tokens as statements - total, structural), emb (a configuration as a model state),
                                   out_state (a result of the semantics as a result of the model: Fin (signal, cfg) = the state
                                   with break_flag 0 / 1 / 2 / 3; Fail e = the error e; NoFuel = OutOfFuel)

   Fragment of the main theorem: token lists without the loop brackets `[ : ]` of the note language at any nesting depth
   (toks_ok; the brackets are C05's theorem), every block shorter than the fuel of one exec() loop, and programs to which
   the semantics gives a meaning (not Stuck: no call of a name that is not bound to a function, no function name read
   as a value, no X++ inside an expression).  Everything else - any nesting of IF / FOR / WHILE, BREAK / CONTINUE / RETURN
   anywhere, calls as statements and inside expressions, recursion, leaves that fail - is covered. *)
From Coq Require Import String.
From Sakura.Model Require Import Base Cursor Length Event Song Token LoopMachine LexCore RunCore Compile Script.
From Sakura.Model Require Expr.
From Sakura.Spec Require Import ScriptSem.
From Sakura.Proofs Require Import ScriptP ScriptCorP.
Open Scope Z_scope.
Open Scope list_scope.

(* ------------------------------------------------------------------------------------------------ *)
(* the model against the meaning                                                                      *)

(* MAIN: exec() of the model on the tokens of a structured script is the big-step meaning of the script - for every
   function table ft whose bodies are blocks, every nesting budget n, every block toks, every value of
   function_needs_return_value (m), every configuration c with no raised flag. *)
Theorem C11_exec_vs_sem : forall ft : list fdef, ft_ok ft = true ->
  forall (n : nat) (toks : list stok) (m : bool) (c : cfg (list ch) song vv),
  wf c -> toks_ok toks = true ->
  sem ML (funs_of ft) n (prog_of toks) c <> Stuck ->
  exec_s n toks (Ok (emb ft m c)) = out_state ft m (sem ML (funs_of ft) n (prog_of toks) c)
  /\ wf_out (sem ML (funs_of ft) n (prog_of toks) c).
Proof. exact exec_vs_sem. Qed.

(* the pipeline: what run_script (lex, then exec) computes for a source text is the meaning of the program the lexer read, started
   in the configuration the lexer left (global frame with the lex-time values, empty tracks) *)
Theorem C11_run_script : forall (src : list ch) (toks : list stok) (ls : slex),
  lex_script src = Ok (toks, ls) -> ft_ok (sl_funcs ls) = true -> toks_ok toks = true ->
  sem ML (funs_of (sl_funcs ls)) DEPTH (prog_of toks) (cfg_after_lex ls) <> Stuck ->
  run_script src = out_state (sl_funcs ls) false (sem ML (funs_of (sl_funcs ls)) DEPTH (prog_of toks) (cfg_after_lex ls)).
Proof. exact run_script_sem. Qed.

(* token level: on a list without loop brackets the pos / loop_stack machine is a left-to-right fold that stops at the
   first raised flag or error *)
Theorem C11_machine_is_fold : forall (d : nat) (toks : list stok) (s : res sstate),
  forallb bracket_free_tok toks = true -> (length toks < STEPS)%nat ->
  exec_s (S d) toks s = fold_halt (step_stok (exec_s d)) toks s.
Proof. exact exec_s_fold. Qed.

Section Meaning.
  Variables Name Atom Op Val World Bnd FId Err : Type.
  Variable L : lang Name Atom Op Val World Bnd FId Err.
  Variable funs : FId -> option (fundef Name Atom Op Val FId).
  Variable blk : list (stmt Name Atom Op FId) -> cfg Name World Bnd -> result Err (signal * cfg Name World Bnd).
  Notation gcfg := (cfg Name World Bnd).

  (* a larger nesting budget gives the same meaning *)
  Theorem C11_fuel_mono : forall (n n' : nat) (b : list (stmt Name Atom Op FId)) (c : gcfg),
    (n <= n')%nat -> sem L funs n b c <> NoFuel -> sem L funs n' b c = sem L funs n b c.
  Proof. exact (sem_mono_le Name Atom Op Val World Bnd FId Err L funs). Qed.

  (* IF runs exactly one branch: the one chosen by the value of the condition, in the configuration left by the condition *)
  Theorem C11_if_one_branch : forall cnd th el (c : gcfg) v c1,
    eval_opt L funs blk (l_vzero L) cnd c = Fin (v, c1) ->
    exec_stmt L funs blk (If cnd th el) c = blk (if l_truth L v then th else el) c1.
  Proof. exact (if_one_branch Name Atom Op Val World Bnd FId Err L funs blk). Qed.

  (* WHILE whose test holds exactly k times, k within the limit N: k passes (each ending normally or with CONTINUE), then
     the failing test *)
  Theorem C11_loop_unroll : forall cnd body line k left (c ck : gcfg) v c',
    passes Name Atom Op Val World Bnd FId Err L funs blk cnd body k c ck -> (k <= left)%nat ->
    eval_opt L funs blk (l_vzero L) cnd ck = Fin (v, c') -> l_truth L v = false ->
    while_sem L funs blk left cnd body line c = Fin (Normal, c').
  Proof. exact (while_unroll Name Atom Op Val World Bnd FId Err L funs blk). Qed.

  (* ... and when the test changes nothing and every pass runs to its end, the loop means its body written k times *)
  Theorem C11_loop_unroll_text : forall n cnd body line k (c ck : gcfg) v,
    straight Name Atom Op Val World Bnd FId Err L funs n cnd body k c ck -> (k <= l_limit L)%nat ->
    eval_opt L funs (sem L funs n) (l_vzero L) cnd ck = Fin (v, ck) -> l_truth L v = false ->
    exec_stmt L funs (sem L funs n) (While cnd body line) c
    = sem L funs (S n) (reps Name Atom Op FId k body) c.
  Proof. exact (loop_unroll_text Name Atom Op Val World Bnd FId Err L funs). Qed.

  (* FOR: each pass = test, body, increment (CONTINUE still runs the increment) *)
  Theorem C11_for_unroll : forall cnd inc body line k left (c ck : gcfg) v c',
    fpasses Name Atom Op Val World Bnd FId Err L funs blk cnd inc body k c ck -> (k <= left)%nat ->
    eval_opt L funs blk (l_vzero L) cnd ck = Fin (v, c') -> l_truth L v = false ->
    for_sem L funs blk left cnd inc body line c = Fin (Normal, c').
  Proof. exact (for_unroll Name Atom Op Val World Bnd FId Err L funs blk). Qed.

  (* BREAK in pass k+1 ends the loop; the statement after the loop is reached normally *)
  Theorem C11_break_exits_loop : forall cnd body line k left (c ck : gcfg) v c1 c2,
    passes Name Atom Op Val World Bnd FId Err L funs blk cnd body k c ck -> (k < left)%nat ->
    eval_opt L funs blk (l_vzero L) cnd ck = Fin (v, c1) -> l_truth L v = true -> blk body c1 = Fin (Brk, c2) ->
    while_sem L funs blk left cnd body line c = Fin (Normal, c2).
  Proof. exact (while_break Name Atom Op Val World Bnd FId Err L funs blk). Qed.

  (* ... and ONLY the innermost loop: a loop statement never lets BREAK or CONTINUE out, so an enclosing loop goes on *)
  Theorem C11_break_innermost : forall cnd body line left (c : gcfg) sg c',
    while_sem L funs blk left cnd body line c = Fin (sg, c') -> sg = Normal \/ sg = Ret.
  Proof. exact (while_signals Name Atom Op Val World Bnd FId Err L funs blk). Qed.

  (* CONTINUE: the rest of the pass is skipped (the pass counts as a pass: see `passes`) *)
  Theorem C11_continue : forall pre post (c c1 : gcfg),
    exec_seq L funs blk pre c = Fin (Normal, c1) ->
    exec_seq L funs blk (pre ++ Continue :: post) c = Fin (Cont, c1).
  Proof. exact (continue_skips Name Atom Op Val World Bnd FId Err L funs blk). Qed.
  Theorem C11_continue_for : forall cnd inc body line k left (c ck : gcfg) v c',
    fpasses Name Atom Op Val World Bnd FId Err L funs blk cnd inc body k c ck -> (k <= left)%nat ->
    eval_opt L funs blk (l_vzero L) cnd ck = Fin (v, c') -> l_truth L v = false ->
    for_sem L funs blk left cnd inc body line c = Fin (Normal, c').
  Proof. exact (for_unroll Name Atom Op Val World Bnd FId Err L funs blk). Qed.

  (* the limit: a loop whose test still holds after `left` passes runs ONE more pass and is then cut off: exactly one note
     is added to the world, a BREAK / CONTINUE of that pass is consumed, and the result is Normal (execution continues
     after the loop) unless that pass raised RETURN *)
  Theorem C11_limit : forall cnd body line left (c cl : gcfg) v c1 sg c2,
    passes Name Atom Op Val World Bnd FId Err L funs blk cnd body left c cl ->
    eval_opt L funs blk (l_vzero L) cnd cl = Fin (v, c1) -> l_truth L v = true -> blk body c1 = Fin (sg, c2) ->
    while_sem L funs blk left cnd body line c
    = Fin (match sg with Ret => Ret | _ => Normal end, set_world c2 (l_limit_note L false line (world c2))).
  Proof. exact (while_limit Name Atom Op Val World Bnd FId Err L funs blk). Qed.
  Theorem C11_limit_for : forall cnd inc body line left (c cl : gcfg) v c1 sg c2,
    fpasses Name Atom Op Val World Bnd FId Err L funs blk cnd inc body left c cl ->
    eval_opt L funs blk (l_vzero L) cnd cl = Fin (v, c1) -> l_truth L v = true -> blk body c1 = Fin (sg, c2) ->
    for_sem L funs blk left cnd inc body line c
    = Fin (match sg with Ret => Ret | _ => Normal end, set_world c2 (l_limit_note L true line (world c2))).
  Proof. exact (for_limit Name Atom Op Val World Bnd FId Err L funs blk). Qed.

  (* a call inside an expression runs the function that its name is bound to *)
  Theorem C11_call_named : forall f args (c : gcfg) b id fd vs c1,
    lookup L f (env c) = Some b -> l_view_of L b = BFun id -> funs id = Some fd ->
    evals_with (eval L funs blk) args (push_frame c) = Fin (vs, c1) ->
    eval L funs blk (ECall f args) c = call_body L blk fd vs c1.
  Proof. exact (call_named Name Atom Op Val World Bnd FId Err L funs blk). Qed.

  (* a call statement runs the function it was resolved to, in a fresh frame *)
  Theorem C11_statement_call : forall id args (c : gcfg) fd vs c1,
    funs id = Some fd -> eval_args L funs blk args (push_frame c) = Fin (vs, c1) ->
    exec_stmt L funs blk (CallS id args) c = rbind (call_body L blk fd vs c1) (fun q => Fin (Normal, snd q)).
  Proof. exact (statement_call Name Atom Op Val World Bnd FId Err L funs blk). Qed.

  (* no signal crosses a call: BREAK / CONTINUE / RETURN inside the callee end at the call *)
  Theorem C11_signals_stop_at_call : forall id args (c : gcfg) sg c',
    exec_stmt L funs blk (CallS id args) c = Fin (sg, c') -> sg = Normal.
  Proof. exact (statement_call_signal Name Atom Op Val World Bnd FId Err L funs blk). Qed.

  (* RETURN(e) binds Result and ends the block at once ... *)
  Theorem C11_return_immediate : forall e rest (c : gcfg) v c1,
    eval L funs blk e c = Fin (v, c1) ->
    exec_seq L funs blk (Return (Some e) :: rest) c = Fin (Ret, bind_val L (l_result_name L) v c1).
  Proof. exact (return_ends_block Name Atom Op Val World Bnd FId Err L funs blk). Qed.
  (* ... also from inside loops: the loop ends in the pass that raised it, without another test, and the signal stays raised
     (nested loops: apply this at every level) *)
  Theorem C11_return_from_loops : forall cnd body line k left (c ck : gcfg) v c1 c2,
    passes Name Atom Op Val World Bnd FId Err L funs blk cnd body k c ck -> (k < left)%nat ->
    eval_opt L funs blk (l_vzero L) cnd ck = Fin (v, c1) -> l_truth L v = true -> blk body c1 = Fin (Ret, c2) ->
    while_sem L funs blk left cnd body line c = Fin (Ret, c2).
  Proof. exact (while_return Name Atom Op Val World Bnd FId Err L funs blk). Qed.
  (* the call yields what Result is bound to in the callee's frame when the body ends - by RETURN(v), by `Result = v`, or not
     at all (no value); RETURN without a value keeps it *)
  Theorem C11_return_keeps_result : forall fd vs (c : gcfg) sg c2 fr rest,
    blk (fd_body fd) (set_env c (ScriptSem.bind_params L (fd_params fd) 0 vs (env c))) = Fin (sg, c2) ->
    env c2 = fr :: rest ->
    call_body L blk fd vs c
    = match lookup_frame L (l_result_name L) fr with
      | None => Fin (l_vnone L, set_env c2 rest)
      | Some b => match l_view_of L b with BVal v => Fin (v, set_env c2 rest) | _ => Stuck end
      end.
  Proof. exact (call_body_result Name Atom Op Val World Bnd FId Err L blk). Qed.
  (* the value of a call depends only on the CALLEE's frame: it is what Result is bound to in the frame dropped at the end of the
     call; the frames of the caller - its own Result, a global named Result - are not consulted *)
  Theorem C11_call_value_from_callee_frame : forall fd vs (c : gcfg) v c',
    call_body L blk fd vs c = Fin (v, c') ->
    exists sg c2 fr,
      blk (fd_body fd) (set_env c (ScriptSem.bind_params L (fd_params fd) 0 vs (env c))) = Fin (sg, c2) /\
      env c2 = fr :: env c' /\ world c' = world c2 /\
      match lookup_frame L (l_result_name L) fr with
      | None => v = l_vnone L
      | Some b => l_view_of L b = BVal v
      end.
  Proof. exact (call_value_from_callee_frame Name Atom Op Val World Bnd FId Err L blk). Qed.
  (* a call whose body binds no Result on the path it takes yields "no value" (0 in arithmetic, the default as an argument, empty
     when printed), whatever lies below *)
  Theorem C11_call_without_result : forall fd vs (c : gcfg) sg c2 fr rest,
    blk (fd_body fd) (set_env c (ScriptSem.bind_params L (fd_params fd) 0 vs (env c))) = Fin (sg, c2) ->
    env c2 = fr :: rest -> lookup_frame L (l_result_name L) fr = None ->
    call_body L blk fd vs c = Fin (l_vnone L, set_env c2 rest).
  Proof. exact (call_without_result_yields_nothing Name Atom Op Val World Bnd FId Err L blk). Qed.
End Meaning.

Section Scopes.
  Variables Name Atom Op Val World Bnd FId Err : Type.
  Variable L : lang Name Atom Op Val World Bnd FId Err.
  Variable funs : FId -> option (fundef Name Atom Op Val FId).
  Notation gcfg := (cfg Name World Bnd).

  (* the caller's variables: evaluating an expression - with any calls inside, to any depth, whatever the callees declare,
     assign or bind as parameters - leaves EVERY frame exactly as it was *)
  Theorem C11_scope : forall (n : nat) e (c : gcfg) v c',
    eval L funs (sem L funs n) e c = Fin (v, c') -> env c' = env c.
  Proof. exact (fun n => eval_env Name Atom Op Val World Bnd FId Err L funs (sem L funs n) (sem_tail Name Atom Op Val World Bnd FId Err L funs n)). Qed.
  (* ... and so does a call statement *)
  Theorem C11_scope_statement_call : forall (n : nat) f args (c : gcfg) sg c',
    exec_stmt L funs (sem L funs n) (CallS f args) c = Fin (sg, c') -> env c' = env c.
  Proof. exact (fun n => statement_call_env Name Atom Op Val World Bnd FId Err L funs (sem L funs n) (sem_tail Name Atom Op Val World Bnd FId Err L funs n)). Qed.
  (* what the code does for writes: every declaration, assignment (`X = e`, also when X is a global and we are inside a
     function), increment and parameter binding goes to the INNERMOST frame; all frames below it are never changed by any
     block.  So a local INT that shadows a global, and an assignment to a global's name inside a function, both leave the
     global as it was - the function works on its own binding. *)
  Theorem C11_local_writes_only : forall (n : nat) b (c : gcfg) sg c',
    sem L funs n b c = Fin (sg, c') -> tl (env c') = tl (env c).
  Proof. exact (sem_tail Name Atom Op Val World Bnd FId Err L funs). Qed.

  (* the arguments of a call are evaluated in the CALLER's frames: under the callee's fresh, still empty frame they have, argument
     by argument, exactly the values and effects they have in the caller's configuration - for any expressions, nested calls
     F(G(B),A) included, whatever the parameters are called ... *)
  Theorem C11_args_in_caller_scope : forall (n : nat) args (c : gcfg),
    evals_with (eval L funs (sem L funs n)) args (push_frame c)
    = gmap Err (fun p => (fst p, push_frame (snd p))) (evals_with (eval L funs (sem L funs n)) args c).
  Proof. exact (args_in_caller_frames Name Atom Op Val World Bnd FId Err L funs). Qed.
  (* ... so a call binds its parameters to the values of the argument expressions in the caller's scope stack (all evaluated, left
     to right, BEFORE the first parameter is bound: bind_params receives the finished list vs) *)
  Theorem C11_call_in_caller_scope : forall (n : nat) f args (c : gcfg) b id fd vs c1,
    lookup L f (env c) = Some b -> l_view_of L b = BFun id -> funs id = Some fd ->
    evals_with (eval L funs (sem L funs n)) args c = Fin (vs, c1) ->
    eval L funs (sem L funs n) (ECall f args) c = call_body L (sem L funs n) fd vs (push_frame c1).
  Proof. exact (call_in_caller_scope Name Atom Op Val World Bnd FId Err L funs). Qed.
  Theorem C11_statement_call_in_caller_scope : forall (n : nat) id args (c : gcfg) fd vs c1,
    funs id = Some fd -> eval_args L funs (sem L funs n) args c = Fin (vs, c1) ->
    exec_stmt L funs (sem L funs n) (CallS id args) c
    = rbind (call_body L (sem L funs n) fd vs (push_frame c1)) (fun q => Fin (Normal, snd q)).
  Proof. exact (statement_call_in_caller_scope Name Atom Op Val World Bnd FId Err L funs). Qed.

  (* positional binding with declared defaults: parameter number j gets argument number j, or its declared default when that
     argument is missing or has no value *)
  Theorem C11_defaults :
    (forall x, l_name_eqb L x x = true) -> (forall x y, l_name_eqb L x y = true -> x = y) ->
    forall ps, NoDup (map fst ps) -> forall (i j : nat) x d vs e,
    nth_error ps j = Some (x, d) ->
    lookup L x (ScriptSem.bind_params L ps i vs e)
    = Some (l_bnd_val L (if l_is_none L (nth (i + j) vs (l_vnone L)) then d else nth (i + j) vs (l_vnone L))).
  Proof. exact (bind_params_lookup Name Atom Op Val World Bnd FId Err L). Qed.
End Scopes.

(* ------------------------------------------------------------------------------------------------ *)
(* token-level statements about the model                                                             *)

Theorem C11_if_one_branch_tokens : forall ec cnd th el line st v st1,
  exec_value_o ec cnd st = Ok (v, st1) ->
  sstep ec (SIf cnd th el line) st = ec (if Expr.to_b v then th else el) (Ok st1).
Proof. exact if_one_branch_tokens. Qed.

(* func-id resolution: a call inside an expression looks the NAME up in the scope stack and executes functions[id] of the id
   found there (the repaired defect: every call ran functions[0]); a call statement executes functions[id] of the id the
   lexer stored in the token *)
Theorem C11_call_named_tokens : forall ec name args st id fd,
  vars_lookup name (ss_scopes st) = Some (VFunc id) -> nth_error (ss_funcs st) id = Some fd ->
  eval_tok ec (Expr.TCall true name args) st
  = (do p <- (do q <- eval_list (eval_tok ec) opt_none args (st_set_needs (st_set_scopes st ([] :: ss_scopes st)) true);
              Ok (fst q, st_set_needs (snd q) (ss_needs st)));
     finish_call ec fd (fst p) (snd p)).
Proof. exact call_named_tokens. Qed.
Theorem C11_statement_call_tokens : forall ec id args st fd,
  nth_error (ss_funcs st) id = Some fd ->
  sstep ec (SCall id args) st
  = (do p <- exec_args_o ec args (st_set_scopes st ([] :: ss_scopes st)); do q <- finish_call ec fd (fst p) (snd p); Ok (snd q)).
Proof. exact statement_call_tokens. Qed.

(* ------------------------------------------------------------------------------------------------ *)
(* examples: the hypotheses are satisfiable, and the lexer ties names to bodies                        *)

Definition src_ab : list ch := zs "FUNCTION A(){c} FUNCTION B(){d} B() A()".
(* the lexer: B is function 1 and its body is `d`, A is function 0 with body `c`; the statements are calls of 1, then 0 *)
Example C11_example_lexer :
  match lex_script src_ab with
  | Ok (toks, ls) =>
      map f_name (sl_funcs ls) = [zs "A"; zs "B"] /\
      vars_lookup (zs "B") (sl_scopes ls) = Some (VFunc 1) /\ vars_lookup (zs "A") (sl_scopes ls) = Some (VFunc 0) /\
      (exists nc nd, map f_body (sl_funcs ls) = [[SCore (TLineNo 0); SCore nc]; [SCore (TLineNo 0); SCore nd]]
                     /\ nc = fst (fst (read_note 99 [] 0)) /\ nd = fst (fst (read_note 100 [] 0))) /\
      toks = [SCore (TLineNo 0); SCall 1 [None]; SCall 0 [None]]
  | _ => False
  end.
Proof. vm_compute. repeat split. eexists. eexists. repeat split. Qed.

(* the main theorem applies to this program: its function table and tokens are blocks, the meaning is defined, and the model's
   run is that meaning *)
Example C11_example_main :
  match lex_script src_ab with
  | Ok (toks, ls) =>
      let ft := sl_funcs ls in
      let c := mkCfg (ss_song (state_after_lex ls)) (sl_scopes ls) in
      ft_ok ft = true /\ toks_ok toks = true /\ wf c /\
      (exists sg c', sem ML (funs_of ft) 3 (prog_of toks) c = Fin (sg, c') /\ sg = Normal /\
                     exec_s 3 toks (Ok (state_after_lex ls)) = Ok (emb ft false c'))
  | _ => False
  end.
Proof. vm_compute. repeat split. eexists. eexists. repeat split. Qed.

(* the whole pipeline on three of the corpus witnesses: B() A() plays d then c (note numbers 62, 60); BREAK inside IF inside
   WHILE(1); declared defaults *)
Example C11_example_compile :
  (match compile_script src_ab with
   | Ok (bytes, log) => skipn 22 bytes = [0; 144; 62; 100; 86; 128; 62; 100; 10; 144; 60; 100; 86; 128; 60; 100; 0; 255; 47; 0] /\ log = []
   | _ => False end) /\
  (match compile_script (zs "INT X=0 WHILE(1){X++ IF(X>3){BREAK}} PRINT(X)") with
   | Ok (_, log) => log = zs "[PRINT](0) 4" | _ => False end) /\
  (match compile_script (zs "FUNCTION F(A,B=7,C=9){ RETURN(A*100+B*10+C) } PRINT(F(1),F(1,2),F(1,2,3),F())") with
   | Ok (_, log) => log = zs "[PRINT](0) 179 129 123 79" | _ => False end) /\
  (match compile_script (zs "INT X=1 FUNCTION F(){ X=5 PRINT(X) } F() PRINT(X)") with
   | Ok (_, log) => log = zs "[PRINT](0) 5" ++ [10] ++ zs "[PRINT](0) 1" | _ => False end).
Proof. vm_compute. repeat split. Qed.

(* the seeded-change witness: parameters named like the caller's variables, arguments swapped *)
Example C11_example_swapped_arguments :
  (match compile_script (zs "INT A=1; INT B=2; FUNCTION SHOW(INT A, INT B){ PRINT(A); PRINT(B) }; SHOW(B, A)") with
   | Ok (_, log) => log = zs "[PRINT](0) 2" ++ [10] ++ zs "[PRINT](0) 1" | _ => False end) /\
  (match compile_script (zs "INT A=1 INT B=2 INT C=3 FUNCTION F(A,B,C){ RETURN(A*100+B*10+C) } FUNCTION G(B){ RETURN(B+5) } PRINT(F(C,A,B),F(B,B,A),F(G(B),A,G(A)))") with
   | Ok (_, log) => log = zs "[PRINT](0) 312 221 716" | _ => False end).
Proof. vm_compute. repeat split. Qed.

(* a call that sets no value yields nothing - not the caller's own Result, not a global named Result *)
Example C11_example_no_value :
  (match compile_script (zs "Function Beep(N){ IF(N>0){ RETURN(N) } } Function Total(){ Result=100; Result=Result+Beep(0); } PRINT(Total())") with
   | Ok (_, log) => log = zs "[PRINT](0) 100" | _ => False end) /\
  (match compile_script (zs "Int Result=5; Function Proc(){ c } PRINT(1+Proc())") with
   | Ok (_, log) => log = zs "[PRINT](0) 1" | _ => False end).
Proof. vm_compute. repeat split. Qed.

(* the limit theorem is not vacuous: a language with limit 2, one counter, a loop that never ends *)
Definition ex_lang : lang nat unit unit nat nat nat nat unit :=
  mkLang Nat.eqb 0%nat (fun b => BVal b) (fun v => v) (fun v => negb (Nat.eqb v 0)) 0%nat 0%nat (fun _ => false)
         (fun v _ => S v) (fun _ w => Fin w) (fun _ _ => Fin 1%nat) (fun _ => None) (fun _ => Fin 0%nat)
         (fun _ _ w => w) (fun _ _ w => (w + 100)%nat) (fun _ _ _ w => w) 2.
Example C11_example_limit :
  (* WHILE(1){ world++ } ; the leaf adds 1 to the world, the limit note adds 100: three passes, one note, Normal *)
  let blk := fun (b : list (stmt nat unit unit nat)) (c : cfg nat nat nat) => Fin (Normal, mkCfg (S (world c)) (env c)) : result unit _ in
  while_sem ex_lang (fun _ => None) blk 2 (Some (EOp tt [])) [] 0 (mkCfg 0%nat []) = Fin (Normal, mkCfg 103%nat []).
Proof. reflexivity. Qed.

Print Assumptions C11_exec_vs_sem.
Print Assumptions C11_run_script.
Print Assumptions C11_machine_is_fold.
Print Assumptions C11_fuel_mono.
Print Assumptions C11_if_one_branch.
Print Assumptions C11_loop_unroll.
Print Assumptions C11_loop_unroll_text.
Print Assumptions C11_for_unroll.
Print Assumptions C11_break_exits_loop.
Print Assumptions C11_break_innermost.
Print Assumptions C11_continue.
Print Assumptions C11_continue_for.
Print Assumptions C11_limit.
Print Assumptions C11_limit_for.
Print Assumptions C11_call_named.
Print Assumptions C11_statement_call.
Print Assumptions C11_signals_stop_at_call.
Print Assumptions C11_return_immediate.
Print Assumptions C11_return_from_loops.
Print Assumptions C11_return_keeps_result.
Print Assumptions C11_call_value_from_callee_frame.
Print Assumptions C11_call_without_result.
Print Assumptions C11_scope.
Print Assumptions C11_scope_statement_call.
Print Assumptions C11_local_writes_only.
Print Assumptions C11_defaults.
Print Assumptions C11_args_in_caller_scope.
Print Assumptions C11_call_in_caller_scope.
Print Assumptions C11_statement_call_in_caller_scope.
Print Assumptions C11_if_one_branch_tokens.
Print Assumptions C11_call_named_tokens.
Print Assumptions C11_statement_call_tokens.

(* ================================================================================================ *)
(* PART 2 - the corollaries at full strength (proofs/ScriptCorP.v): each one on the meaning (any language, any block        *)
(* semantics `blk` one level down, or the semantics `sem` itself at any budget n) and, through C11_exec_vs_sem, on the      *)
(* exec() machine of the model (ML / funs_of ft / emb: see the head of this file).  Abbreviations from ScriptCorP:          *)
(*   mpasses ft n, mfpasses ft n, mstraight ft n, mfstraight ft n, mrets ft n = passes / fpasses / straight / fstraight /    *)
(*   rets of the language ML with the functions funs_of ft and the blocks sem ML (funs_of ft) n;  mfill = fill for ML.       *)
(* ================================================================================================ *)

(* ------------------------------------------------------------------------------------------------ *)
(* 2.1 loops are their unrolled text                                                                  *)
Section Unroll2.
  Variables Name Atom Op Val World Bnd FId Err : Type.
  Variable L : lang Name Atom Op Val World Bnd FId Err.
  Variable funs : FId -> option (fundef Name Atom Op Val FId).
  Notation gcfg := (cfg Name World Bnd).

  (* FOR(init; c; inc){body} whose test holds exactly k times - ANY k within the limit, test without effect, bodies and increments
     running to their ends - means  init; body; inc; body; inc; ... (k times)  (WHILE: C11_loop_unroll_text) *)
  Theorem C11_for_unroll_text : forall n init cnd inc body line k (c c0 ck : gcfg) v,
    sem L funs n init c = Fin (Normal, c0) ->
    fstraight Name Atom Op Val World Bnd FId Err L funs n cnd inc body k c0 ck -> (k <= l_limit L)%nat ->
    eval_opt L funs (sem L funs n) (l_vzero L) cnd ck = Fin (v, ck) -> l_truth L v = false ->
    exec_stmt L funs (sem L funs n) (For init cnd inc body line) c
    = sem L funs (S n) (init ++ reps Name Atom Op FId k (body ++ inc)) c.
  Proof. exact (for_unroll_text Name Atom Op Val World Bnd FId Err L funs). Qed.
End Unroll2.

(* the machine: exec() on the WHILE token = exec() on the body, k times in sequence - every k <= 10000 *)
Theorem C11_loop_unroll_exec : forall ft, ft_ok ft = true -> forall n cnd body line k m (c ck : cfg (list ch) song vv) v,
  wf c -> toks_ok body = true ->
  mstraight ft n (oexpr_of cnd) (prog_of body) k c ck -> (k <= m_N)%nat ->
  eval_opt ML (funs_of ft) (sem ML (funs_of ft) n) (Expr.SInt 0) (oexpr_of cnd) ck = Fin (v, ck) -> Expr.to_b v = false ->
  exec_s (S n) [SWhile cnd body line] (Ok (emb ft m c)) = Nat.iter k (exec_s n body) (Ok (emb ft m c)).
Proof. exact while_unroll_exec. Qed.
(* ... = exec() on the body WRITTEN k times, when that text still is a block (length below the fuel of one exec() loop) *)
Theorem C11_loop_unroll_exec_text : forall ft, ft_ok ft = true -> forall n cnd body line k m (c ck : cfg (list ch) song vv) v,
  wf c -> toks_ok body = true -> toks_ok (reps_t k body) = true ->
  mstraight ft n (oexpr_of cnd) (prog_of body) k c ck -> (k <= m_N)%nat ->
  eval_opt ML (funs_of ft) (sem ML (funs_of ft) n) (Expr.SInt 0) (oexpr_of cnd) ck = Fin (v, ck) -> Expr.to_b v = false ->
  exec_s (S n) [SWhile cnd body line] (Ok (emb ft m c)) = exec_s (S n) (reps_t k body) (Ok (emb ft m c)).
Proof. exact while_unroll_exec_text. Qed.
(* FOR on the machine: init, then k x (body, increment) *)
Theorem C11_for_unroll_exec : forall ft, ft_ok ft = true -> forall n init cnd inc body line k m (c c0 ck : cfg (list ch) song vv) v,
  wf c -> toks_ok init = true -> toks_ok inc = true -> toks_ok body = true ->
  sem ML (funs_of ft) n (prog_of init) c = Fin (Normal, c0) ->
  mfstraight ft n (oexpr_of cnd) (prog_of inc) (prog_of body) k c0 ck -> (k <= m_N)%nat ->
  eval_opt ML (funs_of ft) (sem ML (funs_of ft) n) (Expr.SInt 0) (oexpr_of cnd) ck = Fin (v, ck) -> Expr.to_b v = false ->
  exec_s (S n) [SFor init cnd inc body line] (Ok (emb ft m c))
  = Nat.iter k (fun s => exec_s n inc (exec_s n body s)) (exec_s n init (Ok (emb ft m c))).
Proof. exact for_unroll_exec. Qed.
Theorem C11_for_unroll_exec_text : forall ft, ft_ok ft = true -> forall n init cnd inc body line k m (c c0 ck : cfg (list ch) song vv) v,
  wf c -> toks_ok init = true -> toks_ok inc = true -> toks_ok body = true -> toks_ok (init ++ reps_t k (body ++ inc)) = true ->
  sem ML (funs_of ft) n (prog_of init) c = Fin (Normal, c0) ->
  mfstraight ft n (oexpr_of cnd) (prog_of inc) (prog_of body) k c0 ck -> (k <= m_N)%nat ->
  eval_opt ML (funs_of ft) (sem ML (funs_of ft) n) (Expr.SInt 0) (oexpr_of cnd) ck = Fin (v, ck) -> Expr.to_b v = false ->
  exec_s (S n) [SFor init cnd inc body line] (Ok (emb ft m c)) = exec_s (S n) (init ++ reps_t k (body ++ inc)) (Ok (emb ft m c)).
Proof. exact for_unroll_exec_text. Qed.

(* ------------------------------------------------------------------------------------------------ *)
(* 2.2 BREAK / CONTINUE and the innermost loop                                                        *)
Section Innermost2.
  Variables Name Atom Op Val World Bnd FId Err : Type.
  Variable L : lang Name Atom Op Val World Bnd FId Err.
  Variable funs : FId -> option (fundef Name Atom Op Val FId).
  Variable blk : list (stmt Name Atom Op FId) -> cfg Name World Bnd -> result Err (signal * cfg Name World Bnd).
  Notation gcfg := (cfg Name World Bnd).

  (* BREAK ends the innermost loop ONLY: a WHILE standing between `pre` and `post` in a block (the body of an enclosing loop, a
     branch, a function body) whose pass j+1 raises BREAK - from any depth of IFs inside its body - ends there and the block goes
     on with `post` in the configuration the BREAK was raised in *)
  Theorem C11_break_innermost_block : forall pre cnd body line post j (c c1 cj : gcfg) v c2 c3,
    exec_seq L funs blk pre c = Fin (Normal, c1) ->
    passes Name Atom Op Val World Bnd FId Err L funs blk cnd body j c1 cj -> (j < l_limit L)%nat ->
    eval_opt L funs blk (l_vzero L) cnd cj = Fin (v, c2) -> l_truth L v = true -> blk body c2 = Fin (Brk, c3) ->
    exec_seq L funs blk (pre ++ While cnd body line :: post) c = exec_seq L funs blk post c3.
  Proof. exact (break_innermost_while Name Atom Op Val World Bnd FId Err L funs blk). Qed.
  (* ... a FOR: the increment of the pass that raised BREAK is not run *)
  Theorem C11_break_innermost_for_block : forall pre init cnd inc body line post j (c c1 c1' cj : gcfg) v c2 c3,
    exec_seq L funs blk pre c = Fin (Normal, c1) -> blk init c1 = Fin (Normal, c1') ->
    fpasses Name Atom Op Val World Bnd FId Err L funs blk cnd inc body j c1' cj -> (j < l_limit L)%nat ->
    eval_opt L funs blk (l_vzero L) cnd cj = Fin (v, c2) -> l_truth L v = true -> blk body c2 = Fin (Brk, c3) ->
    exec_seq L funs blk (pre ++ For init cnd inc body line :: post) c = exec_seq L funs blk post c3.
  Proof. exact (break_innermost_for Name Atom Op Val World Bnd FId Err L funs blk). Qed.

  (* CONTINUE - raised at any depth of IFs in the body - ends the PASS of the innermost loop: the loop goes on with its next test;
     in a FOR the increment runs first *)
  Theorem C11_continue_innermost : forall cnd body line left (c : gcfg) v c1 c2,
    eval_opt L funs blk (l_vzero L) cnd c = Fin (v, c1) -> l_truth L v = true -> blk body c1 = Fin (Cont, c2) ->
    while_sem L funs blk (S left) cnd body line c = while_sem L funs blk left cnd body line c2.
  Proof. exact (continue_innermost_while Name Atom Op Val World Bnd FId Err L funs blk). Qed.
  Theorem C11_continue_innermost_for : forall cnd inc body line left (c : gcfg) v c1 c2 c3,
    eval_opt L funs blk (l_vzero L) cnd c = Fin (v, c1) -> l_truth L v = true -> blk body c1 = Fin (Cont, c2) ->
    blk inc c2 = Fin (Normal, c3) ->
    for_sem L funs blk (S left) cnd inc body line c = for_sem L funs blk left cnd inc body line c3.
  Proof. exact (continue_innermost_for Name Atom Op Val World Bnd FId Err L funs blk). Qed.

  (* whatever its passes raise, the block around a WHILE sees it end normally and goes on behind it - or sees a RETURN *)
  Theorem C11_loop_signals_stay_inside : forall pre cnd body line post (c c1 : gcfg) sg c2,
    exec_seq L funs blk pre c = Fin (Normal, c1) -> exec_stmt L funs blk (While cnd body line) c1 = Fin (sg, c2) ->
    (sg = Normal /\ exec_seq L funs blk (pre ++ While cnd body line :: post) c = exec_seq L funs blk post c2)
    \/ (sg = Ret /\ exec_seq L funs blk (pre ++ While cnd body line :: post) c = Fin (Ret, c2)).
  Proof. exact (loop_signals_stay_inside Name Atom Op Val World Bnd FId Err L funs blk). Qed.
  (* the INCREMENT part of a FOR is inside the loop too: a BREAK it raises in pass j+1 - the body of that pass having ended normally
     or with CONTINUE - ends THIS FOR and the block goes on with `post` in the configuration the BREAK was raised in; a CONTINUE it
     raises only ends the increment, the FOR goes on with its next test *)
  Theorem C11_for_increment_break_innermost : forall pre init cnd inc body line post j (c c1 c1' cj : gcfg) v c2 sg c3 c4,
    exec_seq L funs blk pre c = Fin (Normal, c1) -> blk init c1 = Fin (Normal, c1') ->
    fpasses Name Atom Op Val World Bnd FId Err L funs blk cnd inc body j c1' cj -> (j < l_limit L)%nat ->
    eval_opt L funs blk (l_vzero L) cnd cj = Fin (v, c2) -> l_truth L v = true -> blk body c2 = Fin (sg, c3) -> (sg = Normal \/ sg = Cont) ->
    blk inc c3 = Fin (Brk, c4) ->
    exec_seq L funs blk (pre ++ For init cnd inc body line :: post) c = exec_seq L funs blk post c4.
  Proof. exact (break_in_increment_innermost Name Atom Op Val World Bnd FId Err L funs blk). Qed.
  Theorem C11_for_increment_continue_innermost : forall cnd inc body line left (c : gcfg) v c1 sg c2 c3,
    eval_opt L funs blk (l_vzero L) cnd c = Fin (v, c1) -> l_truth L v = true -> blk body c1 = Fin (sg, c2) -> (sg = Normal \/ sg = Cont) ->
    blk inc c2 = Fin (Cont, c3) ->
    for_sem L funs blk (S left) cnd inc body line c = for_sem L funs blk left cnd inc body line c3.
  Proof. exact (for_continue_in_increment Name Atom Op Val World Bnd FId Err L funs blk). Qed.
  (* a FOR lets neither out - whatever its body and its increment part raise - provided its initialiser, which runs BEFORE the loop,
     raises nothing ... *)
  Theorem C11_for_signals : forall init cnd inc body line,
    (forall c sg c', blk init c = Fin (sg, c') -> sg = Normal) ->
    forall (c : gcfg) sg c', exec_stmt L funs blk (For init cnd inc body line) c = Fin (sg, c') -> sg = Normal \/ sg = Ret.
  Proof. exact (for_stmt_signals Name Atom Op Val World Bnd FId Err L funs blk). Qed.
End Innermost2.

Section Innermost3.
  Variables Name Atom Op Val World Bnd FId Err : Type.
  Variable L : lang Name Atom Op Val World Bnd FId Err.
  Variable funs : FId -> option (fundef Name Atom Op Val FId).
  Notation gcfg := (cfg Name World Bnd).

  (* ... which is the case when it consists of leaves, PRINTs, declarations, assignments, X++ and call statements *)
  Theorem C11_for_plain_signals : forall n init cnd inc body line (c : gcfg) sg c',
    forallb (plain_stmt Name Atom Op FId) init = true ->
    exec_stmt L funs (sem L funs n) (For init cnd inc body line) c = Fin (sg, c') -> sg = Normal \/ sg = Ret.
  Proof. exact (for_plain_signals Name Atom Op Val World Bnd FId Err L funs). Qed.

  (* both levels: the inner WHILE is left by its BREAK, the body of the OUTER WHILE goes on with `post`, and when that ends normally
     (or with the outer loop's own CONTINUE) the outer loop goes on with its next test *)
  Theorem C11_break_innermost_nested : forall n cndO pre cndI bodyI lineI post lineO left j (c : gcfg) vO c0 c1 cj v c2 c3 sg c4,
    eval_opt L funs (sem L funs (S n)) (l_vzero L) cndO c = Fin (vO, c0) -> l_truth L vO = true ->
    exec_seq L funs (sem L funs n) pre c0 = Fin (Normal, c1) ->
    passes Name Atom Op Val World Bnd FId Err L funs (sem L funs n) cndI bodyI j c1 cj -> (j < l_limit L)%nat ->
    eval_opt L funs (sem L funs n) (l_vzero L) cndI cj = Fin (v, c2) -> l_truth L v = true -> sem L funs n bodyI c2 = Fin (Brk, c3) ->
    exec_seq L funs (sem L funs n) post c3 = Fin (sg, c4) -> (sg = Normal \/ sg = Cont) ->
    while_sem L funs (sem L funs (S n)) (S left) cndO (pre ++ While cndI bodyI lineI :: post) lineO c
    = while_sem L funs (sem L funs (S n)) left cndO (pre ++ While cndI bodyI lineI :: post) lineO c4.
  Proof. exact (break_innermost_nested Name Atom Op Val World Bnd FId Err L funs). Qed.

  (* CONTINUE skips the rest of the body WHATEVER it is: the loop with body `pre; CONTINUE; post` means the loop with body `pre`
     (for every allowance, every configuration; FOR: same increment, which still runs) *)
  Theorem C11_continue_skips_text : forall n cnd pre post line (c : gcfg),
    exec_stmt L funs (sem L funs n) (While cnd (pre ++ Continue :: post) line) c = exec_stmt L funs (sem L funs n) (While cnd pre line) c.
  Proof. exact (continue_text_stmt Name Atom Op Val World Bnd FId Err L funs). Qed.
  Theorem C11_continue_skips_text_for : forall n init cnd inc pre post line (c : gcfg),
    exec_stmt L funs (sem L funs n) (For init cnd inc (pre ++ Continue :: post) line) c
    = exec_stmt L funs (sem L funs n) (For init cnd inc pre line) c.
  Proof. exact (continue_text_for_stmt Name Atom Op Val World Bnd FId Err L funs). Qed.
End Innermost3.

(* the machine: after the BREAK exec() is at the token behind the inner loop with break_flag = 0 *)
Theorem C11_break_innermost_exec : forall ft, ft_ok ft = true ->
  forall n pre cnd body line post j m (c c1 cj : cfg (list ch) song vv) v c2 c3,
  wf c -> toks_ok (pre ++ SWhile cnd body line :: post) = true ->
  exec_seq ML (funs_of ft) (sem ML (funs_of ft) n) (prog_of pre) c = Fin (Normal, c1) ->
  mpasses ft n (oexpr_of cnd) (prog_of body) j c1 cj -> (j < m_N)%nat ->
  eval_opt ML (funs_of ft) (sem ML (funs_of ft) n) (Expr.SInt 0) (oexpr_of cnd) cj = Fin (v, c2) -> Expr.to_b v = true ->
  sem ML (funs_of ft) n (prog_of body) c2 = Fin (Brk, c3) ->
  exec_s (S n) (pre ++ SWhile cnd body line :: post) (Ok (emb ft m c)) = exec_s (S n) post (Ok (emb ft m c3)) /\ wf c3.
Proof. exact break_innermost_exec. Qed.
Theorem C11_break_innermost_for_exec : forall ft, ft_ok ft = true ->
  forall n pre init cnd inc body line post j m (c c1 c1' cj : cfg (list ch) song vv) v c2 c3,
  wf c -> toks_ok (pre ++ SFor init cnd inc body line :: post) = true ->
  exec_seq ML (funs_of ft) (sem ML (funs_of ft) n) (prog_of pre) c = Fin (Normal, c1) ->
  sem ML (funs_of ft) n (prog_of init) c1 = Fin (Normal, c1') ->
  mfpasses ft n (oexpr_of cnd) (prog_of inc) (prog_of body) j c1' cj -> (j < m_N)%nat ->
  eval_opt ML (funs_of ft) (sem ML (funs_of ft) n) (Expr.SInt 0) (oexpr_of cnd) cj = Fin (v, c2) -> Expr.to_b v = true ->
  sem ML (funs_of ft) n (prog_of body) c2 = Fin (Brk, c3) ->
  exec_s (S n) (pre ++ SFor init cnd inc body line :: post) (Ok (emb ft m c)) = exec_s (S n) post (Ok (emb ft m c3)) /\ wf c3.
Proof. exact break_innermost_for_exec. Qed.
(* the machine never executes the tokens behind a CONTINUE of a loop body: the loop with them is the loop without them *)
Theorem C11_continue_skips_exec : forall ft, ft_ok ft = true -> forall n cnd pre post line m (c : cfg (list ch) song vv),
  wf c -> toks_ok (pre ++ SContinue :: post) = true ->
  sem ML (funs_of ft) (S n) (prog_of [SWhile cnd pre line]) c <> Stuck ->
  exec_s (S n) [SWhile cnd (pre ++ SContinue :: post) line] (Ok (emb ft m c)) = exec_s (S n) [SWhile cnd pre line] (Ok (emb ft m c)).
Proof. exact continue_skips_exec. Qed.
Theorem C11_continue_skips_for_exec : forall ft, ft_ok ft = true -> forall n init cnd inc pre post line m (c : cfg (list ch) song vv),
  wf c -> toks_ok init = true -> toks_ok inc = true -> toks_ok (pre ++ SContinue :: post) = true ->
  sem ML (funs_of ft) (S n) (prog_of [SFor init cnd inc pre line]) c <> Stuck ->
  exec_s (S n) [SFor init cnd inc (pre ++ SContinue :: post) line] (Ok (emb ft m c))
  = exec_s (S n) [SFor init cnd inc pre line] (Ok (emb ft m c)).
Proof. exact continue_skips_for_exec. Qed.

(* BREAK raised by the INCREMENT part of pass j+1 of a FOR, on the machine: the FOR ends, no flag stays raised, `post` is executed *)
Theorem C11_for_increment_break_exec : forall ft, ft_ok ft = true ->
  forall n pre init cnd inc body line post j m (c c1 c1' cj : cfg (list ch) song vv) v c2 sg c3 c4,
  wf c -> toks_ok (pre ++ SFor init cnd inc body line :: post) = true ->
  exec_seq ML (funs_of ft) (sem ML (funs_of ft) n) (prog_of pre) c = Fin (Normal, c1) ->
  sem ML (funs_of ft) n (prog_of init) c1 = Fin (Normal, c1') ->
  mfpasses ft n (oexpr_of cnd) (prog_of inc) (prog_of body) j c1' cj -> (j < m_N)%nat ->
  eval_opt ML (funs_of ft) (sem ML (funs_of ft) n) (Expr.SInt 0) (oexpr_of cnd) cj = Fin (v, c2) -> Expr.to_b v = true ->
  sem ML (funs_of ft) n (prog_of body) c2 = Fin (sg, c3) -> (sg = Normal \/ sg = Cont) ->
  sem ML (funs_of ft) n (prog_of inc) c3 = Fin (Brk, c4) ->
  exec_s (S n) (pre ++ SFor init cnd inc body line :: post) (Ok (emb ft m c)) = exec_s (S n) post (Ok (emb ft m c4)) /\ wf c4.
Proof. exact break_in_increment_exec. Qed.

(* The witnesses of the former finding C11-break-in-for-increment (exec_for ran the increment after its own handling of break_flag,
   so a BREAK / CONTINUE written in the INCREMENT slot left the flag raised for the enclosing loop; the sources below logged `0`,
   `99`), now positive: the FOR statement `FOR(INT I=0;I<5;BREAK){ PRINT(I) }` ends NORMALLY after one pass (first theorem), so the
   enclosing WHILE goes on - `X++ PRINT(X)` run in each of its three passes, the log is 0 1 0 2 0 3 99 (second); with
   `I++ CONTINUE` as the increment the FOR runs all its passes and the rest of the outer body is not skipped (third). *)
Theorem C11_for_increment_break_stays :
  match lex_script src_for_inc_break with
  | Ok ([_; SFor init cnd inc body line], ls) =>
      inc = [SCore (TLineNo 0); SBreak] /\
      exists c', exec_stmt ML (funs_of (sl_funcs ls)) (sem ML (funs_of (sl_funcs ls)) 2)
                   (For (prog_of init) (oexpr_of cnd) (prog_of inc) (prog_of body) line) (cfg_after_lex ls) = Fin (Normal, c')
                 /\ logs_str (s_logs (world c')) = zs "[PRINT](0) 0"
  | _ => False
  end.
Proof. exact for_increment_break_stays. Qed.
Theorem C11_for_increment_break_outer_goes_on :
  match compile_script src_for_inc_break_nested with
  | Ok (_, log) => log = zs "[PRINT](0) 0" ++ [10] ++ zs "[PRINT](0) 1" ++ [10] ++ zs "[PRINT](0) 0" ++ [10] ++ zs "[PRINT](0) 2" ++ [10]
                         ++ zs "[PRINT](0) 0" ++ [10] ++ zs "[PRINT](0) 3" ++ [10] ++ zs "[PRINT](0) 99"
  | _ => False
  end.
Proof. exact for_increment_break_outer_goes_on. Qed.
Theorem C11_for_increment_continue_outer_goes_on :
  match compile_script src_for_inc_continue_nested with
  | Ok (_, log) => log = zs "[PRINT](0) 0" ++ [10] ++ zs "[PRINT](0) 1" ++ [10] ++ zs "[PRINT](0) 1" ++ [10]
                         ++ zs "[PRINT](0) 0" ++ [10] ++ zs "[PRINT](0) 1" ++ [10] ++ zs "[PRINT](0) 2" ++ [10] ++ zs "[PRINT](0) 99"
  | _ => False
  end.
Proof. exact for_increment_continue_outer_goes_on. Qed.

(* ------------------------------------------------------------------------------------------------ *)
(* 2.3 the iteration limit                                                                            *)
Section Limit2.
  Variables Name Atom Op Val World Bnd FId Err : Type.
  Variable L : lang Name Atom Op Val World Bnd FId Err.
  Variable funs : FId -> option (fundef Name Atom Op Val FId).
  Variable blk : list (stmt Name Atom Op FId) -> cfg Name World Bnd -> result Err (signal * cfg Name World Bnd).
  Notation gcfg := (cfg Name World Bnd).

  (* a WHILE whose test NEVER fails (Inv: any property of the configurations at the test that every pass re-establishes; passes end
     normally or with CONTINUE): for every allowance `left` it runs exactly left + 1 passes and is then cut off - ONE note (the logged
     error) is added to the world left by the last pass, and the loop statement ends Normal: nothing stays raised, the block goes on *)
  Theorem C11_limit_never_ends : forall (Inv : gcfg -> Prop) cnd body line,
    (forall c, Inv c -> exists v c1 sg c2,
        eval_opt L funs blk (l_vzero L) cnd c = Fin (v, c1) /\ l_truth L v = true /\ blk body c1 = Fin (sg, c2) /\
        (sg = Normal \/ sg = Cont) /\ Inv c2) ->
    forall left c, Inv c ->
    exists c', passes Name Atom Op Val World Bnd FId Err L funs blk cnd body (S left) c c' /\ Inv c' /\
               while_sem L funs blk left cnd body line c = Fin (Normal, set_world c' (l_limit_note L false line (world c'))).
  Proof. exact (while_never_ends Name Atom Op Val World Bnd FId Err L funs blk). Qed.
  (* FOR: `left` full passes (test, body, increment), then the test and the body once more; the last increment is not run *)
  Theorem C11_limit_never_ends_for : forall (Inv : gcfg -> Prop) cnd inc body line,
    (forall c, Inv c -> exists v c1 sg c2 c3,
        eval_opt L funs blk (l_vzero L) cnd c = Fin (v, c1) /\ l_truth L v = true /\ blk body c1 = Fin (sg, c2) /\
        (sg = Normal \/ sg = Cont) /\ blk inc c2 = Fin (Normal, c3) /\ Inv c3) ->
    forall left c, Inv c ->
    exists cl v c1 sg c2, fpasses Name Atom Op Val World Bnd FId Err L funs blk cnd inc body left c cl /\ Inv cl /\
               eval_opt L funs blk (l_vzero L) cnd cl = Fin (v, c1) /\ l_truth L v = true /\ blk body c1 = Fin (sg, c2) /\
               (sg = Normal \/ sg = Cont) /\
               for_sem L funs blk left cnd inc body line c = Fin (Normal, set_world c2 (l_limit_note L true line (world c2))).
  Proof. exact (for_never_ends Name Atom Op Val World Bnd FId Err L funs blk). Qed.
End Limit2.

(* the machine, with the constant of the code (m_N = max_loop = 10000): the body runs S m_N = 10001 times, the message
   `[ERROR](line) Loop too many times WHILE(>10000)` is logged once (add_log onto the song left by the last pass), break_flag is 0
   and exec() goes on with the tokens behind the loop *)
Theorem C11_limit_constant : Z.of_nat m_N = 10000 /\ MAX_LOOP = 10000.
Proof. exact (conj m_N_value eq_refl). Qed.
Theorem C11_limit_exec : forall ft, ft_ok ft = true ->
  forall n (Inv : cfg (list ch) song vv -> Prop) cnd body line rest m (c : cfg (list ch) song vv),
  wf c -> toks_ok (SWhile cnd body line :: rest) = true ->
  (forall c0, Inv c0 -> exists v c1 sg c2,
      eval_opt ML (funs_of ft) (sem ML (funs_of ft) n) (Expr.SInt 0) (oexpr_of cnd) c0 = Fin (v, c1) /\ Expr.to_b v = true /\
      sem ML (funs_of ft) n (prog_of body) c1 = Fin (sg, c2) /\ (sg = Normal \/ sg = Cont) /\ Inv c2) ->
  Inv c ->
  exists c', mpasses ft n (oexpr_of cnd) (prog_of body) (S m_N) c c' /\ Inv c' /\
    wf (set_world c' (add_log (world c') (limit_msg (s_ja (world c')) false line))) /\
    exec_s (S n) (SWhile cnd body line :: rest) (Ok (emb ft m c))
    = exec_s (S n) rest (Ok (emb ft m (set_world c' (add_log (world c') (limit_msg (s_ja (world c')) false line))))).
Proof. exact while_limit_exec. Qed.
Theorem C11_limit_for_exec : forall ft, ft_ok ft = true ->
  forall n (Inv : cfg (list ch) song vv -> Prop) init cnd inc body line rest m (c c0 : cfg (list ch) song vv),
  wf c -> toks_ok (SFor init cnd inc body line :: rest) = true ->
  sem ML (funs_of ft) n (prog_of init) c = Fin (Normal, c0) ->
  (forall c1, Inv c1 -> exists v c2 sg c3 c4,
      eval_opt ML (funs_of ft) (sem ML (funs_of ft) n) (Expr.SInt 0) (oexpr_of cnd) c1 = Fin (v, c2) /\ Expr.to_b v = true /\
      sem ML (funs_of ft) n (prog_of body) c2 = Fin (sg, c3) /\ (sg = Normal \/ sg = Cont) /\
      sem ML (funs_of ft) n (prog_of inc) c3 = Fin (Normal, c4) /\ Inv c4) ->
  Inv c0 ->
  exists cl v c1 sg c2,
    mfpasses ft n (oexpr_of cnd) (prog_of inc) (prog_of body) m_N c0 cl /\ Inv cl /\
    eval_opt ML (funs_of ft) (sem ML (funs_of ft) n) (Expr.SInt 0) (oexpr_of cnd) cl = Fin (v, c1) /\ Expr.to_b v = true /\
    sem ML (funs_of ft) n (prog_of body) c1 = Fin (sg, c2) /\ (sg = Normal \/ sg = Cont) /\
    wf (set_world c2 (add_log (world c2) (limit_msg (s_ja (world c2)) true line))) /\
    exec_s (S n) (SFor init cnd inc body line :: rest) (Ok (emb ft m c))
    = exec_s (S n) rest (Ok (emb ft m (set_world c2 (add_log (world c2) (limit_msg (s_ja (world c2)) true line))))).
Proof. exact for_limit_exec. Qed.

(* ------------------------------------------------------------------------------------------------ *)
(* 2.4 declared defaults                                                                              *)
Section Defaults2.
  Variables Name Atom Op Val World Bnd FId Err : Type.
  Variable L : lang Name Atom Op Val World Bnd FId Err.
  Variable blk : list (stmt Name Atom Op FId) -> cfg Name World Bnd -> result Err (signal * cfg Name World Bnd).
  Notation gcfg := (cfg Name World Bnd).
  Notation FILL := (fill Name Atom Op Val World Bnd FId Err L).

  (* a call with the argument values vs - fewer than parameters, more, some without a value - IS the call with the completed list
     `fill params vs`: one value per parameter; no NoDup or length hypothesis *)
  Theorem C11_defaults_fill : forall fd vs (c : gcfg), call_body L blk fd (FILL (fd_params fd) vs) c = call_body L blk fd vs c.
  Proof. exact (call_body_fill Name Atom Op Val World Bnd FId Err L blk). Qed.
  (* the completed list: the argument where one with a value is given ... *)
  Theorem C11_defaults_given : forall ps vs j x d, nth_error ps j = Some (x, d) -> l_is_none L (nth j vs (l_vnone L)) = false ->
    nth j (FILL ps vs) (l_vnone L) = nth j vs (l_vnone L).
  Proof. exact (fill_given Name Atom Op Val World Bnd FId Err L). Qed.
  (* ... the declared default where the call has fewer arguments ... *)
  Theorem C11_defaults_missing : forall ps vs j x d, l_is_none L (l_vnone L) = true ->
    nth_error ps j = Some (x, d) -> (length vs <= j)%nat -> nth j (FILL ps vs) (l_vnone L) = d.
  Proof. exact (fill_missing Name Atom Op Val World Bnd FId Err L). Qed.
  (* ... or the argument has no value (`F(,2)`, `F(G())` with G yielding nothing) *)
  Theorem C11_defaults_valueless : forall ps vs j x d, nth_error ps j = Some (x, d) -> l_is_none L (nth j vs (l_vnone L)) = true ->
    nth j (FILL ps vs) (l_vnone L) = d.
  Proof. exact (fill_valueless Name Atom Op Val World Bnd FId Err L). Qed.
  (* arguments beyond the parameter list are ignored (they have been evaluated, their values are dropped) *)
  Theorem C11_extra_args_ignored : forall fd vs extra (c : gcfg),
    (length (fd_params fd) <= length vs)%nat -> call_body L blk fd (vs ++ extra) c = call_body L blk fd vs c.
  Proof. exact (call_extra_args_ignored Name Atom Op Val World Bnd FId Err L blk). Qed.
End Defaults2.

(* the machine: exec_userfunc_or_array_or_macro after the arguments have been evaluated *)
Theorem C11_defaults_exec : forall ec fd vs st, finish_call ec fd (mfill (f_params fd) vs) st = finish_call ec fd vs st.
Proof. exact finish_call_fill. Qed.
Theorem C11_defaults_entry_exec : forall ps vs j x d, nth_error ps j = Some (x, d) ->
  nth j (mfill ps vs) Expr.SNone = (if Expr.is_none (nth j vs Expr.SNone) then d else nth j vs Expr.SNone)
  /\ length (mfill ps vs) = length ps.
Proof. exact (fun ps vs j x d H => conj (mfill_entry ps vs j x d H) (mfill_length ps vs)). Qed.
Theorem C11_extra_args_exec : forall ec fd vs extra st,
  (length (f_params fd) <= length vs)%nat -> finish_call ec fd (vs ++ extra) st = finish_call ec fd vs st.
Proof. exact finish_call_extra_args. Qed.

(* ------------------------------------------------------------------------------------------------ *)
(* 2.5 RETURN leaves the function at once, from any depth                                             *)
Section Return2.
  Variables Name Atom Op Val World Bnd FId Err : Type.
  Variable L : lang Name Atom Op Val World Bnd FId Err.
  Variable funs : FId -> option (fundef Name Atom Op Val FId).
  Notation gcfg := (cfg Name World Bnd).
  Notation RETS := (rets Name Atom Op Val World Bnd FId Err L funs).

  (* rets n b c v c' (ScriptCorP) : the run of block b from c reaches a RETURN(e) - in b itself, or in the chosen branch of an IF,
     in pass k+1 of a WHILE or FOR of b, and so on to any depth - having evaluated e to v, leaving c'.  Every rule quantifies over
     ALL texts `post` behind the RETURN / behind the statement that contains it.  Then the block ends right there with RETURN raised
     and Result bound to v: nothing of any `post` is executed *)
  Theorem C11_return_anywhere : forall n b (c : gcfg) v c', RETS n b c v c' ->
    sem L funs n b c = Fin (Ret, bind_val L (l_result_name L) v c').
  Proof. exact (rets_sem Name Atom Op Val World Bnd FId Err L funs). Qed.
  (* ... and the call yields v, its frame dropped (without any RETURN: what Result is bound to - C11_return_keeps_result) *)
  Theorem C11_return_value : forall n fd vs (c : gcfg) v c',
    (forall x, l_name_eqb L x x = true) -> (forall w, l_view_of L (l_bnd_val L w) = BVal w) ->
    RETS n (fd_body fd) (set_env c (ScriptSem.bind_params L (fd_params fd) 0 vs (env c))) v c' ->
    call_body L (sem L funs n) fd vs c = Fin (v, set_env c' (tl (env c'))).
  Proof. exact (call_returns Name Atom Op Val World Bnd FId Err L funs). Qed.
  (* RETURN out of a FOR (WHILE: C11_return_from_loops): the loop ends in that pass, no increment, no further test *)
  Theorem C11_return_from_for : forall blk cnd inc body line k left (c ck : gcfg) v c1 c2,
    fpasses Name Atom Op Val World Bnd FId Err L funs blk cnd inc body k c ck -> (k < left)%nat ->
    eval_opt L funs blk (l_vzero L) cnd ck = Fin (v, c1) -> l_truth L v = true -> blk body c1 = Fin (Ret, c2) ->
    for_sem L funs blk left cnd inc body line c = Fin (Ret, c2).
  Proof. exact (for_return Name Atom Op Val World Bnd FId Err L funs). Qed.
End Return2.

(* the machine: the call is over when the RETURN is reached; with function_needs_return_value (m) the value of e is pushed; the
   callee's scope is popped; break_flag is back to what it was before the call (0: emb) *)
Theorem C11_return_exec : forall ft, ft_ok ft = true -> forall n fd vs m (c : cfg (list ch) song vv) v c',
  wf c -> toks_ok (f_body fd) = true ->
  mrets ft n (prog_of (f_body fd)) (set_env c (Script.bind_params (f_params fd) 0 vs (env c))) v c' ->
  finish_call (exec_s n) fd vs (emb ft m c) = Ok (if m then Some v else None, emb ft m (set_env c' (tl (env c')))).
Proof. exact return_exec. Qed.

(* ------------------------------------------------------------------------------------------------ *)
(* 2.6 the caller's variables                                                                         *)
(* What the code does: there is one stack of scopes; a call pushes a scope, binds the parameters in it, pops it at the end.       *)
(* WRITES (declaration, `X = e` - also when X names a global -, X++, parameters, Result) always go to the current (innermost)    *)
(* scope: C11_local_writes_only.  READS search the stack from the innermost scope outwards: a callee sees its own bindings first, *)
(* then its caller's, then the globals (C11_scope_reads).  So nothing a callee does can change a variable of its caller or a      *)
(* global: after the call all scopes of the caller are what they were.                                                            *)
Theorem C11_scope_reads : forall Name Atom Op Val World Bnd FId Err (L : lang Name Atom Op Val World Bnd FId Err) x fr e,
  lookup_frame L x fr = None -> lookup L x (fr :: e) = lookup L x e.
Proof. exact lookup_through_frame. Qed.
(* the machine: a call statement leaves every scope as it was, break_flag 0 ... *)
Theorem C11_scope_call_exec : forall ft, ft_ok ft = true -> forall n id args m (c : cfg (list ch) song vv) st',
  wf c -> sem ML (funs_of ft) (S n) (prog_of [SCall id args]) c <> Stuck ->
  exec_s (S n) [SCall id args] (Ok (emb ft m c)) = Ok st' -> ss_scopes st' = env c /\ st_flag st' = 0.
Proof. exact call_scopes_exec. Qed.
(* ... so does exec_value on an expression with any calls inside ... *)
Theorem C11_scope_value_exec : forall ft, ft_ok ft = true -> forall n e m (c : cfg (list ch) song vv) v st',
  wf c -> eval_opt ML (funs_of ft) (sem ML (funs_of ft) n) (Expr.SInt 0) (oexpr_of e) c <> Stuck ->
  exec_value_o (exec_s n) e (emb ft m c) = Ok (v, st') -> ss_scopes st' = env c /\ st_flag st' = 0.
Proof. exact value_scopes_exec. Qed.
(* ... and any block of tokens - a function body with its locals, assignments to global names, nested calls - changes at most the
   scope it runs in: all scopes below are untouched *)
Theorem C11_scope_block_exec : forall ft, ft_ok ft = true -> forall n toks m (c : cfg (list ch) song vv) st',
  wf c -> toks_ok toks = true -> sem ML (funs_of ft) n (prog_of toks) c <> Stuck ->
  exec_s n toks (Ok (emb ft m c)) = Ok st' -> tl (ss_scopes st') = tl (env c).
Proof. exact block_scopes_exec. Qed.

(* ------------------------------------------------------------------------------------------------ *)
(* examples for part 2: the hypotheses of every theorem are met by a concrete program                  *)
Ltac head_of t := match t with ?f _ => head_of f | _ => t end.
Ltac lexed := match goal with |- match ?l with _ => _ end => let h := head_of l in cbv delta [h]; cbv beta iota; repeat match goal with |- let _ := _ in _ => intro end end.
Ltac vmr := vm_compute; reflexivity.
Ltac one_pass := eapply passes_S; [vmr | reflexivity | vmr | first [left; reflexivity | right; reflexivity] | ].
Ltac one_fpass := eapply fpasses_S; [vmr | reflexivity | vmr | first [left; reflexivity | right; reflexivity] | vmr | ].
Ltac one_spass := eapply straight_S; [vmr | reflexivity | vmr | ].
Ltac one_fspass := eapply fstraight_S; [vmr | reflexivity | vmr | vmr | ].

Definition src_while3 : list ch := zs "INT X=0 WHILE(X<3){ c X++ } PRINT(X)".
Definition lexed_while3 := Eval vm_compute in lex_script src_while3.
Definition src_for3 : list ch := zs "FOR(INT I=0;I<3;I++){ c PRINT(I) } d".
Definition lexed_for3 := Eval vm_compute in lex_script src_for3.

(* WHILE(X<3){ c X++ } from X = 0: three straight passes, then the test fails *)
Example C11_example_loop_unroll_exec :
  match lexed_while3 with
  | Ok ([t0; t1; SWhile cnd body line; t3], ls) =>
      let ft := sl_funcs ls in
      exists c ck v, sem ML (funs_of ft) 2 (prog_of [t0; t1]) (cfg_after_lex ls) = Fin (Normal, c) /\
        ft_ok ft = true /\ wf c /\ toks_ok body = true /\ toks_ok (reps_t 3 body) = true /\
        mstraight ft 2 (oexpr_of cnd) (prog_of body) 3 c ck /\ (3 <= m_N)%nat /\
        eval_opt ML (funs_of ft) (sem ML (funs_of ft) 2) (Expr.SInt 0) (oexpr_of cnd) ck = Fin (v, ck) /\ Expr.to_b v = false /\
        (* both sides of C11_loop_unroll_exec / _text are a state in which X = 3 *)
        (exists st, exec_s 3 [SWhile cnd body line] (Ok (emb ft false c)) = Ok st /\ Nat.iter 3 (exec_s 2 body) (Ok (emb ft false c)) = Ok st /\
                    exec_s 3 (reps_t 3 body) (Ok (emb ft false c)) = Ok st /\ vars_lookup (zs "X") (ss_scopes st) = Some (VV (Expr.SInt 3)))
  | _ => False
  end.
Proof.
  lexed. eexists. eexists. eexists. do 5 (split; [vmr|]).
  split; [one_spass; one_spass; one_spass; apply straight_O|]. split; [unfold m_N, MAX_LOOP; lia|]. split; [vmr|]. split; [reflexivity|].
  eexists. split; [vmr|]. split; [vmr|]. split; vmr.
Qed.
Example C11_example_loop_unroll_exec_text : toks_ok (reps_t 3 [SCore (TLineNo 0); SValueInc (zs "X") 1]) = true /\ (3 <= m_N)%nat.
Proof. split; [vmr | unfold m_N, MAX_LOOP; lia]. Qed.

(* FOR(INT I=0;I<3;I++){ c PRINT(I) }: the initialiser, then three times (body; increment) *)
Example C11_example_for_unroll_text :
  match lexed_for3 with
  | Ok ([t0; SFor init cnd inc body line; t2], ls) =>
      let ft := sl_funcs ls in let c := cfg_after_lex ls in
      exists c0 ck v, sem ML (funs_of ft) 2 (prog_of init) c = Fin (Normal, c0) /\
        mfstraight ft 2 (oexpr_of cnd) (prog_of inc) (prog_of body) 3 c0 ck /\ (3 <= l_limit ML)%nat /\
        eval_opt ML (funs_of ft) (sem ML (funs_of ft) 2) (Expr.SInt 0) (oexpr_of cnd) ck = Fin (v, ck) /\ Expr.to_b v = false /\
        logs_str (s_logs (world ck)) = zs "[PRINT](0) 0" ++ [10] ++ zs "[PRINT](0) 1" ++ [10] ++ zs "[PRINT](0) 2"
  | _ => False
  end.
Proof.
  lexed. eexists. eexists. eexists. split; [vmr|].
  split; [one_fspass; one_fspass; one_fspass; apply fstraight_O|]. split; [change (l_limit ML) with m_N; unfold m_N, MAX_LOOP; lia|].
  split; [vmr|]. split; [reflexivity | vmr].
Qed.
Example C11_example_for_unroll_exec :
  match lexed_for3 with
  | Ok ([t0; SFor init cnd inc body line; t2], ls) =>
      let ft := sl_funcs ls in let c := cfg_after_lex ls in
      exists c0 ck v, ft_ok ft = true /\ wf c /\ toks_ok init = true /\ toks_ok inc = true /\ toks_ok body = true /\
        toks_ok (init ++ reps_t 3 (body ++ inc)) = true /\
        sem ML (funs_of ft) 2 (prog_of init) c = Fin (Normal, c0) /\
        mfstraight ft 2 (oexpr_of cnd) (prog_of inc) (prog_of body) 3 c0 ck /\ (3 <= m_N)%nat /\
        eval_opt ML (funs_of ft) (sem ML (funs_of ft) 2) (Expr.SInt 0) (oexpr_of cnd) ck = Fin (v, ck) /\ Expr.to_b v = false /\
        (exists st, exec_s 3 [SFor init cnd inc body line] (Ok (emb ft false c)) = Ok st /\
                    Nat.iter 3 (fun s => exec_s 2 inc (exec_s 2 body s)) (exec_s 2 init (Ok (emb ft false c))) = Ok st /\
                    exec_s 3 (init ++ reps_t 3 (body ++ inc)) (Ok (emb ft false c)) = Ok st /\
                    vars_lookup (zs "I") (ss_scopes st) = Some (VV (Expr.SInt 3)))
  | _ => False
  end.
Proof.
  lexed. eexists. eexists. eexists. do 6 (split; [vmr|]). split; [vmr|].
  split; [one_fspass; one_fspass; one_fspass; apply fstraight_O|]. split; [unfold m_N, MAX_LOOP; lia|].
  split; [vmr|]. split; [reflexivity|]. eexists. split; [vmr|]. split; [vmr|]. split; vmr.
Qed.
Example C11_example_for_unroll_exec_text :
  match lexed_for3 with
  | Ok ([t0; SFor init cnd inc body line; t2], ls) => toks_ok (init ++ reps_t 3 (body ++ inc)) = true /\ length (init ++ reps_t 3 (body ++ inc)) = 17%nat
  | _ => False
  end.
Proof. vm_compute. split; reflexivity. Qed.

(* ---- BREAK / CONTINUE ---- *)
Definition src_nested : list ch := zs "INT X=0 WHILE(X<2){ INT Y=0 WHILE(1){ Y++ IF(Y>2){BREAK} c } X++ PRINT(X,Y) } PRINT(9)".
Definition lexed_nested := Eval vm_compute in lex_script src_nested.
Definition src_for_break : list ch := zs "FOR(INT I=0;I<9;I++){ IF(I>=2){BREAK} c } PRINT(I)".
Definition lexed_for_break := Eval vm_compute in lex_script src_for_break.
Definition src_continue : list ch := zs "INT X=0 WHILE(X<3){ X++ IF(X=2){CONTINUE} c }".
Definition lexed_continue := Eval vm_compute in lex_script src_continue.
Definition src_for_continue : list ch := zs "FOR(INT I=0;I<3;I++){ IF(I=1){CONTINUE} c }".
Definition lexed_for_continue := Eval vm_compute in lex_script src_for_continue.
Definition src_continue_text : list ch := zs "INT X=0 WHILE(X<3){ X++ CONTINUE c PRINT(X) }".
Definition lexed_continue_text := Eval vm_compute in lex_script src_continue_text.
Definition src_for_continue_text : list ch := zs "FOR(INT I=0;I<3;I++){ d CONTINUE c PRINT(I) }".
Definition lexed_for_continue_text := Eval vm_compute in lex_script src_for_continue_text.
Definition src_for_inc_break_if : list ch := zs "FOR(INT I=0;I<9;I++ IF(I>=2){BREAK}){ c } PRINT(I)".
Definition lexed_for_inc_break := Eval vm_compute in lex_script src_for_inc_break_if.
Definition src_for_inc_continue : list ch := zs "FOR(INT I=0;I<3;I++ CONTINUE){ c } PRINT(I)".
Definition lexed_for_inc_continue := Eval vm_compute in lex_script src_for_inc_continue.

(* the inner WHILE(1) of src_nested: two passes, BREAK (inside an IF) in the third; X++ PRINT(X,Y) follow *)
Example C11_example_break_innermost_block :
  match lexed_nested with
  | Ok ([t0; t1; SWhile cndO [p0; p1; SWhile cndI bodyI lineI; q0; q1] lineO; t3], ls) =>
      let ft := sl_funcs ls in
      exists c c1 cj v c2 c3, sem ML (funs_of ft) 3 (prog_of [t0; t1]) (cfg_after_lex ls) = Fin (Normal, c) /\
        exec_seq ML (funs_of ft) (sem ML (funs_of ft) 2) (prog_of [p0; p1]) c = Fin (Normal, c1) /\
        mpasses ft 2 (oexpr_of cndI) (prog_of bodyI) 2 c1 cj /\ (2 < l_limit ML)%nat /\
        eval_opt ML (funs_of ft) (sem ML (funs_of ft) 2) (Expr.SInt 0) (oexpr_of cndI) cj = Fin (v, c2) /\ Expr.to_b v = true /\
        sem ML (funs_of ft) 2 (prog_of bodyI) c2 = Fin (Brk, c3) /\
        lookup ML (zs "Y") (env c3) = Some (VV (Expr.SInt 3))
  | _ => False
  end.
Proof.
  lexed. do 6 eexists. do 2 (split; [vmr|]). split; [one_pass; one_pass; apply passes_O|].
  split; [change (l_limit ML) with m_N; unfold m_N, MAX_LOOP; lia|]. split; [vmr|]. split; [vmr|]. split; vmr.
Qed.
Example C11_example_break_innermost_exec :
  match lexed_nested with
  | Ok ([t0; t1; SWhile cndO [p0; p1; SWhile cndI bodyI lineI; q0; q1] lineO; t3], ls) =>
      let ft := sl_funcs ls in
      exists c c1 cj v c2 c3, sem ML (funs_of ft) 3 (prog_of [t0; t1]) (cfg_after_lex ls) = Fin (Normal, c) /\
        ft_ok ft = true /\ wf c /\ toks_ok ([p0; p1] ++ SWhile cndI bodyI lineI :: [q0; q1]) = true /\
        exec_seq ML (funs_of ft) (sem ML (funs_of ft) 2) (prog_of [p0; p1]) c = Fin (Normal, c1) /\
        mpasses ft 2 (oexpr_of cndI) (prog_of bodyI) 2 c1 cj /\ (2 < m_N)%nat /\
        eval_opt ML (funs_of ft) (sem ML (funs_of ft) 2) (Expr.SInt 0) (oexpr_of cndI) cj = Fin (v, c2) /\ Expr.to_b v = true /\
        sem ML (funs_of ft) 2 (prog_of bodyI) c2 = Fin (Brk, c3) /\
        (* the machine goes on behind the inner loop: X++ PRINT(X,Y) logs `1 3` *)
        (exists st, exec_s 3 ([p0; p1] ++ SWhile cndI bodyI lineI :: [q0; q1]) (Ok (emb ft false c)) = Ok st /\
                    exec_s 3 [q0; q1] (Ok (emb ft false c3)) = Ok st /\ st_flag st = 0 /\ logs_str (s_logs (ss_song st)) = zs "[PRINT](0) 1 3")
  | _ => False
  end.
Proof.
  lexed. do 6 eexists. do 5 (split; [vmr|]). split; [one_pass; one_pass; apply passes_O|].
  split; [unfold m_N, MAX_LOOP; lia|]. do 3 (split; [vmr|]). eexists. split; [vmr|]. split; [vmr|]. split; vmr.
Qed.
(* both levels: the outer WHILE(X<2) from X = 0 - its first pass contains the inner loop, its BREAK, then X++ PRINT(X,Y) *)
Example C11_example_break_innermost_nested :
  match lexed_nested with
  | Ok ([t0; t1; SWhile cndO [p0; p1; SWhile cndI bodyI lineI; q0; q1] lineO; t3], ls) =>
      let ft := sl_funcs ls in
      exists c vO c0 c1 cj v c2 c3 sg c4, sem ML (funs_of ft) 4 (prog_of [t0; t1]) (cfg_after_lex ls) = Fin (Normal, c) /\
        eval_opt ML (funs_of ft) (sem ML (funs_of ft) 3) (Expr.SInt 0) (oexpr_of cndO) c = Fin (vO, c0) /\ Expr.to_b vO = true /\
        exec_seq ML (funs_of ft) (sem ML (funs_of ft) 2) (prog_of [p0; p1]) c0 = Fin (Normal, c1) /\
        mpasses ft 2 (oexpr_of cndI) (prog_of bodyI) 2 c1 cj /\ (2 < l_limit ML)%nat /\
        eval_opt ML (funs_of ft) (sem ML (funs_of ft) 2) (Expr.SInt 0) (oexpr_of cndI) cj = Fin (v, c2) /\ Expr.to_b v = true /\
        sem ML (funs_of ft) 2 (prog_of bodyI) c2 = Fin (Brk, c3) /\
        exec_seq ML (funs_of ft) (sem ML (funs_of ft) 2) (prog_of [q0; q1]) c3 = Fin (sg, c4) /\ (sg = Normal \/ sg = Cont) /\
        lookup ML (zs "X") (env c4) = Some (VV (Expr.SInt 1))
  | _ => False
  end.
Proof.
  lexed. do 10 eexists. do 4 (split; [vmr|]). split; [one_pass; one_pass; apply passes_O|].
  split; [change (l_limit ML) with m_N; unfold m_N, MAX_LOOP; lia|]. do 4 (split; [vmr|]). split; [left; reflexivity | vmr].
Qed.
(* the whole inner loop as a statement of the outer body: it ends Normal *)
Example C11_example_loop_signals_stay_inside :
  match lexed_nested with
  | Ok ([t0; t1; SWhile cndO [p0; p1; SWhile cndI bodyI lineI; q0; q1] lineO; t3], ls) =>
      let ft := sl_funcs ls in
      exists c c1 sg c2, sem ML (funs_of ft) 3 (prog_of [t0; t1]) (cfg_after_lex ls) = Fin (Normal, c) /\
        exec_seq ML (funs_of ft) (sem ML (funs_of ft) 2) (prog_of [p0; p1]) c = Fin (Normal, c1) /\
        exec_stmt ML (funs_of ft) (sem ML (funs_of ft) 2) (While (oexpr_of cndI) (prog_of bodyI) lineI) c1 = Fin (sg, c2) /\ sg = Normal
  | _ => False
  end.
Proof. lexed. do 4 eexists. do 2 (split; [vmr|]). split; vmr. Qed.

(* FOR(INT I=0;I<9;I++){ IF(I>=2){BREAK} c }: two full passes, BREAK in the third; PRINT(I) behind it sees I = 2 (no increment) *)
Example C11_example_break_innermost_for_block :
  match lexed_for_break with
  | Ok ([t0; SFor init cnd inc body line; t2], ls) =>
      let ft := sl_funcs ls in let c := cfg_after_lex ls in
      exists c1 c1' cj v c2 c3,
        exec_seq ML (funs_of ft) (sem ML (funs_of ft) 2) (prog_of [t0]) c = Fin (Normal, c1) /\
        sem ML (funs_of ft) 2 (prog_of init) c1 = Fin (Normal, c1') /\
        mfpasses ft 2 (oexpr_of cnd) (prog_of inc) (prog_of body) 2 c1' cj /\ (2 < l_limit ML)%nat /\
        eval_opt ML (funs_of ft) (sem ML (funs_of ft) 2) (Expr.SInt 0) (oexpr_of cnd) cj = Fin (v, c2) /\ Expr.to_b v = true /\
        sem ML (funs_of ft) 2 (prog_of body) c2 = Fin (Brk, c3) /\ lookup ML (zs "I") (env c3) = Some (VV (Expr.SInt 2))
  | _ => False
  end.
Proof.
  lexed. do 6 eexists. do 2 (split; [vmr|]). split; [one_fpass; one_fpass; apply fpasses_O|].
  split; [change (l_limit ML) with m_N; unfold m_N, MAX_LOOP; lia|]. do 3 (split; [vmr|]). vmr.
Qed.
Example C11_example_break_innermost_for_exec :
  match lexed_for_break with
  | Ok ([t0; SFor init cnd inc body line; t2], ls) =>
      let ft := sl_funcs ls in let c := cfg_after_lex ls in
      exists c1 c1' cj v c2 c3, ft_ok ft = true /\ wf c /\ toks_ok ([t0] ++ SFor init cnd inc body line :: [t2]) = true /\
        exec_seq ML (funs_of ft) (sem ML (funs_of ft) 2) (prog_of [t0]) c = Fin (Normal, c1) /\
        sem ML (funs_of ft) 2 (prog_of init) c1 = Fin (Normal, c1') /\
        mfpasses ft 2 (oexpr_of cnd) (prog_of inc) (prog_of body) 2 c1' cj /\ (2 < m_N)%nat /\
        eval_opt ML (funs_of ft) (sem ML (funs_of ft) 2) (Expr.SInt 0) (oexpr_of cnd) cj = Fin (v, c2) /\ Expr.to_b v = true /\
        sem ML (funs_of ft) 2 (prog_of body) c2 = Fin (Brk, c3) /\
        (exists st, exec_s 3 ([t0] ++ SFor init cnd inc body line :: [t2]) (Ok (emb ft false c)) = Ok st /\
                    exec_s 3 [t2] (Ok (emb ft false c3)) = Ok st /\ logs_str (s_logs (ss_song st)) = zs "[PRINT](0) 2")
  | _ => False
  end.
Proof.
  lexed. do 6 eexists. do 5 (split; [vmr|]). split; [one_fpass; one_fpass; apply fpasses_O|].
  split; [unfold m_N, MAX_LOOP; lia|]. do 3 (split; [vmr|]). eexists. split; [vmr|]. split; vmr.
Qed.

(* WHILE(X<3){ X++ IF(X=2){CONTINUE} c }: the second pass raises CONTINUE inside the IF *)
Example C11_example_continue_innermost :
  match lexed_continue with
  | Ok ([t0; t1; SWhile cnd body line], ls) =>
      let ft := sl_funcs ls in
      exists c0 c v c1 c2, sem ML (funs_of ft) 3 (prog_of [t0; t1]) (cfg_after_lex ls) = Fin (Normal, c0) /\
        mpasses ft 2 (oexpr_of cnd) (prog_of body) 1 c0 c /\
        eval_opt ML (funs_of ft) (sem ML (funs_of ft) 2) (Expr.SInt 0) (oexpr_of cnd) c = Fin (v, c1) /\ Expr.to_b v = true /\
        sem ML (funs_of ft) 2 (prog_of body) c1 = Fin (Cont, c2) /\ lookup ML (zs "X") (env c2) = Some (VV (Expr.SInt 2))
  | _ => False
  end.
Proof. lexed. do 5 eexists. split; [vmr|]. split; [one_pass; apply passes_O|]. do 3 (split; [vmr|]). vmr. Qed.
(* FOR(INT I=0;I<3;I++){ IF(I=1){CONTINUE} c }: the pass with I = 1 raises CONTINUE; the increment still makes I = 2 *)
Example C11_example_continue_innermost_for :
  match lexed_for_continue with
  | Ok ([t0; SFor init cnd inc body line], ls) =>
      let ft := sl_funcs ls in
      exists c0 c v c1 c2 c3, sem ML (funs_of ft) 2 (prog_of init) (cfg_after_lex ls) = Fin (Normal, c0) /\
        mfpasses ft 2 (oexpr_of cnd) (prog_of inc) (prog_of body) 1 c0 c /\
        eval_opt ML (funs_of ft) (sem ML (funs_of ft) 2) (Expr.SInt 0) (oexpr_of cnd) c = Fin (v, c1) /\ Expr.to_b v = true /\
        sem ML (funs_of ft) 2 (prog_of body) c1 = Fin (Cont, c2) /\ sem ML (funs_of ft) 2 (prog_of inc) c2 = Fin (Normal, c3) /\
        lookup ML (zs "I") (env c3) = Some (VV (Expr.SInt 2))
  | _ => False
  end.
Proof. lexed. do 6 eexists. split; [vmr|]. split; [one_fpass; apply fpasses_O|]. do 4 (split; [vmr|]). vmr. Qed.

(* the initialiser `INT I=0` of a lexed FOR raises nothing, from any configuration *)
Example C11_example_for_signals :
  match lexed_for_break with
  | Ok ([t0; SFor init cnd inc body line; t2], ls) =>
      let ft := sl_funcs ls in
      (forall c sg c', sem ML (funs_of ft) 2 (prog_of init) c = Fin (sg, c') -> sg = Normal)
  | _ => False
  end.
Proof.
  lexed. intros c sg c' H; (eapply (plain_sem_normal _ _ _ _ _ _ _ _ ML); [|exact H]); vmr.
Qed.
Example C11_example_for_plain_signals :
  match lexed_for_break with
  | Ok ([t0; SFor init cnd inc body line; t2], ls) =>
      let ft := sl_funcs ls in
      forallb (plain_stmt (list ch) Token.tok mop nat) (prog_of init) = true /\
      exists c', exec_stmt ML (funs_of ft) (sem ML (funs_of ft) 2) (For (prog_of init) (oexpr_of cnd) (prog_of inc) (prog_of body) line) (cfg_after_lex ls)
                 = Fin (Normal, c')
  | _ => False
  end.
Proof. lexed. split; [vmr|]. eexists. vmr. Qed.

(* FOR(INT I=0;I<9;I++ IF(I>=2){BREAK}){ c } PRINT(I): one full pass; in the second the increment makes I = 2 and raises BREAK
   (inside an IF); the FOR ends, PRINT(I) behind it is executed and sees I = 2 *)
Example C11_example_for_increment_break_innermost :
  match lexed_for_inc_break with
  | Ok ([t0; SFor init cnd inc body line; t2], ls) =>
      let ft := sl_funcs ls in let c := cfg_after_lex ls in
      exists c1 c1' cj v c2 sg c3 c4,
        exec_seq ML (funs_of ft) (sem ML (funs_of ft) 2) (prog_of [t0]) c = Fin (Normal, c1) /\
        sem ML (funs_of ft) 2 (prog_of init) c1 = Fin (Normal, c1') /\
        mfpasses ft 2 (oexpr_of cnd) (prog_of inc) (prog_of body) 1 c1' cj /\ (1 < l_limit ML)%nat /\
        eval_opt ML (funs_of ft) (sem ML (funs_of ft) 2) (Expr.SInt 0) (oexpr_of cnd) cj = Fin (v, c2) /\ Expr.to_b v = true /\
        sem ML (funs_of ft) 2 (prog_of body) c2 = Fin (sg, c3) /\ (sg = Normal \/ sg = Cont) /\
        sem ML (funs_of ft) 2 (prog_of inc) c3 = Fin (Brk, c4) /\ lookup ML (zs "I") (env c4) = Some (VV (Expr.SInt 2))
  | _ => False
  end.
Proof.
  lexed. do 8 eexists. do 2 (split; [vmr|]). split; [one_fpass; apply fpasses_O|].
  split; [change (l_limit ML) with m_N; unfold m_N, MAX_LOOP; lia|]. do 3 (split; [vmr|]). split; [left; reflexivity|]. split; vmr.
Qed.
Example C11_example_for_increment_break_exec :
  match lexed_for_inc_break with
  | Ok ([t0; SFor init cnd inc body line; t2], ls) =>
      let ft := sl_funcs ls in let c := cfg_after_lex ls in
      exists c1 c1' cj v c2 sg c3 c4, ft_ok ft = true /\ wf c /\ toks_ok ([t0] ++ SFor init cnd inc body line :: [t2]) = true /\
        exec_seq ML (funs_of ft) (sem ML (funs_of ft) 2) (prog_of [t0]) c = Fin (Normal, c1) /\
        sem ML (funs_of ft) 2 (prog_of init) c1 = Fin (Normal, c1') /\
        mfpasses ft 2 (oexpr_of cnd) (prog_of inc) (prog_of body) 1 c1' cj /\ (1 < m_N)%nat /\
        eval_opt ML (funs_of ft) (sem ML (funs_of ft) 2) (Expr.SInt 0) (oexpr_of cnd) cj = Fin (v, c2) /\ Expr.to_b v = true /\
        sem ML (funs_of ft) 2 (prog_of body) c2 = Fin (sg, c3) /\ (sg = Normal \/ sg = Cont) /\
        sem ML (funs_of ft) 2 (prog_of inc) c3 = Fin (Brk, c4) /\
        (exists st, exec_s 3 ([t0] ++ SFor init cnd inc body line :: [t2]) (Ok (emb ft false c)) = Ok st /\
                    exec_s 3 [t2] (Ok (emb ft false c4)) = Ok st /\ logs_str (s_logs (ss_song st)) = zs "[PRINT](0) 2")
  | _ => False
  end.
Proof.
  lexed. do 8 eexists. do 5 (split; [vmr|]). split; [one_fpass; apply fpasses_O|].
  split; [unfold m_N, MAX_LOOP; lia|]. do 3 (split; [vmr|]). split; [left; reflexivity|]. split; [vmr|].
  eexists. split; [vmr|]. split; vmr.
Qed.
(* FOR(INT I=0;I<3;I++ CONTINUE){ c }: the increment of the first pass makes I = 1 and raises CONTINUE; the FOR goes on *)
Example C11_example_for_increment_continue_innermost :
  match lexed_for_inc_continue with
  | Ok ([t0; SFor init cnd inc body line; t2], ls) =>
      let ft := sl_funcs ls in
      exists c v c1 sg c2 c3, sem ML (funs_of ft) 2 (prog_of init) (cfg_after_lex ls) = Fin (Normal, c) /\
        eval_opt ML (funs_of ft) (sem ML (funs_of ft) 2) (Expr.SInt 0) (oexpr_of cnd) c = Fin (v, c1) /\ Expr.to_b v = true /\
        sem ML (funs_of ft) 2 (prog_of body) c1 = Fin (sg, c2) /\ (sg = Normal \/ sg = Cont) /\
        sem ML (funs_of ft) 2 (prog_of inc) c2 = Fin (Cont, c3) /\ lookup ML (zs "I") (env c3) = Some (VV (Expr.SInt 1))
  | _ => False
  end.
Proof. lexed. do 6 eexists. do 4 (split; [vmr|]). split; [left; reflexivity|]. split; vmr. Qed.

(* WHILE(X<3){ X++ CONTINUE c PRINT(X) }: `c PRINT(X)` is never run - no note, no log line - exactly as for WHILE(X<3){ X++ } *)
Example C11_example_continue_skips_text :
  match lexed_continue_text with
  | Ok ([t0; t1; SWhile cnd [b0; b1; SContinue; b3; b4] line], ls) =>
      let ft := sl_funcs ls in
      exists c r, sem ML (funs_of ft) 3 (prog_of [t0; t1]) (cfg_after_lex ls) = Fin (Normal, c) /\
        ft_ok ft = true /\ wf c /\ toks_ok ([b0; b1] ++ SContinue :: [b3; b4]) = true /\
        sem ML (funs_of ft) 3 (prog_of [SWhile cnd [b0; b1] line]) c <> Stuck /\
        exec_stmt ML (funs_of ft) (sem ML (funs_of ft) 2) (While (oexpr_of cnd) (prog_of [b0; b1] ++ Continue :: prog_of [b3; b4]) line) c = Fin r /\
        exec_stmt ML (funs_of ft) (sem ML (funs_of ft) 2) (While (oexpr_of cnd) (prog_of [b0; b1]) line) c = Fin r /\
        s_logs (world (snd r)) = [] /\ lookup ML (zs "X") (env (snd r)) = Some (VV (Expr.SInt 3)) /\
        exec_s 3 [SWhile cnd ([b0; b1] ++ SContinue :: [b3; b4]) line] (Ok (emb ft false c)) = Ok (emb ft false (snd r))
  | _ => False
  end.
Proof. lexed. do 2 eexists. do 4 (split; [vmr|]). split; [vm_compute; discriminate|]. do 4 (split; [vmr|]). vmr. Qed.
Example C11_example_continue_skips_text_for :
  match lexed_for_continue_text with
  | Ok ([t0; SFor init cnd inc [b0; b1; SContinue; b3; b4] line], ls) =>
      let ft := sl_funcs ls in let c := cfg_after_lex ls in
      exists r, ft_ok ft = true /\ wf c /\ toks_ok init = true /\ toks_ok inc = true /\ toks_ok ([b0; b1] ++ SContinue :: [b3; b4]) = true /\
        sem ML (funs_of ft) 3 (prog_of [SFor init cnd inc [b0; b1] line]) c <> Stuck /\
        exec_stmt ML (funs_of ft) (sem ML (funs_of ft) 2)
          (For (prog_of init) (oexpr_of cnd) (prog_of inc) (prog_of [b0; b1] ++ Continue :: prog_of [b3; b4]) line) c = Fin r /\
        exec_stmt ML (funs_of ft) (sem ML (funs_of ft) 2) (For (prog_of init) (oexpr_of cnd) (prog_of inc) (prog_of [b0; b1]) line) c = Fin r /\
        s_logs (world (snd r)) = [] /\ lookup ML (zs "I") (env (snd r)) = Some (VV (Expr.SInt 3)) /\
        exec_s 3 [SFor init cnd inc ([b0; b1] ++ SContinue :: [b3; b4]) line] (Ok (emb ft false c)) = Ok (emb ft false (snd r))
  | _ => False
  end.
Proof. lexed. eexists. do 5 (split; [vmr|]). split; [vm_compute; discriminate|]. do 4 (split; [vmr|]). vmr. Qed.

(* ---- the iteration limit ---- *)
(* the language ex_lang (limit 2): a loop that never ends, every pass adds 1 to the world, the limit note adds 100 *)
Example C11_example_limit_never_ends :
  let blk := fun (b : list (stmt nat unit unit nat)) (c : cfg nat nat nat) => Fin (Normal, mkCfg (S (world c)) (env c)) : result unit _ in
  let Inv := fun _ : cfg nat nat nat => True in
  (forall c, Inv c -> exists v c1 sg c2,
      eval_opt ex_lang (fun _ => None) blk (l_vzero ex_lang) (Some (EOp tt [])) c = Fin (v, c1) /\ l_truth ex_lang v = true /\
      blk [] c1 = Fin (sg, c2) /\ (sg = Normal \/ sg = Cont) /\ Inv c2) /\
  Inv (mkCfg 0%nat []) /\
  while_sem ex_lang (fun _ => None) blk 2 (Some (EOp tt [])) [] 0 (mkCfg 0%nat []) = Fin (Normal, mkCfg 103%nat []).
Proof.
  cbv zeta. split; [|split; [exact I | reflexivity]].
  intros c _. exists 1%nat, c, Normal, (mkCfg (S (world c)) (env c)). repeat split; auto.
Qed.
(* FOR: two full passes (body, increment), then the body once more: 5, and the note *)
Example C11_example_limit_never_ends_for :
  let blk := fun (b : list (stmt nat unit unit nat)) (c : cfg nat nat nat) => Fin (Normal, mkCfg (S (world c)) (env c)) : result unit _ in
  let Inv := fun _ : cfg nat nat nat => True in
  (forall c, Inv c -> exists v c1 sg c2 c3,
      eval_opt ex_lang (fun _ => None) blk (l_vzero ex_lang) (Some (EOp tt [])) c = Fin (v, c1) /\ l_truth ex_lang v = true /\
      blk [] c1 = Fin (sg, c2) /\ (sg = Normal \/ sg = Cont) /\ blk [Leaf tt] c2 = Fin (Normal, c3) /\ Inv c3) /\
  Inv (mkCfg 0%nat []) /\
  for_sem ex_lang (fun _ => None) blk 2 (Some (EOp tt [])) [Leaf tt] [] 0 (mkCfg 0%nat []) = Fin (Normal, mkCfg 105%nat []).
Proof.
  cbv zeta. split; [|split; [exact I | reflexivity]].
  intros c _. exists 1%nat, c, Normal, (mkCfg (S (world c)) (env c)), (mkCfg (S (S (world c))) (env c)). repeat split; auto.
Qed.

(* the model: WHILE(1){X++} keeps "X is bound to a value" at every test; the source logs the error once and prints 10001 *)
Definition src_limit : list ch := zs "INT X=0 WHILE(1){X++} PRINT(X)".
Definition lexed_limit := Eval vm_compute in lex_script src_limit.
Definition limit_cnd : option Expr.tok := Some (Expr.TConstInt 1).
Definition limit_body : list stok := [SCore (TLineNo 0); SValueInc (zs "X") 1].
Definition limit_rest : list stok := [SPrint [Some (Expr.TGetVar (zs "X"))] 0].
Definition has_var (x : list ch) (c : cfg (list ch) song vv) : Prop := exists v, vars_lookup x (env c) = Some (VV v).
Lemma has_var_bind x v c : has_var x (bind_val ML x v c).
Proof.
  exists v. unfold bind_val. cbn [env set_env ML l_bnd_val]. destruct (env c) as [|fr r]; cbn [bind vars_lookup scope_get]; rewrite name_eqb_refl_m; reflexivity.
Qed.
Lemma has_var_bind_any x y v c : has_var x c -> has_var x (bind_val ML y v c).
Proof.
  intros [w H]. unfold has_var, bind_val. cbn [env set_env ML l_bnd_val]. destruct (env c) as [|fr r]; [discriminate H|].
  cbn [bind vars_lookup scope_get] in *. destruct (list_eqb y x); eauto.
Qed.
Example C11_example_limit_exec :
  lex_script src_limit = lexed_limit /\
  match lexed_limit with
  | Ok (t0 :: t1 :: SWhile cnd body line :: rest, ls) =>
      cnd = limit_cnd /\ body = limit_body /\ line = 0 /\ rest = limit_rest /\ sl_funcs ls = [] /\
      exists c, sem ML (funs_of []) 2 (prog_of [t0; t1]) (cfg_after_lex ls) = Fin (Normal, c) /\ wf c /\ has_var (zs "X") c
  | _ => False
  end /\
  ft_ok [] = true /\ toks_ok (SWhile limit_cnd limit_body 0 :: limit_rest) = true /\
  (forall c0, has_var (zs "X") c0 -> exists v c1 sg c2,
      eval_opt ML (funs_of []) (sem ML (funs_of []) 1) (Expr.SInt 0) (oexpr_of limit_cnd) c0 = Fin (v, c1) /\ Expr.to_b v = true /\
      sem ML (funs_of []) 1 (prog_of limit_body) c1 = Fin (sg, c2) /\ (sg = Normal \/ sg = Cont) /\ has_var (zs "X") c2) /\
  match compile_script src_limit with
  | Ok (_, log) => log = zs "[ERROR](0) Loop too many times WHILE(>10000)" ++ [10] ++ zs "[PRINT](0) 10001"
  | _ => False
  end.
Proof.
  split; [vmr|]. split.
  { unfold lexed_limit. do 5 (split; [reflexivity|]). eexists. split; [vmr|]. split; [vmr|]. eexists. vmr. }
  split; [vmr|]. split; [vmr|]. split; [|vmr].
  intros c0 [v0 H0].
  exists (Expr.SInt 1), c0, Normal, (bind_val ML (zs "X") (m_incr v0 1) (set_world c0 (s_set_lineno (world c0) 0))).
  split; [reflexivity|]. split; [reflexivity|]. split; [|split; [left; reflexivity | apply has_var_bind]].
  cbn [sem limit_body prog_of map stmt_of exec_seq exec_stmt ML l_atom_sem rbind fst snd]. unfold m_atom. cbn [step_song res_to_result rbind fst snd].
  cbn [l_view_of l_vzero l_vincr env set_world]. change (lookup ML (zs "X") (env c0)) with (vars_lookup (zs "X") (env c0)).
  rewrite H0. reflexivity.
Qed.
Definition src_limit_for : list ch := zs "INT X=0 FOR(INT I=0;1;I++){X++} PRINT(X,I)".
Definition lexed_limit_for := Eval vm_compute in lex_script src_limit_for.
Definition limitf_inc : list stok := [SCore (TLineNo 0); SValueInc (zs "I") 1].
Example C11_example_limit_for_exec :
  lex_script src_limit_for = lexed_limit_for /\
  match lexed_limit_for with
  | Ok (t0 :: t1 :: SFor init cnd inc body line :: rest, ls) =>
      cnd = limit_cnd /\ inc = limitf_inc /\ body = limit_body /\ sl_funcs ls = [] /\
      toks_ok (SFor init cnd inc body line :: rest) = true /\
      exists c c0, sem ML (funs_of []) 2 (prog_of [t0; t1]) (cfg_after_lex ls) = Fin (Normal, c) /\ wf c /\
                   sem ML (funs_of []) 1 (prog_of init) c = Fin (Normal, c0) /\ has_var (zs "X") c0 /\ has_var (zs "I") c0
  | _ => False
  end /\
  (forall c1, has_var (zs "X") c1 /\ has_var (zs "I") c1 -> exists v c2 sg c3 c4,
      eval_opt ML (funs_of []) (sem ML (funs_of []) 1) (Expr.SInt 0) (oexpr_of limit_cnd) c1 = Fin (v, c2) /\ Expr.to_b v = true /\
      sem ML (funs_of []) 1 (prog_of limit_body) c2 = Fin (sg, c3) /\ (sg = Normal \/ sg = Cont) /\
      sem ML (funs_of []) 1 (prog_of limitf_inc) c3 = Fin (Normal, c4) /\ has_var (zs "X") c4 /\ has_var (zs "I") c4) /\
  match compile_script src_limit_for with
  | Ok (_, log) => log = zs "[ERROR](0) Loop too many times FOR(>10000)" ++ [10] ++ zs "[PRINT](0) 10001 10000"
  | _ => False
  end.
Proof.
  split; [vmr|]. split.
  { unfold lexed_limit_for. do 4 (split; [reflexivity|]). split; [vmr|]. do 2 eexists. do 3 (split; [vmr|]). split; eexists; vmr. }
  split; [|vmr].
  intros c1 [[vx Hx] Hi].
  set (c3 := bind_val ML (zs "X") (m_incr vx 1) (set_world c1 (s_set_lineno (world c1) 0))).
  destruct (has_var_bind_any (zs "I") (zs "X") (m_incr vx 1) (set_world c1 (s_set_lineno (world c1) 0)) Hi) as [vi' Hi'].
  exists (Expr.SInt 1), c1, Normal, c3, (bind_val ML (zs "I") (m_incr vi' 1) (set_world c3 (s_set_lineno (world c3) 0))).
  split; [reflexivity|]. split; [reflexivity|]. split.
  { cbn [sem limit_body prog_of map stmt_of exec_seq exec_stmt ML l_atom_sem rbind fst snd]. unfold m_atom. cbn [step_song res_to_result rbind fst snd].
    cbn [l_view_of l_vzero l_vincr env set_world]. change (lookup ML (zs "X") (env c1)) with (vars_lookup (zs "X") (env c1)).
    rewrite Hx. reflexivity. }
  split; [left; reflexivity|]. split.
  { cbn [sem limitf_inc prog_of map stmt_of exec_seq exec_stmt ML l_atom_sem rbind fst snd]. unfold m_atom. cbn [step_song res_to_result rbind fst snd].
    cbn [l_view_of l_vzero l_vincr env set_world]. change (lookup ML (zs "I") (env c3)) with (vars_lookup (zs "I") (env c3)).
    change (env c3) with (env (bind_val ML (zs "X") (m_incr vx 1) (set_world c1 (s_set_lineno (world c1) 0)))).
    rewrite Hi'. reflexivity. }
  split; [apply has_var_bind_any, has_var_bind | apply has_var_bind].
Qed.

(* ---- declared defaults ---- *)
(* FUNCTION F(A,B=7,C=9) called with one value, with a valueless second argument, with four values *)
Definition ex_params : list (list ch * Expr.sval) := [(zs "A", Expr.SInt 0); (zs "B", Expr.SInt 7); (zs "C", Expr.SInt 9)].
Example C11_example_defaults_fill :
  mfill ex_params [Expr.SInt 1] = [Expr.SInt 1; Expr.SInt 7; Expr.SInt 9] /\
  mfill ex_params [Expr.SInt 1; Expr.SNone; Expr.SInt 3] = [Expr.SInt 1; Expr.SInt 7; Expr.SInt 3] /\
  mfill ex_params [Expr.SInt 1; Expr.SInt 2; Expr.SInt 3; Expr.SInt 4] = [Expr.SInt 1; Expr.SInt 2; Expr.SInt 3] /\
  mfill ex_params [] = [Expr.SInt 0; Expr.SInt 7; Expr.SInt 9].
Proof. vm_compute. repeat split. Qed.
Example C11_example_defaults_given :
  nth_error ex_params 0 = Some (zs "A", Expr.SInt 0) /\ l_is_none ML (nth 0 [Expr.SInt 1; Expr.SNone] (l_vnone ML)) = false /\
  nth 0 (mfill ex_params [Expr.SInt 1; Expr.SNone]) (l_vnone ML) = Expr.SInt 1.
Proof. vm_compute. repeat split. Qed.
Example C11_example_defaults_missing :
  l_is_none ML (l_vnone ML) = true /\ nth_error ex_params 2 = Some (zs "C", Expr.SInt 9) /\ (length [Expr.SInt 1; Expr.SNone] <= 2)%nat /\
  nth 2 (mfill ex_params [Expr.SInt 1; Expr.SNone]) (l_vnone ML) = Expr.SInt 9.
Proof. vm_compute. repeat split; auto. Qed.
Example C11_example_defaults_valueless :
  nth_error ex_params 1 = Some (zs "B", Expr.SInt 7) /\ l_is_none ML (nth 1 [Expr.SInt 1; Expr.SNone] (l_vnone ML)) = true /\
  nth 1 (mfill ex_params [Expr.SInt 1; Expr.SNone]) (l_vnone ML) = Expr.SInt 7.
Proof. vm_compute. repeat split. Qed.
Example C11_example_defaults_entry_exec :
  nth_error ex_params 1 = Some (zs "B", Expr.SInt 7) /\ nth 1 (mfill ex_params [Expr.SInt 1]) Expr.SNone = Expr.SInt 7 /\ length (mfill ex_params [Expr.SInt 1]) = 3%nat.
Proof. vm_compute. repeat split. Qed.
(* the source: F(1) = F(1,7,9), F(1,2) = F(1,2,9), a fourth argument is ignored, F() takes all three defaults *)
Definition src_defaults : list ch := zs "FUNCTION F(A,B=7,C=9){ RETURN(A*100+B*10+C) } PRINT(F(1),F(1,2),F(1,2,3,4),F())".
Definition lexed_defaults := Eval vm_compute in lex_script src_defaults.
Example C11_example_defaults_exec :
  lex_script src_defaults = lexed_defaults /\
  match lexed_defaults with
  | Ok (_, ls) =>
      match sl_funcs ls with
      | [fd] =>
          let st := emb [fd] true (push_frame (cfg_after_lex ls)) in
          f_params fd = ex_params /\
          (exists r, finish_call (exec_s 3) fd [Expr.SInt 1] st = Ok (Some (Expr.SInt 179), r) /\
                     finish_call (exec_s 3) fd (mfill (f_params fd) [Expr.SInt 1]) st = Ok (Some (Expr.SInt 179), r))
      | _ => False
      end
  | _ => False
  end /\
  match compile_script src_defaults with Ok (_, log) => log = zs "[PRINT](0) 179 129 123 79" | _ => False end.
Proof.
  split; [vmr|]. split; [|vmr]. unfold lexed_defaults. cbv beta iota. cbn [sl_funcs]. cbv beta iota zeta. split; [reflexivity|]. eexists. split; vmr.
Qed.
Example C11_example_extra_args :
  match lexed_defaults with
  | Ok (_, ls) =>
      match sl_funcs ls with
      | [fd] =>
          let st := emb [fd] true (push_frame (cfg_after_lex ls)) in
          let vs := [Expr.SInt 1; Expr.SInt 2; Expr.SInt 3] in
          (length (f_params fd) <= length vs)%nat /\ (length (fd_params (fundef_of fd)) <= length vs)%nat /\
          (exists r, finish_call (exec_s 3) fd (vs ++ [Expr.SInt 4]) st = Ok (Some (Expr.SInt 123), r) /\
                     finish_call (exec_s 3) fd vs st = Ok (Some (Expr.SInt 123), r))
      | _ => False
      end
  | _ => False
  end.
Proof.
  unfold lexed_defaults. cbv beta iota. cbn [sl_funcs]. cbv beta iota zeta. split; [vm_compute; lia|]. split; [vm_compute; lia|]. eexists. split; vmr.
Qed.

(* ---- RETURN ---- *)
(* F(2): in the second pass of WHILE(1), inside the IF, RETURN(I*10); `c` behind it, `d` behind the IF, `e` behind the loop are
   not executed in that pass (d was, once, in the first pass) *)
Definition src_return : list ch := zs "FUNCTION F(N){ INT I=0 WHILE(1){ I++ IF(I>=N){ RETURN(I*10) c } d } e } PRINT(F(2)) F(3)".
Definition lexed_return := Eval vm_compute in lex_script src_return.
Ltac rets_cons :=
  try match goal with |- rets _ _ _ _ _ _ _ _ _ _ _ (if ?t then _ else _) _ _ _ =>
        let t' := eval vm_compute in t in change t with t'; cbv beta iota end;
  cbn [prog_of map stmt_of oexpr_of option_map];
  match goal with
  | |- rets _ _ _ _ _ _ _ _ ?L ?F (S ?n) (?a :: Return (Some ?e) :: ?post) _ _ _ =>
      eapply (rets_here _ _ _ _ _ _ _ _ L F n [a] e post); [vmr | vmr]
  | |- rets _ _ _ _ _ _ _ _ ?L ?F (S ?n) (?a :: ?b :: If ?c ?th ?el :: ?post) _ _ _ =>
      eapply (rets_if _ _ _ _ _ _ _ _ L F n [a; b] c th el post); [vmr | vmr | ]
  | |- rets _ _ _ _ _ _ _ _ ?L ?F (S ?n) (?a :: ?b :: While ?c ?bd ?l :: ?post) _ _ _ =>
      eapply (rets_while _ _ _ _ _ _ _ _ L F n [a; b] c bd l post); [vmr | | | | | ]
  end.
(* the hypotheses of C11_return_anywhere, C11_return_value and C11_return_exec together *)
Example C11_example_return_anywhere_value_exec :
  lex_script src_return = lexed_return /\
  match lexed_return with
  | Ok (_, ls) =>
      match sl_funcs ls with
      | [fd] =>
          let ft := [fd] in let c := push_frame (cfg_after_lex ls) in
          exists v c', ft_ok ft = true /\ wf c /\ toks_ok (f_body fd) = true /\
            (forall x, l_name_eqb ML x x = true) /\ (forall w, l_view_of ML (l_bnd_val ML w) = BVal w) /\
            mrets ft 4 (prog_of (f_body fd)) (set_env c (Script.bind_params (f_params fd) 0 [Expr.SInt 2] (env c))) v c' /\
            v = Expr.SInt 20 /\
            finish_call (exec_s 4) fd [Expr.SInt 2] (emb ft true c) = Ok (Some v, emb ft true (set_env c' (tl (env c'))))
      | _ => False
      end
  | _ => False
  end /\
  match compile_script src_return with Ok (_, log) => log = zs "[PRINT](0) 20" | _ => False end.
Proof.
  split; [vmr|]. split; [|vmr]. unfold lexed_return. cbv beta iota zeta delta [sl_funcs].
  do 2 eexists. do 3 (split; [vmr|]). split; [exact name_eqb_refl_m|]. split; [reflexivity|]. split.
  { cbn [f_body f_params]. rets_cons.
    - one_pass. apply passes_O.
    - change (l_limit ML) with m_N; unfold m_N, MAX_LOOP; lia.
    - vmr.
    - vmr.
    - rets_cons. rets_cons. }
  split; vmr.
Qed.
(* FOR(INT I=0;I<9;I++){ IF(I>=2){RETURN(7)} c }: two full passes, RETURN in the third *)
Definition src_for_return : list ch := zs "FOR(INT I=0;I<9;I++){ IF(I>=2){RETURN(7)} c } d".
Definition lexed_for_return := Eval vm_compute in lex_script src_for_return.
Example C11_example_return_from_for :
  lex_script src_for_return = lexed_for_return /\
  match lexed_for_return with
  | Ok ([t0; SFor init cnd inc body line; t2], ls) =>
      let ft := sl_funcs ls in
      exists c ck v c1 c2, sem ML (funs_of ft) 2 (prog_of init) (cfg_after_lex ls) = Fin (Normal, c) /\
        mfpasses ft 2 (oexpr_of cnd) (prog_of inc) (prog_of body) 2 c ck /\ (2 < m_N)%nat /\
        eval_opt ML (funs_of ft) (sem ML (funs_of ft) 2) (Expr.SInt 0) (oexpr_of cnd) ck = Fin (v, c1) /\ Expr.to_b v = true /\
        sem ML (funs_of ft) 2 (prog_of body) c1 = Fin (Ret, c2) /\ lookup ML t_Result (env c2) = Some (VV (Expr.SInt 7))
  | _ => False
  end.
Proof.
  split; [vmr|]. lexed. do 5 eexists. split; [vmr|]. split; [one_fpass; one_fpass; apply fpasses_O|].
  split; [unfold m_N, MAX_LOOP; lia|]. do 3 (split; [vmr|]). vmr.
Qed.

(* ---- scopes ---- *)
(* F has a parameter named like the global Y, assigns to the global name X, declares a local Z; the caller's X and Y are 1 and 2
   before and after the call *)
Definition src_scope : list ch := zs "INT X=1 INT Y=2 FUNCTION F(Y){ X=5 INT Z=7 Y=Y+1 PRINT(X,Y,Z) } F(10) PRINT(X,Y)".
Definition lexed_scope := Eval vm_compute in lex_script src_scope.
Example C11_example_scope_call_exec :
  lex_script src_scope = lexed_scope /\
  match lexed_scope with
  | Ok ([t0; t1; t2; SCall id args; t4], ls) =>
      let ft := sl_funcs ls in
      exists c st', sem ML (funs_of ft) 3 (prog_of [t0; t1; t2]) (cfg_after_lex ls) = Fin (Normal, c) /\
        ft_ok ft = true /\ wf c /\ sem ML (funs_of ft) 4 (prog_of [SCall id args]) c <> Stuck /\
        exec_s 4 [SCall id args] (Ok (emb ft false c)) = Ok st' /\
        logs_str (s_logs (ss_song st')) = zs "[PRINT](0) 5 11 7" /\
        vars_lookup (zs "X") (ss_scopes st') = Some (VV (Expr.SInt 1)) /\ vars_lookup (zs "Y") (ss_scopes st') = Some (VV (Expr.SInt 2)) /\
        vars_lookup (zs "Z") (ss_scopes st') = None
  | _ => False
  end.
Proof.
  split; [vmr|]. lexed. do 2 eexists. do 3 (split; [vmr|]). split; [vm_compute; discriminate|]. do 4 (split; [vmr|]). vmr.
Qed.
(* the body of F as a block, run in the scope the call pushed (parameter bound): it binds X, Z, Y in that scope only *)
Example C11_example_scope_block_exec :
  match lexed_scope with
  | Ok ([t0; t1; t2; SCall id args; t4], ls) =>
      match sl_funcs ls with
      | [fd] =>
        let ft := [fd] in
        exists c c1 st', sem ML (funs_of ft) 3 (prog_of [t0; t1; t2]) (cfg_after_lex ls) = Fin (Normal, c) /\
          c1 = set_env c (Script.bind_params (f_params fd) 0 [Expr.SInt 10] ([] :: env c)) /\
          ft_ok ft = true /\ wf c1 /\ toks_ok (f_body fd) = true /\ sem ML (funs_of ft) 3 (prog_of (f_body fd)) c1 <> Stuck /\
          exec_s 3 (f_body fd) (Ok (emb ft false c1)) = Ok st' /\
          map (map fst) (firstn 1 (ss_scopes st')) = [[zs "Y"; zs "Z"; zs "X"; zs "Y"]] /\ tl (ss_scopes st') = env c
      | _ => False
      end
  | _ => False
  end.
Proof.
  unfold lexed_scope. cbv beta iota zeta delta [sl_funcs]. do 3 eexists. split; [vmr|]. split; [reflexivity|]. do 3 (split; [vmr|]).
  split; [vm_compute; discriminate|]. split; [vmr|]. split; vmr.
Qed.
(* G(5) inside an expression: G assigns to the global name X; the caller's X is still 1 when the value 11 comes back *)
Definition src_scope_value : list ch := zs "FUNCTION G(A){ X=A*2 RETURN(X+1) } INT X=1 PRINT(G(5),X)".
Definition lexed_scope_value := Eval vm_compute in lex_script src_scope_value.
Example C11_example_scope_value_exec :
  lex_script src_scope_value = lexed_scope_value /\
  match lexed_scope_value with
  | Ok ([t0; t1; SPrint [e; e2] line], ls) =>
      let ft := sl_funcs ls in
      exists c v st', sem ML (funs_of ft) 3 (prog_of [t0; t1]) (cfg_after_lex ls) = Fin (Normal, c) /\
        ft_ok ft = true /\ wf c /\ eval_opt ML (funs_of ft) (sem ML (funs_of ft) 3) (Expr.SInt 0) (oexpr_of e) c <> Stuck /\
        exec_value_o (exec_s 3) e (emb ft false c) = Ok (v, st') /\ v = Expr.SInt 11 /\
        ss_scopes st' = env c /\ vars_lookup (zs "X") (ss_scopes st') = Some (VV (Expr.SInt 1))
  | _ => False
  end.
Proof.
  split; [vmr|]. lexed. do 3 eexists. do 3 (split; [vmr|]). split; [vm_compute; discriminate|]. do 3 (split; [vmr|]). vmr.
Qed.
(* reads: the frame of F(Y) does not bind X, so inside F `X` is the caller's X (here: the global) *)
Example C11_example_scope_reads :
  let fr := [(zs "Y", VV (Expr.SInt 10))] in let e := [[(zs "Y", VV (Expr.SInt 2)); (zs "X", VV (Expr.SInt 1))]] in
  lookup_frame ML (zs "X") fr = None /\ lookup ML (zs "X") (fr :: e) = Some (VV (Expr.SInt 1)) /\ lookup ML (zs "Y") (fr :: e) = Some (VV (Expr.SInt 10)).
Proof. vm_compute. repeat split. Qed.

(* the token lists the examples above are stated over are what the lexer reads from the sources *)
Example C11_example_lexed :
  lex_script src_while3 = lexed_while3 /\
  lex_script src_for3 = lexed_for3 /\
  lex_script src_nested = lexed_nested /\
  lex_script src_for_break = lexed_for_break /\
  lex_script src_continue = lexed_continue /\
  lex_script src_for_continue = lexed_for_continue /\
  lex_script src_continue_text = lexed_continue_text /\
  lex_script src_for_continue_text = lexed_for_continue_text /\
  lex_script src_limit = lexed_limit /\
  lex_script src_limit_for = lexed_limit_for /\
  lex_script src_defaults = lexed_defaults /\
  lex_script src_return = lexed_return /\
  lex_script src_for_return = lexed_for_return /\
  lex_script src_scope = lexed_scope /\
  lex_script src_scope_value = lexed_scope_value.
Proof. repeat split; vm_compute; reflexivity. Qed.

Print Assumptions C11_for_unroll_text.
Print Assumptions C11_loop_unroll_exec.
Print Assumptions C11_loop_unroll_exec_text.
Print Assumptions C11_for_unroll_exec.
Print Assumptions C11_for_unroll_exec_text.
Print Assumptions C11_break_innermost_block.
Print Assumptions C11_break_innermost_for_block.
Print Assumptions C11_continue_innermost.
Print Assumptions C11_continue_innermost_for.
Print Assumptions C11_loop_signals_stay_inside.
Print Assumptions C11_for_signals.
Print Assumptions C11_for_plain_signals.
Print Assumptions C11_break_innermost_nested.
Print Assumptions C11_continue_skips_text.
Print Assumptions C11_continue_skips_text_for.
Print Assumptions C11_break_innermost_exec.
Print Assumptions C11_break_innermost_for_exec.
Print Assumptions C11_continue_skips_exec.
Print Assumptions C11_continue_skips_for_exec.
Print Assumptions C11_for_increment_break_innermost.
Print Assumptions C11_for_increment_continue_innermost.
Print Assumptions C11_for_increment_break_exec.
Print Assumptions C11_for_increment_break_stays.
Print Assumptions C11_for_increment_break_outer_goes_on.
Print Assumptions C11_for_increment_continue_outer_goes_on.
Print Assumptions C11_limit_never_ends.
Print Assumptions C11_limit_never_ends_for.
Print Assumptions C11_limit_constant.
Print Assumptions C11_limit_exec.
Print Assumptions C11_limit_for_exec.
Print Assumptions C11_defaults_fill.
Print Assumptions C11_defaults_given.
Print Assumptions C11_defaults_missing.
Print Assumptions C11_defaults_valueless.
Print Assumptions C11_extra_args_ignored.
Print Assumptions C11_defaults_exec.
Print Assumptions C11_defaults_entry_exec.
Print Assumptions C11_extra_args_exec.
Print Assumptions C11_return_anywhere.
Print Assumptions C11_return_value.
Print Assumptions C11_return_from_for.
Print Assumptions C11_return_exec.
Print Assumptions C11_scope_reads.
Print Assumptions C11_scope_call_exec.
Print Assumptions C11_scope_value_exec.
Print Assumptions C11_scope_block_exec.
