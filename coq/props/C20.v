(* C20 - the MIDI dump lists every event of a compiled file at its true position.
   Statements only; proofs are `exact <lemma>`.
   model/Dump.v    : dump_midi and its helpers (read_delta, track_loop, dump_event, position, printers)
   spec/DumpSpec.v : how a decoded message is shown (show_msg), the position of a tick (position_of), the
                     lines of a track / a file (track_lines, file_lines), the tick of TIME(m:b:t) (time_of)
   proofs/WriterP.v: enc_track (the inverse of the SMF specification decoder, C02) *)
From Sakura.Model Require Import Base Event Writer Dump.
From Sakura.Spec Require Import SmfSpec TrackSpec DumpSpec.
From Sakura.Proofs Require Import VlqP WriterP DumpP.

(* every delta time the writer can produce (one to four bytes, 0x7F and 0x80 included) is read back
   exactly, and the reader stops right after it *)
Theorem C20_vlq_reader : forall (n : Z) (r : list Z), 0 <= n < 2 ^ 28 ->
  read_delta (push_delta n ++ r) = (n, r).
Proof. exact read_delta_push. Qed.

Example C20_vlq_reader_ex :
  read_delta (push_delta 127 ++ [144; 60; 100]) = (127, [144; 60; 100]) /\
  read_delta (push_delta 128 ++ [144]) = (128, [144]) /\
  read_delta (push_delta (2 ^ 28 - 1) ++ []) = (2 ^ 28 - 1, []) /\ push_delta 127 = [127].
Proof. repeat split; vm_compute; reflexivity. Qed.

(* the measure:beat:tick shown for absolute tick t under signature num/den and time base tb *)
Theorem C20_position : forall tb den num t : Z, 0 < 4 * tb / den -> 0 < num -> 0 <= t ->
  let beat := 4 * tb / den in
  let '(m, b, k) := position (beat_base tb den) num t in
  ((m - 1) * num + (b - 1)) * beat + k = t /\ 0 <= k < beat /\ 1 <= b <= num.
Proof. exact position_dump. Qed.

Example C20_position_ex : position (beat_base 96 8) 6 1000 = (4, 3, 40) /\ 0 < 4 * 96 / 8.
Proof. split; vm_compute; reflexivity. Qed.

(* a note placed with TIME(m:b:t) - absolute tick time_of, as exec_get_time computes it - is listed at m:b:t *)
Theorem C20_time_roundtrip : forall beat num m b t : Z,
  0 < beat -> 0 < num -> 1 <= m -> 1 <= b <= num -> 0 <= t < beat ->
  position beat num (time_of beat num m b t) = (m, b, t).
Proof. exact position_time_of. Qed.

Example C20_time_roundtrip_ex : position (beat_base 96 8) 6 (time_of (beat_ticks 96 8) 6 4 3 40) = (4, 3, 40).
Proof. vm_compute. reflexivity. Qed.

(* One line per item, in order, and the loop stops exactly at the end of the chunk.
   A track body `enc_track l ++ EOT` (items l: channel messages, metas, SysEx as delimited by
   DumpSpec.dump_msg_ok; any bytes `after` the chunk; any signature s in force, any End-of-Track flag e left by the
   previous chunk) makes the track loop - with any fuel of at least the chunk length, dump_midi gives it the file
   length + 1 - return the lines of the specification: the k-th line is TIME(position of the k-th item's absolute
   tick under the signature set by the last TimeSig before it) followed by the message's fields, the last line is
   End-of-Track; the cursor ends on the first byte after the chunk and the signature is carried on. *)
Theorem C20_lines : forall (tb : Z) (l : list (Z * msg)) (fuel : nat) (s : Z * Z) (e : bool) (pos t0 : Z) (after : list Z),
  Forall (dump_item_ok tb) l -> sig_ok tb s -> (length (enc_track l ++ EOT) <= fuel)%nat ->
  0 <= t0 -> t0 + total_delta l < 2 ^ 64 ->
  track_loop fuel tb (mkInfo (fst s) (snd s) e) pos (pos + zlen (enc_track l ++ EOT)) t0 (enc_track l ++ EOT ++ after)
  = let '(lines, s') := track_lines (mkPrinters dec dec3 hex2 HEX2 decode_text) tb s t0 (l ++ [EOTmsg]) in
    Ok (lines, mkInfo (fst s') (snd s') true, pos + zlen (enc_track l ++ EOT), after).
Proof. exact track_loop_lines. Qed.

(* The whole file, for everything the writer model produces (Writer.generate_sorted; C02 shows its tracks decode to
   TrackSpec.wire): the dump terminates (no panic, no exhausted fuel) and is the header followed, track by track
   in file order, by one line per message of the track and its End-of-Track. *)
Theorem C20_file : forall (tb : Z) (tracks : list (list event)) (bin : list Z),
  0 < tb < 65536 -> zlen tracks < 65536 ->
  Forall (fun evs => forallb event_ok evs = true) tracks ->
  Forall (fun evs => Forall (dump_item_ok tb) (wire 0 evs) /\ total_delta (wire 0 evs) < 2 ^ 64) tracks ->
  generate_sorted tb tracks = Ok bin -> zlen bin < 2 ^ 32 ->
  dump_midi bin
  = Ok (file_header (mkPrinters dec dec3 hex2 HEX2 decode_text) (zlen tracks) tb
        ++ file_lines (mkPrinters dec dec3 hex2 HEX2 decode_text) tb (4, 4) 0
             (map (fun evs => wire 0 evs ++ [EOTmsg]) tracks)).
Proof. exact dump_generate. Qed.

(* the position the lines show is the position of the specification (measure first) *)
Theorem C20_position_spec : forall tb num den t : Z, 0 < num -> 0 < beat_ticks tb den -> 0 <= t ->
  position (beat_base tb den) num t = position_of tb num den t.
Proof. exact position_eq. Qed.

Example C20_position_spec_ex : position (beat_base 480 8) 6 100000 = position_of 480 6 8 100000 /\ 0 < beat_ticks 480 8.
Proof. split; vm_compute; reflexivity. Qed.

(* the printers used in the lines: `{}` / `{:03}` print the decimal digits of the number (at least three for
   {:03}), `{:02x}` / `{:02X}` the two hexadecimal digits of a byte *)
Theorem C20_printers : forall n : Z, 0 <= n ->
  (digits_value 10 dec_digit (dec n) = n /\ Forall (fun c => 48 <= c <= 57) (dec n)) /\
  (digits_value 10 dec_digit (dec3 n) = n /\ (3 <= length (dec3 n))%nat /\ (1000 <= n -> dec3 n = dec n)) /\
  (n <= 255 -> digits_value 16 hex_digit_value (hex2 n) = n /\ digits_value 16 hex_digit_value (HEX2 n) = n /\
               length (hex2 n) = 2%nat /\ length (HEX2 n) = 2%nat).
Proof.
  intros n H. unfold dec. replace (n <? 0) with false by lia.
  split; [exact (dec_nat_value n H)|]. split; [exact (dec3_spec n H)|]. intros H2. apply hex2_value. lia.
Qed.

Example C20_printers_ex : dec 1234 = [49; 50; 51; 52] /\ dec3 7 = [48; 48; 55] /\ dec3 1234 = [49; 50; 51; 52] /\
  hex2 171 = [97; 98] /\ HEX2 171 = [65; 66] /\ dec (-8192) = [45; 56; 49; 57; 50].
Proof. repeat split; vm_compute; reflexivity. Qed.

(* non-vacuity: two tracks with every covered kind of message, a 6/8 signature, deltas 0x7F and 0x80; the
   hypotheses hold and the dump of the generated file is evaluated *)
Definition ex_tracks : list (list event) :=
  [ [ev_meta 0 255 88 4 [6; 3; 24; 8]; ev_meta 0 255 81 3 [7; 161; 32]; ev_meta 0 255 3 2 [65; 66];
      ev_voice 0 3 40; ev_cc 127 3 7 100; ev_note 255 3 60 90 100; ev_pitch_bend 400 3 8192;
      ev_sysex_raw 400 [240; 126; 127; 9; 1; 247]; ev_pitch_bend_range 400 3 12];
    [ev_note 1000 0 64 128 127] ].
Example C20_file_ex :
  0 < 96 < 65536 /\ zlen ex_tracks < 65536 /\
  Forall (fun evs => forallb event_ok evs = true) (map normalize_and_sort ex_tracks) /\
  Forall (fun evs => Forall (dump_item_ok 96) (wire 0 evs) /\ total_delta (wire 0 evs) < 2 ^ 64)
         (map normalize_and_sort ex_tracks) /\
  match generate_sorted 96 (map normalize_and_sort ex_tracks) with
  | Ok bin => zlen bin < 2 ^ 32 /\
              match dump_midi bin with Ok ls => length ls = 24%nat | _ => False end
  | _ => False
  end.
Proof.
  split; [lia|]. split; [vm_compute; reflexivity|]. split; [repeat constructor|].
  split.
  - set (ts := map normalize_and_sort ex_tracks). vm_compute in ts. subst ts.
    repeat (apply Forall_cons || apply Forall_nil);
      (split; [|vm_compute; reflexivity]);
      match goal with |- Forall _ ?w => let x := fresh "w" in set (x := w); vm_compute in x; subst x end;
      repeat (apply Forall_cons || apply Forall_nil);
      (split; [cbn [fst]; lia|]); cbn [snd dump_msg_ok]; unfold chan_ok, seven, is_byte.
    all: try lia.
    all: repeat split; try lia; try (repeat constructor; lia); try (intros Hd; discriminate Hd).
    + intros _. exists 6, 3, [24; 8]. repeat split; try lia; try (vm_compute; reflexivity).
    + intros _. exists 7, 161, 32. reflexivity.
    + exists [126; 127; 9; 1]. split; [reflexivity | repeat constructor; lia].
  - vm_compute. split; reflexivity.
Qed.

Example C20_lines_ex :
  let l := [(0, MMeta 88 [3; 2; 24; 8]); (127, MNoteOn 0 60 100); (128, MNoteOff 0 60 0)] in
  Forall (dump_item_ok 480) l /\ sig_ok 480 (4, 4) /\
  track_loop 30 480 (mkInfo 4 4 false) 22 (22 + zlen (enc_track l ++ EOT)) 0 (enc_track l ++ EOT ++ [77])
  = let '(lines, s') := track_lines (mkPrinters dec dec3 hex2 HEX2 decode_text) 480 (4, 4) 0 (l ++ [EOTmsg]) in
    Ok (lines, mkInfo (fst s') (snd s') true, 22 + zlen (enc_track l ++ EOT), [77]).
Proof.
  cbv zeta. split; [|split; [|vm_compute; reflexivity]].
  - repeat constructor; cbn [fst snd dump_msg_ok]; unfold chan_ok, seven, is_byte; try lia; try discriminate.
    intros _. exists 3, 2, [24; 8]. repeat split; try lia; try (vm_compute; reflexivity).
  - unfold sig_ok, beat_ticks. cbn [fst snd]. lia.
Qed.

Print Assumptions C20_vlq_reader.
Print Assumptions C20_position.
Print Assumptions C20_time_roundtrip.
Print Assumptions C20_lines.
Print Assumptions C20_file.
Print Assumptions C20_position_spec.
Print Assumptions C20_printers.
