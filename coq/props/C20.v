(* C20 - the MIDI dump lists every event of a compiled file at its true position.
   Statements only; proofs are `exact <lemma>`. *)
From Sakura.Model Require Import Base Event Writer Dump.
From Sakura.Spec Require Import SmfSpec TrackSpec DumpSpec.
From Sakura.Proofs Require Import VlqP WriterP DumpP.

(* every delta time the writer can produce (one to four bytes, 0x7F and 0x80 included) is read back
   exactly, and the reader stops right after it *)
Theorem C20_vlq_reader : forall (n : Z) (r : list Z), 0 <= n < 2 ^ 28 ->
  read_delta (push_delta n ++ r) = (n, r).
Proof. exact read_delta_push. Qed.

Example C20_vlq_reader_ex :
  read_delta (push_delta 127 ++ [144; 60; 100]) = (127, [144; 60; 100]) /\
  read_delta (push_delta 128 ++ [144]) = (128, [144]) /\
  read_delta (push_delta (2 ^ 28 - 1) ++ []) = (2 ^ 28 - 1, []) /\ push_delta 127 = [127].
Proof. repeat split; vm_compute; reflexivity. Qed.

(* the measure:beat:tick shown for absolute tick t under signature num/den and time base tb *)
Theorem C20_position : forall tb den num t : Z, 0 < 4 * tb / den -> 0 < num -> 0 <= t ->
  let beat := 4 * tb / den in
  let '(m, b, k) := position (beat_base tb den) num t in
  ((m - 1) * num + (b - 1)) * beat + k = t /\ 0 <= k < beat /\ 1 <= b <= num.
Proof. exact position_dump. Qed.

Example C20_position_ex : position (beat_base 96 8) 6 1000 = (4, 3, 40) /\ 0 < 4 * 96 / 8.
Proof. split; vm_compute; reflexivity. Qed.

(* a note placed with TIME(m:b:t) - absolute tick time_of, as exec_get_time computes it - is listed at m:b:t *)
Theorem C20_time_roundtrip : forall beat num m b t : Z,
  0 < beat -> 0 < num -> 1 <= m -> 1 <= b <= num -> 0 <= t < beat ->
  position beat num (time_of beat num m b t) = (m, b, t).
Proof. exact position_time_of. Qed.

Example C20_time_roundtrip_ex : position (beat_base 96 8) 6 (time_of (beat_ticks 96 8) 6 4 3 40) = (4, 3, 40).
Proof. vm_compute. reflexivity. Qed.

Print Assumptions C20_vlq_reader.
Print Assumptions C20_position.
Print Assumptions C20_time_roundtrip.
