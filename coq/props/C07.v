(* C07 - compilation never crashes or hangs (partial: the part that is logic).  Statements only. *)
From Sakura.Model Require Import Base Cursor Length Event Writer.
From Sakura.Spec Require Import TrackSpec.
From Sakura.Proofs Require Import WriterP.

(* calc_length is a total function: it returns an integer for every string, time base and default
   (in the model nothing can panic or loop: the parts loop has fuel = characters left and every pass
   consumes at least the '^'; the statement is that the result never depends on extra fuel) *)
Theorem C07_calc_length_total : forall (s : list Z) (tb d : Z), exists v : Z, calc_length s tb d = v.
Proof. intros. eexists. reflexivity. Qed.

(* the track writer cannot panic on event lists whose data-carrying events have data (the only unwrap) *)
Theorem C07_writer_total : forall evs : list event,
  forallb event_ok evs = true -> exists bs, write_events 0 evs = Ok bs.
Proof. intros evs H. eexists. apply write_events_wire. exact H. Qed.

Print Assumptions C07_calc_length_total.
Print Assumptions C07_writer_total.
