(* C07 - compilation never crashes or hangs (partial: the part that is logic).  Statements only. *)
From Coq Require Import String.
From Sakura.Model Require Import Base Cursor Length Event Writer Song Token LexCore RunCore Compile.
From Sakura.Gen Require Import Consts VarRows.
From Sakura.Spec Require Import TrackSpec.
From Sakura.Proofs Require Import WriterP NumeralP TermP NoPanicP.
From Coq Require Import Lia.
Open Scope Z_scope.

(* Every numeral read from ANY text - decimal, "0o" octal, "$" / "0x" hexadecimal, with or without a sign, however many
   digits - lies within +-NUMERAL_MAX (2^31-1, generated from source_cursor.rs) unless the reader returns its default:
   the arithmetic done on what was read (x 4 x timebase, x 10, sums of a few hundred terms) therefore stays far
   inside 64 bits.  This is the model of the five `.min(NUMERAL_MAX)` sites (their number is generated too). *)
Theorem C07_numerals_bounded : forall (def : Z) (s : list Z),
  Z.abs (fst (get_int def s)) <= Z.max (Z.abs def) NUMERAL_MAX.
Proof. exact get_int_bounded. Qed.

Theorem C07_hex_numerals_bounded : forall (def : Z) (flag : bool) (s : list Z),
  Z.abs (fst (get_hex def flag s)) <= Z.max (Z.abs def) NUMERAL_MAX.
Proof. exact get_hex_bounded. Qed.

(* capping every digit step equals capping the exact value once: a numeral means min(value, NUMERAL_MAX) *)
Theorem C07_saturation_is_cap : forall (base : Z) (ds : list Z), 1 <= base -> Forall (fun d => 0 <= d) ds ->
  horner_sat base 0 ds = Z.min (horner base 0 ds) NUMERAL_MAX.
Proof. intros base ds Hb Hd. apply horner_sat_min; [exact Hb|exact Hd|]. pose proof numeral_max_pos. lia. Qed.

Example C07_cap_sites : NUMERAL_CAPPED_SITES = 5 /\ NUMERAL_MAX = 2147483647.
Proof. split; reflexivity. Qed.

(* the track writer cannot panic on event lists whose data-carrying events have data (the only unwrap) *)
Theorem C07_writer_total : forall evs : list event,
  forallb event_ok evs = true -> exists bs, write_events 0 evs = Ok bs.
Proof. intros evs H. eexists. apply write_events_wire. exact H. Qed.

(* ---- the lexer (model/LexCore.v: lex, every reader, every arm of the loop, the blocks lexed recursively) terminates and
        never panics.  `lex ls src ln` runs lex_f with fuel S (length src); OutOfFuel would mean that fuel is not enough.

   The premise `lex_safe ls src` (a computable test) concerns ONE arm, Rhythm{...}: it lexes the EXPANSION of its block by
   the rhythm macros, which is not a part of the source.  Either
     (1) every text in the rhythm table is inert - none of its characters is (after zen2han) '{', 'S', 'D', 'R' or '$' - and
         the source holds no '$' (it defines no rhythm macro; the built-in table is inert, C07_builtin_rhythm_inert), or
     (2) the source holds no 'R' / full-width 'R' (no spelling of Rhythm can be written).
   Every other arm is covered without any condition.  Without the premise the statement is false
   (C07_lex_terminates_refuted): a rhythm macro whose text calls Rhythm on itself is unbounded user recursion. ---- *)
Theorem C07_lex_terminates_partial : forall (ls : lexstate) (src : list Z) (ln : Z),
  lex_safe ls src = true ->
  lex ls src ln <> OutOfFuel /\ (forall site, lex ls src ln <> Panic site).
Proof. exact lex_terminates. Qed.

(* the same for any fuel above the number of characters that can open a recursive lex ('{' 'S' 'D' 'R'), in particular for any
   fuel above the length of the source *)
Theorem C07_lex_f_terminates_partial : forall (fuel : nat) (ls : lexstate) (src : list Z) (ln : Z),
  lex_safe ls src = true -> (nest_measure src < fuel)%nat ->
  lex_f fuel ls src ln <> OutOfFuel /\ (forall site, lex_f fuel ls src ln <> Panic site).
Proof. exact lex_f_terminates. Qed.
Theorem C07_lex_f_terminates_length : forall (fuel : nat) (ls : lexstate) (src : list Z) (ln : Z),
  lex_safe ls src = true -> (length src < fuel)%nat ->
  lex_f fuel ls src ln <> OutOfFuel /\ (forall site, lex_f fuel ls src ln <> Panic site).
Proof. exact lex_f_terminates_length. Qed.

(* from the initial lexer state (model/Compile.v), in either message language: every source without '$' *)
Theorem C07_lex_terminates_initial : forall (ja : bool) (src : list Z) (ln : Z),
  forallb nodollar src = true ->
  lex (mkLex 96 [] init_vars rhythm_rows ja) src ln <> OutOfFuel /\
  (forall site, lex (mkLex 96 [] init_vars rhythm_rows ja) src ln <> Panic site).
Proof. exact lex_terminates_initial. Qed.
Theorem C07_builtin_rhythm_inert : tbl_inert rhythm_rows = true.
Proof. exact builtin_rhythm_inert. Qed.

(* premise (1) is kept by the lexer: it leaves the rhythm table as it was, so the next lex on the same state (a PLAY part,
   a second compile) starts from a table that is still inert *)
Theorem C07_lex_keeps_rhythm_table : forall (ls : lexstate) (src : list Z) (ln : Z) (toks : list tok) (ls' : lexstate),
  tbl_inert (lx_rhythm ls) = true -> forallb nodollar src = true -> lex ls src ln = Ok (toks, ls') ->
  lx_rhythm ls' = lx_rhythm ls.
Proof. exact lex_keeps_rhythm_table. Qed.

(* every reader gives back a SUFFIX of the text it was given and needs no more fuel than its caller passes; three of them *)
Theorem C07_reader_suffix : forall (tb : Z) (s : list Z) (ln : Z),
  (exists p, s = p ++ snd (fst (read_note 99 s ln))) /\
  match read_note_n tb s ln with Ok x => exists p, s = p ++ snd (fst x) | Unsupported _ => True | _ => False end /\
  match read_arg_value (arg_fuel s) tb s ln with Ok x => exists p, s = p ++ snd (fst x) | Unsupported _ => True | _ => False end.
Proof. intros tb s ln. exact (conj (read_note_sfx 99 s ln) (conj (read_note_n_ok tb s ln) (read_arg_value_arg tb s ln))). Qed.

(* the unconditional statement is false: `$a{Rhythm{a}} Rhythm{a}` from the initial state ... *)
Theorem C07_lex_terminates_refuted : exists (ls : lexstate) (src : list Z) (ln : Z), lex ls src ln = OutOfFuel.
Proof. exists ls0, rhythm_recursion_src, 0. exact lex_rhythm_recursion. Qed.
(* ... and it is the recursion, not the amount of fuel: no fuel is enough (the implementation overflows its stack) *)
Theorem C07_lex_rhythm_recursion_diverges : forall fuel : nat,
  lex_f fuel (mkLex 96 [] init_vars rhythm_rows false) (zs "$a{Rhythm{a}} Rhythm{a}") 0 = OutOfFuel.
Proof. exact lex_rhythm_recursion_diverges. Qed.

(* the premise is met by an ordinary program: a macro, a loop, a Sub block, a Rhythm block with built-in macros, a tuplet,
   a reservation, a chord; it lexes to more than 10 tokens *)
Example C07_lex_premise_example :
  let src := zs "#A={c d} [2 c8 Sub{d4 r} #A] Rhythm{bshb} {ceg}4 TR(2) v.onTime(0,127,!1) 'ce'" in
  lex_safe (mkLex 96 [] init_vars rhythm_rows false) src = true /\
  exists toks ls', lex (mkLex 96 [] init_vars rhythm_rows false) src 0 = Ok (toks, ls') /\ (length toks > 10)%nat.
Proof. exact (conj example_safe example_lexes). Qed.

(* ---- the whole pipeline model (model/Compile.v: lex -> exec_f -> flush ties / play_from -> generate) never answers Panic,
        for EVERY source, with no premise: the lexer and the runner have no panic site (every arm answers Ok / Unsupported /
        OutOfFuel or passes on the outcome of a reader / a nested lex / a nested exec), and the writer's only site (a
        data-carrying event without data) is never reached from a source ---- *)
Theorem C07_compile_never_panics : forall (src : list Z) (site : Z), compile src <> Panic site.
Proof. exact compile_never_panics. Qed.
Theorem C07_lex_never_panics : forall (ls : lexstate) (src : list Z) (ln : Z) (site : Z), lex ls src ln <> Panic site.
Proof. intros ls src ln. exact (proj1 (np_not_panic _) (lex_np ls src ln)). Qed.
Theorem C07_exec_never_panics : forall (depth steps : nat) (toks : list tok) (s : song) (site : Z),
  exec_f depth steps toks (Ok s) <> Panic site.
Proof. intros depth steps toks s. exact (proj1 (np_not_panic _) (exec_f_np steps depth toks (Ok s) I)). Qed.
(* what compile can answer: bytes and a log; Unsupported / OutOfFuel exactly when the lexer or the runner answers so - the
   writer never fails on a song reached from a source *)
Theorem C07_compile_outcomes : forall src : list Z,
  match compile src with
  | Ok _ => exists s, run_source src = Ok s
  | Unsupported w => run_source src = Unsupported w
  | OutOfFuel => run_source src = OutOfFuel
  | Panic _ => False
  end.
Proof. exact compile_outcomes. Qed.

(* ---- fuel of the whole pipeline, partial: `compile_fuel_ok src` (computable) says that the source holds no '$' (the lexer
        premise from the initial state) and that the token program the lexer makes of it holds no loop token, no macro call
        (TValue) and no PLAY at any level, nests Sub / tuplet blocks less deep than the depth fuel S (length src), and is at
        every level shorter than the step fuel STEPS = 400000.  Then compile does not answer OutOfFuel.
        Not covered: loops (the bound would be the cost of C05_fuel_bound for the parsed loop structure), macro calls and
        PLAY (their text is lexed and executed at run time; `#A={c #A} #A` is unbounded user recursion). ---- *)
Theorem C07_compile_fuel_partial : forall src : list Z, compile_fuel_ok src = true -> compile src <> OutOfFuel.
Proof. exact compile_fuel_partial. Qed.
(* the runner's half on its own: any token program within the bounds, from any song whose break flag is clear *)
Theorem C07_exec_fuel_partial : forall (steps depth : nat) (toks : list tok) (s : song),
  fuel_ok depth steps toks = true -> s_break_flag s = 0 -> exec_f depth steps toks (Ok s) <> OutOfFuel.
Proof. exact exec_f_no_outoffuel. Qed.
Example C07_compile_fuel_example :
  let src := zs "l8 o5 c d {ceg}4 Sub{d4 r} 'ce' TR(2) y7,100 v.onTime(0,127,!1) Rhythm{bshb}" in
  compile_fuel_ok src = true /\ exists bytes log, compile src = Ok (bytes, log).
Proof. exact (conj compile_fuel_example compile_fuel_example_value). Qed.

(* ---- the same WITH LOOPS: `compile_fuel_ok_loops src` (computable) asks, instead of the absence of loop tokens, that the loop
        brackets of the token program are balanced at every level (LoopExecP.parse_toks answers a structured program) and that
        the state-free step bound of that program (LoopParseP.scost: a loop costs 1 + max 1 count x (body + part after ':' + 2))
        is below STEPS; still no macro call and no PLAY, nesting of Sub / tuplet blocks below S (length src) ---- *)
Theorem C07_compile_fuel_loops : forall src : list Z, compile_fuel_ok_loops src = true -> compile src <> OutOfFuel.
Proof. exact compile_fuel_loops. Qed.
Theorem C07_exec_fuel_loops : forall (steps depth : nat) (toks : list tok) (s : song),
  fuel_ok_loops depth steps toks = true -> s_break_flag s = 0 -> exec_f depth steps toks (Ok s) <> OutOfFuel.
Proof. exact exec_f_loops_no_outoffuel. Qed.
Example C07_compile_fuel_loops_example :
  let src := zs "l8 [3 c d [2 e : f] : g] {c [2 d] e}4 Sub{[4 r]} 'ce'" in
  compile_fuel_ok_loops src = true /\ exists bytes log, compile src = Ok (bytes, log).
Proof. exact compile_fuel_loops_example. Qed.

Print Assumptions C07_numerals_bounded.
Print Assumptions C07_hex_numerals_bounded.
Print Assumptions C07_saturation_is_cap.
Print Assumptions C07_writer_total.
Print Assumptions C07_lex_terminates_partial.
Print Assumptions C07_lex_f_terminates_partial.
Print Assumptions C07_lex_f_terminates_length.
Print Assumptions C07_lex_terminates_initial.
Print Assumptions C07_builtin_rhythm_inert.
Print Assumptions C07_lex_keeps_rhythm_table.
Print Assumptions C07_reader_suffix.
Print Assumptions C07_lex_terminates_refuted.
Print Assumptions C07_lex_rhythm_recursion_diverges.
Print Assumptions C07_compile_never_panics.
Print Assumptions C07_lex_never_panics.
Print Assumptions C07_exec_never_panics.
Print Assumptions C07_compile_outcomes.
Print Assumptions C07_compile_fuel_partial.
Print Assumptions C07_exec_fuel_partial.
Print Assumptions C07_compile_fuel_loops.
Print Assumptions C07_exec_fuel_loops.
