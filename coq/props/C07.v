(* C07 - compilation never crashes or hangs (partial: the part that is logic).  Statements only. *)
From Sakura.Model Require Import Base Cursor Length Event Writer.
From Sakura.Gen Require Import Consts.
From Sakura.Spec Require Import TrackSpec.
From Sakura.Proofs Require Import WriterP NumeralP.
From Coq Require Import Lia.

(* Every numeral read from ANY text - decimal, "0o" octal, "$" / "0x" hexadecimal, with or without a sign, however many
   digits - lies within +-NUMERAL_MAX (2^31-1, generated from source_cursor.rs) unless the reader returns its default:
   the arithmetic done on what was read (x 4 x timebase, x 10, sums of a few hundred terms) therefore stays far
   inside 64 bits.  This is the model of the five `.min(NUMERAL_MAX)` sites (their number is generated too). *)
Theorem C07_numerals_bounded : forall (def : Z) (s : list Z),
  Z.abs (fst (get_int def s)) <= Z.max (Z.abs def) NUMERAL_MAX.
Proof. exact get_int_bounded. Qed.

Theorem C07_hex_numerals_bounded : forall (def : Z) (flag : bool) (s : list Z),
  Z.abs (fst (get_hex def flag s)) <= Z.max (Z.abs def) NUMERAL_MAX.
Proof. exact get_hex_bounded. Qed.

(* capping every digit step equals capping the exact value once: a numeral means min(value, NUMERAL_MAX) *)
Theorem C07_saturation_is_cap : forall (base : Z) (ds : list Z), 1 <= base -> Forall (fun d => 0 <= d) ds ->
  horner_sat base 0 ds = Z.min (horner base 0 ds) NUMERAL_MAX.
Proof. intros base ds Hb Hd. apply horner_sat_min; [exact Hb|exact Hd|]. pose proof numeral_max_pos. lia. Qed.

Example C07_cap_sites : NUMERAL_CAPPED_SITES = 5 /\ NUMERAL_MAX = 2147483647.
Proof. split; reflexivity. Qed.

(* the track writer cannot panic on event lists whose data-carrying events have data (the only unwrap) *)
Theorem C07_writer_total : forall evs : list event,
  forallb event_ok evs = true -> exists bs, write_events 0 evs = Ok bs.
Proof. intros evs H. eexists. apply write_events_wire. exact H. Qed.

Print Assumptions C07_numerals_bounded.
Print Assumptions C07_hex_numerals_bounded.
Print Assumptions C07_saturation_is_cap.
Print Assumptions C07_writer_total.
