(* C05 - loop brackets mean repetition, with ':' leaving the loop on the last pass.
   This file contains only the property statements; every proof is `exact <lemma>`.

   Generic in the non-loop tokens: D (payload), St (interpreter state), step (effect of a token),
   halted (break_flag != 0), count_of (value of the count of a `[` token in the entry state).
     machine   model/LoopMachine.v : run / mstep, the pos + loop_stack loop of runner.rs exec()
     meaning   spec/LoopSpec.v     : item/prog, flatten, sem (by repetition), papp, prepeat, loops_pos, cost *)
From Coq Require Import List ZArith Bool Lia.
From Sakura.Model Require Import LoopMachine.
From Sakura.Spec Require Import LoopSpec.
From Sakura.Proofs Require Import LoopP.
Import ListNotations.

Section C05.
  Variable D : Type.
  Variable St : Type.
  Variable step : D -> St -> St.
  Variable halted : St -> bool.
  Variable count_of : Z -> St -> nat.

  Notation run' := (run D St step halted count_of).
  Notation sem' := (sem D St step halted count_of).
  Notation sem_item' := (sem_item D St step halted count_of).
  Notation cost' := (cost D St step halted count_of).

  (* MAIN: for every structured program p - any nesting depth, any bodies, ':' at any level - all of whose
     loops repeat at least once, the flat machine run on the flattened text computes exactly the structured
     meaning of p.  (The machine also stops early when a body raises the halt flag; sem is the identity on
     halted states, see C05_halted_fixed.) *)
  Theorem C05_flat_vs_structured : forall p : prog D,
    loops_pos D St count_of p ->
    forall s, exists fuel, run' fuel (flatten p) s = Some (sem' p s).
  Proof. exact (flat_vs_structured D St step halted count_of). Qed.

  (* an explicit sufficient fuel: any fuel above cost p s (a recursively defined upper bound on the steps) *)
  Theorem C05_fuel_bound : forall p : prog D,
    loops_pos D St count_of p ->
    forall s fuel, cost' p s < fuel -> run' fuel (flatten p) s = Some (sem' p s).
  Proof. exact (flat_vs_structured_fuel D St step halted count_of). Qed.

  (* more fuel gives the same answer (for any token array, structured or not) *)
  Theorem C05_fuel_mono : forall (toks : list (ltok D)) (f : nat) (s r : St),
    run' f toks s = Some r -> forall f', f <= f' -> run' f' toks s = Some r.
  Proof. exact (run_mono D St step halted count_of). Qed.

  (* the hypothesis, stated on the count function instead of on the program *)
  Theorem C05_all_counts_pos :
    (forall n s, 1 <= count_of n s) -> forall p : prog D, loops_pos D St count_of p.
  Proof. exact (loops_pos_all D St count_of). Qed.

  (* SEGMENT form (what the block properties reuse): a flattened program embedded anywhere in a token
     array, under any stack of enclosing loops, is executed as its structured meaning and the machine
     comes out just behind it with the stack untouched - or stands halted. *)
  Theorem C05_segment : forall (p : prog D) (pre post : list (ltok D)) (sigma : list loop_item) (s : St),
    loops_pos D St count_of p ->
    exists m c',
      starn D St step halted count_of (pre ++ flatten p ++ post) m (mkCfg St (length pre) sigma s) c' /\
      m <= cost' p s /\
      st St c' = sem' p s /\
      ((pos St c' = length pre + length (flatten p) /\ stack St c' = sigma) \/
       halted (sem' p s) = true).
  Proof. exact (segment_pos D St step halted count_of). Qed.

  (* without any hypothesis: the machine implements the structured semantics for the count function
     max 1 . count_of, i.e. a loop whose count evaluates to 0 is executed exactly once *)
  Theorem C05_count_zero_runs_once : forall (p : prog D) (s : St) (fuel : nat),
    cost D St step halted (count1 count_of) p s < fuel ->
    run' fuel (flatten p) s = Some (sem D St step halted (count1 count_of) p s).
  Proof. exact (run_flat_total D St step halted count_of). Qed.

  (* nothing happens in a halted state *)
  Theorem C05_halted_fixed : forall (p : prog D) (s : St), halted s = true -> sem' p s = s.
  Proof. exact (proj2 (sem_halted D St step halted count_of)). Qed.

  (* ---- corollaries about the meaning ---- *)

  (* writing programs one after the other composes their meanings, and flattens to the concatenation *)
  Theorem C05_exec_app : forall (p q : prog D) (s : St), sem' (papp p q) s = sem' q (sem' p s).
  Proof. exact (sem_app D St step halted count_of). Qed.

  Theorem C05_flatten_app : forall p q : prog D, flatten (papp p q) = flatten p ++ flatten q.
  Proof. exact (flatten_app D). Qed.

  (* [n body] = body iterated count times, each pass in the state left by the previous one ... *)
  Theorem C05_repeat : forall (n : Z) (body : prog D) (s : St),
    sem_item' (Loop n body None) s = Nat.iter (count_of n s) (sem' body) s.
  Proof. exact (loop_repeat_iter D St step halted count_of). Qed.

  (* ... which is the meaning of the program text `body body ... body` (k copies) *)
  Theorem C05_repeat_text : forall (n : Z) (body : prog D) (s : St) (k : nat),
    count_of n s = k ->
    sem' (PCons (Loop n body None) PNil) s = sem' (prepeat k body) s.
  Proof. exact (loop_repeat D St step halted count_of). Qed.

  (* [n a : b] = (a b) count-1 times, then a *)
  Theorem C05_break : forall (n : Z) (a b : prog D) (s : St) (k : nat),
    count_of n s = S k ->
    sem_item' (Loop n a (Some b)) s = sem' a (Nat.iter k (fun x => sem' b (sem' a x)) s).
  Proof. exact (loop_break_iter D St step halted count_of). Qed.

  Theorem C05_break_text : forall (n : Z) (a b : prog D) (s : St) (k : nat),
    count_of n s = S k ->
    sem' (PCons (Loop n a (Some b)) PNil) s = sem' (papp (prepeat k (papp a b)) a) s.
  Proof. exact (loop_break D St step halted count_of). Qed.
End C05.

(* non-vacuity: tokens are numbers appended to a log, the count is the literal, token 99 raises the halt flag.
     [2 1 [3 2 : [2 3] 4] : 5] 6     nested three deep, ':' at two levels *)
Definition ex_step (d : nat) (s : list nat) : list nat := s ++ [d].
Definition ex_halted (s : list nat) : bool := existsb (Nat.eqb 99) s.
Definition ex_count (n : Z) (_ : list nat) : nat := Z.to_nat n.
Definition ex_leaf (d : nat) : prog nat := PCons (Leaf d) PNil.
Definition ex_inner : item nat :=
  Loop 3 (ex_leaf 2) (Some (PCons (Loop 2 (ex_leaf 3) None) (ex_leaf 4))).
Definition ex_prog : prog nat :=
  PCons (Loop 2 (PCons (Leaf 1) (PCons ex_inner PNil)) (Some (ex_leaf 5))) (ex_leaf 6).
(* the same with a halt raised in the second pass of the inner loop *)
Definition ex_prog_halt : prog nat :=
  PCons (Loop 2 (PCons (Leaf 1) (PCons ex_inner PNil)) (Some (ex_leaf 99))) (ex_leaf 6).

Example C05_example :
  loops_pos nat (list nat) ex_count ex_prog /\
  run nat (list nat) ex_step ex_halted ex_count 100 (flatten ex_prog) []
  = Some [1; 2;3;3;4; 2;3;3;4; 2; 5; 1; 2;3;3;4; 2;3;3;4; 2; 6] /\
  sem nat (list nat) ex_step ex_halted ex_count ex_prog []
  = [1; 2;3;3;4; 2;3;3;4; 2; 5; 1; 2;3;3;4; 2;3;3;4; 2; 6] /\
  cost nat (list nat) ex_step ex_halted ex_count ex_prog [] < 100 /\
  run nat (list nat) ex_step ex_halted ex_count 100 (flatten ex_prog_halt) []
  = Some [1; 2;3;3;4; 2;3;3;4; 2; 99] /\
  sem nat (list nat) ex_step ex_halted ex_count ex_prog_halt []
  = [1; 2;3;3;4; 2;3;3;4; 2; 99].
Proof.
  split; [|vm_compute; repeat split; try reflexivity; lia].
  unfold loops_pos, ex_count. cbn. repeat split; intros _; lia.
Qed.

(* ================================================================================================== *)
(* From a flat token list to the structured program (proofs/LoopParseP.v, proofs/LoopExecP.v).
     parse_loops   a total parser of the brackets LBegin / LBreak / LEnd of a token list (recursive descent)
     balanced      := parse_loops toks <> None, a computable well-formedness predicate
     parse_toks    the same on the tokens of the model (RunCore.to_ltok); Sub / tuplet tokens carry their own token
                   lists and are LEAVES of the enclosing level (each is run by its own exec() call, to which the same
                   theorems apply); macro calls and PLAY lex their text at run time and are leaves too *)
From Coq Require Import String.
From Sakura.Model Require Import Base Cursor Event Song Token LexCore RunCore Compile.
From Sakura.Gen Require Import VarRows.
From Sakura.Proofs Require Import LoopParseP LoopExecP FuelMonoP.

(* soundness and completeness of the parser: a token list parses to p exactly when it is the flat text of p *)
Theorem C05_parse_sound : forall (D : Type) (toks : list (ltok D)) (p : prog D), parse_loops toks = Some p -> flatten p = toks.
Proof. exact parse_loops_sound. Qed.
Theorem C05_parse_complete : forall (D : Type) (p : prog D), parse_loops (flatten p) = Some p.
Proof. exact parse_loops_complete. Qed.
Theorem C05_balanced_iff : forall (D : Type) (toks : list (ltok D)), balanced toks = true <-> exists p : prog D, flatten p = toks.
Proof. exact balanced_iff. Qed.

(* the machine on ANY token list with balanced brackets is the structured meaning of the parsed program, given fuel above
   its cost; a count that evaluates to 0 runs once (count1) ... *)
Theorem C05_run_parsed : forall (D St : Type) (step : D -> St -> St) (halted : St -> bool) (cnt : Z -> St -> nat)
  (toks : list (ltok D)) (p : prog D) (s : St) (fuel : nat),
  parse_loops toks = Some p -> (cost D St step halted (count1 cnt) p s < fuel)%nat ->
  run D St step halted cnt fuel toks s = Some (sem D St step halted (count1 cnt) p s).
Proof. exact run_parsed. Qed.
(* ... and with all counts positive it is the meaning with the counts as written *)
Theorem C05_run_parsed_pos : forall (D St : Type) (step : D -> St -> St) (halted : St -> bool) (cnt : Z -> St -> nat)
  (toks : list (ltok D)) (p : prog D) (s : St) (fuel : nat),
  parse_loops toks = Some p -> loops_pos D St cnt p -> (cost D St step halted cnt p s < fuel)%nat ->
  run D St step halted cnt fuel toks s = Some (sem D St step halted cnt p s).
Proof. exact run_parsed_pos. Qed.

(* for the interpreter of the model, on what the lexer made of a source text *)
Theorem C05_exec_lexed : forall (ls : lexstate) (src : list Z) (ln : Z) (toks : list tok) (ls' : lexstate) (p : prog tok)
  (d steps : nat) (s : song),
  lex ls src ln = Ok (toks, ls') -> parse_toks toks = Some p -> counts_pos p ->
  (cost tok (res song) (step_tok (exec_f d steps)) RunCore.halted RunCore.count_of p (Ok s) < steps)%nat ->
  exec_f (S d) steps toks (Ok s) = sem tok (res song) (step_tok (exec_f d steps)) RunCore.halted RunCore.count_of p (Ok s).
Proof. exact exec_lexed. Qed.

(* the two shapes of the property, on token lists: the tokens of `[n body]` run like the tokens of body written n times ... *)
Theorem C05_repeat_tokens : forall (d steps : nat) (n : Z) (body : list tok) (pb : prog tok) (r : res song),
  parse_toks body = Some pb -> (1 <= n)%Z ->
  (cost_item tok (res song) (step_tok (exec_f d steps)) RunCore.halted (count1 RunCore.count_of) (Loop n pb None) r < steps)%nat ->
  exec_f (S d) steps (TLoopBegin n :: body ++ [TLoopEnd]) r = exec_f (S d) steps (concat (repeat body (Z.to_nat n))) r.
Proof. exact exec_repeat_tokens. Qed.
(* ... and the tokens of `[n a : b]` like (a b) written n-1 times, then a *)
Theorem C05_break_tokens : forall (d steps : nat) (n : Z) (ta tb : list tok) (pa pb : prog tok) (r : res song),
  parse_toks ta = Some pa -> parse_toks tb = Some pb -> (1 <= n)%Z ->
  (cost_item tok (res song) (step_tok (exec_f d steps)) RunCore.halted (count1 RunCore.count_of) (Loop n pa (Some pb)) r < steps)%nat ->
  exec_f (S d) steps (TLoopBegin n :: ta ++ [TLoopBreak] ++ tb ++ [TLoopEnd]) r
  = exec_f (S d) steps (concat (repeat (ta ++ tb) (Z.to_nat n - 1)) ++ ta) r.
Proof. exact exec_break_tokens. Qed.

(* unbalanced lists, the simplest cases: a `]` or a `:` outside any loop is passed over (`c ] d` = `c d`, `c : d` = `c d`),
   a `[n` that is never closed runs what follows once, whatever n (`[5 c d` = `c d`) *)
Theorem C05_lone_end : forall (d steps : nat) (ta tb : list tok) (pa pb : prog tok) (r : res song),
  parse_toks ta = Some pa -> parse_toks tb = Some pb ->
  (cost tok (res song) (step_tok (exec_f d steps)) RunCore.halted (count1 RunCore.count_of) pa r + 1 +
   cost tok (res song) (step_tok (exec_f d steps)) RunCore.halted (count1 RunCore.count_of) pb
        (sem tok (res song) (step_tok (exec_f d steps)) RunCore.halted (count1 RunCore.count_of) pa r) < steps)%nat ->
  exec_f (S d) steps (ta ++ TLoopEnd :: tb) r = exec_f (S d) steps (ta ++ tb) r.
Proof. exact exec_lone_end. Qed.
Theorem C05_lone_break : forall (d steps : nat) (ta tb : list tok) (pa pb : prog tok) (r : res song),
  parse_toks ta = Some pa -> parse_toks tb = Some pb ->
  (cost tok (res song) (step_tok (exec_f d steps)) RunCore.halted (count1 RunCore.count_of) pa r + 1 +
   cost tok (res song) (step_tok (exec_f d steps)) RunCore.halted (count1 RunCore.count_of) pb
        (sem tok (res song) (step_tok (exec_f d steps)) RunCore.halted (count1 RunCore.count_of) pa r) < steps)%nat ->
  exec_f (S d) steps (ta ++ TLoopBreak :: tb) r = exec_f (S d) steps (ta ++ tb) r.
Proof. exact exec_lone_break. Qed.
Theorem C05_unclosed_begin : forall (d steps : nat) (n : Z) (ta : list tok) (pa : prog tok) (r : res song),
  parse_toks ta = Some pa ->
  (1 + cost tok (res song) (step_tok (exec_f d steps)) RunCore.halted (count1 RunCore.count_of) pa r < steps)%nat ->
  exec_f (S d) steps (TLoopBegin n :: ta) r = exec_f (S d) steps ta r.
Proof. exact exec_unclosed_begin. Qed.

(* a concrete lexed source, nested loops with ':' at two levels:  [2 c [3 d : e] : f] g
   its tokens parse to the structured program, all counts are positive, exec() on the tokens IS its meaning, within the
   cost, and the keys sounded are c (d e d e d) f c (d e d e d) g *)
Example C05_lexed_example :
  (lex (mkLex 96 [] init_vars rhythm_rows false) (zs "[2 c [3 d : e] : f] g") 0 = Ok (ex_toks, mkLex 96 [] init_vars rhythm_rows false)) /\
  (parse_toks ex_toks = Some ex_p) /\ counts_pos ex_p /\
  (exec_f 2 100 ex_toks (Ok song_new)
   = sem tok (res song) (step_tok (exec_f 1 100)) RunCore.halted RunCore.count_of ex_p (Ok song_new)) /\
  (cost tok (res song) (step_tok (exec_f 1 100)) RunCore.halted RunCore.count_of ex_p (Ok song_new) < 100)%nat /\
  match exec_f 2 100 ex_toks (Ok song_new) with
  | Ok s => map e_v1 (tr_events (cur_track s)) = [60; 62; 64; 62; 64; 62; 65; 60; 62; 64; 62; 64; 62; 67]%Z
  | _ => False
  end.
Proof. split; [vm_compute; reflexivity|]. exact (conj (proj1 ex_parse) (conj (proj2 ex_parse) ex_run)). Qed.

(* the fuel statement for the interpreter of the model itself, in BOTH fuels: `depth` bounds the nesting of the exec() calls
   (Sub / tuplet blocks, macro calls, PLAY parts), `steps` the iterations of every while loop.  An answer other than
   OutOfFuel - a song, a panic, Unsupported - is the answer for every larger depth and every larger step fuel
   (C05_fuel_mono is the same for the step fuel of the generic machine). *)
Theorem C05_exec_fuel_mono : forall (d steps : nat) (toks : list tok) (r : res song),
  exec_f d steps toks r <> OutOfFuel -> forall d' steps' : nat, (d <= d')%nat -> (steps <= steps')%nat ->
  exec_f d' steps' toks r = exec_f d steps toks r.
Proof. exact exec_f_mono. Qed.

Print Assumptions C05_flat_vs_structured.
Print Assumptions C05_fuel_bound.
Print Assumptions C05_fuel_mono.
Print Assumptions C05_all_counts_pos.
Print Assumptions C05_segment.
Print Assumptions C05_count_zero_runs_once.
Print Assumptions C05_halted_fixed.
Print Assumptions C05_exec_app.
Print Assumptions C05_flatten_app.
Print Assumptions C05_repeat.
Print Assumptions C05_repeat_text.
Print Assumptions C05_break.
Print Assumptions C05_break_text.
Print Assumptions C05_parse_sound.
Print Assumptions C05_parse_complete.
Print Assumptions C05_balanced_iff.
Print Assumptions C05_run_parsed.
Print Assumptions C05_run_parsed_pos.
Print Assumptions C05_exec_lexed.
Print Assumptions C05_repeat_tokens.
Print Assumptions C05_break_tokens.
Print Assumptions C05_lone_end.
Print Assumptions C05_lone_break.
Print Assumptions C05_unclosed_begin.
Print Assumptions C05_exec_fuel_mono.
