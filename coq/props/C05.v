(* C05 - loop brackets mean repetition, with ':' leaving the loop on the last pass.
   This file contains only the property statements; every proof is `exact <lemma>`.

   Generic in the non-loop tokens: D (payload), St (interpreter state), step (effect of a token),
   halted (break_flag != 0), count_of (value of the count of a `[` token in the entry state).
     machine   model/LoopMachine.v : run / mstep, the pos + loop_stack loop of runner.rs exec()
     meaning   spec/LoopSpec.v     : item/prog, flatten, sem (by repetition), papp, prepeat, loops_pos, cost *)
From Coq Require Import List ZArith Bool Lia.
From Sakura.Model Require Import LoopMachine.
From Sakura.Spec Require Import LoopSpec.
From Sakura.Proofs Require Import LoopP.
Import ListNotations.

Section C05.
  Variable D : Type.
  Variable St : Type.
  Variable step : D -> St -> St.
  Variable halted : St -> bool.
  Variable count_of : Z -> St -> nat.

  Notation run' := (run D St step halted count_of).
  Notation sem' := (sem D St step halted count_of).
  Notation sem_item' := (sem_item D St step halted count_of).
  Notation cost' := (cost D St step halted count_of).

  (* MAIN: for every structured program p - any nesting depth, any bodies, ':' at any level - all of whose
     loops repeat at least once, the flat machine run on the flattened text computes exactly the structured
     meaning of p.  (The machine also stops early when a body raises the halt flag; sem is the identity on
     halted states, see C05_halted_fixed.) *)
  Theorem C05_flat_vs_structured : forall p : prog D,
    loops_pos D St count_of p ->
    forall s, exists fuel, run' fuel (flatten p) s = Some (sem' p s).
  Proof. exact (flat_vs_structured D St step halted count_of). Qed.

  (* an explicit sufficient fuel: any fuel above cost p s (a recursively defined upper bound on the steps) *)
  Theorem C05_fuel_bound : forall p : prog D,
    loops_pos D St count_of p ->
    forall s fuel, cost' p s < fuel -> run' fuel (flatten p) s = Some (sem' p s).
  Proof. exact (flat_vs_structured_fuel D St step halted count_of). Qed.

  (* more fuel gives the same answer (for any token array, structured or not) *)
  Theorem C05_fuel_mono : forall (toks : list (ltok D)) (f : nat) (s r : St),
    run' f toks s = Some r -> forall f', f <= f' -> run' f' toks s = Some r.
  Proof. exact (run_mono D St step halted count_of). Qed.

  (* the hypothesis, stated on the count function instead of on the program *)
  Theorem C05_all_counts_pos :
    (forall n s, 1 <= count_of n s) -> forall p : prog D, loops_pos D St count_of p.
  Proof. exact (loops_pos_all D St count_of). Qed.

  (* SEGMENT form (what the block properties reuse): a flattened program embedded anywhere in a token
     array, under any stack of enclosing loops, is executed as its structured meaning and the machine
     comes out just behind it with the stack untouched - or stands halted. *)
  Theorem C05_segment : forall (p : prog D) (pre post : list (ltok D)) (sigma : list loop_item) (s : St),
    loops_pos D St count_of p ->
    exists m c',
      starn D St step halted count_of (pre ++ flatten p ++ post) m (mkCfg St (length pre) sigma s) c' /\
      m <= cost' p s /\
      st St c' = sem' p s /\
      ((pos St c' = length pre + length (flatten p) /\ stack St c' = sigma) \/
       halted (sem' p s) = true).
  Proof. exact (segment_pos D St step halted count_of). Qed.

  (* without any hypothesis: the machine implements the structured semantics for the count function
     max 1 . count_of, i.e. a loop whose count evaluates to 0 is executed exactly once *)
  Theorem C05_count_zero_runs_once : forall (p : prog D) (s : St) (fuel : nat),
    cost D St step halted (count1 count_of) p s < fuel ->
    run' fuel (flatten p) s = Some (sem D St step halted (count1 count_of) p s).
  Proof. exact (run_flat_total D St step halted count_of). Qed.

  (* nothing happens in a halted state *)
  Theorem C05_halted_fixed : forall (p : prog D) (s : St), halted s = true -> sem' p s = s.
  Proof. exact (proj2 (sem_halted D St step halted count_of)). Qed.

  (* ---- corollaries about the meaning ---- *)

  (* writing programs one after the other composes their meanings, and flattens to the concatenation *)
  Theorem C05_exec_app : forall (p q : prog D) (s : St), sem' (papp p q) s = sem' q (sem' p s).
  Proof. exact (sem_app D St step halted count_of). Qed.

  Theorem C05_flatten_app : forall p q : prog D, flatten (papp p q) = flatten p ++ flatten q.
  Proof. exact (flatten_app D). Qed.

  (* [n body] = body iterated count times, each pass in the state left by the previous one ... *)
  Theorem C05_repeat : forall (n : Z) (body : prog D) (s : St),
    sem_item' (Loop n body None) s = Nat.iter (count_of n s) (sem' body) s.
  Proof. exact (loop_repeat_iter D St step halted count_of). Qed.

  (* ... which is the meaning of the program text `body body ... body` (k copies) *)
  Theorem C05_repeat_text : forall (n : Z) (body : prog D) (s : St) (k : nat),
    count_of n s = k ->
    sem' (PCons (Loop n body None) PNil) s = sem' (prepeat k body) s.
  Proof. exact (loop_repeat D St step halted count_of). Qed.

  (* [n a : b] = (a b) count-1 times, then a *)
  Theorem C05_break : forall (n : Z) (a b : prog D) (s : St) (k : nat),
    count_of n s = S k ->
    sem_item' (Loop n a (Some b)) s = sem' a (Nat.iter k (fun x => sem' b (sem' a x)) s).
  Proof. exact (loop_break_iter D St step halted count_of). Qed.

  Theorem C05_break_text : forall (n : Z) (a b : prog D) (s : St) (k : nat),
    count_of n s = S k ->
    sem' (PCons (Loop n a (Some b)) PNil) s = sem' (papp (prepeat k (papp a b)) a) s.
  Proof. exact (loop_break D St step halted count_of). Qed.
End C05.

(* non-vacuity: tokens are numbers appended to a log, the count is the literal, token 99 raises the halt flag.
     [2 1 [3 2 : [2 3] 4] : 5] 6     nested three deep, ':' at two levels *)
Definition ex_step (d : nat) (s : list nat) : list nat := s ++ [d].
Definition ex_halted (s : list nat) : bool := existsb (Nat.eqb 99) s.
Definition ex_count (n : Z) (_ : list nat) : nat := Z.to_nat n.
Definition ex_leaf (d : nat) : prog nat := PCons (Leaf d) PNil.
Definition ex_inner : item nat :=
  Loop 3 (ex_leaf 2) (Some (PCons (Loop 2 (ex_leaf 3) None) (ex_leaf 4))).
Definition ex_prog : prog nat :=
  PCons (Loop 2 (PCons (Leaf 1) (PCons ex_inner PNil)) (Some (ex_leaf 5))) (ex_leaf 6).
(* the same with a halt raised in the second pass of the inner loop *)
Definition ex_prog_halt : prog nat :=
  PCons (Loop 2 (PCons (Leaf 1) (PCons ex_inner PNil)) (Some (ex_leaf 99))) (ex_leaf 6).

Example C05_example :
  loops_pos nat (list nat) ex_count ex_prog /\
  run nat (list nat) ex_step ex_halted ex_count 100 (flatten ex_prog) []
  = Some [1; 2;3;3;4; 2;3;3;4; 2; 5; 1; 2;3;3;4; 2;3;3;4; 2; 6] /\
  sem nat (list nat) ex_step ex_halted ex_count ex_prog []
  = [1; 2;3;3;4; 2;3;3;4; 2; 5; 1; 2;3;3;4; 2;3;3;4; 2; 6] /\
  cost nat (list nat) ex_step ex_halted ex_count ex_prog [] < 100 /\
  run nat (list nat) ex_step ex_halted ex_count 100 (flatten ex_prog_halt) []
  = Some [1; 2;3;3;4; 2;3;3;4; 2; 99] /\
  sem nat (list nat) ex_step ex_halted ex_count ex_prog_halt []
  = [1; 2;3;3;4; 2;3;3;4; 2; 99].
Proof.
  split; [|vm_compute; repeat split; try reflexivity; lia].
  unfold loops_pos, ex_count. cbn. repeat split; intros _; lia.
Qed.

Print Assumptions C05_flat_vs_structured.
Print Assumptions C05_fuel_bound.
Print Assumptions C05_fuel_mono.
Print Assumptions C05_all_counts_pos.
Print Assumptions C05_segment.
Print Assumptions C05_count_zero_runs_once.
Print Assumptions C05_halted_fixed.
Print Assumptions C05_exec_app.
Print Assumptions C05_flatten_app.
Print Assumptions C05_repeat.
Print Assumptions C05_repeat_text.
Print Assumptions C05_break.
Print Assumptions C05_break_text.
