(* C02 - each track is a legal MIDI event stream reproducing the song's events exactly.
   Statements only; proofs are `exact <lemma>`. *)
From Sakura.Model Require Import Base Event Writer.
From Sakura.Spec Require Import SmfSpec TrackSpec.
From Sakura.Proofs Require Import VlqP WriterP SortP TrackP.
From Coq Require Import Permutation Sorted.

(* delta times: the whole SMF range round-trips through at most four bytes *)
Theorem C02_vlq_roundtrip : forall (n : Z) (r : list Z), 0 <= n < 2 ^ 28 ->
  vlq_decode (push_delta n ++ r) = Some (n, r) /\ (length (push_delta n) <= 4)%nat.
Proof. exact vlq_roundtrip. Qed.

(* Every track body decodes, under the SMF grammar, to exactly the messages the event list denotes
   (saturated values for anything outside its range - so the stream is legal for ANY v1..v3 and
   channel), followed by End-of-Track exactly once and last. *)
Theorem C02_track_decodes : forall evs : list event,
  forallb event_ok evs = true -> deltas_ok (wire 0 evs) = true ->
  exists bs, generate_track evs = Ok bs /\ decode_track bs = Some (wire 0 evs ++ [EOTmsg]).
Proof. exact generate_track_decodes. Qed.

(* absolute ticks: for a time-sorted list starting at or after 0, every decoded message sits at
   its event's time *)
Theorem C02_abs_ticks : forall evs : list event,
  StronglySorted time_le evs -> Forall (fun e => 0 <= e_time e) evs ->
  abs_ticks 0 (wire 0 evs) = msg_times evs.
Proof. intros evs. exact (abs_ticks_wire evs 0). Qed.

(* what generate() hands to the writer: a permutation of the split list, sorted by time, stable;
   every note-on is paired with a note-off at start + gate with the same channel/key/velocity *)
Theorem C02_normalize : forall evs : list event,
  Permutation (normalize_and_sort evs) (split_note_off evs)
  /\ StronglySorted time_le (normalize_and_sort evs)
  /\ (forall t, at_time t (normalize_and_sort evs) = at_time t (split_note_off evs))
  /\ (forall e, In e evs -> e_type e = NoteOn -> In (note_off_of e) (normalize_and_sort evs)).
Proof.
  intros evs. split; [apply events_sort_perm|]. split; [apply events_sort_strongly|].
  split; [intros t; apply events_sort_stable | intros e; apply note_off_present].
Qed.

(* the sort is determined by these properties: any stable sort gives the same list *)
Theorem C02_stable_sort_unique : forall l1 l2 : list event,
  Sorted time_le l1 -> Sorted time_le l2 -> (forall t, at_time t l1 = at_time t l2) -> l1 = l2.
Proof. exact stable_sort_unique. Qed.

(* non-vacuity: a list with every admitted kind, out-of-range values and a 2-byte delta *)
Definition ex_evs : list event :=
  [ev_voice 0 3 40; ev_cc 0 3 7 200; ev_note 0 3 131 90 (-4); ev_pitch_bend 200 3 20000;
   ev_pitch_bend_range 200 20 12; ev_meta 300 255 3 2 [65; 66]; ev_sysex_raw 300 [240; 126; 127; 9; 1; 247];
   mkEvent NoteOff 90 3 131 90 (-4) None].
Example C02_example :
  forallb event_ok ex_evs = true /\ deltas_ok (wire 0 ex_evs) = true /\
  match generate_track ex_evs with Ok bs => decode_track bs = Some (wire 0 ex_evs ++ [EOTmsg]) | _ => False end.
Proof. repeat split; vm_compute; reflexivity. Qed.

Print Assumptions C02_vlq_roundtrip.
Print Assumptions C02_track_decodes.
Print Assumptions C02_abs_ticks.
Print Assumptions C02_normalize.
Print Assumptions C02_stable_sort_unique.

(* ------------------------------------------------------------------------------------------------ *)
(* "... and all sources that give rise to them": the whole pipeline model Compile.compile
   (lex -> exec -> flush of ties -> play-from -> split_note_off -> stable sort -> writer).
   For EVERY source for which the model returns a value (Unsupported / Panic / OutOfFuel are what `= Ok`
   excludes; no other hypothesis on the source) every event the runner stored is one C02_track_decodes
   covers, the bytes parse as one chunk per track of the final song, and every chunk whose delta times fit
   the SMF range (below 2^28) decodes to exactly the wire form of that track's normalized, sorted event list,
   End-of-Track once and last.  Size hypotheses: the track count (at most 1000, TR admits 0..999) and the
   time base (48..32767, clamped by the lexer) are PROVED; what remains is that the file is shorter than
   2^32 bytes, so that every chunk length fits its field. *)
From Coq Require Import String.
From Sakura.Model Require Import Song Token LexCore RunCore Tie Compile.
From Sakura.Proofs Require Import PipelineP.

Theorem C02_compile_decodes : forall (src bytes log : list Z),
  compile src = Ok (bytes, log) -> zlen bytes < 2 ^ 32 ->
  exists (s : song) (bodies : list (list Z)),
    run_source src = Ok s /\ events_wf s /\
    parse_file bytes = Some (mkHeader 1 (zlen (s_tracks s)) (s_timebase s), bodies) /\
    List.length bodies = List.length (s_tracks s) /\
    forall (i : nat) (evs : list event) (body : list Z),
      nth_error (tracks_for_writer s) i = Some evs -> nth_error bodies i = Some body ->
      deltas_ok (wire 0 (normalize_and_sort evs)) = true ->
      decode_track body = Some (wire 0 (normalize_and_sort evs) ++ [EOTmsg]).
Proof. exact compile_decodes. Qed.

(* the invariant behind it, for every source: everything the runner leaves in the song - track events,
   pending chord notes, pending tied notes - is an event the decoding theorem covers *)
Theorem C02_events_wf_from_source : forall (src : list Z) (s : song), run_source src = Ok s -> events_wf s.
Proof. exact run_source_wf. Qed.

(* non-vacuity: four tracks (track 0 empty), a chord, a tie with a glissando, a tempo, a time signature,
   a program change, a loop and a Slur(1) bend; all hypotheses hold and the chord is on the wire *)
Definition ex_src : list Z :=
  zs "TR(1) Tempo(140) TimeSignature(3,4) l4 'ceg'2 c&d e TR(2) CH(2) @(5) o4 [2 c8 d8] TR(3) Slur(1) g2&a2"%string.
Example C02_compile_example :
  match compile ex_src, run_source ex_src with
  | Ok (bytes, _), Ok s =>
      (zlen bytes <? 2 ^ 32) = true /\ List.length (s_tracks s) = 4%nat /\
      forallb (fun evs => deltas_ok (wire 0 (normalize_and_sort evs))) (tracks_for_writer s) = true /\
      firstn 6 (wire 0 (normalize_and_sort (nth 1 (tracks_for_writer s) []))) =
        [(0, MMeta 81 [6; 138; 27]); (0, MMeta 88 [3; 2; 24; 8]);
         (0, MNoteOn 0 67 100); (0, MNoteOn 0 64 100); (0, MNoteOn 0 60 100); (172, MNoteOff 0 67 100)]
  | _, _ => False
  end.
Proof. vm_compute. repeat split. Qed.

Print Assumptions C02_compile_decodes.
Print Assumptions C02_events_wf_from_source.
