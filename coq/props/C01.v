(* C01 - the output is always a complete, self-consistent Standard MIDI File container.
   Statements only. *)
From Sakura.Model Require Import Base Event Writer.
From Sakura.Spec Require Import SmfSpec.
From Sakura.Proofs Require Import VlqP ContainerP.

(* For every list of tracks whose bodies the writer can produce, and dimensions that fit the SMF
   fields, the bytes parse - under a strict parser that admits nothing before, between or after the
   chunks - as one MThd (length 6, format 1, count = number of tracks, division = time base)
   followed by exactly the track bodies, each ending with End-of-Track. *)
Theorem C01_container : forall (tb : Z) (tracks : list (list event)) (bodies : list (list Z)),
  bodies_of tracks = Ok bodies -> dims_ok tb bodies ->
  exists bs, generate_sorted tb tracks = Ok bs
    /\ parse_file bs = Some (mkHeader 1 (zlen tracks) tb, bodies)
    /\ container_ok bs = true.
Proof. exact generate_container. Qed.

Theorem C01_bigendian16 : forall v : Z, 0 <= v < 65536 ->
  exists a b, push_u16 v = [a; b] /\ 0 <= a < 256 /\ 0 <= b < 256 /\ be16 a b = v.
Proof. exact push_u16_be. Qed.

Theorem C01_bigendian32 : forall v : Z, 0 <= v < 2 ^ 32 ->
  exists a b c d, push_u32 v = [a; b; c; d] /\ 0 <= a < 256 /\ 0 <= b < 256 /\ 0 <= c < 256 /\ 0 <= d < 256
                  /\ be32 a b c d = v.
Proof. exact push_u32_be. Qed.

Example C01_example :
  match generate 480 [[ev_note 0 0 60 96 100]; []; [ev_cc 10 2 7 100]] with
  | Ok bs => container_ok bs = true
  | _ => False end.
Proof. vm_compute. reflexivity. Qed.

Print Assumptions C01_container.
Print Assumptions C01_bigendian16.
Print Assumptions C01_bigendian32.
