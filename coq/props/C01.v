(* C01 - the output is always a complete, self-consistent Standard MIDI File container.
   Statements only. *)
From Sakura.Model Require Import Base Event Writer.
From Sakura.Spec Require Import SmfSpec.
From Sakura.Proofs Require Import VlqP ContainerP.

(* For every list of tracks whose bodies the writer can produce, and dimensions that fit the SMF
   fields, the bytes parse - under a strict parser that admits nothing before, between or after the
   chunks - as one MThd (length 6, format 1, count = number of tracks, division = time base)
   followed by exactly the track bodies, each ending with End-of-Track. *)
Theorem C01_container : forall (tb : Z) (tracks : list (list event)) (bodies : list (list Z)),
  bodies_of tracks = Ok bodies -> dims_ok tb bodies ->
  exists bs, generate_sorted tb tracks = Ok bs
    /\ parse_file bs = Some (mkHeader 1 (zlen tracks) tb, bodies)
    /\ container_ok bs = true.
Proof. exact generate_container. Qed.

Theorem C01_bigendian16 : forall v : Z, 0 <= v < 65536 ->
  exists a b, push_u16 v = [a; b] /\ 0 <= a < 256 /\ 0 <= b < 256 /\ be16 a b = v.
Proof. exact push_u16_be. Qed.

Theorem C01_bigendian32 : forall v : Z, 0 <= v < 2 ^ 32 ->
  exists a b c d, push_u32 v = [a; b; c; d] /\ 0 <= a < 256 /\ 0 <= b < 256 /\ 0 <= c < 256 /\ 0 <= d < 256
                  /\ be32 a b c d = v.
Proof. exact push_u32_be. Qed.

Example C01_example :
  match generate 480 [[ev_note 0 0 60 96 100]; []; [ev_cc 10 2 7 100]] with
  | Ok bs => container_ok bs = true
  | _ => False end.
Proof. vm_compute. reflexivity. Qed.

Print Assumptions C01_container.
Print Assumptions C01_bigendian16.
Print Assumptions C01_bigendian32.

(* ------------------------------------------------------------------------------------------------ *)
(* "For every source text ...": the whole pipeline model Compile.compile.  For EVERY source for which the
   model returns a value (`= Ok` excludes Unsupported / Panic / OutOfFuel; nothing else is assumed of the
   source) the bytes are a complete container: format 1, track count = number of tracks of the final song =
   number of chunks, division = the time base in effect, every chunk ending with End-of-Track.  The track
   count (1..1000: TR admits 0..999 and change_cur_track materialises every intermediate track) and the time
   base (48..32767: read_timebase clamps it at lex time, nothing else writes it - proved over the whole lexer
   loop and every arm of the runner) are PROVED, not assumed; the one remaining hypothesis is that the file is
   shorter than 2^32 bytes, so that every chunk length fits its 32-bit field. *)
From Coq Require Import String.
From Sakura.Model Require Import Song Token LexCore RunCore Tie Compile.
From Sakura.Proofs Require Import PipelineP.

Theorem C01_compile_container : forall (src bytes log : list Z),
  compile src = Ok (bytes, log) -> zlen bytes < 2 ^ 32 ->
  container_ok bytes = true /\
  exists (s : song) (bodies : list (list Z)),
    run_source src = Ok s /\
    parse_file bytes = Some (mkHeader 1 (zlen (s_tracks s)) (s_timebase s), bodies) /\
    List.length bodies = List.length (s_tracks s) /\
    (1 <= List.length (s_tracks s) <= 1000)%nat /\ 48 <= s_timebase s <= 32767.
Proof. exact compile_container. Qed.

(* the dimensions alone, for every source (no size hypothesis) *)
Theorem C01_dims_from_source : forall (src : list Z) (s : song),
  run_source src = Ok s -> (1 <= List.length (s_tracks s) <= 1000)%nat /\ 48 <= s_timebase s <= 32767.
Proof. exact dims_from_source. Qed.

(* non-vacuity: tracks 0..5 (0, 1, 3, 4 left empty), a time base set in the text, a chord, a tie, a tempo,
   a time signature; the hypothesis holds and the header says 6 tracks at 480 ticks *)
Definition ex_src : list Z :=
  zs "TimeBase(480) TR(2) Tempo(140) TimeSignature(3,4) l4 'ceg'2 c&d e TR(5) CH(10) @(5) o4 [2 c8 d8]"%string.
Example C01_compile_example :
  match compile ex_src with
  | Ok (bytes, _) =>
      (zlen bytes <? 2 ^ 32) = true /\ container_ok bytes = true /\
      match parse_file bytes with
      | Some (h, bodies) => h = mkHeader 1 6 480 /\ List.length bodies = 6%nat
      | None => False
      end
  | _ => False
  end.
Proof. vm_compute. repeat split. Qed.

Print Assumptions C01_compile_container.
Print Assumptions C01_dims_from_source.
