(* C10 - script expressions (under construction) *)
From Sakura.Model Require Import Base Cursor Expr.
From Sakura.Spec Require Import ExprSpec.
From Sakura.Proofs Require Import ExprP.
