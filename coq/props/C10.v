(* C10 - script expressions: conventional precedence, associativity, total arithmetic, built-ins.
   This file contains only the property statements; every proof is `exact <lemma>`.

   Reading guide.  ExprSpec (independent of the model): syntax trees, the four levels
   * / %  <  + -  <  comparisons  <  & |, left associativity and parentheses as the relation
   [prints l e t] ("t renders e, operators outside parentheses have level <= l"), the printers
   [print] / [print_lay], the denotation [denote] (None = ill-typed).  Expr (model): read_calc
   (read_value / read_operator / read_calc_priority of lexer.rs) and the evaluation of runner.rs;
   [eval_text tb lexvars env s] = the value PRINT shows for the expression at the start of s.
   [inj] / [menv] embed specification values / environments into the model's SValue.
   [stop_tail r]: r is blanks followed by the end of the text or by a character that is not a blank,
   an operator character, a letter, digit, '_' or '(' (for instance ')' ';' ',' or a line break). *)
From Sakura.Model Require Import Base Cursor Expr.
From Sakura.Spec Require Import ExprSpec.
From Sakura.Proofs Require Import ExprP.

(* Main theorem.  For every syntax tree e over integer literals (decimal, $hex, 0x, 0o) and integer
   variables, of any depth, with unary minus and all 15 operator spellings, for EVERY rendering t of e
   (any blanks, any redundant parentheses, necessary parentheses by level and left associativity), the
   reader followed by the evaluator yields the value e denotes - whenever e is well-typed (denote <> None). *)
Theorem C10_parse_eval :
  forall (tb : Z) (lexvars : list (list Z)) (en : env) (e : expr) (t : list Z) (v : value) (ws r : list Z),
  prints 4 e t -> no_str e = true -> int_env en -> denote en e = Some v -> blanks ws -> stop_tail r ->
  eval_text tb lexvars (menv en) (ws ++ t ++ r) = Ok (inj v).
Proof. exact parse_eval. Qed.

(* The canonical printer (parentheses exactly where the level demands them, no blanks) ... *)
Theorem C10_parse_eval_canonical :
  forall (tb : Z) (lexvars : list (list Z)) (en : env) (e : expr) (v : value) (r : list Z),
  expr_ok e = true -> no_str e = true -> int_env en -> denote en e = Some v -> stop_tail r ->
  eval_text tb lexvars (menv en) (print e ++ r) = Ok (inj v).
Proof. exact parse_eval_print. Qed.

(* ... and the layout-driven printer used by the test generator (random blanks / redundant parentheses). *)
Theorem C10_parse_eval_layouts :
  forall (tb : Z) (lexvars : list (list Z)) (en : env) (e : expr) (v : value) (cs : list nat) (r : list Z),
  expr_ok e = true -> no_str e = true -> int_env en -> denote en e = Some v -> stop_tail r ->
  eval_text tb lexvars (menv en) (fst (print_lay 4 e cs) ++ r) = Ok (inj v).
Proof. exact parse_eval_layout. Qed.

(* Division and remainder by zero yield 0: for the evaluator on any operands, and for whole
   expressions "e/0", "e%0" over any integer-valued e. *)
Theorem C10_div_mod_zero :
  (forall a b : sval, to_i b = 0 -> calc 47 a b = Ok (SInt 0) /\ calc 37 a b = Ok (SInt 0)) /\
  (forall (tb : Z) (lexvars : list (list Z)) (en : env) (e : expr) (z : Z) (r : list Z),
     expr_ok e = true -> no_str e = true -> int_env en -> denote en e = Some (VI z) -> stop_tail r ->
     eval_text tb lexvars (menv en) (print (Bin ODiv e zero_lit) ++ r) = Ok (SInt 0) /\
     eval_text tb lexvars (menv en) (print (Bin OMod e zero_lit) ++ r) = Ok (SInt 0)).
Proof. exact (conj calc_div_mod_zero div_mod_zero_expr). Qed.

(* Literals: decimal digits, "$" or "0x" followed by hex digits of either case, "0o" followed by octal
   digits denote their value, and the reader stops exactly after them (r: what follows is not a
   letter, digit or '_'). *)
Theorem C10_literals : forall (n : literal) (r : list Z) (def : Z),
  lit_ok n = true -> nw r -> get_int def (lit_text n ++ r) = (lit_value n, r).
Proof. exact get_int_lit. Qed.

(* What the code does with the digit 8 after "0o": it is accepted as a digit of value 8 ("0o18" = 16). *)
Theorem C10_octal_digit_8 : forall (ds r : list Z) (def : Z),
  ds <> [] -> forallb (in_range 0 8) ds = true -> nw r ->
  get_int def (48 :: 111 :: map (fun d => 48 + d) ds ++ r) = (Z.min (value_in 8 0 ds) numeral_cap, r).
Proof. exact get_int_octal_8. Qed.

(* MID(s,i,n) = the n characters from the 1-based position i, clamped to the string, for any text
   and any position / length of the isize range (negative ones included). *)
Theorem C10_mid : forall (name s : list Z) (i n : Z),
  In name n_MID -> isize_ok i -> isize_ok n -> zlen s < 2 ^ 63 ->
  sys_function name [SStr s; SInt i; SInt n] = Ok (SStr (mid s i n)) /\
  mid s i n = firstn (Z.to_nat n) (skipn (Z.to_nat (i - 1)) s).
Proof. intros name s i n H1 H2 H3 H4. exact (conj (sys_mid name s i n H1 H2 H3 H4) (mid_spec_eq s i n)). Qed.

(* SizeOf counts characters of a string and elements of an array. *)
Theorem C10_sizeof : forall (name : list Z) (v : sval),
  In name n_SizeOf ->
  sys_function name [v] = Ok (SInt (match v with SArr a => size_of a | SStr s => size_of s | _ => 0 end)).
Proof. exact sys_sizeof. Qed.

(* REPLACE(s,a,b) replaces every (non-overlapping, leftmost first) occurrence of a non-empty a. *)
Theorem C10_replace_all : forall (name s a b : list Z),
  In name n_REPLACE -> a <> [] ->
  sys_function name [SStr s; SStr a; SStr b] = Ok (SStr (replace_all s a b)).
Proof. exact sys_replace. Qed.

(* CHR(n) is the character n, for every Unicode scalar value. *)
Theorem C10_chr : forall (name : list Z) (n : Z),
  In name n_CHR -> is_scalar n = true -> sys_function name [SInt n] = Ok (SStr (chr n)).
Proof. exact sys_chr. Qed.

(* A(i) is element i counted from 0. *)
Theorem C10_array_index : forall (en : venv) (x : list Z) (k : tok) (a : list sval) (i : Z) (v : sval),
  var_get en x = Some (SArr a) -> eval en k = Ok (SInt i) -> isize_ok i -> array_get a i = Some v ->
  eval en (TCall true x [k]) = Ok v.
Proof. exact eval_array_index. Qed.

(* "+" concatenates the texts of its operands when either one is a string, and adds otherwise; booleans
   are shown as TRUE / FALSE and strings as themselves (the decimal text of integers is tied to the
   specification's by the correspondence check only). *)
Theorem C10_plus_concat :
  (forall a b : sval, calc 43 a b = Ok (if is_s a || is_s b then SStr (to_s a ++ to_s b) else SInt (to_i a + to_i b))) /\
  (forall v : value, (forall z, v <> VI z) -> to_s (inj v) = show v).
Proof. exact (conj calc_plus shown_bool_str). Qed.

(* ---- non-vacuity: the hypotheses are satisfiable and the theorems compute ---- *)
Definition lit (z : Z) : expr := Lit (Dec [z]).
Definition ex_env : env := [([65], VI 3); ([66], VI (-7))].           (* A=3, B=-7 *)
(* (A - 2 - B) * 0x1F < 4 | 1 = 2   with A-2-B = 8 *)
Definition ex_e : expr :=
  Bin OOr (Bin OLt (Bin OMul (Bin OSub (Bin OSub (Var [65]) (lit 2)) (Var [66])) (Lit (Hex false [(1, false); (15, true)]))) (lit 4))
          (Bin OEq (lit 1) (lit 2)).
Lemma ex_int_env : int_env ex_env.
Proof.
  intros x v. unfold ex_env. cbn [lookup].
  destruct (text_eqb x [65]); [intros H; inversion H; eexists; reflexivity|].
  destruct (text_eqb x [66]); [intros H; inversion H; eexists; reflexivity|]. discriminate.
Qed.
Lemma ex_stop : stop_tail [41].
Proof. exists [], [41]. repeat split. Qed.

Example C10_example_tree :
  expr_ok ex_e = true /\ no_str ex_e = true /\ int_env ex_env /\ denote ex_env ex_e = Some (VB false) /\ stop_tail [41] /\
  print ex_e = [40;65;45;50;45;66;41;42;48;120;49;70;60;52;124;49;61;50] /\      (* (A-2-B)*0x1F<4|1=2 *)
  eval_text 96 [] (menv ex_env) (print ex_e ++ [41]) = Ok (SBool false) /\
  prints 4 ex_e (fst (print_lay 4 ex_e [1;4;2;7;0;1;5;3;8;6;1;2;9]%nat)).
Proof.
  repeat split; try (vm_compute; reflexivity); try exact ex_int_env; try exact ex_stop.
  apply print_lay_prints. reflexivity.
Qed.

Example C10_example_precedence :   (* the repaired witnesses, computed by the model *)
  eval_text 96 [] [] [50;42;51;43;49;41] = Ok (SInt 7) /\              (* 2*3+1) *)
  eval_text 96 [] [] [49;45;50;45;51;41] = Ok (SInt (-4)) /\           (* 1-2-3) *)
  eval_text 96 [] [] [40;50;42;51;41;43;49;41] = Ok (SInt 7) /\        (* (2*3)+1) *)
  eval_text 96 [] [] [49;43;50;60;52;41] = Ok (SBool true) /\          (* 1+2<4) *)
  eval_text 96 [] [] [53;37;48;41] = Ok (SInt 0).                      (* 5%0) *)
Proof. repeat split; vm_compute; reflexivity. Qed.

Example C10_example_literals :
  lit_ok (Hex true [(1, false); (15, true)]) = true /\ nw [41] /\
  get_int 0 ([36;49;70] ++ [41]) = (31, [41]) /\                       (* $1F *)
  get_int 0 [48;111;49;56] = (16, []).                                 (* 0o18 *)
Proof. repeat split; vm_compute; reflexivity. Qed.

Example C10_example_builtins :
  In [77;73;68] n_MID /\ isize_ok (-1) /\ isize_ok 2 /\
  sys_function [77;73;68] [SStr [12354;12356;12358]; SInt 2; SInt 1] = Ok (SStr [12356]) /\   (* MID({あいう},2,1) = い *)
  sys_function [77;73;68] [SStr [97;98;99]; SInt 1; SInt (-1)] = Ok (SStr []) /\
  sys_function [77;73;68] [SStr [97;98;99]; SInt (-1); SInt 2] = Ok (SStr [97;98]) /\
  sys_function [83;105;122;101;79;102] [SStr [12354;12356]] = Ok (SInt 2) /\                  (* SizeOf({あい}) *)
  sys_function [82;69;80;76;65;67;69] [SStr [97;97;97]; SStr [97;97]; SStr [98]] = Ok (SStr [98;97]) /\
  is_scalar 12354 = true /\ sys_function [67;72;82] [SInt 12354] = Ok (SStr [12354]) /\
  eval [([65;82], SArr [SInt 5; SInt 6; SInt 7])] (TCall true [65;82] [TConstInt 2]) = Ok (SInt 7) /\
  calc 43 (SStr [97]) (SInt 1) = Ok (SStr [97;49]) /\ to_s (inj (VB true)) = [84;82;85;69].    (* {a}+1 = a1, TRUE *)
Proof.
  repeat split; try (vm_compute; reflexivity); try (unfold isize_ok; lia).
  left. reflexivity.
Qed.

Print Assumptions C10_parse_eval.
Print Assumptions C10_parse_eval_canonical.
Print Assumptions C10_parse_eval_layouts.
Print Assumptions C10_div_mod_zero.
Print Assumptions C10_literals.
Print Assumptions C10_octal_digit_8.
Print Assumptions C10_mid.
Print Assumptions C10_sizeof.
Print Assumptions C10_replace_all.
Print Assumptions C10_chr.
Print Assumptions C10_array_index.
Print Assumptions C10_plus_concat.
