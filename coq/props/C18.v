(* C18 - spacing, bar lines, separators and comments never change the music; full-width command characters.
   This file contains only the property statements; every proof is `exact <lemma>`.

   Text = list of Unicode scalar values. `LOOP f n ls s ln h acc` is the main loop of lexer::lex (model/LexCore.v,
   the inner loop of lex_f; proofs/LayoutP.v restates it and C18_loop_is_lex proves it is that loop) about to read
   a command - i.e. AT A COMMAND BOUNDARY - with fuel n, lexer state ls (time base, log, variables, rhythm macros),
   remaining text s, line counter ln, open-chord flag h and the tokens produced so far acc.

   What is proved for ALL texts: every separator / line break / comment form, read at a command boundary, is
   consumed entirely and produces nothing but LineNo / Comment tokens (which the runner ignores, C18_erased) and
   the right line count, whatever follows (C18_separator_step .. C18_layout_insensitive); the dispatch sees the
   first character only through zen2han (C18_fullwidth_command_char).
   What is NOT proved here: the reader contracts of the individual commands ("a reader consumes exactly its command
   and stops before the separator"), except for lettered notes without comma parameters
   (C18_note_reader_partial, C18_notes_layout_partial).  The whole-program statement - equal MIDI bytes for any two
   layouts of the same command list - is covered by the correspondence check and the layout oracle of
   tools/props/c18.py only. *)
From Coq Require Import String.
From Sakura.Model Require Import Base Cursor Token LexCore.
From Sakura.Proofs Require Import LayoutP LocalityP.
Open Scope list_scope.
Open Scope Z_scope.

(* LOOP is the loop of lex.  lexer::lex first runs lex_preprocess over the whole text (LexCore.lex_pre: comments
   skipped, a word read at every capital letter, stop at END / End); a text in which that scan meets the word
   FUNCTION / Function defines a user function and is outside the pipeline model (Unsupported) - whatever the main
   loop would do with it, EVEN WHEN THE WORD STANDS IN A `#` LINE COMMENT (the scan does not know that comment form).
   The whole-lexer statements below therefore carry the hypothesis lex_pre src = false. *)
Theorem C18_loop_is_lex : forall (ls : lexstate) (src : list Z) (ln : Z),
  lex ls src ln
  = if lex_pre src then Unsupported U_FUNCTION else LOOP (length src) (S (length src)) ls src ln false [TLineNo ln].
Proof. exact lex_unfold. Qed.
Theorem C18_loop_is_lex_plain : forall (ls : lexstate) (src : list Z) (ln : Z), lex_pre src = false ->
  lex ls src ln = LOOP (length src) (S (length src)) ls src ln false [TLineNo ln].
Proof. exact lex_unfold_plain. Qed.

(* ' ', TAB, CR, '|', ';', the wide blanks U+3000, U+2002..U+200B, U+FEFF and the full-width '|' ';':
   consumed, no token, nothing else changes *)
Theorem C18_separator_step : forall f n ls (c : Z) r ln h acc,
  (In c [32; 9; 13; 124; 59; 12288; 65279; 65372; 65307] \/ 8194 <= c <= 8203) ->
  LOOP f (S n) ls (c :: r) ln h acc = LOOP f n ls r ln h acc.
Proof. exact separator_step. Qed.

(* LF: a LineNo token with the incremented line *)
Theorem C18_newline_step : forall f n ls r ln h acc,
  LOOP f (S n) ls (10 :: r) ln h acc = LOOP f n ls r (ln + 1) h (acc ++ [TLineNo (ln + 1)]).
Proof. exact newline_step. Qed.

(* what the two scanners of the comment arms do: the text up to the terminator, the cursor after it, every line
   break counted (count_nl = number of LF; no_nl t = no LF in t; no_close t = no "*/" in t) *)
Theorem C18_get_token : forall (t r : list Z) (ln : Z),
  (no_nl t = true -> get_token_ch 10 (t ++ 10 :: r) ln = (t, r, ln + 1)) /\
  (no_nl t = true -> get_token_ch 10 t ln = (t, [], ln)) /\
  (no_close t = true -> get_token_s [42; 47] (t ++ 42 :: 47 :: r) ln = (t, r, ln + count_nl t)).
Proof.
  intros t r ln. split; [|split].
  - exact (get_token_ch_line t r ln).
  - exact (get_token_ch_line_eof t ln).
  - exact (get_token_s_close t r ln).
Qed.

(* the five comment forms (c = '/' or '#', possibly full-width; the text t is arbitrary):
   //t LF     nothing; ///t LF a Comment token
   /*t*/      nothing; /**t*/  a Comment token; line breaks inside are counted.  The scan for the closing */ starts
              at the '/' of the opener, so "/*/" is already a complete comment: t must not begin with '/'.
   ##t LF, # t LF, #-t LF   nothing *)
Theorem C18_comment_step : forall f n ls (c : Z) (t r : list Z) ln h acc,
  (zen2han c = 47 -> no_nl t = true ->
     LOOP f (S n) ls (c :: 47 :: t ++ 10 :: r) ln h acc
     = LOOP f n ls r (ln + 1) h (if eq_char t 47 then acc ++ [TComment] else acc)) /\
  (zen2han c = 47 -> no_close (42 :: t) = true ->
     LOOP f (S n) ls (c :: 42 :: t ++ 42 :: 47 :: r) ln h acc
     = LOOP f n ls r (ln + count_nl t) h (if eq_char (t ++ [42]) 42 then acc ++ [TComment] else acc)) /\
  (forall x, zen2han c = 35 -> x = 35 \/ x = 32 \/ x = 45 -> no_nl t = true ->
     LOOP f (S n) ls (c :: x :: t ++ 10 :: r) ln h acc = LOOP f n ls r (ln + 1) h acc).
Proof.
  intros f n ls c t r ln h acc. split; [|split].
  - exact (line_comment_step f n ls c t r ln h acc).
  - exact (block_comment_step f n ls c t r ln h acc).
  - exact (fun x => hash_comment_step f n ls c x t r ln h acc).
Qed.

(* a line comment that ends the source *)
Theorem C18_comment_at_eof : forall f n ls (c : Z) (t : list Z) ln h acc, zen2han c = 47 -> no_nl t = true ->
  LOOP f (S n) ls (c :: 47 :: t) ln h acc = LOOP f n ls [] ln h (if eq_char t 47 then acc ++ [TComment] else acc).
Proof. exact line_comment_eof_step. Qed.

(* Composition.  `its` is any list of items  LSep c | LNewline | LLine t (//t LF) | LBlock t (/*t*/) |
   LHash x t (#xt LF), each satisfying its side condition (litem_ok), printed by print_items.  Read at a command
   boundary it takes one iteration per item (fuel bound: length its), leaves the lexer state alone, advances the line
   counter by the number of LF it contains, and adds only LineNo / Comment tokens: the rest of the text is lexed
   from the same state.  Hence inserting or removing such text at a command boundary changes only LineNo / Comment
   tokens and line numbers. *)
Theorem C18_layout_insensitive : forall f n (its : list litem) ls r ln h acc,
  forallb litem_ok its = true -> forallb is_layout its = true ->
  LOOP f (length its + n) ls (print_items its ++ r) ln h acc
  = LOOP f n ls r (ln + count_nl (print_items its)) h (acc ++ items_toks ln its)
  /\ erase_lineno (acc ++ items_toks ln its) = erase_lineno acc.
Proof. exact layout_insensitive. Qed.

(* Every command character has a full-width form (U+FF01..U+FF5E = ASCII 0x21..0x7E + 0xFEE0); the loop
   dispatches on zen2han of the character and the arms that re-read it (upper-case words, '#', '/', '{') re-read the
   converted character, so the full-width form behaves exactly as the ASCII one - for every arm at once: *)
Theorem C18_fullwidth_command_char : forall f n ls (c : Z) r ln h acc, 33 <= c <= 126 ->
  LOOP f n ls ((c + 65248) :: r) ln h acc = LOOP f n ls (c :: r) ln h acc.
Proof. exact fullwidth_command_char. Qed.
(* ... more generally the first character matters only through zen2han *)
Theorem C18_dispatch_on_zen2han : forall f n ls (c c' : Z) r ln h acc, zen2han c = zen2han c' ->
  LOOP f n ls (c :: r) ln h acc = LOOP f n ls (c' :: r) ln h acc.
Proof. exact LOOP_zen2han. Qed.

(* ---- a reader contract (partial: lettered notes without comma parameters only) ----
   read_note on  accidentals ++ length ++ blanks/bars ++ r  consumes exactly accidentals, length and blanks and stops
   before r, for every r that is a boundary for this reader:
     note_boundary r ln = the length stops at r (r is empty, or starts with a character that is no length character,
     blank or bar; a line break only if no '^' follows after blanks / line breaks / // and /* */ comments), r does not
     start with "/*" (skip_space would read on), ',' (a parameter) or '&' (a tie);
   and the first character after the note letter's accidentals is not itself an accidental ('+', '#', '-', '*'). *)
Theorem C18_note_reader_partial : forall f n ls (c : Z) (fl len bl r : list Z) ln h acc,
  is_note_letter (zen2han c) = true ->
  forallb is_flag_char fl = true -> forallb is_len_char len = true -> forallb is_len_blank bl = true ->
  is_flag_char (peek0 (len ++ bl ++ r)) = false -> note_boundary r ln = true ->
  read_note (zen2han c) (fl ++ len ++ bl ++ r) ln = (simple_note_tok (zen2han c) fl len, r, ln) /\
  LOOP f (S n) ls (c :: fl ++ len ++ bl ++ r) ln h acc = LOOP f n ls r ln h (acc ++ [simple_note_tok (zen2han c) fl len]).
Proof.
  intros f n ls c fl len bl r ln h acc Z F L B S N. split.
  - exact (read_note_contract (zen2han c) fl len bl r ln F L B S N).
  - exact (note_step f n ls c fl len bl r ln h acc Z F L B S N).
Qed.

(* ---- the property itself on that fragment (partial) ----
   A program = leading layout its, then notes each followed by its blanks/bars and a layout (nprog); nprog_ok checks
   the side conditions along the text (every note well formed, every layout item well formed, and the text after
   every note a boundary for the note reader).  The whole lexer returns the notes in order plus LineNo / Comment
   tokens and leaves the lexer state alone; so two layouts of the same notes give the same tokens up to LineNo /
   Comment.  Other commands, and notes with ,q,v,t,o parameters or ties: not proved (correspondence + oracle). *)
Theorem C18_notes_layout_partial : forall (its1 its2 : list litem) (p1 p2 : nprog) ls ln,
  forallb litem_ok its1 = true -> forallb is_layout its1 = true -> nprog_ok p1 [] (ln + items_lines its1) = true ->
  forallb litem_ok its2 = true -> forallb is_layout its2 = true -> nprog_ok p2 [] (ln + items_lines its2) = true ->
  map (fun xi => snote_tok (fst xi)) p1 = map (fun xi => snote_tok (fst xi)) p2 ->
  lex_pre (print_items its1 ++ print_nprog p1) = false -> lex_pre (print_items its2 ++ print_nprog p2) = false ->
  exists t1 t2, lex ls (print_items its1 ++ print_nprog p1) ln = Ok (t1, ls)
             /\ lex ls (print_items its2 ++ print_nprog p2) ln = Ok (t2, ls)
             /\ erase_lineno t1 = erase_lineno t2
             /\ erase_lineno t1 = map (fun xi => snote_tok (fst xi)) p1.
Proof. intros its1 its2 p1 p2. exact (notes_layout its1 p1 its2 p2). Qed.

(* non-vacuity of the fragment: "c4 d+8.|e" and a version spread over lines with all comment forms and a full-width e *)
Definition ex_p1 : nprog :=
  [(mkSN 99 [] [52] [32], []); (mkSN 100 [43] [56; 46] [124], []); (mkSN 101 [] [] [], [])].
Definition ex_p2 : nprog :=
  [(mkSN 99 [] [52] [], [LNewline; LLine [32; 94]; LHash 32 [99]]);
   (mkSN 100 [43] [56; 46] [32; 32], [LSep 59; LBlock [32; 120; 10]; LSep 12288; LHash 45 []]);
   (mkSN 65349 [] [] [13], [LNewline])].      (* CR directly after a note belongs to the note's blanks: the length reader skips it *)
Example C18_notes_example :
  nprog_ok ex_p1 [] 0 = true /\ nprog_ok ex_p2 [] (0 + items_lines [LBlock [120]]) = true /\
  print_nprog ex_p1 = zs "c4 d+8.|e" /\
  print_items [LBlock [120]] ++ print_nprog ex_p2
  = zs "/*x*/c4" ++ [10] ++ zs "// ^" ++ [10] ++ zs "# c" ++ [10] ++ zs "d+8.  ;/* x" ++ [10] ++ zs "*/" ++ [12288] ++ zs "#-" ++ [10; 65349; 13; 10] /\
  map (fun xi => snote_tok (fst xi)) ex_p1 = map (fun xi => snote_tok (fst xi)) ex_p2 /\
  (lex_pre (print_nprog ex_p1) = false) /\ (lex_pre (print_items [LBlock [120]] ++ print_nprog ex_p2) = false).
Proof. repeat split; vm_compute; reflexivity. Qed.
(* the hypothesis is needed: the scan of lex_preprocess does not know the `#` comment forms *)
Example C18_function_in_hash_comment :
  (lex_pre (zs "c # FUNCTION A" ++ [10] ++ zs "d") = true) /\ (lex_pre (zs "c // FUNCTION A" ++ [10] ++ zs "d") = false).
Proof. split; vm_compute; reflexivity. Qed.

(* non-vacuity: a layout with all item kinds, and the theorem's equation evaluated on it *)
Definition ex_layout : list litem :=
  [LSep 32; LSep 12288; LNewline; LLine [32; 120]; LLine [47; 100]; LBlock [32; 10; 42; 32]; LBlock [42; 120];
   LHash 35 [99]; LHash 32 [99]; LHash 45 [45]; LSep 124; LSep 59; LSep 9; LSep 13].
Example C18_example :
  forallb litem_ok ex_layout = true /\ forallb is_layout ex_layout = true /\
  print_items ex_layout = zs " " ++ [12288; 10] ++ zs "// x" ++ [10] ++ zs "///d" ++ [10] ++ zs "/* " ++ [10] ++ zs "* */"
                          ++ zs "/**x*/##c" ++ [10] ++ zs "# c" ++ [10] ++ zs "#--" ++ [10; 124; 59; 9; 13] /\
  items_toks 0 ex_layout = [TLineNo 1; TComment; TComment] /\
  (exists ls', lex (mkLex 96 [] [] [] false) (print_items ex_layout ++ zs "c") 0
     = Ok ([TLineNo 0; TLineNo 1; TComment; TComment; TNote 0 0 0 [] 0 (-1) ISIZE_MIN (-1) 0], ls')) /\
  (exists ls', lex (mkLex 96 [] [] [] false) ([65347] ++ zs "4") 0 = Ok ([TLineNo 0; TNote 0 0 0 (zs "4") 0 (-1) ISIZE_MIN (-1) 0], ls')).
Proof. repeat split; try (vm_compute; reflexivity); eexists; vm_compute; reflexivity. Qed.

(* ================================================================================================== *)
(* LOCALITY (proofs/LocalityP.v).  A reader - and one whole iteration of the loop - that stops AT the character that follows a
   command has not looked beyond it: what comes after that character plays no role.  The side conditions are computable
   on the command text:
     text_ok cmd c0   no line break in cmd, and no suffix of cmd ++ [c0] is a proper prefix of a multi-character pattern of the
                      readers (LocalityP.PATS: "++" "--" "/*" "//" "*/" "0x" "0o" "Add" "2Add" ".onTime" ".T" ".s(" "End" "END"
                      "##" "# " "#-" "///" "/**", and ".Random" ".onNote" ".N" ".onCycle" ".C": `l` gives a dot and the word after
                      it back when the word is no reservation, so its test of these words looks ahead) - such a test would look
                      beyond the end of the text;
     sep_ok c0 t      if c0 is a line break, no '^' follows it after blanks / line breaks / comments (the documented continuation
                      of a length);
   and the PREMISE of every statement is itself a computation on the small text cmd ++ [c0]: the reader, run on the command
   followed by NOTHING BUT the one character c0, stops exactly at c0.  That premise is what carves out the documented
   exceptions, reader by reader: it fails for `c` + blank (the blank is eaten looking for a length: `c 4` is c4), for `@5` +
   blank (an open expression argument goes on), for `[` + blank (a count may follow), for `c` + '#' (a sharp), for `TrackSync`
   + blank (an argument list may follow) ... and it holds for `o5` `v100` `[3` `TR(2)` `@5;` and for every command before a
   ';', a CR-less line break etc.  c0 may be ANY character (a separator, or the first character of the next command). *)

(* lettered notes, in full (accidentals, length, ,q,v,t,o parameters, the tie mark) *)
Theorem C18_read_note_local : forall (z : Z) (cmd : list Z) (c0 : Z) (t : list Z) (ln : Z) (tk : tok) (ln1 : Z),
  read_note z (cmd ++ [c0]) ln = (tk, [c0], ln1) -> text_ok cmd c0 = true -> sep_ok c0 t = true ->
  read_note z (cmd ++ c0 :: t) ln = (tk, c0 :: t, ln1).
Proof. exact (fun z => local3 tok (read_note z) (fun c0 t Hlf e ln X => read_note_loc c0 t Hlf z e ln X)). Qed.
(* rests, chord ends with length / gate / velocity suffix, key flags *)
Theorem C18_read_rest_local : forall (cmd : list Z) (c0 : Z) (t : list Z) (ln : Z) (tk : tok) (ln1 : Z),
  read_rest (cmd ++ [c0]) ln = (tk, [c0], ln1) -> text_ok cmd c0 = true -> sep_ok c0 t = true ->
  read_rest (cmd ++ c0 :: t) ln = (tk, c0 :: t, ln1).
Proof. exact (local3 tok read_rest read_rest_loc). Qed.
Theorem C18_read_harmony_end_local : forall (cmd : list Z) (c0 : Z) (t : list Z) (ln : Z) (tk : tok) (ln1 : Z),
  read_harmony_end (cmd ++ [c0]) ln = (tk, [c0], ln1) -> text_ok cmd c0 = true -> sep_ok c0 t = true ->
  read_harmony_end (cmd ++ c0 :: t) ln = (tk, c0 :: t, ln1).
Proof. exact (local3 tok read_harmony_end read_harmony_end_loc). Qed.
(* n-notes, l o v q t (literal values and the reservation forms), loop brackets with or without a count, p *)
Theorem C18_readers_local : forall (tb : Z) (cmd : list Z) (c0 : Z) (t : list Z) (ln : Z), text_ok cmd c0 = true -> sep_ok c0 t = true ->
  (forall tk ln1, read_note_n tb (cmd ++ [c0]) ln = Ok (tk, [c0], ln1) -> read_note_n tb (cmd ++ c0 :: t) ln = Ok (tk, c0 :: t, ln1)) /\
  (forall tk ln1, read_length tb (cmd ++ [c0]) ln = Ok (tk, [c0], ln1) -> read_length tb (cmd ++ c0 :: t) ln = Ok (tk, c0 :: t, ln1)) /\
  (forall tk ln1, read_octave tb (cmd ++ [c0]) ln = Ok (tk, [c0], ln1) -> read_octave tb (cmd ++ c0 :: t) ln = Ok (tk, c0 :: t, ln1)) /\
  (forall tk ln1, read_velocity tb (cmd ++ [c0]) ln = Ok (tk, [c0], ln1) -> read_velocity tb (cmd ++ c0 :: t) ln = Ok (tk, c0 :: t, ln1)) /\
  (forall tk ln1, read_qlen tb (cmd ++ [c0]) ln = Ok (tk, [c0], ln1) -> read_qlen tb (cmd ++ c0 :: t) ln = Ok (tk, c0 :: t, ln1)) /\
  (forall tk ln1, read_timing tb (cmd ++ [c0]) ln = Ok (tk, [c0], ln1) -> read_timing tb (cmd ++ c0 :: t) ln = Ok (tk, c0 :: t, ln1)) /\
  (forall tk ln1, read_loop tb (cmd ++ [c0]) ln = Ok (tk, [c0], ln1) -> read_loop tb (cmd ++ c0 :: t) ln = Ok (tk, c0 :: t, ln1)) /\
  (forall big tk ln1, read_pitch_bend big tb (cmd ++ [c0]) ln = Ok (tk, [c0], ln1) -> read_pitch_bend big tb (cmd ++ c0 :: t) ln = Ok (tk, c0 :: t, ln1)).
Proof. exact readers_local. Qed.

(* ONE ITERATION OF THE LOOP, every arm at once (all readers above, the upper-case commands with their argument lists - TR CH @
   Tempo KeyShift TrackKey TIME TimeSignature PlayFrom ... -, controllers, reservations, PLAY, STR, macro definitions and calls,
   the block commands {..} Sub{..} Div{..} Rhythm{..} with their recursive lex, comments, the single-character commands):
   `arm` is the iteration (LocalityP.ARMG, a generated copy of the loop body with its continuation made explicit;
   C18_loop_is_arm).  If the iteration, run on the command followed by its first separator c0 alone, stops exactly at c0 and
   writes nothing to the log (an error entry quotes the following text), then in ANY text it reads the command the same and the
   loop goes on at c0 in the same state.  cmd_ok = text_ok for the text as written and with its first character in ASCII form. *)
Theorem C18_loop_is_arm : forall sublex n ls s ln h acc,
  LOOPG sublex (S n) ls s ln h acc = after (fun x => x) (LOOPG sublex n) (arm sublex ls s ln h acc).
Proof. exact LOOPG_arm. Qed.
Theorem C18_command_local : forall f n ls (c : Z) (cmd : list Z) (c0 : Z) (t : list Z) ln h acc ls1 ln1 h1 acc1,
  arm (lex_f f) ls (c :: cmd ++ [c0]) ln h acc = Next ls1 [c0] ln1 h1 acc1 ->
  cmd_ok c cmd c0 = true -> sep_ok c0 t = true -> lx_logs ls1 = lx_logs ls ->
  LOOP f (S n) ls (c :: cmd ++ c0 :: t) ln h acc = LOOP f n ls1 (c0 :: t) ln1 h1 acc1.
Proof. exact loop_cmd_local. Qed.

(* PROGRAMS.  A program is a list of complete command texts, each followed by a (possibly empty) layout: any separators and
   comments (litem).  `runs` reads the commands ONE BY ONE, EACH IN ISOLATION - the iteration is run on the command text
   followed by nothing but the one character that follows it in the program, from the state the commands before it have led to
   - and lets the loop consume the layouts (C18_layout_insensitive).  The whole lexer on the whole text gives exactly the
   tokens and the lexer state of these isolated runs: the lexer is compositional at command boundaries.  Hence two layouts of
   the same commands give the same tokens (up to LineNo / Comment) as soon as the isolated runs agree - finitely many small
   computations, as in C18_layout_example.
   PARTIAL in this sense: (1) the isolated run of each command against its own first separator is a premise (checked by
   computation), it is not shown to be the same for every separator; in particular the line numbers stored in tokens (macro
   calls, PLAY, the LineNo tokens inside a block) differ when the layouts have different line breaks in front of them;
   (2) a command followed directly by a comment opener ('/' would be a proper prefix of "/*") or ending in a proper prefix of a
   pattern is outside text_ok; (3) commands that write to the log (unknown words / characters, a missing ')') are outside. *)
Theorem C18_runs_loop : forall f ls ln h acc (p : cprog) rest ls' ln' h' acc',
  runs f ls ln h acc p rest ls' ln' h' acc' ->
  forall n, LOOP f (cfuel p + n) ls (print_cprog p ++ rest) ln h acc = LOOP f n ls' rest ln' h' acc'.
Proof. exact runs_loop. Qed.
Theorem C18_lex_compositional_partial : forall (its0 : list litem) (p : cprog) ls ln ls' ln' h' acc',
  forallb litem_ok its0 = true -> forallb is_layout its0 = true ->
  lex_pre (print_items its0 ++ print_cprog p) = false ->
  runs (length (print_items its0 ++ print_cprog p)) ls (ln + items_lines its0) false ([TLineNo ln] ++ items_toks ln its0) p [] ls' ln' h' acc' ->
  lex ls (print_items its0 ++ print_cprog p) ln = Ok (acc', ls').
Proof. exact lex_cprog. Qed.

(* sixteen commands - o5 l8 c4,50 d TR(2) [3 e ] ' c e '4 @5 Sub{c} v100 r - in two layouts:
     o5;l8 LF c4,50 d LF TR(2) [3 e] 'ce'4 @5;Sub{c} v100 r
     o5 CR LF l8;;c4,50 d|TR(2) LF [3 TAB e] 'ce'4 @5;Sub{c} /*x*/v100 // end LF r
   both satisfy `runs` (each command is read in isolation against its own first separator), the lexer's answer follows by the
   theorem, and the tokens agree up to the LineNo tokens *)
Example C18_layout_example :
  (exists ls' ln' h' acc', runs (length (print_cprog ex_A)) ls00 0 false [TLineNo 0] ex_A [] ls' ln' h' acc') /\
  (exists ls' ln' h' acc', runs (length (print_cprog ex_B)) ls00 0 false [TLineNo 0] ex_B [] ls' ln' h' acc') /\
  (exists tA tB lsA lsB, lex ls00 (print_cprog ex_A) 0 = Ok (tA, lsA) /\ lex ls00 (print_cprog ex_B) 0 = Ok (tB, lsB) /\
     erase_lineno tA = erase_lineno tB /\ (length (erase_lineno tA) = 16)%nat).
Proof. exact (conj ex_runs_A (conj ex_runs_B ex_same)). Qed.
(* the premise carves out the documented exceptions: run on the command and ONE following character, the reader does not stop
   at that character for  c + blank (a length may follow),  c + '#' (a sharp),  l4 + '|' (bar lines are skipped inside a
   length),  and it does for  o5 + blank,  c + ';',  v100 + '|' *)
Example C18_exceptions :
  snd (fst (read_note 99 (zs " ") 0)) = [] /\ snd (fst (read_note 99 (zs "#") 0)) = [] /\
  (exists x, read_length 96 (zs "4|") 0 = Ok (x, [], 0)) /\
  (exists x, read_octave 96 (zs "5 ") 0 = Ok (x, zs " ", 0)) /\ snd (fst (read_note 99 (zs ";") 0)) = zs ";" /\
  (exists x, read_velocity 96 (zs "100|") 0 = Ok (x, zs "|", 0)).
Proof. repeat split; try (eexists; vm_compute; reflexivity); vm_compute; reflexivity. Qed.

Print Assumptions C18_loop_is_lex.
Print Assumptions C18_loop_is_lex_plain.
Print Assumptions C18_separator_step.
Print Assumptions C18_newline_step.
Print Assumptions C18_get_token.
Print Assumptions C18_comment_step.
Print Assumptions C18_comment_at_eof.
Print Assumptions C18_layout_insensitive.
Print Assumptions C18_fullwidth_command_char.
Print Assumptions C18_dispatch_on_zen2han.
Print Assumptions C18_note_reader_partial.
Print Assumptions C18_notes_layout_partial.
Print Assumptions C18_read_note_local.
Print Assumptions C18_read_rest_local.
Print Assumptions C18_read_harmony_end_local.
Print Assumptions C18_readers_local.
Print Assumptions C18_loop_is_arm.
Print Assumptions C18_command_local.
Print Assumptions C18_runs_loop.
Print Assumptions C18_lex_compositional_partial.
