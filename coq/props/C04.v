(* C04 - note-length expressions denote the documented tick counts and compose additively.
   This file contains only the property statements; every proof is `exact <lemma>`. *)
From Sakura.Model Require Import Base Cursor Length LexCore.
From Sakura.Model Require Expr.
From Sakura.Spec Require Import LenSpec.
From Sakura.Model Require Import Event Song Token RunCore.
From Sakura.Spec Require NoteSem.
From Sakura.Proofs Require Import LengthP LayoutP TimeP NoteSimDefs LenBoundaryP.

(* For every well-formed expression of the grammar  [%]?[-]?digits? dots? ((^|+) part)*,
   every time base and every default length, the reader returns the documented tick count. *)
Theorem C04_denotes : forall (tb d : Z) (e : expr),
  expr_wf e = true -> calc_length (print e) tb d = denote tb d e.
Proof. exact calc_length_denotes. Qed.

(* len(A ^ B) = len(A) + len(B), for every expression A and every further part B. *)
Theorem C04_additive : forall (tb d : Z) (h : atom) (ps : list (bool * atom)) (p : bool * atom),
  expr_wf (h, ps) = true -> part_wf (snd p) = true ->
  calc_length (print (h, ps) ++ print_part p) tb d
  = calc_length (print (h, ps)) tb d + dpart tb d (snd p).
Proof. exact calc_length_additive. Qed.

(* Decimal literals (with or without sign, any number of leading zeros) denote their value and
   the reader stops exactly after them. *)
Theorem C04_literals : forall (def : Z) (neg : bool) (ds r : list Z),
  ds <> [] -> forallb digit_ok ds = true -> after_num_ok r ->
  get_int def ((if neg then [45] else []) ++ map dg ds ++ r)
  = ((if neg then -1 else 1) * numeral ds, r).
Proof. exact get_int_numeral. Qed.

(* non-vacuity: "%10^4.+8.." is a well-formed expression, and the theorem computes on it *)
Definition ex_e : expr :=
  (mkAtom true false [1;0] 0, [(true, mkAtom false false [4] 1); (false, mkAtom false false [8] 2)]).
Example C04_example : expr_wf ex_e = true /\ calc_length (print ex_e) 96 96 = 10 + 144 + 84.
Proof. split; vm_compute; reflexivity. Qed.

(* ---- where a length ends (source_cursor.rs get_note_length) ----
   `len_boundary r` (LenBoundaryP.v, = LayoutP.len_stop r 0): r is empty, or its first character is none of
   0-9 . ^ % - +  (the length alphabet) and none of  space | TAB CR  (dropped inside a length), and if it is a line
   break, the first character after the following blanks, line breaks and comments is not '^'. *)

(* A printed length expression followed by a boundary is read back exactly, the cursor stays at the boundary and the
   line counter is unchanged: a length never swallows the beginning of the next command and never stops early. *)
Theorem C04_token_boundary : forall (e : expr) (r : list Z) (ln : Z),
  expr_wf e = true -> len_boundary r = true ->
  get_note_length (print e ++ r) ln = (print e, r, ln).
Proof. exact len_token_boundary. Qed.

(* Blanks, bars, TABs and CRs anywhere inside or after the length are dropped (they cannot begin a command): for any
   text u over the length alphabet and those blanks, the length text is the length characters of u, in order. *)
Theorem C04_token_blanks : forall (u r : list Z) (ln : Z),
  forallb is_len_or_blank u = true -> len_boundary r = true ->
  get_note_length (u ++ r) ln = (filter is_len_char u, r, ln).
Proof. exact len_token_mixed. Qed.

(* A '^' part may be written on a following line: line break, then blanks / TABs / CRs / further line breaks, then
   '^'; the line counter advances by the line breaks taken. *)
Theorem C04_token_line_break : forall (h : atom) (ps1 : list (bool * atom)) (a : atom) (ps2 : list (bool * atom))
    (w r : list Z) (ln : Z),
  expr_wf (h, ps1 ++ (true, a) :: ps2) = true -> forallb is_ws w = true -> len_boundary r = true ->
  get_note_length (print (h, ps1) ++ 10 :: w ++ flat_map print_part ((true, a) :: ps2) ++ r) ln
  = (print (h, ps1 ++ (true, a) :: ps2), r, ln + 1 + count_nl w).
Proof. exact len_token_line_break. Qed.

(* Safety, for ANY input text and line: the text returned consists of length characters only, they are taken in order
   (`subseq`) from the consumed part u of the input, the cursor is the rest of the input, the line counter does not go
   back, and the reader stopped at a boundary (it never stops while the length could go on).
   The returned text is a PREFIX of the input only when no blank, bar or line break is consumed ("4 ^2" reads as "4^2"):
   C04_token_prefix. *)
Theorem C04_token_safe : forall (s : list Z) (ln : Z),
  let '(t, r, ln') := get_note_length s ln in
  forallb is_len_char t = true /\ (exists u, s = u ++ r /\ subseq t u) /\ ln <= ln' /\ len_boundary r = true.
Proof. exact get_note_length_safe. Qed.

Theorem C04_token_prefix : forall (s : list Z) (ln : Z),
  forallb (fun c => negb (is_len_blank c) && negb (c =? 10)) s = true ->
  s = fst (fst (get_note_length s ln)) ++ snd (fst (get_note_length s ln)).
Proof. exact get_note_length_prefix. Qed.

(* non-vacuity: "%10^4.+8.." before "c", before "\n+8" (a line break not followed by '^'), with inner blanks, and
   continued on the next line *)
Example C04_token_boundary_example :
  len_boundary [99] = true /\ len_boundary [10; 43; 56] = true /\ len_boundary [10; 32; 94] = false
  /\ get_note_length (print ex_e ++ [99]) 7 = (print ex_e, [99], 7)
  /\ get_note_length ([52; 32; 94; 124; 50; 46] ++ [99]) 0 = ([52; 94; 50; 46], [99], 0)
  /\ get_note_length (print (fst ex_e, [(true, mkAtom false false [4] 1)]) ++ 10 :: [13; 10; 32]
                       ++ flat_map print_part [(true, mkAtom false false [8] 2)] ++ [99]) 0
     = (print (fst ex_e, [(true, mkAtom false false [4] 1); (true, mkAtom false false [8] 2)]), [99], 2).
Proof. repeat split; vm_compute; reflexivity. Qed.

(* ---- `!L`: a numeric argument written as a length ----
   The three places of the model where lexer.rs reads `!` + length: read_arg_value (arguments of n o v q t and the
   lists of the reservation commands; a loop count only in the forms [=!L ..] and [(!L) ..]), read_value as used for the literal arguments of the (..) commands
   (LexCore.read_calc_literal) and read_value of the expression language (Expr.read_value).  In all of them `!L` followed by
   a boundary of the length is the tick count of L with the quarter note (= the time base) as the value of omitted parts:
   denote tb tb e.  For read_calc_literal the text after the length must not be an operator character
   (bang_follow r = len_boundary r && not an operator: e.g. ',' ')' or the end) - an operator would continue the expression. *)
Theorem C04_bang : forall (tb : Z) (e : expr) (r : list Z) (ln : Z) (f : nat) (lexvars : list (list Z)),
  expr_wf e = true ->
  (len_boundary r = true -> read_arg_value (S f) tb (33 :: print e ++ r) ln = Ok (AInt (denote tb tb e), r, ln)) /\
  (bang_follow r = true -> read_calc_literal tb (33 :: print e ++ r) ln = Ok (Some (denote tb tb e), r, ln)) /\
  (len_boundary r = true -> Expr.read_value tb lexvars (S f) (33 :: print e ++ r) = Ok (Some (Expr.TConstInt (denote tb tb e)), r)).
Proof. exact bang_all. Qed.

(* blanks and TABs between the argument position and the '!' are skipped *)
Theorem C04_bang_blanks : forall (f : nat) (tb : Z) (bl : list Z) (e : expr) (r : list Z) (ln : Z),
  forallb (fun c => (c =? 32) || (c =? 9)) bl = true -> expr_wf e = true -> len_boundary r = true ->
  read_arg_value (S f) tb (bl ++ 33 :: print e ++ r) ln = Ok (AInt (denote tb tb e), r, ln).
Proof. exact read_arg_value_bang_blanks. Qed.

(* a parenthesised list "(!L1,!L2,...)" as the reservation commands read it (v.onTime(..) etc.): the tick counts, in order *)
Theorem C04_bang_array : forall (tb : Z) (es : list expr) (r : list Z) (ln : Z), es <> [] -> forallb expr_wf es = true ->
  read_arg_int_array tb (40 :: print_bangs es ++ 41 :: r) ln = Ok (map (denote tb tb) es, r, ln).
Proof. exact read_arg_int_array_bangs. Qed.

(* non-vacuity: "!%10^4.+8.." at time base 480 before ")" ; and the mixed list "(0,127,!1)" of the property text *)
Example C04_bang_example :
  bang_follow [41] = true /\ len_boundary [41] = true /\
  read_arg_value 1 480 (33 :: print ex_e ++ [41]) 0 = Ok (AInt (10 + 720 + 420), [41], 0) /\
  read_calc_literal 480 (33 :: print ex_e ++ [41]) 0 = Ok (Some (10 + 720 + 420), [41], 0) /\
  Expr.read_value 480 [] 1 (33 :: print ex_e ++ [41]) = Ok (Some (Expr.TConstInt (10 + 720 + 420)), [41]) /\
  read_arg_int_array 96 [40; 48; 44; 49; 50; 55; 44; 33; 49; 41] 0 = Ok ([0; 127; 384], [], 0) /\
  read_arg_int_array 96 (40 :: print_bangs [ex_e; (mkAtom false false [2] 1, [])] ++ 41 :: [99]) 0 = Ok ([10 + 144 + 84; 288], [99], 0).
Proof. repeat split; vm_compute; reflexivity. Qed.

(* ---- lengths inside the note language: C04_token_boundary composed with C04_denotes ----
   The three readers of the note language that take a length: `l` (read_length), `r` (read_rest) and the lettered notes
   (read_note).  Each has its own characters directly after the command letter, which a length must not start with:
     l   '.' + one of the words Random onTime T onNote N onCycle C is the reservation syntax (l.onNote(..)); with any other
         word, or none, the dot belongs to the length ("l." = the dotted default; /repo eb20c24).  l_dot_ok s: s does not
         start with '.', or the word after that dot is none of these.  Only the length "." alone needs it (C04_l_dot_ok)
     r   '*' '-'        ("r-4" is a backward rest)
     c   '+' '#' '-' '*' (accidentals / natural: "c-4" is c flat, 4)
   Reading `print e ++ r` yields the token carrying the text of e and the cursor at r (after blanks / comments for r);
   executing it moves the time pointer by denote tb d e, d being the track's default length (for `l`: sets the default to
   denote tb tb e).  The execution half is proved for rest and `l` in ANY state with a current track, for the lettered
   note in the states of the C03 simulation (R s q: nothing reserved by onNote/onTime, no tie pending, no chord open). *)
Theorem C04_in_program_rest : forall (ec : list tok -> res song -> res song) (e : expr) (r : list Z) (ln : Z) (s : song),
  expr_wf e = true -> len_boundary r = true ->
  eq_char (print e ++ r) 42 = false -> eq_char (print e ++ r) 45 = false -> cur_valid s ->
  let '(t, r', _) := read_rest (print e ++ r) ln in
  t = TRest 1 (print e) /\ r' = fst (skip_space r ln) /\
  exists s', step_song ec t s = Ok s' /\
    tr_timepos (cur_track s') = tr_timepos (cur_track s) + denote (s_timebase s) (tr_length (cur_track s)) e.
Proof. exact rest_in_program. Qed.

Theorem C04_in_program_length : forall (ec : list tok -> res song -> res song) (tb : Z) (e : expr) (r : list Z) (ln : Z) (s : song),
  expr_wf e = true -> len_boundary r = true -> l_dot_ok (print e ++ r) = true -> cur_valid s ->
  exists t, read_length tb (print e ++ r) ln = Ok (Some t, r, ln) /\ t = TLength (print e) /\
  exists s', step_song ec t s = Ok s' /\ tr_length (cur_track s') = denote (s_timebase s) (s_timebase s) e /\
             tr_timepos (cur_track s') = tr_timepos (cur_track s).
Proof. exact length_in_program. Qed.

(* note_boundary r ln (LayoutP.v) = boundary of the length and none of the optional continuations of a note (',' '&' "/*") *)
Theorem C04_in_program_note : forall (ec : list tok -> res song -> res song) (z : Z) (fl : list Z) (e : expr) (r : list Z) (ln : Z)
    (s : song) (q : NoteSem.perf),
  forallb is_flag_char fl = true -> expr_wf e = true -> note_boundary r ln = true ->
  is_flag_char (peek0 (print e ++ r)) = false -> R s q ->
  exists t, read_note z (fl ++ print e ++ r) ln = (t, r, ln) /\ tok_length t = print e /\
  exists s', step_song ec t s = Ok s' /\
    tr_timepos (cur_track s') = tr_timepos (cur_track s) + denote (s_timebase s) (tr_length (cur_track s)) e.
Proof. exact note_in_program. Qed.

(* every length expression other than the single dot satisfies l_dot_ok, whatever follows it: dotted defaults "l.." "l.^8",
   and of course everything that does not start with a dot *)
Theorem C04_l_dot_ok : forall (e : expr) (r : list Z),
  expr_wf e = true -> len_boundary r = true -> print e <> [46] -> l_dot_ok (print e ++ r) = true.
Proof. exact l_dot_ok_auto. Qed.

(* the length field of a lettered note is the expression whatever follows the boundary (gate, velocity, timing, octave, '&') *)
Theorem C04_in_program_note_field : forall (z : Z) (fl : list Z) (e : expr) (r : list Z) (ln : Z),
  forallb is_flag_char fl = true -> expr_wf e = true -> len_boundary r = true ->
  is_flag_char (peek0 (print e ++ r)) = false ->
  tok_length (fst (fst (read_note z (fl ++ print e ++ r) ln))) = print e.
Proof. exact read_note_len. Qed.

(* non-vacuity: "r%10^4.+8.. c", "l%10^4.+8.. c", "c+%10^4.+8..,50 d" *)
Example C04_in_program_example :
  read_rest (print ex_e ++ [32; 99]) 0 = (TRest 1 (print ex_e), [99], 0) /\
  (exists s', step_song (fun _ r => r) (TRest 1 (print ex_e)) song_new = Ok s' /\ tr_timepos (cur_track s') = 10 + 144 + 84) /\
  read_length 96 (print ex_e ++ [32; 99]) 0 = Ok (Some (TLength (print ex_e)), [99], 0) /\
  tok_length (fst (fst (read_note 99 ([43] ++ print ex_e ++ [44; 53; 48; 32; 100]) 0))) = print ex_e /\
  cur_valid song_new.
Proof.
  split; [vm_compute; reflexivity|]. split; [eexists; split; vm_compute; reflexivity|].
  split; [vm_compute; reflexivity|]. split; [vm_compute; reflexivity|]. unfold cur_valid. vm_compute. lia.
Qed.
(* "l. c": the dotted default length - the token carries ".", l_dot_ok holds, and after it a c moves the pointer by 144 ticks
   at time base 96; "l.. c" carries both dots; in "l.c d" the c is left to be read as a note; "l.onNote(1)" and "l.N(1)" are
   reservations (the one place where l_dot_ok fails) *)
Definition ex_dot : expr := (mkAtom false false [] 1, []).
Example C04_l_dot :
  print ex_dot = [46] /\ l_dot_ok (print ex_dot ++ [32; 99]) = true /\
  read_length 96 [46; 32; 99] 0 = Ok (Some (TLength [46]), [99], 0) /\
  read_length 96 [46; 46; 32; 99] 0 = Ok (Some (TLength [46; 46]), [99], 0) /\
  read_length 96 [46; 99; 32; 100] 0 = Ok (Some (TLength [46]), [99; 32; 100], 0) /\
  (exists s1 s2, step_song (fun _ r => r) (TLength [46]) song_new = Ok s1 /\ tr_length (cur_track s1) = 144 /\
     step_song (fun _ r => r) (TNote 0 0 0 [] 0 (-1) ISIZE_MIN (-1) 0) s1 = Ok s2 /\ tr_timepos (cur_track s2) = 144) /\
  l_dot_ok ([46] ++ [111; 110; 78; 111; 116; 101; 40; 49; 41]) = false /\ l_dot_ok ([46] ++ [78; 40; 49; 41]) = false /\
  read_length 96 [46; 78; 40; 49; 41] 0 = Ok (Some (TOnNote Reserve.WL false [1]), [], 0).
Proof.
  do 5 (split; [vm_compute; reflexivity|]).
  split; [eexists; eexists; split; [vm_compute; reflexivity|]; split; [vm_compute; reflexivity|]; split; vm_compute; reflexivity|].
  repeat split; vm_compute; reflexivity.
Qed.

Print Assumptions C04_denotes.
Print Assumptions C04_additive.
Print Assumptions C04_literals.
Print Assumptions C04_token_boundary.
Print Assumptions C04_token_blanks.
Print Assumptions C04_token_line_break.
Print Assumptions C04_token_safe.
Print Assumptions C04_token_prefix.
Print Assumptions C04_bang.
Print Assumptions C04_bang_blanks.
Print Assumptions C04_bang_array.
Print Assumptions C04_in_program_rest.
Print Assumptions C04_in_program_length.
Print Assumptions C04_in_program_note.
Print Assumptions C04_in_program_note_field.
Print Assumptions C04_l_dot_ok.
