(* C04 - note-length expressions denote the documented tick counts and compose additively.
   This file contains only the property statements; every proof is `exact <lemma>`. *)
From Sakura.Model Require Import Base Cursor Length.
From Sakura.Spec Require Import LenSpec.
From Sakura.Proofs Require Import LengthP.

(* For every well-formed expression of the grammar  [%]?[-]?digits? dots? ((^|+) part)*,
   every time base and every default length, the reader returns the documented tick count. *)
Theorem C04_denotes : forall (tb d : Z) (e : expr),
  expr_wf e = true -> calc_length (print e) tb d = denote tb d e.
Proof. exact calc_length_denotes. Qed.

(* len(A ^ B) = len(A) + len(B), for every expression A and every further part B. *)
Theorem C04_additive : forall (tb d : Z) (h : atom) (ps : list (bool * atom)) (p : bool * atom),
  expr_wf (h, ps) = true -> part_wf (snd p) = true ->
  calc_length (print (h, ps) ++ print_part p) tb d
  = calc_length (print (h, ps)) tb d + dpart tb d (snd p).
Proof. exact calc_length_additive. Qed.

(* Decimal literals (with or without sign, any number of leading zeros) denote their value and
   the reader stops exactly after them. *)
Theorem C04_literals : forall (def : Z) (neg : bool) (ds r : list Z),
  ds <> [] -> forallb digit_ok ds = true -> after_num_ok r ->
  get_int def ((if neg then [45] else []) ++ map dg ds ++ r)
  = ((if neg then -1 else 1) * numeral ds, r).
Proof. exact get_int_numeral. Qed.

(* non-vacuity: "%10^4.+8.." is a well-formed expression, and the theorem computes on it *)
Definition ex_e : expr :=
  (mkAtom true false [1;0] 0, [(true, mkAtom false false [4] 1); (false, mkAtom false false [8] 2)]).
Example C04_example : expr_wf ex_e = true /\ calc_length (print ex_e) 96 96 = 10 + 144 + 84.
Proof. split; vm_compute; reflexivity. Qed.

Print Assumptions C04_denotes.
Print Assumptions C04_additive.
Print Assumptions C04_literals.
