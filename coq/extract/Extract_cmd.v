(* Extraction for the C15 area: the command model, the prescription (specification) and the tables. *)
From Coq Require Import ExtrOcamlBasic.
From Sakura.Model Require Import Base Event Utf8 Cmd Writer.
From Sakura.Spec Require Import SmfSpec TrackSpec GmSpec Utf8Spec CmdSpec.
From Sakura.Gen Require Import SysFuncTable VoiceTable DocTable.
Extraction Language OCaml.
Extraction "../ocaml/cmd_model.ml"
  Cmd.run_any Cmd.run_command Cmd.cmd_sysex Cmd.mkC
  Writer.generate_track TrackSpec.wire TrackSpec.EOTmsg
  CmdSpec.prescription_of CmdSpec.spec_msgs CmdSpec.spec_items
  Utf8Spec.utf8 Utf8Spec.utf8_decode Utf8.utf8_encode
  SysFuncTable.sysfuncs SysFuncTable.ttype_name SysFuncTable.sysfunc_count
  VoiceTable.voices
  DocTable.doc_cc DocTable.doc_alias_groups DocTable.doc_command_names DocTable.doc_values
  DocTable.doc_voices DocTable.doc_drumsets DocTable.doc_drumnotes DocTable.doc_rhythm
  GmSpec.gm_programs GmSpec.gm_percussion GmSpec.DEFAULT_DEVICE GmSpec.roland_ok GmSpec.roland_checksum.
