(* Extraction of the expression model (reader + evaluation) and of the specification oracles of C10. *)
From Coq Require Import ExtrOcamlBasic.
From Sakura.Model Require Import Base Cursor Length Expr.
From Sakura.Spec Require Import ExprSpec.
Extraction Language OCaml.
Extraction "../ocaml/expr_model.ml"
  Expr.read_calc Expr.eval Expr.eval_text Expr.to_s Expr.to_i Expr.sys_function Expr.vb_mid Expr.str_replace
  Expr.chr_of Expr.dec_of Expr.parse_isize Cursor.get_int
  ExprSpec.print ExprSpec.print_lay ExprSpec.denote ExprSpec.show ExprSpec.expr_ok ExprSpec.lit_value ExprSpec.lit_text
  ExprSpec.mid ExprSpec.size_of ExprSpec.replace_all ExprSpec.chr ExprSpec.is_scalar ExprSpec.array_get ExprSpec.no_str.
