(* Extraction of the sutoton model and of the rewriting specification (oracles) to OCaml.
   Only ExtrOcamlBasic is used; Z, positive, nat stay extracted inductives. *)
From Coq Require Import ExtrOcamlBasic.
From Sakura.Model Require Import Base Cursor Cursor2 Zen2han Sutoton.
From Sakura.Gen Require Import SutotonTable.
From Sakura.Spec Require Import RewriteSpec.
Extraction Language OCaml.
Extraction "../ocaml/sutoton_model.ml"
  Sutoton.convert Sutoton.init_items Sutoton.conv_loop Zen2han.zen2han Cursor2.trim Cursor2.trim_end
  SutotonTable.sutoton_table
  RewriteSpec.longest_match RewriteSpec.translit RewriteSpec.src_of RewriteSpec.segmented
  BinInt.Z.add BinInt.Z.mul BinInt.Z.opp
  RewriteSpec.rewrite RewriteSpec.define RewriteSpec.line_breaks RewriteSpec.definition_residue RewriteSpec.strip RewriteSpec.strip_right RewriteSpec.width_map RewriteSpec.is_special.
