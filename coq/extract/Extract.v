(* Extraction of the executable model and of the specification oracles to OCaml.
   Only ExtrOcamlBasic is used (bool, option, unit, list, prod, sumbool, sumor -> OCaml natives);
   Z, positive, N, nat stay extracted inductives; no Extract Constant / Extract Inductive of ours. *)
From Coq Require Import ExtrOcamlBasic.
From Sakura.Model Require Import Base Cursor Length.
From Sakura.Spec Require Import LenSpec.
Extraction Language OCaml.
Extraction "../ocaml/sakura_model.ml"
  Cursor.get_int Cursor.get_note_length
  Length.calc_length
  LenSpec.print LenSpec.denote LenSpec.expr_wf LenSpec.dpart LenSpec.print_part LenSpec.part_wf.
