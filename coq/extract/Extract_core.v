(* Extraction of the executable model and of the specification oracles to OCaml.
   Only ExtrOcamlBasic is used (bool, option, unit, list, prod, sumbool, sumor -> OCaml natives);
   Z, positive, N, nat stay extracted inductives; no Extract Constant / Extract Inductive of ours. *)
From Coq Require Import ExtrOcamlBasic.
From Sakura.Model Require Import Base Cursor Length Event Writer Song Token LexCore RunCore Compile.
From Sakura.Spec Require Import LenSpec SmfSpec TrackSpec NoteSem.
From Sakura.Proofs Require Import NoteSimDefs.
Extraction Language OCaml.
Extraction "../ocaml/core_model.ml"
  Cursor.get_int Cursor.get_note_length
  Length.calc_length
  NoteSem.pprog NoteSem.denote_prog
  Compile.compile Compile.compile_lang Compile.run_source LexCore.lex Compile.play_from
  Writer.generate Writer.generate_track Writer.normalize_and_sort Writer.push_delta Event.ev_sysex
  SmfSpec.vlq_decode SmfSpec.decode_track SmfSpec.parse_file SmfSpec.container_ok
  TrackSpec.wire TrackSpec.event_ok TrackSpec.deltas_ok TrackSpec.EOTmsg TrackSpec.abs_ticks
  LenSpec.print LenSpec.denote LenSpec.expr_wf LenSpec.dpart LenSpec.print_part LenSpec.part_wf
  NoteSimDefs.top_tokens NoteSimDefs.lex_of_prog NoteSimDefs.wf_prog NoteSimDefs.lexable_prog.
