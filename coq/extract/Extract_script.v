(* Extraction of the script-layer model (C11): lexer, runner, pipeline. *)
From Coq Require Import ExtrOcamlBasic.
From Sakura.Model Require Import Base Script.
Extraction Language OCaml.
Extraction "../ocaml/script_model.ml" Script.compile_script Script.compile_script_lang Script.run_script Script.lex_script.
