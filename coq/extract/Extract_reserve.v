(* Extraction of the reservation model (C16) to OCaml. Only ExtrOcamlBasic; Z, positive, nat and
   spec_float stay extracted inductives; no Extract Constant / Extract Inductive of ours. *)
From Coq Require Import ExtrOcamlBasic.
From Sakura.Model Require Import Base Event F32 Reserve.
Extraction Language OCaml.
Extraction "../ocaml/reserve_model.ml"
  F32.f32_of_Z F32.f32_mul F32.f32_div F32.f32_add F32.f32_to_Z F32.ramp_value
  Reserve.calc_on_note Reserve.run_calls Reserve.calc_v_on_time
  Reserve.write_cc_on_time Reserve.write_pb_on_time
  Reserve.set_cc_on_note Reserve.set_cc_on_note_wave Reserve.remove_cc_on
  Reserve.write_cc_on_note Reserve.write_cc_on_note_wave Reserve.run_cc_notes
  Reserve.rand_next Reserve.calc_rand_value Reserve.rand_seq Reserve.rand_values
  Reserve.set_timepos Reserve.set_v_on_time Reserve.set_res Reserve.get_res Reserve.get_stored Reserve.set_stored
  Reserve.exec_cmds Reserve.rstate_new Reserve.track_new.
