(* Extraction of the dump model (C20). ExtrOcamlBasic only. *)
From Coq Require Import ExtrOcamlBasic.
From Sakura.Model Require Import Base Dump.
Extraction Language OCaml.
Extraction "../ocaml/dump_model.ml" Dump.dump_text Dump.dump_midi Dump.read_delta.
