(* midi.rs, the reader half: array_read_str/u16/u32, array_readl_delta_time, dump_midi_event_meta,
   note_no_dec, dump_midi_event, dump_midi(bin, false).

   Cursor convention (DESIGN 3.2): `*pos` is carried as the pair (pos, rest) with rest = skipn pos bin,
   advanced together; `bin[p + k]` is `nth_error rest k` (None = the index panic of Rust),
   `*pos < bin.len()` is `rest <> []`.  Text is a list of code points, one list per `log(..)` call.
   Integers: usize/isize are unbounded Z; the two places where 64-bit arithmetic of the reader can
   leave its range are written out (`v << 7` loses the high bits, `time += delta` panics in the debug
   profile used by the harness), as are `bin[p+1] + 1` on u8 and `2i32.pow(dd)` on i32.
   f32: `(timebase as f32 * 4.0 / info.deno as f32) as usize` is modelled in exact arithmetic
   (4 * timebase / deno, truncated): timebase < 2^16 and 4 * timebase are exact in f32, deno is a power
   of two <= 2^30 and dividing by a power of two is exact in this range. *)
From Sakura.Model Require Import Base.
From Coq Require String Ascii.
Import String.StringSyntax.
Delimit Scope string_scope with string.
Open Scope Z_scope.

Notation line := (list Z) (only parsing).

(* ---- literals: ASCII string -> code points, evaluated at definition time ---- *)
Fixpoint str (s : String.string) : list Z :=
  match s with
  | String.EmptyString => []
  | String.String c r => Z.of_nat (Ascii.nat_of_ascii c) :: str r
  end.
Arguments str s%string.

(* ---- format!("{}"), "{:03}", "{:02x}", "{:02X}" ---- *)
(* decimal digits of n >= 0; the number of digits never exceeds the number of bits *)
Fixpoint dec_fuel (fuel : nat) (n : Z) : list Z :=
  match fuel with
  | O => [48 + n mod 10]
  | S f => if n <? 10 then [48 + n] else dec_fuel f (n / 10) ++ [48 + n mod 10]
  end.
Definition dec_nat (n : Z) : list Z := dec_fuel (Z.to_nat (Z.log2 n)) n.
Definition dec (n : Z) : list Z := if n <? 0 then 45 :: dec_nat (- n) else dec_nat n.
Definition pad3 (s : list Z) : list Z := repeat 48 (3 - length s) ++ s.
Definition dec3 (n : Z) : list Z := pad3 (dec_nat n).
Definition hexdigit (upper : bool) (d : Z) : Z := if d <? 10 then 48 + d else (if upper then 55 else 87) + d.
(* the arguments are u8 (or a usize read from a byte): exactly two digits *)
Definition hex2 (b : Z) : list Z := [hexdigit false (b / 16); hexdigit false (b mod 16)].
Definition HEX2 (b : Z) : list Z := [hexdigit true (b / 16); hexdigit true (b mod 16)].

(* ---- String::from_utf8 (strict: shortest form, no surrogates, <= U+10FFFF) ---- *)
Definition cont (b : Z) : bool := (128 <=? b) && (b <=? 191).
Fixpoint utf8_decode (bs : list byte) : option (list Z) :=
  match bs with
  | [] => Some []
  | b0 :: r0 =>
      if b0 <? 128 then option_map (cons b0) (utf8_decode r0)
      else if (194 <=? b0) && (b0 <=? 223) then
        match r0 with
        | b1 :: r1 => if cont b1 then option_map (cons ((b0 - 192) * 64 + (b1 - 128))) (utf8_decode r1) else None
        | _ => None
        end
      else if (224 <=? b0) && (b0 <=? 239) then
        match r0 with
        | b1 :: b2 :: r2 =>
            let lo := if b0 =? 224 then 160 else 128 in
            let hi := if b0 =? 237 then 159 else 191 in
            if (lo <=? b1) && (b1 <=? hi) && cont b2 then
              option_map (cons (((b0 - 224) * 64 + (b1 - 128)) * 64 + (b2 - 128))) (utf8_decode r2)
            else None
        | _ => None
        end
      else if (240 <=? b0) && (b0 <=? 244) then
        match r0 with
        | b1 :: b2 :: b3 :: r3 =>
            let lo := if b0 =? 240 then 144 else 128 in
            let hi := if b0 =? 244 then 143 else 191 in
            if (lo <=? b1) && (b1 <=? hi) && cont b2 && cont b3 then
              option_map (cons ((((b0 - 240) * 64 + (b1 - 128)) * 64 + (b2 - 128)) * 64 + (b3 - 128))) (utf8_decode r3)
            else None
        | _ => None
        end
      else None
  end.

(* array_read_str(a, pos, len) with rest = a[pos..]: the slice a[pos..pos+len] panics when it runs
   over the end; valid UTF-8 is decoded, anything else is read as one char per byte.
   (Every call site has pos <= a.len().) *)
Definition decode_text (sub : list byte) : list Z :=
  match utf8_decode sub with Some s => s | None => sub end.
Definition read_str (rest : list byte) (len : Z) : res (list Z) :=
  if zlen rest <? len then Panic 20
  else Ok (decode_text (firstn (Z.to_nat len) rest)).

(* array_read_u16 / array_read_u32: big endian over the bytes that exist (no panic) *)
Definition read_be (k : nat) (rest : list byte) : Z :=
  fold_left (fun v b => Z.lor (Z.shiftl v 8) b) (firstn k rest) 0.
Definition read_u16 := read_be 2.
Definition read_u32 := read_be 4.

(* array_readl_delta_time: while *pos < a.len() { cv = a[*pos]; *pos += 1; if cv < 0x80 { v = v<<7|cv; break }
   v = v<<7 | (cv & 0x7F) }.  Returns the value and the remaining suffix. *)
Definition shl7 (v : Z) : Z := Z.shiftl v 7 mod 2 ^ 64.
Fixpoint read_delta_acc (v : Z) (rest : list byte) : Z * list byte :=
  match rest with
  | [] => (v, [])
  | cv :: r =>
      if cv <? 128 then (Z.lor (shl7 v) cv, r)
      else read_delta_acc (Z.lor (shl7 v) (Z.land cv 127)) r
  end.
Definition read_delta (rest : list byte) : Z * list byte := read_delta_acc 0 rest.

(* ---- MidiReaderInfo ---- *)
Record info := mkInfo { i_frac : Z; i_deno : Z; i_eot : bool }.
Definition info_new : info := mkInfo 4 4 false.

Definition byte_at (rest : list byte) (k : nat) : res byte :=
  match nth_error rest k with Some b => Ok b | None => Panic 21 end.

Definition s_eot : list Z := Eval compute in str "/* __END_OF_TRACK__ */".
Definition s_tempo : list Z := Eval compute in str "Tempo=".
Definition s_timesig : list Z := Eval compute in str "TimeSig=".
Definition s_meta_type : list Z := Eval compute in str "// Meta Type=$".
Definition s_length : list Z := Eval compute in str " Length=".
Definition s_text_eq : list Z := Eval compute in str " Text=".
Definition s_sysex : list Z := Eval compute in str "SysEx$=".
Definition s_len_open : list Z := Eval compute in str "/*len:".
Definition s_len_close : list Z := Eval compute in str "*/".
Definition s_unknown_meta : list Z := Eval compute in str "// [ERROR] Unknown meta event...=".
Definition s_unknown_event : list Z := Eval compute in str "// [ERROR] Unknown event...=".

Definition s_m1 : list Z := Eval compute in str "TEXT".
Definition s_m2 : list Z := Eval compute in str "COPYRIGHT".
Definition s_m3 : list Z := Eval compute in str "TRACK_NAME".
Definition s_m4 : list Z := Eval compute in str "INSTRUMENT_NAME".
Definition s_m5 : list Z := Eval compute in str "LYRIC".
Definition s_m6 : list Z := Eval compute in str "MARKER".
Definition s_m7 : list Z := Eval compute in str "CUE_POINT".
Definition meta_name (meta_type meta_len : Z) : list Z :=
  if meta_type =? 1 then s_m1
  else if meta_type =? 2 then s_m2
  else if meta_type =? 3 then s_m3
  else if meta_type =? 4 then s_m4
  else if meta_type =? 5 then s_m5
  else if meta_type =? 6 then s_m6
  else if meta_type =? 7 then s_m7
  else s_meta_type ++ hex2 meta_type ++ s_length ++ dec meta_len ++ s_text_eq.

(* the SysEx arm: prints from the F0 byte itself up to and including the first F7 (or the end of
   the file); the byte at index 1 is shown as the length *)
Fixpoint sysex_scan (rest : list byte) (index : nat) : list Z * nat :=
  match rest with
  | [] => ([], O)
  | b :: r =>
      let piece := match index with
                   | 1%nat => s_len_open ++ HEX2 b ++ s_len_close
                   | _ => HEX2 b ++ (if b =? 247 then [] else [44])
                   end in
      if b =? 247 then (piece, 1%nat)
      else let '(m, k) := sysex_scan r (S index) in (piece ++ m, S k)
  end.

(* dump_midi_event_meta: description, number of bytes `*pos` advances, new info *)
Definition dump_event_meta (rest : list byte) (inf : info) : res (list Z * nat * info) :=
  do mtype <- byte_at rest 0;
  do meta_type <- byte_at rest 1;
  do meta_len <- byte_at rest 2;
  if mtype =? 255 then
    do mi <-
      (if meta_type =? 47 then Ok (s_eot, mkInfo (i_frac inf) (i_deno inf) true)
       else if meta_type =? 81 then
         do b3 <- byte_at rest 3; do b4 <- byte_at rest 4; do b5 <- byte_at rest 5;
         let mpq := Z.lor (Z.lor (Z.shiftl b3 16) (Z.shiftl b4 8)) b5 in
         let tempo := if mpq =? 0 then 0 else Z.quot 60000000 mpq in
         Ok (s_tempo ++ dec tempo, inf)
       else if meta_type =? 88 then
         do nn <- byte_at rest 3; do dd <- byte_at rest 4;
         (* 2usize.saturating_pow(dd): any exponent byte *)
         let deno := if dd >=? 64 then 2 ^ 64 - 1 else 2 ^ dd in
         Ok (s_timesig ++ dec nn ++ [47] ++ dec deno, mkInfo nn deno (i_eot inf))
       else
         do txt <- read_str (skipn 3 rest) meta_len;
         Ok (meta_name meta_type meta_len ++ [123] ++ txt ++ [125; 59], inf));
    let '(msg, inf') := mi in
    Ok (msg, Z.to_nat (3 + meta_len), inf')
  else if mtype =? 240 then
    let '(m, k) := sysex_scan rest O in
    Ok (s_sysex ++ m ++ [59], k, inf)
  else Ok (s_unknown_meta ++ hex2 meta_type, O, inf).

Definition note_names : list (list Z) :=
  Eval compute in [str "c"; str "c#"; str "d"; str "d#"; str "e"; str "f"; str "f#"; str "g"; str "g#"; str "a"; str "a#"; str "b"].
Definition note_name (k : Z) : list Z := nth (Z.to_nat k) note_names [].
Definition note_no_dec (no : Z) : list Z := [111] ++ dec (Z.quot no 12) ++ note_name (Z.rem no 12).

Definition s_noteoff : list Z := Eval compute in str "NoteOff($".
Definition s_noteon : list Z := Eval compute in str "NoteOn($".
Definition s_direct : list Z := Eval compute in str "DirectSMF($".
Definition s_cc : list Z := Eval compute in str "CC($".
Definition s_voice : list Z := Eval compute in str "Voice(".
Definition s_comma_d : list Z := Eval compute in str ",$".
Definition s_close_c : list Z := Eval compute in str ") // ".
Definition s_close_c2 : list Z := Eval compute in str ")  // ".
Definition s_close_d : list Z := Eval compute in str ") // $".
Definition s_chan_at : list Z := Eval compute in str ") // Channel after touch".
Definition s_pb : list Z := Eval compute in str "PitchBend(".
Definition s_pb_p : list Z := Eval compute in str ") /* p".
Definition s_pb_end : list Z := Eval compute in str " */".

(* dump_midi_event *)
Definition dump_event (rest : list byte) (inf : info) : res (list Z * nat * info) :=
  do b0 <- byte_at rest 0;
  let event_type := Z.land b0 240 in
  if event_type =? 128 then
    do b1 <- byte_at rest 1; do b2 <- byte_at rest 2;
    Ok (s_noteoff ++ hex2 b1 ++ s_comma_d ++ hex2 b2 ++ s_close_c ++ note_no_dec b1, 3%nat, inf)
  else if event_type =? 144 then
    do b1 <- byte_at rest 1; do b2 <- byte_at rest 2;
    Ok (s_noteon ++ hex2 b1 ++ s_comma_d ++ hex2 b2 ++ s_close_c2 ++ note_no_dec b1 ++ [44; 44] ++ dec b2, 3%nat, inf)
  else if event_type =? 160 then
    do b1 <- byte_at rest 1; do b2 <- byte_at rest 2;
    Ok (s_direct ++ hex2 b0 ++ s_comma_d ++ hex2 b1 ++ s_comma_d ++ hex2 b2 ++ [41], 3%nat, inf)
  else if event_type =? 176 then
    do b1 <- byte_at rest 1; do b2 <- byte_at rest 2;
    Ok (s_cc ++ hex2 b1 ++ s_comma_d ++ hex2 b2 ++ [41], 3%nat, inf)
  else if event_type =? 192 then
    do b1 <- byte_at rest 1;
    if b1 =? 255 then Panic 24 (* bin[p+1] + 1 on u8 *)
    else Ok (s_voice ++ dec (b1 + 1) ++ s_close_d ++ hex2 b0 ++ s_comma_d ++ hex2 b1, 2%nat, inf)
  else if event_type =? 208 then
    do b1 <- byte_at rest 1;
    Ok (s_direct ++ hex2 b0 ++ s_comma_d ++ hex2 b1 ++ s_chan_at, 2%nat, inf)
  else if event_type =? 224 then
    do b2 <- byte_at rest 2; do b1 <- byte_at rest 1;
    let vv := Z.lor (Z.shiftl b2 7) b1 - 8192 in
    let vv2 := vv + 8192 in
    let pb := Z.land (Z.shiftr vv2 7) 127 in
    Ok (s_pb ++ dec vv ++ s_pb_p ++ dec pb ++ s_pb_end, 3%nat, inf)
  else if event_type =? 240 then dump_event_meta rest inf
  else Ok (s_unknown_event ++ hex2 event_type, O, inf).

(* the TIME(m:b:t) arithmetic of the track loop *)
Definition beat_base (timebase deno : Z) : Z :=
  let bb := 4 * timebase / deno in
  if bb =? 0 then timebase else bb.
(* tick = time % beat_base; base = time / beat_base; beat = base % frac + 1; mes = base / frac + 1 *)
Definition position (bb frac time : Z) : Z * Z * Z :=
  let tick := time mod bb in
  let base := time / bb in
  (base / frac + 1, base mod frac + 1, tick).
Definition s_time : list Z := Eval compute in str "TIME(".
Definition time_prefix (mes beat tick : Z) : list Z :=
  s_time ++ dec3 mes ++ [58] ++ dec3 beat ++ [58] ++ dec3 tick ++ [41; 32].

(* while pos < end_pos || !info.is_eot { ... }: every pass either panics or consumes a byte,
   so fuel = S (length bin) is never exhausted (DumpP.track_loop_fuel) *)
Fixpoint track_loop (fuel : nat) (timebase : Z) (inf : info) (pos end_pos time : Z) (rest : list byte)
  : res (list line * info * Z * list byte) :=
  match fuel with
  | O => OutOfFuel
  | S f =>
      if (pos <? end_pos) || negb (i_eot inf) then
        let '(dt, rest1) := read_delta rest in
        let pos1 := pos + (zlen rest - zlen rest1) in
        let time1 := time + dt in
        if time1 >=? 2 ^ 64 then Panic 25 (* time += delta_time *)
        else
          let bb := beat_base timebase (i_deno inf) in
          if bb =? 0 then Panic 26 (* time % 0 *)
          else
            (* a numerator byte of 0 counts as 1 *)
            let frac := if i_frac inf =? 0 then 1 else i_frac inf in
            let '(mes, beat, tick) := position bb frac time1 in
            do d <- dump_event rest1 inf;
            let '(desc, k, inf1) := d in
            do more <- track_loop f timebase inf1 (pos1 + Z.of_nat k) end_pos time1 (skipn k rest1);
            let '(lines, inf2, pos2, rest2) := more in
            Ok ((time_prefix mes beat tick ++ desc) :: lines, inf2, pos2, rest2)
      else Ok ([], inf, pos, rest)
  end.

Definition s_mthd : list Z := Eval compute in str "MThd".
Definition s_mtrk : list Z := Eval compute in str "MTrk".
Definition s_not_midi : list Z := Eval compute in str "[ERROR] Not Midi file".
Definition s_size_err : list Z := Eval compute in str "[ERROR] Midi MThd size error 6!=".
Definition s_format_err : list Z := Eval compute in str "[ERROR] Midi Format error".
Definition s_banner : list Z := Eval compute in str "// ----- MIDI DUMP DATA -----".
Definition s_format : list Z := Eval compute in str "/// [MThd] midi format=".
Definition s_track_count : list Z := Eval compute in str "/// [MThd] track_count=".
Definition s_timebase : list Z := Eval compute in str "TIMEBASE=".
Definition s_track_banner : list Z := Eval compute in str "// ----- TRACK -----".
Definition s_track : list Z := Eval compute in str "TRACK(".
Definition s_broken : list Z := Eval compute in str "// [ERROR] Track header broken MTrk!=".

(* for no in 0..track_count *)
Fixpoint tracks_loop (n : nat) (no : Z) (fuel : nat) (timebase : Z) (inf : info) (pos : Z) (rest : list byte)
  : res (list line) :=
  match n with
  | O => Ok []
  | S n' =>
      let l1 := s_track_banner in
      let l2 := s_track ++ dec no ++ [41] in
      do mtrk <- read_str rest 4;
      if negb (list_eqb mtrk s_mtrk) then Ok [l1; l2; s_broken ++ mtrk]
      else
        let mtrk_size := read_u32 (skipn 4 rest) in
        let pos2 := pos + 8 in
        do t <- track_loop fuel timebase inf pos2 (pos2 + mtrk_size) 0 (skipn 8 rest);
        let '(lines, inf1, pos3, rest3) := t in
        do more <- tracks_loop n' (no + 1) fuel timebase (mkInfo (i_frac inf1) (i_deno inf1) false) pos3 rest3;
        Ok (l1 :: l2 :: lines ++ more)
  end.

(* dump_midi(bin, false): the lines handed to log(), in order *)
Definition dump_midi (bin : list byte) : res (list line) :=
  do s <- read_str bin 4;
  if negb (list_eqb s s_mthd) then Ok [s_not_midi]
  else
    let mthd_size := read_u32 (skipn 4 bin) in
    if negb (mthd_size =? 6) then Ok [s_size_err ++ dec mthd_size]
    else
      let smf_format := read_u16 (skipn 8 bin) in
      if smf_format >? 3 then Ok [s_format_err]
      else
        let track_count := read_u16 (skipn 10 bin) in
        let timebase := read_u16 (skipn 12 bin) in
        do tl <- tracks_loop (Z.to_nat track_count) 0 (S (length bin)) timebase info_new 14 (skipn 14 bin);
        Ok ([s_banner; s_format ++ dec smf_format; s_track_count ++ dec track_count; s_timebase ++ dec timebase] ++ tl).

(* the returned String: every line followed by '\n' *)
Definition dump_text (bin : list byte) : res (list Z) :=
  do ls <- dump_midi bin; Ok (flat_map (fun l => l ++ [10]) ls).
