(* lexer.rs read_value / read_value_word / read_operator / read_calc / read_calc_priority / lex_calc
   (the builder of the CalcTree token tree) and runner.rs' evaluation of those tokens (CalcTree,
   ConstInt, ConstStr, GetVariable, MakeArray, array access, the built-in functions of
   exec_sys_function) with svalue.rs' conversions, re-stated.

   Cursor = remaining suffix (the line counter only feeds token line numbers and is dropped).
   Paths that write to the log (missing parenthesis, missing right operand, index out of range) or
   need state outside expressions (random numbers, user functions, string macros, X++) answer
   [Unsupported]; the correspondence check skips those inputs. *)
From Sakura.Model Require Import Base Cursor Length.
From Sakura.Gen Require Import ExprConsts.

(* ---- tokens produced by the expression reader ---- *)
Inductive tok :=
| TConstInt (v : Z)
| TConstStr (s : list ch)
| TGetVar (x : list ch)
| TCalc (tag prio : Z) (l r : tok)                 (* CalcTree: tag = operator character, children [l; r] *)
| TCall (user : bool) (name : list ch) (args : list tok)  (* Value tag=1 / CallUserFunction *)
| TValueInc (x : list ch) (d : Z)
| TMakeArray (items : list tok).

(* sites of Unsupported *)
Definition U_PAREN : Z := 1.      (* missing ')' : error logged *)
Definition U_MISSING : Z := 2.    (* operator without right operand: error logged *)
Definition U_STATE : Z := 3.      (* needs runner state outside the expression (rand, macros, functions, X++) *)
Definition U_INDEX : Z := 4.      (* array access without argument / out of range: error logged *)
Definition U_SYSVAR : Z := 5.     (* system value (TR, CH, TIME, ...) *)

(* ---- source_cursor.rs additions ---- *)
Definition sksp (s : list ch) : list ch := fst (skip_space s 0).

Definition is_word_ch (c : ch) : bool := is_upper c || is_lower c || (c =? 95) || is_digit c.
Fixpoint take_word (s : list ch) : list ch * list ch :=
  match s with
  | c :: r => if is_word_ch c then let '(w, r') := take_word r in (c :: w, r') else ([], s)
  | [] => ([], [])
  end.
(* get_word: an optional '#', then letters, digits, '_' *)
Definition get_word (s : list ch) : list ch * list ch :=
  if eq_char s 35 then let '(w, r) := take_word (tl s) in (35 :: w, r) else take_word s.

(* get_token_nest(open, close) *)
Fixpoint nest_loop (o c : ch) (level : Z) (s : list ch) : list ch * list ch :=
  match s with
  | [] => ([], [])
  | x :: r =>
      if x =? o then let '(t, r') := nest_loop o c (level + 1) r in (x :: t, r')
      else if x =? c then
        let level' := if level >? 0 then level - 1 else level in
        if level' =? 0 then ([], r) else let '(t, r') := nest_loop o c level' r in (x :: t, r')
      else let '(t, r') := nest_loop o c level r in (x :: t, r')
  end.
Definition get_token_nest (o c : ch) (s : list ch) : list ch * list ch :=
  if eq_char s o then nest_loop o c 1 (tl s) else nest_loop o c 0 s.

(* ---- read_operator ---- *)
Fixpoint mem_z (c : Z) (l : list Z) : bool :=
  match l with [] => false | x :: r => (c =? x) || mem_z c r end.
Definition is_operator_char (c : ch) : bool := mem_z c operator_chars.
Fixpoint assoc_z (c : Z) (l : list (Z * Z)) : Z :=
  match l with [] => 0 | (x, p) :: r => if c =? x then p else assoc_z c r end.
Definition op_priority (c : ch) : Z := assoc_z c operator_priority.

Definition c_GE : ch := 8807.  (* '≧' *)
Definition c_LE : ch := 8806.  (* '≦' *)
Definition c_NE : ch := 8800.  (* '≠' *)

(* Some (operator character, priority, cursor after it); None leaves the cursor after the blanks *)
Definition read_operator (s : list ch) : option (ch * Z * list ch) :=
  let s1 := sksp s in
  let c := peek0 s1 in
  if negb (is_operator_char c) then None
  else if prefixb [47; 47] s1 || prefixb [47; 42] s1 then None
  else
    let '(c', s2) :=
      if prefixb [62; 61] s1 then (c_GE, skipn 2 s1)
      else if prefixb [60; 61] s1 then (c_LE, skipn 2 s1)
      else if prefixb [60; 62] s1 || prefixb [33; 61] s1 then (c_NE, skipn 2 s1)
      else if prefixb [61; 61] s1 then (61, skipn 2 s1)
      else (c, tl s1) in
    Some (c', op_priority c', s2).

(* ---- read_value, read_calc_priority and their loops ---- *)
Section Reader.
(* song.timebase (for the '!' length literal) and the names known to song.variables at lex time *)
Variable tb : Z.
Variable lexvars : list (list ch).

Fixpoint mem_name (x : list ch) (l : list (list ch)) : bool :=
  match l with [] => false | y :: r => list_eqb x y || mem_name x r end.

Definition opt_or_zero (t : option tok) : tok := match t with Some k => k | None => TConstInt 0 end.

Fixpoint read_value (fuel : nat) (s : list ch) {struct fuel} : res (option tok * list ch) :=
  match fuel with
  | O => OutOfFuel
  | S f =>
    match sksp s with
    | [] => Ok (None, [])
    | c :: r =>
      let s0 := c :: r in
      if c =? 40 then                                   (* '(' *)
        do p <- read_calc_priority f LEX_OR_AND r;
        let '(t, s1) := p in
        let s2 := sksp s1 in
        if eq_char s2 44 then                           (* ',' : array *)
          do q <- array_loop f (tl s2) [opt_or_zero t];
          let '(items, s3) := q in
          if eq_char s3 41 then Ok (Some (TMakeArray items), tl s3) else Unsupported U_PAREN
        else if eq_char s2 41 then Ok (t, tl s2)
        else Unsupported U_PAREN
      else if c =? 45 then                              (* '-' *)
        if is_numeric r then
          let '(num, s1) := get_int 0 r in Ok (Some (TConstInt (-1 * num)), s1)
        else
          do p <- read_value f r;
          let '(t, s1) := p in
          Ok (Some (TCalc 42 0 (TConstInt (-1)) (opt_or_zero t)), s1)
      else if is_digit c || (c =? 36) then              (* '0'..'9', '$' *)
        let '(num, s1) := get_int 0 s0 in Ok (Some (TConstInt num), s1)
      else if c =? 33 then                              (* '!' length literal *)
        let '(len_str, s1, _) := get_note_length r 0 in
        Ok (Some (TConstInt (calc_length len_str tb tb)), s1)
      else if c =? 123 then                             (* '{' *)
        let '(str, s1) := get_token_nest 123 125 s0 in Ok (Some (TConstStr str), s1)
      else if c =? 34 then                              (* double quote *)
        let '(str, s1, _) := get_token_ch 34 r 0 in Ok (Some (TConstStr str), s1)
      else if is_upper c || is_lower c || (c =? 95) || (c =? 35) then
        (* read_value_word *)
        let '(name, s1) := get_word s0 in
        if eq_char s1 40 then
          let '(arg_str, s2) := get_token_nest 40 41 s1 in
          do args <- lex_calc_loop f arg_str [];
          Ok (Some (TCall (mem_name name lexvars) name args), s2)
        else if prefixb [43; 43] s1 then Ok (Some (TValueInc name 1), skipn 2 s1)
        else if prefixb [45; 45] s1 then Ok (Some (TValueInc name (-1)), skipn 2 s1)
        else Ok (Some (TGetVar name), s1)
      else Ok (None, s0)
    end
  end

with read_calc_priority (fuel : nat) (max_priority : Z) (s : list ch) {struct fuel}
  : res (option tok * list ch) :=
  match fuel with
  | O => OutOfFuel
  | S f =>
    do p <- read_value f s;
    match p with
    | (None, s1) => Ok (None, s1)
    | (Some left_val, s1) =>
        do q <- calc_loop f max_priority left_val s1;
        let '(t, s2) := q in Ok (Some t, s2)
    end
  end

(* `while cur.has_next() { ... }` of read_calc_priority *)
with calc_loop (fuel : nat) (max_priority : Z) (left_val : tok) (s : list ch) {struct fuel}
  : res (tok * list ch) :=
  match fuel with
  | O => OutOfFuel
  | S f =>
    match s with
    | [] => Ok (left_val, [])
    | _ =>
      match read_operator s with
      | None => Ok (left_val, sksp s)
      | Some (c, p, s1) =>
          if p >? max_priority then Ok (left_val, s)      (* roll back, the caller reads it *)
          else
            do q <- read_calc_priority f (p - 1) s1;
            match q with
            | (None, _) => Unsupported U_MISSING
            | (Some right_val, s2) => calc_loop f max_priority (TCalc c p left_val right_val) s2
            end
      end
    end
  end

(* `while cur.has_next() { read_calc or break; push; skip_space; if ',' { next } }` of the array literal *)
with array_loop (fuel : nat) (s : list ch) (acc : list tok) {struct fuel} : res (list tok * list ch) :=
  match fuel with
  | O => OutOfFuel
  | S f =>
    match s with
    | [] => Ok (acc, [])
    | _ =>
      do p <- read_calc_priority f LEX_OR_AND s;
      match p with
      | (None, s1) => Ok (acc, s1)
      | (Some t, s1) =>
          let s2 := sksp s1 in
          array_loop f (if eq_char s2 44 then tl s2 else s2) (acc ++ [t])
      end
    end
  end

(* lex_calc: the argument list of a call *)
with lex_calc_loop (fuel : nat) (s : list ch) (acc : list tok) {struct fuel} : res (list tok) :=
  match fuel with
  | O => OutOfFuel
  | S f =>
    match s with
    | [] => Ok acc
    | _ =>
      do p <- read_calc_priority f LEX_OR_AND s;
      let '(t, s1) := p in
      let acc' := match t with Some k => acc ++ [k] | None => acc end in
      if eq_char s1 44 then lex_calc_loop f (tl s1) acc'
      else if Nat.eqb (length s1) (length s) then lex_calc_loop f (tl s1) acc'
      else lex_calc_loop f s1 acc'
    end
  end.

Definition calc_fuel (s : list ch) : nat := 4 * length s + 8.
Definition read_calc (s : list ch) : res (option tok * list ch) :=
  read_calc_priority (calc_fuel s) LEX_OR_AND s.
End Reader.

(* ---------------------------------------------------------------------------------------------- *)
(* svalue.rs                                                                                          *)
(* ---------------------------------------------------------------------------------------------- *)
Inductive sval := SInt (z : Z) | SStr (s : list ch) | SBool (b : bool) | SArr (l : list sval) | SNone.

(* isize::to_string *)
Fixpoint dec_digits (fuel : nat) (n : Z) (acc : list ch) : list ch :=
  match fuel with
  | O => acc
  | S f => if n <? 10 then (48 + n) :: acc else dec_digits f (n / 10) ((48 + n mod 10) :: acc)
  end.
Definition bits (n : Z) : nat := match n with Zpos p => Pos.size_nat p | _ => O end.
Definition dec_of (n : Z) : list ch :=
  if n <? 0 then 45 :: dec_digits (S (bits (- n))) (- n) [] else dec_digits (S (bits n)) n [].

(* str::parse::<isize>(): optional sign, at least one digit, only digits, in range; otherwise 0.  The value is the plain decimal
   value (NOT the saturating numeral reader of the lexer: "3000000000" parses to 3000000000; found by the model-vs-code audit) *)
Fixpoint dec_val (acc : Z) (d : list ch) : Z :=
  match d with
  | [] => acc
  | c :: r => dec_val (acc * 10 + (c - 48)) r
  end.
Definition parse_isize (s : list ch) : Z :=
  let '(neg, d) := match s with
                   | 45 :: r => (true, r)
                   | 43 :: r => (false, r)
                   | _ => (false, s)
                   end in
  match d with
  | [] => 0
  | _ =>
      if forallb is_digit d then
        let v := dec_val 0 d in
        let v := if neg then - v else v in
        if (- 2 ^ 63 <=? v) && (v <? 2 ^ 63) then v else 0
      else 0
  end.

Definition to_i (v : sval) : Z :=
  match v with
  | SInt i => i
  | SStr s => parse_isize s
  | SBool b => if b then 1 else 0
  | _ => 0
  end.
Definition to_b (v : sval) : bool := negb (to_i v =? 0).

Definition t_TRUE : list ch := [84; 82; 85; 69].
Definition t_FALSE : list ch := [70; 65; 76; 83; 69].
Fixpoint join_comma (l : list (list ch)) : list ch :=
  match l with
  | [] => []
  | [x] => x
  | x :: r => x ++ 44 :: join_comma r
  end.
Fixpoint to_s (v : sval) : list ch :=
  match v with
  | SInt i => dec_of i
  | SStr s => s
  | SBool b => if b then t_TRUE else t_FALSE
  | SArr a => 40 :: join_comma (map to_s a) ++ [41]
  | SNone => []
  end.

Definition is_s (v : sval) : bool := match v with SStr _ => true | _ => false end.
Definition is_none (v : sval) : bool := match v with SNone => true | _ => false end.

(* String comparison: Rust compares the UTF-8 bytes, which is the order of the code points *)
Fixpoint str_cmp (a b : list ch) : comparison :=
  match a, b with
  | [], [] => Eq
  | [], _ :: _ => Lt
  | _ :: _, [] => Gt
  | x :: a', y :: b' => match x ?= y with Eq => str_cmp a' b' | c => c end
  end.

Definition sv_eq (a v : sval) : bool :=
  match v with
  | SInt vi => to_i a =? vi
  | SStr vs => list_eqb (to_s a) vs
  | SNone => is_none a
  | _ => false
  end.
Definition sv_ne (a v : sval) : bool := negb (sv_eq a v).
Definition sv_gt (a v : sval) : bool :=
  match a with
  | SInt i => i >? to_i v
  | SStr s => match str_cmp s (to_s v) with Gt => true | _ => false end
  | _ => false
  end.
Definition sv_gteq (a v : sval) : bool :=
  match a with
  | SInt i => i >=? to_i v
  | SStr s => match str_cmp s (to_s v) with Lt => false | _ => true end
  | _ => false
  end.
Definition sv_lt (a v : sval) : bool :=
  match a with
  | SInt i => i <? to_i v
  | SStr s => match str_cmp s (to_s v) with Lt => true | _ => false end
  | _ => false
  end.
Definition sv_lteq (a v : sval) : bool :=
  match a with
  | SInt i => i <=? to_i v
  | SStr s => match str_cmp s (to_s v) with Gt => false | _ => true end
  | _ => false
  end.
Definition sv_div (a v : sval) : sval :=
  let i1 := to_i a in let i2 := to_i v in
  if i2 =? 0 then SInt 0 else SInt (Z.quot i1 i2).
Definition sv_add (a v : sval) : sval :=
  if is_s a || is_s v then SStr (to_s a ++ to_s v)
  else SInt (to_i a + to_i v).

(* ---------------------------------------------------------------------------------------------- *)
(* built-in functions of exec_sys_function                                                            *)
(* ---------------------------------------------------------------------------------------------- *)
Definition as_usize (v : Z) : Z := v mod 2 ^ 64.
Definition as_u32 (v : Z) : Z := v mod 2 ^ 32.

(* vb_mid(input, start, length) on characters *)
Definition vb_mid (input : list ch) (start length : Z) : list ch :=
  let input_len := zlen input in
  let start := if start >=? 1 then start - 1 else 0 in
  let start := if start >=? input_len then input_len else start in
  let e := Z.min (start + length) (2 ^ 64 - 1) in        (* saturating_add *)
  let e := if e >=? input_len then input_len else e in
  firstn (Z.to_nat (e - start)) (skipn (Z.to_nat start) input).

(* char::from_u32(val as u32).unwrap_or(' ') *)
Definition chr_of (val : Z) : list ch :=
  let c := as_u32 val in
  if (c <? 55296) || ((57344 <=? c) && (c <=? 1114111)) then [c] else [32].

(* str::replace(from, to): non-overlapping matches from the left; an empty pattern matches between
   all characters and at both ends *)
Fixpoint replace_loop (fuel : nat) (s from to : list ch) : list ch :=
  match fuel with
  | O => s
  | S f =>
      match s with
      | [] => []
      | c :: r => if prefixb from s then to ++ replace_loop f (skipn (length from) s) from to
                  else c :: replace_loop f r from to
      end
  end.
Definition str_replace (s from to : list ch) : list ch :=
  match from with
  | [] => to ++ flat_map (fun c => c :: to) s
  | _ => replace_loop (S (length s)) s from to
  end.

Definition name_in (x : list ch) (names : list (list ch)) : bool :=
  existsb (fun y => list_eqb x y) names.
Definition n_Random : list (list ch) :=
  [[82;97;110;100;111;109]; [82;65;78;68;79;77]; [82;97;110;100;111;109;73;110;116]; [82;78;68]; [82;110;100]].
Definition n_RandomSelect : list (list ch) := [[82;97;110;100;111;109;83;101;108;101;99;116]].
Definition n_CHR : list (list ch) := [[67;72;82]; [67;104;114]].
Definition n_MID : list (list ch) := [[77;73;68]; [77;105;100]].
Definition n_REPLACE : list (list ch) := [[82;69;80;76;65;67;69]; [82;101;112;108;97;99;101]].
Definition n_SizeOf : list (list ch) := [[83;105;122;101;79;102]; [83;73;90;69;79;70]].
Definition t_MID_ERROR : list ch := [40;77;73;68;58;69;82;82;79;82;41].
Definition t_REPLACE_ERROR : list ch := [40;82;69;80;76;65;67;69;58;69;82;82;79;82;41].

Definition arg (args : list sval) (i : nat) : sval := nth i args SNone.

(* the value left on the stack; calls that push nothing (SizeOf(), RandomSelect()) are left out *)
Definition sys_function (name : list ch) (args : list sval) : res sval :=
  let n := length args in
  if name_in name n_Random then
    if (2 <=? n)%nat then
      let mn := to_i (arg args 0) in let mx := to_i (arg args 1) in
      if mx - mn + 1 =? 0 then Ok (SInt mn) else Unsupported U_STATE
    else if Nat.eqb n 1 then
      if to_i (arg args 0) =? 0 then Ok (SInt 0) else Unsupported U_STATE
    else Unsupported U_STATE
  else if name_in name n_RandomSelect then
    Unsupported U_STATE
  else if name_in name n_CHR then
    if (1 <=? n)%nat then Ok (SStr (chr_of (to_i (arg args 0)))) else Ok (SStr [32])
  else if name_in name n_MID then
    if (3 <=? n)%nat then
      Ok (SStr (vb_mid (to_s (arg args 0)) (as_usize (Z.max (to_i (arg args 1)) 0)) (as_usize (Z.max (to_i (arg args 2)) 0))))
    else Ok (SStr t_MID_ERROR)
  else if name_in name n_REPLACE then
    if (3 <=? n)%nat then
      Ok (SStr (str_replace (to_s (arg args 0)) (to_s (arg args 1)) (to_s (arg args 2))))
    else Ok (SStr t_REPLACE_ERROR)
  else if name_in name n_SizeOf then
    if (1 <=? n)%nat then
      Ok (SInt (match arg args 0 with
                | SArr a => zlen a
                | SStr s => zlen s
                | _ => 0
                end))
    else Unsupported U_STATE
  else Unsupported U_STATE.       (* string macro *)

(* ---------------------------------------------------------------------------------------------- *)
(* evaluation of a token (one element of exec_args)                                                   *)
(* ---------------------------------------------------------------------------------------------- *)
Definition venv := list (list ch * sval).
Fixpoint var_get (en : venv) (x : list ch) : option sval :=
  match en with
  | [] => None
  | (y, v) :: r => if list_eqb x y then Some v else var_get r x
  end.

(* names answered by get_system_value *)
Definition system_names : list (list ch) :=
  [[84;82]; [84;82;65;67;75]; [84;114;97;99;107]; [67;72]; [67;72;65;78;78;69;76];
   [84;73;77;69]; [84;105;109;101]; [84;73;77;69;80;79;83]; [84;73;77;69;80;84;82];
   [84;69;77;80;79]; [84;101;109;112;111]; [66;80;77]; [75;69;89]; [75;69;89;95;83;72;73;70;84];
   [84;82;95;75;69;89]; [84;114;97;99;107;75;101;121]; [84;73;77;69;66;65;83;69];
   [84;105;109;101;98;97;115;101]; [108]; [118]; [113]; [111]].

Section Eval.
Variable en : venv.

Definition calc (flag : Z) (a b : sval) : res sval :=
  if flag =? 33 then Ok (SBool (negb (to_b a)))                     (* '!' *)
  else if flag =? 38 then Ok (SBool (to_b a && to_b b))             (* '&' *)
  else if flag =? 124 then Ok (SBool (to_b a || to_b b))            (* '|' *)
  else if flag =? 61 then Ok (SBool (sv_eq a b))                    (* '=' *)
  else if flag =? c_NE then Ok (SBool (sv_ne a b))
  else if flag =? 62 then Ok (SBool (sv_gt a b))                    (* '>' *)
  else if flag =? c_GE then Ok (SBool (sv_gteq a b))
  else if flag =? 60 then Ok (SBool (sv_lt a b))                    (* '<' *)
  else if flag =? c_LE then Ok (SBool (sv_lteq a b))
  else if flag =? 43 then Ok (sv_add a b)                           (* '+' *)
  else if flag =? 45 then Ok (SInt (to_i a - to_i b))               (* '-' *)
  else if flag =? 42 then Ok (SInt (to_i a * to_i b))               (* '*' *)
  else if flag =? 47 then Ok (sv_div a b)                           (* '/' *)
  else if flag =? 37 then Ok (SInt (if to_i b =? 0 then 0 else Z.rem (to_i a) (to_i b)))  (* '%' *)
  else Unsupported U_STATE.                                         (* "[Calc] unknown flag" is logged *)

Fixpoint eval (t : tok) : res sval :=
  let eval_list := fix eval_list (l : list tok) : res (list sval) :=
    match l with
    | [] => Ok []
    | x :: r => do v <- eval x; do vs <- eval_list r; Ok (v :: vs)
    end in
  match t with
  | TConstInt v => Ok (SInt v)
  | TConstStr s => Ok (SStr s)
  | TGetVar x =>
      match var_get en x with
      | Some v => Ok v
      | None => if name_in x system_names then Unsupported U_SYSVAR else Ok SNone
      end
  | TCalc flag _ l r =>
      if flag =? 0 then Unsupported U_STATE else
      do a <- eval l; do b <- eval r; calc flag a b
  | TCall false name args =>
      do vs <- eval_list args; sys_function name vs
  | TCall true name args =>
      match var_get en name with
      | Some (SArr a) =>
          do vs <- eval_list args;
          match vs with
          | [] => Unsupported U_INDEX
          | v0 :: _ =>
              let index := as_usize (to_i v0) in
              if zlen a <=? index then Unsupported U_INDEX
              else Ok (nth (Z.to_nat index) a SNone)
          end
      | _ => Unsupported U_STATE            (* string macro, user function *)
      end
  | TValueInc _ _ => Unsupported U_STATE
  | TMakeArray items => do vs <- eval_list items; Ok (SArr vs)
  end.
End Eval.

(* PRINT(<expression>) : the text shown for the value of the expression at the start of s *)
Definition eval_text (tb : Z) (lexvars : list (list ch)) (en : venv) (s : list ch) : res sval :=
  do p <- read_calc tb lexvars s;
  match fst p with
  | Some t => eval en t
  | None => Ok SNone
  end.
