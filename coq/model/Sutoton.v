(* sutoton.rs re-stated: SutotonList::{new, set_item, sort_items}, init_items (over the regenerated
   vocabulary table) and convert.  Text is a list of code points; the output String is built by
   concatenation in the order of the push/push_str calls. *)
From Sakura.Model Require Import Base Cursor Cursor2 Zen2han.
From Sakura.Gen Require Import SutotonTable.

(* SutotonItem { name, value, length }: `length` is always name.chars().count(), i.e. `length name` *)
Definition item := (list ch * list ch)%type.
Definition it_name (it : item) : list ch := fst it.
Definition it_value (it : item) : list ch := snd it.

Record slist := mkSL { sl_items : list item; sl_sorted : bool }.
Definition sl_new : slist := mkSL [] false.

(* self.items.sort_by(|a, b| b.name.len().cmp(&a.name.len())): a stable sort by DESCENDING number of
   UTF-8 bytes of the name (String::len), written as an insertion sort (SutotonP.v proves it sorted,
   a permutation and stable, and that these three properties determine the result) *)
Fixpoint insert_item (x : item) (l : list item) : list item :=
  match l with
  | [] => [x]
  | y :: r => if utf8_bytes (it_name y) <=? utf8_bytes (it_name x) then x :: l else y :: insert_item x r
  end.
Definition sort_desc (l : list item) : list item := fold_right insert_item [] l.

Definition sort_items (sl : slist) : slist :=
  if sl_sorted sl then sl else mkSL (sort_desc (sl_items sl)) true.

(* the `for it in self.items.iter_mut()` loop of set_item: Some = the value was replaced *)
Fixpoint replace_item (name value : list ch) (l : list item) : option (list item) :=
  match l with
  | [] => None
  | it :: r =>
      if negb (zlen (it_name it) =? zlen name) then
        match replace_item name value r with Some r' => Some (it :: r') | None => None end
      else if list_eqb (it_name it) name then Some ((it_name it, value) :: r)
      else match replace_item name value r with Some r' => Some (it :: r') | None => None end
  end.

Definition set_item (name value : list ch) (sl : slist) : slist :=
  match replace_item name value (sl_items sl) with
  | Some l => mkSL l (sl_sorted sl)
  | None => mkSL (sl_items sl ++ [(name, value)]) false
  end.

Definition init_items : slist :=
  sort_items (fold_left (fun sl row => set_item (fst row) (snd row) sl) sutoton_table sl_new).

Definition c_LBRACE : ch := 123.  Definition c_RBRACE : ch := 125.  Definition c_DQ : ch := 34.
Definition c_TILDE : ch := 126.   Definition c_OVERLINE : ch := 8254. Definition c_EQ : ch := 61.

(* `for cmd in items.items.iter() { if cur.eq(&cmd.name) { ... break } }` *)
Fixpoint scan (items : list item) (s : list ch) : option item :=
  match items with
  | [] => None
  | it :: r => if prefixb (it_name it) s then Some it else scan r s
  end.

(* the arm '~' | '‾' after `cur.next()` (fn read_definition); the third component is the number of line breaks the
   reading stepped over (cur.line - line0): the converter writes them out in place of the removed text *)
Definition read_definition (sl : slist) (r : list ch) : slist * list ch * Z :=
  let '(s1, l1) := skip_space r 0 in
  if negb (peek0 s1 =? c_LBRACE) then (sl, s1, l1) else
  let '(name, s2, l2) := get_token_nest c_LBRACE c_RBRACE s1 l1 in
  let '(s3, l3) := skip_space s2 l2 in
  let s4 := if eq_char s3 c_EQ then tl s3 else s3 in
  let '(s5, l5) := skip_space s4 l3 in
  if negb (peek0 s5 =? c_LBRACE) then (sl, s5, l5) else
  let '(value, s6, l6) := get_token_nest c_LBRACE c_RBRACE s5 l5 in
  match name with
  | [] => (sl, s6, l6)                                   (* `if name.is_empty() { return; }` *)
  | _ => (sort_items (set_item name value sl), s6, l6)
  end.

(* `while !cur.is_eos()`: one iteration per unit of fuel; the result is what the iterations from
   here on append to `res`.  OutOfFuel = an iteration that does not advance (a vocabulary entry with
   an empty name). *)
Fixpoint conv_loop (fuel : nat) (sl : slist) (s : list ch) : res (list ch) :=
  match fuel with
  | O => OutOfFuel
  | S f =>
      match s with
      | [] => Ok []
      | c :: r =>
          let chz := zen2han c in
          if chz =? c_LBRACE then
            if prefixb [c_LBRACE; c_DQ] s then
              let '(t, s', _) := get_token_s [c_DQ; c_RBRACE] s 0 in
              do o <- conv_loop f sl s'; Ok (t ++ [c_DQ; c_RBRACE] ++ o)
            else do o <- conv_loop f sl r; Ok (chz :: o)
          else if chz =? c_SLASH then
            if prefixb [c_SLASH; c_SLASH] s then
              let '(t, s', _) := get_token_s [c_NL] s 0 in
              do o <- conv_loop f sl s'; Ok (t ++ [c_NL] ++ o)
            else if prefixb [c_SLASH; c_STAR] s then
              let '(t, s', _) := get_token_s [c_STAR; c_SLASH] s 0 in
              do o <- conv_loop f sl s'; Ok (t ++ [c_STAR; c_SLASH] ++ o)
            else do o <- conv_loop f sl r; Ok (chz :: o)
          else if (chz =? c_TILDE) || (chz =? c_OVERLINE) then
            let '(sl', s', nl) := read_definition sl r in
            do o <- conv_loop f sl' s'; Ok (repeat c_NL (Z.to_nat nl) ++ o)
          else
            match scan (sl_items sl) s with
            | Some it => do o <- conv_loop f sl (skipn (length (it_name it)) s); Ok (it_value it ++ o)
            | None => do o <- conv_loop f sl r; Ok (chz :: o)
            end
      end
  end.

(* pub fn convert(src: &str) -> String; the result is `res.trim_end().to_string()`: leading white
   space (line breaks in particular) is kept so that the lexer's line numbers are right *)
Definition convert (src : list ch) : res (list ch) :=
  do o <- conv_loop (S (length src)) init_items src; Ok (trim_end o).
