(* runner.rs: check_tie_notes and the four Slur modes (tie_mode_port / bend / gate / alpe), on a track.
   f32 expressions go through model/F32.v (binary32, round to nearest even, `as isize` truncation). *)
From Sakura.Model Require Import Base Event Song F32.
Open Scope Z_scope.

Definition tr_set_tie (t : track) (mode value bend_range : Z) (events tie_notes : list event) : track :=
  mkTrack (tr_timepos t) (tr_channel t) (tr_length t) (tr_octave t) (tr_velocity t) (tr_qlen t) (tr_timing t) (tr_track_key t)
          mode value bend_range events tie_notes (tr_rsv t).

Definition set_v2 (e : event) (v : Z) : event := mkEvent (e_type e) (e_time e) (e_ch e) (e_v1 e) v (e_v3 e) (e_data e).

(* the pitch bend sensitivity is announced once per track, one tick before the first slurred note *)
Definition ensure_bend_range (ch : Z) (bend_range : Z) (first_time : Z) (events : list event) : Z * list event :=
  if bend_range <=? 0 then
    (12, events ++ [ev_pitch_bend_range (if first_time <=? 0 then 0 else first_time - 1) ch 12])
  else (bend_range, events).

(* glissando events before next_event: `for i in 0..tie_value`, skipping repeated values (last_v starts at 0) *)
Fixpoint port_bends (n : nat) (i : Z) (tie_value : Z) (next_time ch bend_from last_v : Z) : list event :=
  match n with
  | O => []
  | S k =>
      let v := f32_to_Z (f32_mul (f32_of_Z bend_from) (f32_div (f32_of_Z i) (f32_of_Z tie_value))) in
      if last_v =? v then port_bends k (i + 1) tie_value next_time ch bend_from last_v
      else ev_pitch_bend (next_time - tie_value + i) ch (value_range 0 (v + 8192) 16383)
           :: port_bends k (i + 1) tie_value next_time ch bend_from v
  end.

Fixpoint port_loop (rest : list event) (last : event) (tb ch tie_value bend_range : Z) (events : list event)
  : Z * list event :=
  match rest with
  | [] => (bend_range, events ++ [last])
  | next :: r =>
      if e_v1 last =? e_v1 next then
        port_loop r (set_v2 last (e_time next + e_v2 next - e_time last)) tb ch tie_value bend_range events
      else
        let '(br, events1) := ensure_bend_range ch bend_range (e_time last) events in
        let note_diff := e_v1 next - e_v1 last in
        let tv := if tie_value =? 0 then Z.quot (tb * 4) 8 else tie_value in
        let bend_from := f32_to_Z (f32_mul (f32_of_Z note_diff) (f32_div (f32_of_Z 8192) (f32_of_Z br))) in
        let bends := port_bends (Z.to_nat tv) 0 tv (e_time next) ch bend_from 0 in
        let last' := set_v2 last (e_time next - e_time last) in
        port_loop r next tb ch tv br (events1 ++ bends ++ [last'; ev_pitch_bend (e_time next) ch 8192])
  end.

Fixpoint bend_loop (rest : list event) (last begin : event) (ch br lastpos : Z) (events : list event) : Z * list event :=
  match rest with
  | [] => (lastpos, events)
  | next :: r =>
      let lastpos' := e_time next + e_v2 next in
      if e_v1 last =? e_v1 next then bend_loop r last begin ch br lastpos' events
      else
        let note_diff := e_v1 next - e_v1 begin in
        let v := f32_to_Z (f32_div (f32_mul (f32_of_Z note_diff) (f32_of_Z 8192)) (f32_of_Z br)) + 8192 in
        bend_loop r next begin ch br lastpos' (events ++ [ev_pitch_bend (e_time next) ch (value_range 0 v 16383)])
  end.

Fixpoint gate_loop (rest : list event) (last : event) (tie_value : Z) (events : list event) : list event :=
  match rest with
  | [] => events ++ [last]
  | next :: r =>
      if e_v1 last =? e_v1 next then gate_loop r (set_v2 last (e_time next + e_v2 next - e_time last)) tie_value events
      else
        let last' := set_v2 last (if tie_value =? 0 then e_time next - e_time last else tie_value) in
        gate_loop r next tie_value (events ++ [last'])
  end.

Definition check_tie_notes (tb : Z) (t : track) : track :=
  match tr_tie_notes t with
  | [] => t
  | first :: rest =>
      let ch := tr_channel t in
      let mode := tr_tie_mode t in
      if mode =? 1 then
        let '(br, ev1) := ensure_bend_range ch (tr_bend_range t) (e_time first) (tr_events t) in
        let ev2 := ev1 ++ [ev_pitch_bend (e_time first) ch 8192] in
        let '(lastpos, ev3) := bend_loop rest first first ch br (e_time first + e_v2 first) ev2 in
        tr_set_tie t mode (tr_tie_value t) br
                   (ev3 ++ [set_v2 first (lastpos - e_time first); ev_pitch_bend lastpos ch 8192]) []
      else if mode =? 2 then
        tr_set_tie t mode (tr_tie_value t) (tr_bend_range t) (gate_loop rest first (tr_tie_value t) (tr_events t)) []
      else if mode =? 3 then
        let l := last (tr_tie_notes t) first in
        let last_pos := e_time l + e_v2 l in
        tr_set_tie t mode (tr_tie_value t) (tr_bend_range t)
                   (tr_events t ++ map (fun e => set_v2 e (last_pos - e_time e)) (tr_tie_notes t)) []
      else
        let '(br, evs) := port_loop rest first tb ch (tr_tie_value t) (tr_bend_range t) (tr_events t) in
        tr_set_tie t mode (tr_tie_value t) br evs []
  end.

Definition push_tie_note (t : track) (e : event) : track :=
  tr_set_tie t (tr_tie_mode t) (tr_tie_value t) (tr_bend_range t) (tr_events t) (tr_tie_notes t ++ [e]).
(* TieMode::from_i *)
Definition tie_mode_of (i : Z) : Z := if (i =? 1) || (i =? 2) || (i =? 3) then i else 0.
Definition set_tie_mode (t : track) (mode : option Z) (value : option Z) : track :=
  tr_set_tie t (match mode with Some m => tie_mode_of m | None => tr_tie_mode t end)
             (match value with Some v => v | None => tr_tie_value t end) (tr_bend_range t) (tr_events t) (tr_tie_notes t).
