(* token.rs: char_from_u32 and zen2han (full-width -> half-width), re-stated on code points. *)
From Sakura.Model Require Import Base.

(* char::from_u32(i).unwrap_or(def): i is a Unicode scalar value iff it is below 0x110000 and
   not a surrogate *)
Definition is_scalar (i : Z) : bool :=
  ((0 <=? i) && (i <? 55296)) || ((57344 <=? i) && (i <=? 1114111)).
Definition char_from_u32 (i : Z) (def : ch) : ch := if is_scalar i then i else def.

(* match c {
     '\u{0020}'..='\u{007E}' => c,
     '\u{FF01}'..='\u{FF5E}' => char_from_u32(c as u32 - 0xFF01 + 0x21, c),
     '\u{2002}'..='\u{200B}' => ' ',
     '\u{3000}' | '\u{FEFF}' => ' ',
     _ => c } *)
Definition zen2han (c : ch) : ch :=
  if (32 <=? c) && (c <=? 126) then c
  else if (65281 <=? c) && (c <=? 65374) then char_from_u32 (c - 65281 + 33) c
  else if (8194 <=? c) && (c <=? 8203) then 32
  else if (c =? 12288) || (c =? 65279) then 32
  else c.
