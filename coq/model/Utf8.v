(* Rust's UTF-8 view of a char / String: char::len_utf8, String::push, String::len, into_bytes.
   A character is a Unicode scalar value (Z). *)
From Sakura.Model Require Import Base.

(* char::len_utf8 *)
Definition utf8_len (c : Z) : Z :=
  if c <? 128 then 1 else if c <? 2048 then 2 else if c <? 65536 then 3 else 4.

(* the bytes String::push appends for c *)
Definition utf8_char (c : Z) : list byte :=
  if c <? 128 then [c]
  else if c <? 2048 then [192 + c / 64; 128 + c mod 64]
  else if c <? 65536 then [224 + c / 4096; 128 + (c / 64) mod 64; 128 + c mod 64]
  else [240 + c / 262144; 128 + (c / 4096) mod 64; 128 + (c / 64) mod 64; 128 + c mod 64].

(* String::into_bytes of the string with these chars *)
Definition utf8_encode (s : list Z) : list byte := flat_map utf8_char s.

(* a Rust `char`: a Unicode scalar value.  The sources of the model are `list Z`; values that are no `char` cannot occur in
   the implementation's input *)
Definition is_char (c : Z) : bool := ((0 <=? c) && (c <? 55296)) || ((57344 <=? c) && (c <? 1114112)).
