(* midi.rs: the SMF writer (array_push_*, generate_track, generate) and song.rs: split_note_off,
   events_sort (modelled as insertion sort; SortP.v shows any stable sort gives the same list). *)
From Sakura.Model Require Import Base Event.

Definition push_u16 (v : Z) : list byte :=
  [as_u8 (Z.land (Z.shiftr v 8) 255); as_u8 (Z.land v 255)].
Definition push_u32 (v : Z) : list byte :=
  [as_u8 (Z.land (Z.shiftr v 24) 255); as_u8 (Z.land (Z.shiftr v 16) 255);
   as_u8 (Z.land (Z.shiftr v 8) 255); as_u8 (Z.land v 255)].

(* array_push_delta: buf = [v & 0x7F]; v >>= 7; while v > 0 { buf.push(0x80 | v & 0x7F); v >>= 7 }; reverse.
   `hi fuel v` is the reversed tail of buf. 64-bit values need at most 9 further groups. *)
Fixpoint delta_hi (fuel : nat) (v : Z) : list byte :=
  match fuel with
  | O => []
  | S f => if v >? 0 then delta_hi f (Z.shiftr v 7) ++ [as_u8 (Z.lor 128 (Z.land v 127))] else []
  end.
Definition push_delta (time : Z) : list byte :=
  let v := if time <? 0 then 0 else time in
  delta_hi 10 (Z.shiftr v 7) ++ [as_u8 (Z.land v 127)].

Definition midi_data7 (v : Z) : byte := as_u8 (Z.min (Z.max v 0) 127).
Definition midi_ch (v : Z) : byte := as_u8 (Z.min (Z.max v 0) 15).

Definition get_data (e : event) : res (list byte) :=
  match e_data e with Some d => Ok d | None => Panic 1 (* data.clone().unwrap() *) end.

(* one arm of generate_track: bytes written for e given the running timepos; None = `continue` *)
Definition write_event (timepos : Z) (e : event) : res (option (list byte)) :=
  let dt := push_delta (e_time e - timepos) in
  match e_type e with
  | NoteOn => Ok (Some (dt ++ [144 + midi_ch (e_ch e); midi_data7 (e_v1 e); midi_data7 (e_v3 e)]))
  | NoteOff => Ok (Some (dt ++ [128 + midi_ch (e_ch e); midi_data7 (e_v1 e); midi_data7 (e_v3 e)]))
  | Voice => Ok (Some (dt ++ [192 + midi_ch (e_ch e); midi_data7 (e_v1 e)]))
  | ControllChange => Ok (Some (dt ++ [176 + midi_ch (e_ch e); midi_data7 (e_v1 e); midi_data7 (e_v2 e)]))
  | Meta => do d <- get_data e;
            Ok (Some (dt ++ [as_u8 (e_v1 e); as_u8 (e_v2 e); as_u8 (e_v3 e)] ++ d))
  | SysEx => do d <- get_data e;
             match d with
             | [] => Ok None
             | b0 :: rest =>
                 let size := if b0 =? 240 then zlen d - 1 else zlen d in
                 Ok (Some (dt ++ [240] ++ push_delta size ++ (if b0 =? 240 then rest else d)))
             end
  | PitchBend =>
      let v := Z.min (Z.max (e_v1 e) 0) 16383 in
      let msb := as_u8 (Z.land (Z.shiftr v 7) 127) in
      let lsb := as_u8 (Z.land v 127) in
      Ok (Some (dt ++ [224 + midi_ch (e_ch e); lsb; msb]))
  | PitchBendRange =>
      let range := if (e_v1 e >=? 0) && (e_v1 e <=? 24) then as_u8 (e_v1 e) else 0 in
      let st := 176 + midi_ch (e_ch e) in
      Ok (Some (dt ++ [st; 101; 0] ++ [0; st; 100; 0] ++ [0; st; 6; range]))
  | DirectSMF => do d <- get_data e;
                 match d with
                 | [] => Ok None
                 | _ => Ok (Some (dt ++ d))
                 end
  end.

Fixpoint write_events (timepos : Z) (evs : list event) : res (list byte) :=
  match evs with
  | [] => Ok []
  | e :: r =>
      do w <- write_event timepos e;
      match w with
      | None => write_events timepos r
      | Some bs => do rest <- write_events (Z.max timepos (e_time e)) r; Ok (bs ++ rest)
      end
  end.

Definition EOT : list byte := [0; 255; 47; 0].
Definition generate_track (evs : list event) : res (list byte) :=
  do body <- write_events 0 evs; Ok (body ++ EOT).

(* split_note_off *)
Fixpoint split_note_off (evs : list event) : list event :=
  match evs with
  | [] => []
  | e :: r =>
      match e_type e with
      | NoteOn => e :: set_time (set_type e NoteOff) (e_time e + e_v2 e) :: split_note_off r
      | _ => e :: split_note_off r
      end
  end.

(* stable sort by time (slice::sort_by is stable) as insertion sort *)
Fixpoint insert_ev (e : event) (l : list event) : list event :=
  match l with
  | [] => [e]
  | x :: r => if e_time e <=? e_time x then e :: l else x :: insert_ev e r
  end.
Definition events_sort (l : list event) : list event := fold_right insert_ev [] l.

Definition normalize_and_sort (evs : list event) : list event := events_sort (split_note_off evs).

Definition MThd : list byte := [77; 84; 104; 100].
Definition MTrk : list byte := [77; 84; 114; 107].

Fixpoint write_tracks (tracks : list (list event)) : res (list byte) :=
  match tracks with
  | [] => Ok []
  | t :: r =>
      do block <- generate_track t;
      do rest <- write_tracks r;
      Ok (MTrk ++ push_u32 (zlen block) ++ block ++ rest)
  end.

(* generate() after flush_tie_notes/play_from_all_track: header + one chunk per track of the
   normalized, sorted event lists *)
Definition generate_sorted (timebase : Z) (tracks : list (list event)) : res (list byte) :=
  do body <- write_tracks tracks;
  Ok (MThd ++ push_u32 6 ++ push_u16 1 ++ push_u16 (zlen tracks) ++ push_u16 timebase ++ body).
Definition generate (timebase : Z) (tracks : list (list event)) : res (list byte) :=
  generate_sorted timebase (map normalize_and_sort tracks).
