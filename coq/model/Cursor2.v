(* source_cursor.rs, the readers not yet in Cursor.v (same conventions: a cursor is the remaining
   suffix plus the line counter). *)
From Sakura.Model Require Import Base Cursor.

(* the `while !self.is_eos()` loop of get_token_nest; `level` is a usize that is only decremented
   when positive *)
Fixpoint nest_loop (open_ch close_ch : ch) (level : Z) (s : list ch) (ln : Z) : list ch * list ch * Z :=
  match s with
  | [] => ([], [], ln)
  | c :: r =>
      let ln' := if c =? c_NL then ln + 1 else ln in
      if c =? open_ch then
        let '(t, r', ln'') := nest_loop open_ch close_ch (level + 1) r ln' in (c :: t, r', ln'')
      else if c =? close_ch then
        let level' := if level >? 0 then level - 1 else level in
        if level' =? 0 then ([], r, ln')
        else let '(t, r', ln'') := nest_loop open_ch close_ch level' r ln' in (c :: t, r', ln'')
      else
        let '(t, r', ln'') := nest_loop open_ch close_ch level r ln' in (c :: t, r', ln'')
  end.

(* get_token_nest(open, close): `if self.peek_n(0) == open_ch { level += 1; self.next(); }` then the
   loop. peek_n(0) is '\0' at the end of input and next() does nothing there. *)
Definition get_token_nest (open_ch close_ch : ch) (s : list ch) (ln : Z) : list ch * list ch * Z :=
  if peek0 s =? open_ch then nest_loop open_ch close_ch 1 (tl s) ln
  else nest_loop open_ch close_ch 0 s ln.

(* String::len() of a text: number of UTF-8 bytes *)
Definition utf8_len (c : ch) : Z :=
  if c <? 128 then 1 else if c <? 2048 then 2 else if c <? 65536 then 3 else 4.
Fixpoint utf8_bytes (s : list ch) : Z :=
  match s with [] => 0 | c :: r => utf8_len c + utf8_bytes r end.

(* char::is_whitespace (Unicode White_Space), as used by str::trim *)
Definition is_whitespace (c : ch) : bool :=
  ((9 <=? c) && (c <=? 13)) || (c =? 32) || (c =? 133) || (c =? 160) || (c =? 5760)
  || ((8192 <=? c) && (c <=? 8202)) || (c =? 8232) || (c =? 8233) || (c =? 8239) || (c =? 8287)
  || (c =? 12288).

Fixpoint trim_start (s : list ch) : list ch :=
  match s with
  | c :: r => if is_whitespace c then trim_start r else s
  | [] => []
  end.
(* trailing white space: a character is dropped when it is white space and everything after it was dropped *)
Fixpoint trim_end (s : list ch) : list ch :=
  match s with
  | [] => []
  | c :: r => match trim_end r with
              | [] => if is_whitespace c then [] else [c]
              | t => c :: t
              end
  end.
(* str::trim *)
Definition trim (s : list ch) : list ch := trim_end (trim_start s).
