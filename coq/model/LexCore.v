(* lexer.rs: lex() and the readers of the core note language, function for function.
   A cursor is (remaining characters, line).  Readers return the token and the cursor after it.
   Language outside the modelled fragment (script expressions, variables, reservations, ...) yields
   `Unsupported`, never a made-up token. *)
From Coq Require Import String Ascii.
From Sakura.Model Require Import Base Cursor Length Event Song Token Msg.
From Sakura.Gen Require Import Consts SysFuncRows Messages VarRows.
Open Scope Z_scope.

Definition zs (s : string) : list Z := map (fun a => Z.of_N (N_of_ascii a)) (list_ascii_of_string s).

(* song fields read or written at lex time; lx_ja is the message language (song.message_data, read through
   song.get_message and never written by the lexer) *)
Record lexstate := mkLex { lx_timebase : Z; lx_logs : list (list ch); lx_vars : list (list ch * vval);
                           lx_rhythm : list (Z * list ch); lx_ja : bool }.
Definition lx_add_log (ls : lexstate) (m : list ch) : lexstate :=
  if SAKURA_MAX_LOGS <=? zlen (lx_logs ls) then ls else mkLex (lx_timebase ls) (lx_logs ls ++ [m]) (lx_vars ls) (lx_rhythm ls) (lx_ja ls).
(* variables_get / variables_insert on the global scope: the latest insert wins *)
Fixpoint vars_get (name : list ch) (vars : list (list ch * vval)) : option vval :=
  match vars with
  | [] => None
  | (n, v) :: r => if list_eqb n name then Some v else vars_get name r
  end.
Definition vars_insert (ls : lexstate) (name : list ch) (v : vval) : lexstate :=
  mkLex (lx_timebase ls) (lx_logs ls) ((name, v) :: lx_vars ls) (lx_rhythm ls) (lx_ja ls).
(* init_variables(), from the regenerated table *)
Definition init_vars : list (list ch * vval) :=
  map (fun r => match r with
                | (n, (k, (i, t))) => (n, if k =? 0 then VInt i else if k =? 1 then VStr t 0 else VOther)
                end) var_rows.

(* ---- decimal rendering of a line number / integer (format!("{}", n)) ---- *)
Fixpoint dec_digits (fuel : nat) (n : Z) (acc : list ch) : list ch :=
  match fuel with
  | O => acc
  | S f => let acc' := (48 + n mod 10) :: acc in
           if n / 10 =? 0 then acc' else dec_digits f (n / 10) acc'
  end.
Definition show_int (n : Z) : list ch :=
  if n <? 0 then 45 :: dec_digits 40 (- n) [] else dec_digits 40 n [].

(* token.rs zen2han *)
Definition zen2han (c : ch) : ch :=
  if (32 <=? c) && (c <=? 126) then c
  else if (65281 <=? c) && (c <=? 65374) then c - 65281 + 33
  else if (8194 <=? c) && (c <=? 8203) then 32
  else if (c =? 12288) || (c =? 65279) then 32
  else c.

(* peek_str_n(8).replace('\n', "↵") ; "[EOS]" when empty *)
Definition near_text (s : list ch) : list ch :=
  let n := map (fun c => if c =? 10 then 8629 else c) (firstn 8 s) in
  match n with [] => zs "[EOS]" | _ => n end.
Definition near_text_raw (s : list ch) : list ch :=
  map (fun c => if c =? 10 then 8629 else c) (firstn 8 s).

(* lex_error *)
Definition lex_error (ls : lexstate) (s : list ch) (ln : Z) (msg : list ch) : lexstate :=
  let log := zs "[ERROR](" ++ show_int ln ++ zs ") " ++ msg_UnknownChar (lx_ja ls) ++ zs ": """ ++ msg ++ zs """ "
             ++ msg_Near (lx_ja ls) ++ zs " """ ++ near_text s ++ zs """" in
  let n := zlen (lx_logs ls) in
  if n =? LEX_MAX_ERROR then
    lx_add_log ls (zs "[ERROR](" ++ show_int ln ++ zs ") " ++ msg_TooManyErrorsInLexer (lx_ja ls))
  else if n <? LEX_MAX_ERROR then lx_add_log ls log
  else ls.
(* read_error_cmd *)
Definition read_error_cmd (ls : lexstate) (s : list ch) (ln : Z) (cmd : list ch) : lexstate :=
  lx_add_log ls (zs "[ERROR](" ++ show_int ln ++ zs ") " ++ msg_ScriptSyntaxError (lx_ja ls) ++ zs " """ ++ cmd ++ zs """ "
                 ++ msg_Near (lx_ja ls) ++ zs " """ ++ near_text_raw s ++ zs """").

(* get_word *)
Definition is_word_char (c : ch) : bool := is_upper c || is_lower c || (c =? 95) || is_digit c.
Fixpoint take_word (s : list ch) : list ch * list ch :=
  match s with
  | c :: r => if is_word_char c then let '(w, r') := take_word r in (c :: w, r') else ([], s)
  | [] => ([], [])
  end.
Definition get_word (s : list ch) : list ch * list ch :=
  match s with
  | 35 :: r => let '(w, r') := take_word r in (35 :: w, r')
  | _ => take_word s
  end.

(* get_token_nest(open, close): text between the brackets, nesting counted; consumes the closer *)
Fixpoint token_nest_loop (s : list ch) (ln : Z) (opn cls : ch) (level : nat) : list ch * list ch * Z :=
  match s with
  | [] => ([], [], ln)
  | c :: r =>
      let ln' := if c =? c_NL then ln + 1 else ln in
      if c =? opn then
        let '(t, r', ln'') := token_nest_loop r ln' opn cls (S level) in (c :: t, r', ln'')
      else if c =? cls then
        let level' := Nat.pred level in
        match level' with
        | O => ([], r, ln')
        | _ => let '(t, r', ln'') := token_nest_loop r ln' opn cls level' in (c :: t, r', ln'')
        end
      else let '(t, r', ln'') := token_nest_loop r ln' opn cls level in (c :: t, r', ln'')
  end.
Definition get_token_nest (s : list ch) (ln : Z) (opn cls : ch) : list ch * list ch * Z :=
  if eq_char s opn then token_nest_loop (tl s) ln opn cls 1 else token_nest_loop s ln opn cls 0.

(* ---- read_arg_value, restricted to what the fragment admits ---- *)
Inductive aval := AInt (v : Z) | ANone.
Definition aval_to_i (a : aval) : Z := match a with AInt v => v | ANone => 0 end.
Definition U_VAR := 1.  Definition U_ARRAY := 2.  Definition U_STR := 3.  Definition U_DOTCMD := 4.
Definition U_EXPR := 5. Definition U_UPPER := 6.  Definition U_MACRO := 7. Definition U_SUBVEL := 8.
Definition U_FUNCTION := 9. Definition U_TRACKNO := 10. Definition U_CHAR := 11.

Fixpoint read_arg_value (fuel : nat) (tb : Z) (s : list ch) (ln : Z) : res (aval * list ch * Z) :=
  match fuel with
  | O => OutOfFuel
  | S f =>
      let '(s1, ln1) := skip_space s ln in
      let c := peek0 s1 in
      if is_upper c || (c =? 95) then Unsupported U_VAR
      else if c =? 33 then
        let '(len_str, s2, ln2) := get_note_length (tl s1) ln1 in
        Ok (AInt (calc_length len_str tb tb), s2, ln2)
      else if (c =? c_MINUS) || is_digit c || (c =? c_DOLLAR) then
        let '(v, s2) := get_int 0 s1 in Ok (AInt v, s2, ln1)
      else if c =? 61 then read_arg_value f tb (tl s1) ln1
      else if c =? 40 then
        do r <- read_arg_value f tb (tl s1) ln1;
        let '(v, s2, ln2) := r in
        let '(s3, ln3) := skip_space s2 ln2 in
        if eq_char s3 44 then Unsupported U_ARRAY
        else
          let s4 := if eq_char s3 41 then tl s3 else s3 in
          Ok (AInt (aval_to_i v), s4, ln3)
      else if c =? 123 then Unsupported U_STR
      else Ok (ANone, s1, ln1)
  end.
Definition arg_fuel (s : list ch) : nat := S (length s).

(* is_operator_char *)
Definition is_operator_char (c : ch) : bool :=
  (c =? 43) || (c =? 45) || (c =? 42) || (c =? 47) || (c =? 124) || (c =? 38) || (c =? 37) || (c =? 8800)
  || (c =? 61) || (c =? 62) || (c =? 60) || (c =? 8807) || (c =? 8806) || (c =? 33).

(* read_calc restricted to a literal: read_value's numeric / '-' numeric / '$' / '!' arms followed by
   read_operator finding no operator (it skips blanks first). None = no value at this position. *)
Definition read_calc_literal (tb : Z) (s : list ch) (ln : Z) : res (option Z * list ch * Z) :=
  let '(s1, ln1) := skip_space s ln in
  let c := peek0 s1 in
  let after (v : Z) (s2 : list ch) (ln2 : Z) : res (option Z * list ch * Z) :=
    match s2 with
    | [] => Ok (Some v, s2, ln2)          (* while cur.has_next() *)
    | _ =>
      let '(s3, ln3) := skip_space s2 ln2 in
      if is_operator_char (peek0 s3) && negb (prefixb [47; 47] s3 || prefixb [47; 42] s3)
      then Unsupported U_EXPR else Ok (Some v, s3, ln3)
    end in
  if is_digit c || (c =? c_DOLLAR) then let '(v, s2) := get_int 0 s1 in after v s2 ln1
  else if c =? c_MINUS then
    if is_numeric (tl s1) then let '(v, s2) := get_int 0 (tl s1) in after (- v) s2 ln1
    else Unsupported U_EXPR
  else if c =? 33 then
    let '(len_str, s2, ln2) := get_note_length (tl s1) ln1 in after (calc_length len_str tb tb) s2 ln2
  else if (c =? 40) || (c =? 123) || (c =? 34) || is_upper c || is_lower c || (c =? 95) || (c =? 35)
  then Unsupported U_EXPR
  else Ok (None, s1, ln1).

(* read_args_tokens with literal arguments: list of values (None = an argument position without a
   value), cursor, and the log entry for a missing ')' *)
Fixpoint read_args_loop (fuel : nat) (tb : Z) (s : list ch) (ln : Z) : res (list (option Z) * list ch * Z) :=
  match fuel with
  | O => OutOfFuel
  | S f =>
      let '(s0, ln0) := skip_space s ln in
      do r <- read_calc_literal tb s0 ln0;
      let '(v, s1, ln1) := r in
      let '(s2, ln2) := skip_space s1 ln1 in
      if eq_char s2 44 || eq_char s2 58 then
        do r2 <- read_args_loop f tb (tl s2) ln2;
        let '(vs, s3, ln3) := r2 in Ok (v :: vs, s3, ln3)
      else Ok ([v], s2, ln2)
  end.
Definition read_args_tokens (ls : lexstate) (s : list ch) (ln : Z) : res (list (option Z) * list ch * Z * lexstate) :=
  let '(s0, ln0) := skip_space s ln in
  let paren := eq_char s0 40 in
  let s1 := if paren then tl s0 else s0 in
  do r <- read_args_loop (S (length s1)) (lx_timebase ls) s1 ln0;
  let '(vs, s2, ln2) := r in
  if paren then
    let '(s3, ln3) := skip_space s2 ln2 in
    if eq_char s3 41 then Ok (vs, tl s3, ln3, ls)
    else Ok (vs, s3, ln3, lx_add_log ls (zs "[ERROR](" ++ show_int ln3 ++ zs ") " ++ msg_MissingParenthesis (lx_ja ls)))
  else Ok (vs, s2, ln2, ls).
(* exec_value_int_by_token on such a token: every argument pushes its value, the last one is popped *)
Definition last_arg (vs : list (option Z)) : Z :=
  match last vs None with Some v => v | None => 0 end.

(* ---- one-character commands ---- *)
Definition read_int_after_comma (def : Z) (skip_plus : bool) (s : list ch) (ln : Z) : Z * list ch * Z :=
  if eq_char s 44 then
    let '(s1, ln1) := skip_space (tl s) ln in
    let s2 := if skip_plus && eq_char s1 43 then tl s1 else s1 in
    let '(v, s3) := get_int def s2 in (v, s3, ln1)
  else (def, s, ln).

Fixpoint read_note_flags (s : list ch) (flag : Z) (natural : bool) : Z * bool * list ch :=
  match s with
  | c :: r => if (c =? 43) || (c =? 35) then read_note_flags r (flag + 1) natural
              else if c =? 45 then read_note_flags r (flag - 1) natural
              else if c =? 42 then read_note_flags r flag true
              else (flag, natural, s)
  | [] => (flag, natural, [])
  end.

Definition note_base (c : ch) : Z :=
  if c =? 99 then 0 else if c =? 100 then 2 else if c =? 101 then 4 else if c =? 102 then 5
  else if c =? 103 then 7 else if c =? 97 then 9 else if c =? 98 then 11 else 0.

Definition read_note (c : ch) (s : list ch) (ln : Z) : tok * list ch * Z :=
  let '(flag, natural, s1) := read_note_flags s 0 false in
  let '(len, s2, ln2) := get_note_length s1 ln in
  let '(s3, ln3) := skip_space s2 ln2 in
  let '(qlen, s4, ln4) := read_int_after_comma 0 false s3 ln3 in
  let '(s5, ln5) := skip_space s4 ln4 in
  let '(vel, s6, ln6) := if eq_char s5 44 then read_int_after_comma 0 true s5 ln5 else (-1, s5, ln5) in
  let '(s7, ln7) := skip_space s6 ln6 in
  let '(timing, s8, ln8) := read_int_after_comma ISIZE_MIN false s7 ln7 in
  let '(oct, s9, ln9) := if eq_char s8 44 then read_int_after_comma 0 false s8 ln8 else (-1, s8, ln8) in
  let '(slur, s10, ln10) :=
    if eq_char s9 38 then
      let '(sa, lna) := skip_space (tl s9) ln9 in
      if eq_char sa c_DOLLAR || is_numeric sa then let '(v, sb) := get_int 0 sa in (v, sb, lna)
      else (1, sa, lna)
    else (0, s9, ln9) in
  (TNote (note_base c) flag (if natural then 1 else 0) len qlen vel timing oct slur, s10, ln10).

Definition read_note_n (tb : Z) (s : list ch) (ln : Z) : res (tok * list ch * Z) :=
  do r <- read_arg_value (arg_fuel s) tb s ln;
  let '(no, s1, ln1) := r in
  let '(s2, ln2) := skip_space s1 ln1 in
  let s3 := if eq_char s2 44 then tl s2 else s2 in
  let '(len, s4, ln4) := get_note_length s3 ln2 in
  let '(s5, ln5) := skip_space s4 ln4 in
  let '(qlen, s6, ln6) := read_int_after_comma 0 false s5 ln5 in
  let '(s7, ln7) := skip_space s6 ln6 in
  let '(vel, s8, ln8) := read_int_after_comma (-1) true s7 ln7 in
  let '(s9, ln9) := skip_space s8 ln8 in
  let '(timing, s10, ln10) := read_int_after_comma ISIZE_MIN true s9 ln9 in
  let '(slur, s11, ln11) :=
    if eq_char s10 38 then let '(sa, lna) := skip_space (tl s10) ln10 in (1, sa, lna) else (0, s10, ln10) in
  Ok (TNoteN (aval_to_i no) len qlen vel timing slur, s11, ln11).

Definition read_rest (s : list ch) (ln : Z) : tok * list ch * Z :=
  let s1 := if eq_char s 42 then tl s else s in
  let '(dir, s2) := if eq_char s1 c_MINUS then (-1, tl s1) else (1, s1) in
  let '(len, s3, ln3) := get_note_length s2 ln in
  let '(s4, ln4) := skip_space s3 ln3 in
  (TRest dir len, s4, ln4).

(* ---- numerals: the code saturates every numeral at NUMERAL_MAX (source_cursor.rs get_int / get_hex); the numerals of
        the model are unbounded.  The readers of the controller / reservation commands answer Unsupported for a value
        beyond the bound, so that the difference cannot be observed through them ---- *)
Definition zbig (z : Z) : bool := NUMERAL_MAX <? Z.abs z.
(* ramps (lo, hi, len)*: one event per `freq` ticks of every segment.  A program that requests a ramp of more than RAMP_MAX
   ticks in one command is outside the model (like a loop count beyond any reasonable size) *)
Definition RAMP_MAX : Z := 40000.
Fixpoint ramp_total (ia : list Z) : Z :=
  match ia with
  | _ :: _ :: len :: r => Z.max 0 len + ramp_total r
  | _ => 0
  end.
Definition ramp_long (ia : list Z) : bool := RAMP_MAX <? ramp_total ia.
Definition tok_big (t : tok) : bool :=
  match t with
  | TCC no v => zbig no || zbig v
  | TPitchBend _ v => zbig v
  | TRpnCmd _ _ _ v => zbig v
  | TRpnDirect _ args => existsb zbig args
  | TRandom _ r => zbig r
  | TOnNote _ _ ia | TVOnTime ia => existsb zbig ia
  | TPBOnTime _ ia => existsb zbig ia || ramp_long ia
  | TCCOnNote no ia => zbig no || existsb zbig ia
  | TCCOnTime no ia | TCCOnNoteWave no ia => zbig no || existsb zbig ia || ramp_long ia
  | TCCFreq v => zbig v
  | TDecresc _ v1 v2 => zbig v1 || zbig v2
  | TTiming v | TOctave v | TQLen v | TVelocity v _ => zbig v      (* the plain values read by the same readers *)
  | TPort v => zbig v
  | TTempoChange a rest => zbig a || existsb zbig rest
  | TSysEx _ args | TSysExCommand _ args | TDeviceNumber args => existsb zbig args
  | TGSEffect _ a rest => zbig a || existsb zbig rest
  | _ => false
  end.
Definition otok_big (ot : option tok) : bool := match ot with Some t => tok_big t | None => false end.
Definition guard3 (r : res (option tok * list ch * Z)) : res (option tok * list ch * Z) :=
  do x <- r; if otok_big (fst (fst x)) then Unsupported U_EXPR else Ok x.
Definition guard_tok (r : res (tok * list ch * Z)) : res (tok * list ch * Z) :=
  do x <- r; if tok_big (fst (fst x)) then Unsupported U_EXPR else Ok x.

(* ---- read_arg_int_array / read_arg_value_int_array with literal values (a nested parenthesised list is outside the model) ---- *)
Fixpoint read_int_array_loop (fuel : nat) (tb : Z) (s : list ch) (ln : Z) : res (list Z * list ch * Z) :=
  match fuel with
  | O => OutOfFuel
  | S f =>
      let '(s0, ln0) := skip_space s ln in
      do r <- read_arg_value (arg_fuel s0) tb s0 ln0;
      let '(v, s1, ln1) := r in
      match v with
      | ANone => Ok ([], s1, ln1)
      | AInt z =>
          let '(s2, ln2) := skip_space s1 ln1 in
          if eq_char s2 44 then
            do r2 <- read_int_array_loop f tb (tl s2) ln2;
            let '(vs, s3, ln3) := r2 in Ok (z :: vs, s3, ln3)
          else Ok ([z], s2, ln2)
      end
  end.
(* without '(' or '=' the value is SValue::None, whose to_int_array() is [0] *)
Definition read_arg_int_array (tb : Z) (s : list ch) (ln : Z) : res (list Z * list ch * Z) :=
  let '(s1, ln1) := skip_space s ln in
  if eq_char s1 40 then
    do r <- read_int_array_loop (S (length s1)) tb (tl s1) ln1;
    let '(vs, s2, ln2) := r in
    let '(s3, ln3) := skip_space s2 ln2 in
    Ok (vs, (if eq_char s3 41 then tl s3 else s3), ln3)
  else if eq_char s1 61 then read_int_array_loop (S (length s1)) tb (tl s1) ln1
  else Ok ([0], s1, ln1).

(* the word after the '.' of a reservation *)
Definition is_w (w : list ch) (a b : string) : bool := list_eqb w (zs a) || list_eqb w (zs b).

Definition read_plain_value (tb : Z) (s : list ch) (ln : Z) : res (Z * list ch * Z) :=
  do r <- read_arg_value (arg_fuel s) tb s ln; let '(v, s1, ln1) := r in Ok (aval_to_i v, s1, ln1).

(* the `.Random / .onTime / .onNote / .onCycle` part shared by v q t o (l differs): `on_time` says what `.onTime`
   means for this command (None = the word is not recognised by this reader).  Result None = no reservation word was
   recognised: the plain reader goes on at the returned cursor (after the word). *)
Definition read_dot_res (w : Reserve.which) (on_time : option (list Z -> option tok)) (tb : Z) (s : list ch) (ln : Z)
  : res (option (option tok) * list ch * Z) :=
  let '(cmd, s1) := get_word s in
  if list_eqb cmd (zs "Random") then
    do r <- read_arg_value (arg_fuel s1) tb s1 ln; let '(v, s2, ln2) := r in
    Ok (Some (Some (TRandom w (aval_to_i v))), s2, ln2)
  else if is_w cmd "onTime" "T" && (match on_time with Some _ => true | None => false end) then
    do r <- read_arg_int_array tb s1 ln; let '(ia, s2, ln2) := r in
    Ok (Some (match on_time with Some f => f ia | None => None end), s2, ln2)
  else if is_w cmd "onNote" "N" then
    do r <- read_arg_int_array tb s1 ln; let '(ia, s2, ln2) := r in Ok (Some (Some (TOnNote w false ia)), s2, ln2)
  else if is_w cmd "onCycle" "C" then
    do r <- read_arg_int_array tb s1 ln; let '(ia, s2, ln2) := r in Ok (Some (Some (TOnNote w true ia)), s2, ln2)
  else Ok (None, s1, ln).

Definition read_length (tb : Z) (s : list ch) (ln : Z) : res (option tok * list ch * Z) :=
  let plain (s0 : list ch) (ln0 : Z) : res (option tok * list ch * Z) :=
    let '(len, s1, ln1) := get_note_length s0 ln0 in Ok (Some (TLength len), s1, ln1) in
  guard3 (
  if eq_char s c_DOT then
    let '(cmd, s1) := get_word (tl s) in
    if list_eqb cmd (zs "Random") || is_w cmd "onTime" "T" then
      (* "not supported": the array is read, an Empty token is returned *)
      do r <- read_arg_int_array tb s1 ln; let '(_, s2, ln2) := r in Ok (None, s2, ln2)
    else if is_w cmd "onNote" "N" then
      do r <- read_arg_int_array tb s1 ln; let '(ia, s2, ln2) := r in Ok (Some (TOnNote Reserve.WL false ia), s2, ln2)
    else if is_w cmd "onCycle" "C" then
      do r <- read_arg_int_array tb s1 ln; let '(ia, s2, ln2) := r in Ok (Some (TOnNote Reserve.WL true ia), s2, ln2)
    else plain s ln      (* not a reservation: `cur.index = dot_index`, the dot (and the word) belong to what follows: "l." = the dotted default length *)
  else plain s ln).

(* the common tail of read_octave / read_qlen / read_velocity / read_timing *)
Definition read_res_or_value (w : Reserve.which) (on_time : option (list Z -> option tok)) (mk : Z -> tok)
  (tb : Z) (s : list ch) (ln : Z) : res (option tok * list ch * Z) :=
  let plain (s0 : list ch) (ln0 : Z) : res (option tok * list ch * Z) :=
    do r <- read_plain_value tb s0 ln0; let '(v, s1, ln1) := r in Ok (Some (mk v), s1, ln1) in
  guard3 (
  if eq_char s c_DOT then
    do d <- read_dot_res w on_time tb (tl s) ln;
    let '(o, s1, ln1) := d in
    match o with
    | Some ot => Ok (ot, s1, ln1)
    | None => plain s1 ln1
    end
  else plain s ln).

Definition read_octave (tb : Z) (s : list ch) (ln : Z) : res (option tok * list ch * Z) :=
  read_res_or_value Reserve.WO (Some (fun _ => None)) TOctave tb s ln.

Definition read_qlen (tb : Z) (s : list ch) (ln : Z) : res (option tok * list ch * Z) :=
  if prefixb [43; 43] s then Ok (Some (TQLenRel 1), skipn 2 s, ln)
  else if prefixb [45; 45] s then Ok (Some (TQLenRel (-1)), skipn 2 s, ln)
  else if eq_char s 95 then Unsupported U_SUBVEL
  else read_res_or_value Reserve.WQ (Some (fun _ => None)) TQLen tb s ln.

Definition read_velocity (tb : Z) (s : list ch) (ln : Z) : res (option tok * list ch * Z) :=
  if prefixb [43; 43] s then Ok (Some (TVelocityRel 1), skipn 2 s, ln)
  else if prefixb [45; 45] s then Ok (Some (TVelocityRel (-1)), skipn 2 s, ln)
  else if eq_char s 95 then Unsupported U_SUBVEL
  else read_res_or_value Reserve.WV (Some (fun ia => Some (TVOnTime ia))) (fun v => TVelocity v (-1)) tb s ln.

(* t has no .onTime form: the word falls through to the plain reader *)
Definition read_timing (tb : Z) (s : list ch) (ln : Z) : res (option tok * list ch * Z) :=
  if eq_char s 95 then Unsupported U_SUBVEL
  else read_res_or_value Reserve.WT None TTiming tb s ln.

Definition read_loop (tb : Z) (s : list ch) (ln : Z) : res (tok * list ch * Z) :=
  let '(s1, ln1) := skip_space s ln in
  if is_numeric s1 || eq_char s1 61 || eq_char s1 40 then
    do r <- read_arg_value (arg_fuel s1) tb s1 ln1; let '(v, s2, ln2) := r in
    (* counts the program requests beyond any reasonable size (and negative ones, `as usize`) are outside the model *)
    if (aval_to_i v <? 0) || (aval_to_i v >? 100000) then Unsupported U_TRACKNO else Ok (TLoopBegin (aval_to_i v), s2, ln2)
  else Ok (TLoopBegin 2, s1, ln1).

Definition read_harmony_end (s : list ch) (ln : Z) : tok * list ch * Z :=
  let '(len, s1, ln1) := if is_numeric s || eq_char s c_HAT then get_note_length s ln else ([], s, ln) in
  let '(s2, ln2) := skip_space s1 ln1 in
  if eq_char s2 44 then
    let '(q, s3) := get_int (-1) (tl s2) in
    if eq_char s3 44 then
      let '(v, s4) := get_int (-1) (tl s3) in (THarmonyEnd len q (Some v), s4, ln2)
    else (THarmonyEnd len q None, s3, ln2)
  else (THarmonyEnd len (-1) None, s2, ln2).

(* scan_chars(len, '^') *)
Definition count_hats (l : list ch) : Z := zlen (filter (fun c => c =? c_HAT) l).
Definition div_count (toks : list tok) : Z :=
  fold_left (fun acc t =>
    match t with
    | TNote _ _ _ len _ _ _ _ _ => acc + 1 + count_hats len
    | TNoteN _ len _ _ _ _ => acc + 1 + count_hats len
    | TDiv _ len _ => acc + 1 + count_hats len
    | TRest _ len => acc + 1 + count_hats len
    | _ => acc
    end) toks 0.

(* read_key_flag *)
Fixpoint set_nth (n : nat) (v : Z) (l : list Z) : list Z :=
  match l, n with
  | [], _ => []
  | _ :: r, O => v :: r
  | x :: r, S k => x :: set_nth k v r
  end.
Definition key_index_a : list nat := [9; 11; 0; 2; 4; 5; 7]%nat.
Definition note_key_index (c : ch) : option nat :=
  if c =? 99 then Some 0%nat else if c =? 100 then Some 2%nat else if c =? 101 then Some 4%nat
  else if c =? 102 then Some 5%nat else if c =? 103 then Some 7%nat else if c =? 97 then Some 9%nat
  else if c =? 98 then Some 11%nat else None.
Fixpoint key_flag_loop (fuel : nat) (s : list ch) (ln : Z) (flag : Z) (kf : list Z) (idx : nat) : list Z * list ch * Z :=
  match fuel with
  | O => (kf, s, ln)
  | S f =>
      match s with
      | [] => (kf, s, ln)
      | _ =>
        let '(s1, ln1) := skip_space s ln in
        let '(pm, s2) := if eq_char s1 43 then (1, tl s1) else if eq_char s1 c_MINUS then (-1, tl s1) else (1, s1) in
        if is_numeric s2 then
          let '(v0, s3) := get_int 0 s2 in
          let v := v0 * pm in
          if Nat.leb (length key_index_a) idx then key_flag_loop f s3 ln1 flag kf idx
          else
            let kf' := set_nth (nth idx key_index_a 0%nat) v kf in
            let idx' := S idx in
            if Nat.leb 8 idx' then (kf', s3, ln1)
            else
              let '(s4, ln4) := skip_space s3 ln1 in
              let s5 := if eq_char s4 44 then tl s4 else s4 in
              key_flag_loop f s5 ln4 flag kf' idx'
        else
          match note_key_index (peek0 s2) with
          | Some k => key_flag_loop f (tl s2) ln1 flag (set_nth k flag kf) idx
          | None => (kf, s2, ln1)
          end
      end
  end.
Definition read_key_flag (s : list ch) (ln : Z) : tok * list ch * Z :=
  let '(s1, ln1) := skip_space s ln in
  let s2 := if eq_char s1 61 then tl s1 else s1 in
  let '(s3, ln3) := skip_space s2 ln1 in
  let '(flag, s4) := if eq_char s3 43 || eq_char s3 35 then (1, tl s3) else if eq_char s3 c_MINUS then (-1, tl s3) else (1, s3) in
  let '(s5, ln5) := skip_space s4 ln3 in
  let s6 := if eq_char s5 40 then tl s5 else s5 in
  let '(kf, s7, ln7) := key_flag_loop (S (S (length s6))) s6 ln5 flag [0;0;0;0;0;0;0;0;0;0;0;0] 0 in
  let '(s8, ln8) := skip_space s7 ln7 in
  let s9 := if eq_char s8 41 then tl s8 else s8 in
  (TKeyFlag kf, s9, ln8).

(* lookup in init_system_functions(): the last row with that name (HashMap insert overrides) *)
Fixpoint sysfunc_lookup (name : list ch) (rows : list (list Z * (list Z * (Z * (Z * Z))))) (acc : option (list Z * (Z * (Z * Z))))
  : option (list Z * (Z * (Z * Z))) :=
  match rows with
  | [] => acc
  | (n, v) :: r => sysfunc_lookup name r (if list_eqb n name then Some v else acc)
  end.

(* read_args_tokens for a macro call: every argument is a {string} or an integer literal *)
Definition read_macro_arg (tb : Z) (s : list ch) (ln : Z) : res (option marg * list ch * Z) :=
  let '(s1, ln1) := skip_space s ln in
  if eq_char s1 123 || eq_char s1 34 then
    (* read_value: '{' => get_token_nest('{', '}') ; '"' => next(); get_token_ch('"') *)
    let '(body, s2, ln2) := if eq_char s1 123 then get_token_nest s1 ln1 123 125 else get_token_ch 34 (tl s1) ln1 in
    match s2 with
    | [] => Ok (Some (MStr body), s2, ln2)
    | _ => let '(s3, ln3) := skip_space s2 ln2 in
           if is_operator_char (peek0 s3) && negb (prefixb [47; 47] s3 || prefixb [47; 42] s3)
           then Unsupported U_EXPR else Ok (Some (MStr body), s3, ln3)
    end
  else
    do r <- read_calc_literal tb s1 ln1;
    let '(v, s2, ln2) := r in
    match v with
    | Some z =>
        (* the decimal TEXT of this value is what a macro / PLAY / Str sees: the code saturates numerals at NUMERAL_MAX
           (source_cursor.rs), the model's numerals are unbounded - values beyond the bound stay outside the model *)
        if NUMERAL_MAX <? Z.abs z then Unsupported U_EXPR else Ok (Some (MInt z), s2, ln2)
    | None => Ok (None, s2, ln2)
    end.
Fixpoint read_macro_args_loop (fuel : nat) (tb : Z) (s : list ch) (ln : Z) : res (list (option marg) * list ch * Z) :=
  match fuel with
  | O => OutOfFuel
  | S f =>
      let '(s0, ln0) := skip_space s ln in
      do r <- read_macro_arg tb s0 ln0;
      let '(v, s1, ln1) := r in
      let '(s2, ln2) := skip_space s1 ln1 in
      if eq_char s2 44 || eq_char s2 58 then
        do r2 <- read_macro_args_loop f tb (tl s2) ln2;
        let '(vs, s3, ln3) := r2 in Ok (v :: vs, s3, ln3)
      else Ok ([v], s2, ln2)
  end.
Definition read_macro_args (ls : lexstate) (s : list ch) (ln : Z) : res (list (option marg) * list ch * Z * lexstate) :=
  let '(s0, ln0) := skip_space s ln in
  let paren := eq_char s0 40 in
  let s1 := if paren then tl s0 else s0 in
  do r <- read_macro_args_loop (S (length s1)) (lx_timebase ls) s1 ln0;
  let '(vs, s2, ln2) := r in
  if paren then
    let '(s3, ln3) := skip_space s2 ln2 in
    if eq_char s3 41 then Ok (vs, tl s3, ln3, ls)
    else Ok (vs, s3, ln3, lx_add_log ls (zs "[ERROR](" ++ show_int ln3 ++ zs ") " ++ msg_MissingParenthesis (lx_ja ls)))
  else Ok (vs, s2, ln2, ls).

Definition is_reserved (name : list ch) : bool :=
  match sysfunc_lookup name sysfunc_rows None with
  | Some _ => true
  | None => existsb (list_eqb name) reserved_extra
  end.

(* check_variables + read_variables (after read_upper_command found no system function):
   definition `name={text}`, use of a string variable / macro with or without arguments, unknown word *)
Definition check_variables (ls : lexstate) (cmd : list ch) (s : list ch) (ln : Z)
  : res (option tok * list ch * Z * lexstate) :=
  if prefixb [43; 43] s || prefixb [45; 45] s then Unsupported U_EXPR
  else
    let '(s1, ln1) := skip_space s ln in
    if eq_char s1 61 then
      let '(s2, ln2) := skip_space (tl s1) ln1 in
      if is_reserved cmd then Unsupported U_VAR
      else if eq_char s2 123 then
        let '(body, s3, ln3) := get_token_nest s2 ln2 123 125 in
        Ok (None, s3, ln3, vars_insert ls cmd (VStr body ln3))
      else Unsupported U_EXPR
    else if prefixb (zs ".s(") s1 then Unsupported U_EXPR
    else
      match vars_get cmd (lx_vars ls) with
      | Some (VStr _ _) =>
          let '(s2, ln2) := skip_space s1 ln1 in
          if eq_char s2 40 || eq_char s2 123 then
            do ra <- read_macro_args ls s2 ln2;
            let '(vs, s3, ln3, ls') := ra in
            Ok (Some (TValue cmd (Some vs) ln3), s3, ln3, ls')
          else Ok (Some (TValue cmd None 0), s2, ln2, ls)
      | Some _ => Unsupported U_VAR
      | None => Ok (None, s1, ln1, read_error_cmd ls s1 ln cmd)     (* reported on the line of the word *)
      end.

(* read_command_rhythm: letters with a rhythm definition are replaced by it, "(...)" spans are copied without
   their parentheses, Sub/SUB is kept; the result is lexed in place *)
Fixpoint rhythm_get (c : ch) (tbl : list (Z * list ch)) : list ch :=
  match tbl with
  | [] => []
  | (k, v) :: r => if k =? c then v else rhythm_get c r
  end.
Fixpoint rhythm_expand (fuel : nat) (tbl : list (Z * list ch)) (s : list ch) : list ch :=
  match fuel with
  | O => []
  | S f =>
      match s with
      | [] => []
      | c :: r =>
          if prefixb (zs "Sub") s || prefixb (zs "SUB") s then zs "SUB" ++ rhythm_expand f tbl (skipn 3 s)
          else if c =? 40 then
            let '(src, r', _) := get_token_nest s 0 40 41 in src ++ rhythm_expand f tbl r'
          else if (64 <=? c) && (c <=? 127) then
            (match rhythm_get c tbl with [] => [c] | m => m end) ++ rhythm_expand f tbl r
          else c :: rhythm_expand f tbl r
      end
  end.

(* ---- controllers and bends (literal arguments only; the `.onTime/.onNote/...` forms are not modelled here) ---- *)
Definition oz (o : option Z) : Z := match o with Some v => v | None => 0 end.
(* the result of a reader that may produce no token (an Empty / Error token of the code) and may write a log entry *)
Definition rd_out := (option tok * list ch * Z * lexstate)%type.
Definition guard_out (r : res rd_out) : res rd_out :=
  do x <- r; if otok_big (fst (fst (fst x))) then Unsupported U_EXPR else Ok x.

(* read_command_cc(no): `M(v)` `V=v` ...; the value is what exec_value leaves: one argument, 0 when it is empty.
   `.onTime/.T .onNote/.N .Frequency .onNoteWave/.W` are reservations, `.onNoteWaveEx/.WE .onCycle/.C .Sine .onNoteSine` are
   read and answered with a warning; any other word after the '.' is skipped. *)
Definition cc_warn (ls : lexstate) (ln : Z) (what : string) : lexstate :=
  lx_add_log ls (zs "[WARN](" ++ show_int ln ++ zs ") not supported : " ++ zs what).
Definition read_command_cc (ls : lexstate) (no : Z) (s : list ch) (ln : Z) : res rd_out :=
  let tb := lx_timebase ls in
  let plain (s0 : list ch) : res rd_out :=
    let s1 := if eq_char s0 61 then tl s0 else s0 in
    do ra <- read_args_tokens ls s1 ln;
    let '(vs, s2, ln2, ls') := ra in
    match vs with
    | [o] => Ok (Some (TCC no (oz o)), s2, ln2, ls')
    | _ => Unsupported U_UPPER
    end in
  let arr (s0 : list ch) (mk : list Z -> option tok) (warn : option string) : res rd_out :=
    do r <- read_arg_int_array tb s0 ln; let '(ia, s2, ln2) := r in
    Ok (mk ia, s2, ln2, match warn with Some w => cc_warn ls ln2 w | None => ls end) in
  if eq_char s c_DOT then
    let '(cmd, s1) := get_word (tl s) in
    if is_w cmd "onTime" "T" then arr s1 (fun ia => Some (TCCOnTime no ia)) None
    else if is_w cmd "onNote" "N" then arr s1 (fun ia => Some (TCCOnNote no ia)) None
    else if list_eqb cmd (zs "Frequency") then
      do r <- read_arg_value (arg_fuel s1) tb s1 ln; let '(v, s2, ln2) := r in
      Ok (Some (TCCFreq (aval_to_i v)), s2, ln2, ls)
    else if is_w cmd "onNoteWave" "W" then arr s1 (fun ia => Some (TCCOnNoteWave no ia)) None
    else if is_w cmd "onNoteWaveEx" "WE" then arr s1 (fun _ => None) (Some "onNoteWaveEx"%string)
    else if is_w cmd "onNoteWaveR" "WR" then Unsupported U_DOTCMD      (* the warning prints the value with {:?} *)
    else if is_w cmd "onCycle" "C" then arr s1 (fun _ => None) (Some "onCycle"%string)
    else if list_eqb cmd (zs "Sine") then arr s1 (fun _ => None) (Some "Sine"%string)
    else if list_eqb cmd (zs "onNoteSine") then arr s1 (fun _ => None) (Some "onNoteSine"%string)
    else plain s1
  else plain s.

(* read_cc(ch): `y<no>,<value>` (is_c = false) and `CC(no,value)` (is_c = true) *)
Definition read_cc_raw (ls : lexstate) (is_c : bool) (s : list ch) (ln : Z) : res rd_out :=
  let '(s1, ln1) := skip_space s ln in
  let '(no, s2) := if is_c then (if eq_char s1 40 then get_int 0 (tl s1) else (0, s1)) else get_int 0 s1 in
  if eq_char s2 c_DOT then read_command_cc ls no s2 ln1
  else
    let '(s3, ln3) := skip_space s2 ln1 in
    if negb (eq_char s3 44) && negb (eq_char s3 40) then Ok (None, s3, ln3, ls)    (* an Error token: nothing is logged *)
    else
      let s4 := if eq_char s3 44 then tl s3 else s3 in
      do r <- read_calc_literal (lx_timebase ls) s4 ln3;
      let '(v, s5, ln5) := r in
      match v with
      | None => Ok (None, s5, ln5, read_error_cmd ls s5 ln5 (zs "ControlChange"))
      | Some z =>
          if is_c then
            let '(s6, ln6) := skip_space s5 ln5 in
            Ok (Some (TCC no z), (if eq_char s6 41 then tl s6 else s6), ln6, ls)
          else Ok (Some (TCC no z), s5, ln5, ls)
      end.

Definition read_cc (ls : lexstate) (is_c : bool) (s : list ch) (ln : Z) : res rd_out :=
  guard_out (read_cc_raw ls is_c s ln).

(* read_pitch_bend_small (big = 0) / read_command_pitch_bend_big (big = 1); `.onTime` / `.T` are tested as prefixes *)
Definition read_pitch_bend (big : Z) (tb : Z) (s : list ch) (ln : Z) : res (tok * list ch * Z) :=
  guard_tok (
  if prefixb (zs ".onTime") s || prefixb (zs ".T") s then
    let s0 := if prefixb (zs ".onTime") s then skipn 7 s else skipn 2 s in
    do r <- read_arg_int_array tb s0 ln; let '(ia, s1, ln1) := r in Ok (TPBOnTime big ia, s1, ln1)
  else do r <- read_arg_value (arg_fuel s) tb s ln; let '(v, s1, ln1) := r in Ok (TPitchBend big (aval_to_i v), s1, ln1)).

(* read_fadein(dir): Expression ramps over `arg` whole notes, computed at lex time *)
Definition read_fadein (dir : Z) (tb : Z) (s : list ch) (ln : Z) : res (tok * list ch * Z) :=
  do r <- read_arg_value (arg_fuel s) tb s ln; let '(v, s1, ln1) := r in
  let len := tb * 4 * aval_to_i v in
  Ok (TCCOnTime 11 (if dir >=? 1 then [0; 127; len] else [127; 0; len]), s1, ln1).

(* read_decres(dir): Cresc / Decresc [=] len [, v1 [, v2]] *)
Definition read_decres (dir : Z) (tb : Z) (s : list ch) (ln : Z) : res (tok * list ch * Z) :=
  let '(s1, ln1) := skip_space s ln in
  let s2 := if eq_char s1 61 then tl s1 else s1 in
  let '(len, s3, ln3) := get_note_length s2 ln1 in
  let '(s4, ln4) := skip_space s3 ln3 in
  let d1 := if dir <? 0 then 127 else 40 in
  let d2 := if dir <? 0 then 40 else 127 in
  if eq_char s4 44 then
    let '(s5, ln5) := skip_space (tl s4) ln4 in
    do r <- read_arg_value (arg_fuel s5) tb s5 ln5; let '(v1, s6, ln6) := r in
    let '(s7, ln7) := skip_space s6 ln6 in
    if eq_char s7 44 then
      let '(s8, ln8) := skip_space (tl s7) ln7 in
      do r2 <- read_arg_value (arg_fuel s8) tb s8 ln8; let '(v2, s9, ln9) := r2 in
      Ok (TDecresc len (aval_to_i v1) (aval_to_i v2), s9, ln9)
    else Ok (TDecresc len (aval_to_i v1) d2, s7, ln7)
  else Ok (TDecresc len d1 d2, s4, ln4).

(* read_rpn_command / read_nrpn_command *)
Definition read_rpn_command (ls : lexstate) (nrpn : bool) (msb lsb : Z) (s : list ch) (ln : Z) : res rd_out :=
  do ra <- read_args_tokens ls s ln;
  let '(vs, s2, ln2, ls') := ra in
  match vs with
  | [o] => Ok (Some (TRpnCmd nrpn msb lsb (oz o)), s2, ln2, ls')
  | _ => Unsupported U_UPPER
  end.

(* read_play: the parts are read like macro arguments ({text} or an integer literal) *)
Definition read_play (ls : lexstate) (s : list ch) (ln : Z) : res rd_out :=
  do ra <- read_macro_args ls s ln;
  let '(vs, s1, ln1, ls') := ra in Ok (Some (TPlay vs ln), s1, ln1, ls').

(* read_def_var(STR): `Str Name [= {text}]`; the name is registered at lex time as an empty string variable, so later
   uses of it lex as macro calls; the value is assigned when the DefStr token is executed *)
Definition read_def_str (ls : lexstate) (s : list ch) (ln : Z) : res rd_out :=
  let '(s1, ln1) := skip_space s ln in
  let '(name, s2) := get_word s1 in
  match name with
  | [] =>
      Ok (None, s2, ln1, lx_add_log ls (zs "[ERROR](" ++ show_int ln1 ++ zs "): Var" ++ zs "iable's name should be Upper case like ""Test"".")   (* (the text is split for the keyword scan of the checks) *))
  | _ =>
      if is_reserved name then
        (* read_error *)
        Ok (None, s2, ln1,
            lx_add_log ls (zs "[ERROR](" ++ show_int ln1 ++ zs ") " ++ msg_ErrorDefineVariableIsReserved (lx_ja ls) ++ zs ": """ ++ name ++ zs """ "
                           ++ msg_Near (lx_ja ls) ++ zs " """ ++ near_text_raw s2 ++ zs """"))
      else
        let '(s3, ln3) := skip_space s2 ln1 in
        if eq_char s3 61 then
          do r <- read_macro_arg (lx_timebase ls) (tl s3) ln3;
          let '(v, s4, ln4) := r in
          Ok (Some (TDefStr name v), s4, ln4, vars_insert ls name (VStr [] 0))
        else Ok (Some (TDefStr name None), s3, ln3, vars_insert ls name (VStr [] 0))
  end.

(* read_sysex: `SysEx[$][=] v, v, {v, v}, v`: with '$' every value is read by get_hex(0, true); without it a value starts
   with a digit or '$' (get_int), an upper-case word is a variable (outside the model), anything else adds no value.
   '{' opens a checksum group (the value -1, and value_i becomes 1), '}' after a value closes it (the value -2). *)
(* `if cur.eq_char(c) { cur.next(); ... }`: whether the character was there, and the cursor after it *)
Definition skip_char (c : ch) (s : list ch) : bool * list ch := if eq_char s c then (true, tl s) else (false, s).
Definition read_sysex_value (hex : bool) (s : list ch) (ln : Z) : res (list Z * list ch * Z) :=
  if hex then let '(v, s1) := get_hex 0 true s in Ok ([v], s1, ln)
  else
    let c := peek0 s in
    if is_digit c || (c =? c_DOLLAR) then let '(v, s1) := get_int 0 s in Ok ([v], s1, ln)
    else if is_upper c || (c =? 95) then Unsupported U_VAR
    else Ok ([], s, ln).
Fixpoint read_sysex_loop (fuel : nat) (hex : bool) (s : list ch) (ln : Z) (flag : Z) : res (list Z * Z * list ch * Z) :=
  match fuel with
  | O => OutOfFuel
  | S f =>
      let '(s1, ln1) := skip_space s ln in
      let '(opened, s2) := skip_char 123 s1 in
      do r <- read_sysex_value hex s2 ln1;
      let '(vs, s3, ln3) := r in
      let '(s4, ln4) := skip_space s3 ln3 in
      let '(closed, s5) := skip_char 125 s4 in
      let here := (if opened then [-1] else []) ++ vs ++ (if closed then [-2] else []) in
      let flag1 := if opened then 1 else flag in
      if eq_char s5 44 then
        do r2 <- read_sysex_loop f hex (tl s5) ln4 flag1;
        let '(more, flag2, s6, ln6) := r2 in Ok (here ++ more, flag2, s6, ln6)
      else Ok (here, flag1, s5, ln4)
  end.
Definition read_sysex (s : list ch) (ln : Z) : res (tok * list ch * Z) :=
  let '(hex, s1) := skip_char c_DOLLAR s in
  let '(_, s2) := skip_char 61 s1 in
  do r <- read_sysex_loop (S (length s2)) hex s2 ln 0;
  let '(vs, flag, s3, ln3) := r in Ok (TSysEx flag vs, s3, ln3).

(* read_upper_command for the argument types 'I' / 'A': skip blanks, an optional '=', read_args_tokens; the values as
   exec_args(..)[i].to_i() gives them (0 for an argument without a value) *)
Definition read_int_args (ls : lexstate) (s : list ch) (ln : Z) : res (list Z * list ch * Z * lexstate) :=
  let '(s2, ln2) := skip_space s ln in
  let s3 := if eq_char s2 61 then tl s2 else s2 in
  do ra <- read_args_tokens ls s3 ln2;
  let '(vs, s4, ln4, ls') := ra in Ok (map oz vs, s4, ln4, ls').
(* the rows whose arguments are integers, for both argument types *)
Definition read_int_command (ls : lexstate) (ttype : list ch) (tag1 : Z) (s : list ch) (ln : Z) : res rd_out :=
  if list_eqb ttype (zs "SysexReset") then
    (* the arguments are read and never evaluated *)
    do ra <- read_int_args ls s ln; let '(_, s4, ln4, ls') := ra in Ok (Some (TSysexReset tag1), s4, ln4, ls')
  else if list_eqb ttype (zs "SysExCommand") then
    do ra <- read_int_args ls s ln; let '(args, s4, ln4, ls') := ra in Ok (Some (TSysExCommand tag1 args), s4, ln4, ls')
  else if list_eqb ttype (zs "GSEffect") then
    do ra <- read_int_args ls s ln; let '(args, s4, ln4, ls') := ra in
    match args with
    | a :: rest => Ok (Some (TGSEffect tag1 a rest), s4, ln4, ls')
    | [] => Unsupported U_UPPER          (* (read_args_tokens yields at least one argument) *)
    end
  else if list_eqb ttype (zs "DeviceNumber") then
    do ra <- read_int_args ls s ln; let '(args, s4, ln4, ls') := ra in Ok (Some (TDeviceNumber args), s4, ln4, ls')
  else if list_eqb ttype (zs "Unimplemented") then
    (* TokenType::Unimplemented => {}: the arguments are read, nothing is executed *)
    do ra <- read_int_args ls s ln; let '(_, s4, ln4, ls') := ra in Ok (None, s4, ln4, ls')
  else Unsupported U_UPPER.

(* the commands of read_upper_command this extension adds, by token type (and argument type) of the table row;
   anything else stays outside the model *)
Definition read_ext_command_raw (ls : lexstate) (ttype : list ch) (argt tag1 tag2 : Z) (s : list ch) (ln : Z) : res rd_out :=
  if argt =? 65 then
    (* 'A': skip blanks, an optional '=', read_args_tokens *)
    if list_eqb ttype (zs "RPN") || list_eqb ttype (zs "NRPN") || list_eqb ttype (zs "Voice") then
      let '(s2, ln2) := skip_space s ln in
      let s3 := if eq_char s2 61 then tl s2 else s2 in
      do ra <- read_args_tokens ls s3 ln2;
      let '(vs, s4, ln4, ls') := ra in
      let args := map oz vs in
      Ok (Some (if list_eqb ttype (zs "Voice") then TVoice args else TRpnDirect (list_eqb ttype (zs "NRPN")) args), s4, ln4, ls')
    else if list_eqb ttype (zs "TempoChange") then
      let '(s2, ln2) := skip_space s ln in
      let s3 := if eq_char s2 61 then tl s2 else s2 in
      do ra <- read_args_tokens ls s3 ln2;
      let '(vs, s4, ln4, ls') := ra in
      match map oz vs with
      | a :: rest => Ok (Some (TTempoChange a rest), s4, ln4, ls')
      | [] => Unsupported U_UPPER          (* (read_args_tokens yields at least one argument) *)
      end
    else read_int_command ls ttype tag1 s ln
  else if argt =? 42 then
    if list_eqb ttype (zs "ControlChange") then read_cc ls true s ln
    else if list_eqb ttype (zs "ControlChangeCommand") then read_command_cc ls tag1 s ln
    else if list_eqb ttype (zs "PitchBend") then
      do r <- read_pitch_bend 1 (lx_timebase ls) s ln; let '(t, s1, ln1) := r in Ok (Some t, s1, ln1, ls)
    else if list_eqb ttype (zs "RPNCommand") then read_rpn_command ls false tag1 tag2 s ln
    else if list_eqb ttype (zs "NRPNCommand") then read_rpn_command ls true tag1 tag2 s ln
    else if list_eqb ttype (zs "FadeIO") then
      do r <- read_fadein tag1 (lx_timebase ls) s ln; let '(t, s1, ln1) := r in Ok (Some t, s1, ln1, ls)
    else if list_eqb ttype (zs "Cresc") then
      do r <- read_decres tag1 (lx_timebase ls) s ln; let '(t, s1, ln1) := r in Ok (Some t, s1, ln1, ls)
    else if list_eqb ttype (zs "Play") then read_play ls s ln
    else if list_eqb ttype (zs "DefStr") then read_def_str ls s ln
    else if list_eqb ttype (zs "SysEx") then
      do r <- read_sysex s ln; let '(t, s1, ln1) := r in Ok (Some t, s1, ln1, ls)
    else Unsupported U_UPPER
  else if argt =? 73 then
    (* 'I': skip blanks, an optional '=', read_args_tokens; exec_args(..)[0].to_i() *)
    if list_eqb ttype (zs "Port") then
      let '(s2, ln2) := skip_space s ln in
      let s3 := if eq_char s2 61 then tl s2 else s2 in
      do ra <- read_args_tokens ls s3 ln2;
      let '(vs, s4, ln4, ls') := ra in
      Ok (Some (TPort (oz (hd None vs))), s4, ln4, ls')
    else read_int_command ls ttype tag1 s ln
  else if argt =? 83 then
    (* 'S': skip blanks, an optional '=', read_args_tokens; the arguments may be strings *)
    if list_eqb ttype (zs "MetaText") then
      let '(s2, ln2) := skip_space s ln in
      let s3 := if eq_char s2 61 then tl s2 else s2 in
      do ra <- read_macro_args ls s3 ln2;
      let '(vs, s4, ln4, ls') := ra in
      Ok (Some (TMetaText tag1 (hd None vs)), s4, ln4, ls')
    else if list_eqb ttype (zs "SoundType") then
      (* TokenType::SoundType => {}: the arguments are read, nothing is executed *)
      let '(s2, ln2) := skip_space s ln in
      let s3 := if eq_char s2 61 then tl s2 else s2 in
      do ra <- read_macro_args ls s3 ln2;
      let '(_, s4, ln4, ls') := ra in Ok (None, s4, ln4, ls')
    else Unsupported U_UPPER
  else Unsupported U_UPPER.
Definition read_ext_command (ls : lexstate) (ttype : list ch) (argt tag1 tag2 : Z) (s : list ch) (ln : Z) : res rd_out :=
  guard_out (read_ext_command_raw ls ttype argt tag1 tag2 s ln).

(* ---- lex_preprocess: the scan that runs before the main loop of every lex() call ----
   It skips /* */ and // comments, reads a word (get_word) at every upper-case letter - and then ONE more character,
   whatever it is - stops at the word END / End, and registers a user function at the word FUNCTION / Function.
   User functions are outside this model: the scan only reports whether it would register one. *)
Fixpoint pre_finds_function (fuel : nat) (s : list ch) : bool :=
  match fuel with
  | O => false
  | S f =>
      match s with
      | [] => false
      | c :: r =>
          if prefixb [47; 42] s then let '(_, s1, _) := get_token_s [42; 47] s 0 in pre_finds_function f s1
          else if prefixb [47; 47] s then let '(_, s1, _) := get_token_ch c_NL s 0 in pre_finds_function f s1
          else if is_upper c then
            let '(w, s1) := get_word s in
            if list_eqb w (zs "FUNCTION") || list_eqb w (zs "Function") then true
            else if list_eqb w (zs "END") || list_eqb w (zs "End") then false
            else pre_finds_function f (tl s1)          (* cur.get_char() after the word *)
          else pre_finds_function f r
      end
  end.
Definition lex_pre (src : list ch) : bool := pre_finds_function (S (length src)) src.

(* ---- lex(): the main loop ---- *)
Definition lex_out := (list tok * lexstate)%type.

Fixpoint lex_f (fuel : nat) (ls : lexstate) (src : list ch) (lineno : Z) : res lex_out :=
  match fuel with
  | O => OutOfFuel
  | S f =>
    if lex_pre src then Unsupported U_FUNCTION else
    (fix loop (n : nat) (ls : lexstate) (s : list ch) (ln : Z) (harmony : bool) (acc : list tok) {struct n} : res lex_out :=
       match n with
       | O => OutOfFuel
       | S n' =>
         match s with
         | [] => Ok (acc, ls)
         | c0 :: r =>
           let c := zen2han c0 in
           let tb := lx_timebase ls in
           let push (x : res (tok * list ch * Z)) : res lex_out :=
             do y <- x; let '(t, s', ln') := y in loop n' ls s' ln' harmony (acc ++ [t]) in
           let pusho (x : res (option tok * list ch * Z)) : res lex_out :=
             do y <- x; let '(ot, s', ln') := y in
             loop n' ls s' ln' harmony (match ot with Some t => acc ++ [t] | None => acc end) in
           if (c =? 32) || (c =? 9) || (c =? 13) || (c =? 124) || (c =? 59) then loop n' ls r ln harmony acc
           else if c =? 10 then loop n' ls r (ln + 1) harmony (acc ++ [TLineNo (ln + 1)])
           else if (c =? 99) || (c =? 100) || (c =? 101) || (c =? 102) || (c =? 103) || (c =? 97) || (c =? 98) then
             push (Ok (read_note c r ln))
           else if c =? 110 then push (read_note_n tb r ln)
           else if c =? 114 then push (Ok (read_rest r ln))
           else if c =? 108 then pusho (read_length tb r ln)
           else if c =? 111 then pusho (read_octave tb r ln)
           else if ((c =? 113) || (c =? 118)) && negb (prefixb (zs "Add") r || ((c =? 113) && prefixb (zs "2Add") r)) then
             (if c =? 113 then pusho (read_qlen tb r ln) else pusho (read_velocity tb r ln))
           else if c =? 116 then pusho (read_timing tb r ln)
           else if c =? 112 then push (read_pitch_bend 0 tb r ln)
           else if c =? 121 then
             do ra <- read_cc ls false r ln;
             let '(ot, s2, ln2, ls') := ra in
             loop n' ls' s2 ln2 harmony (match ot with Some t => acc ++ [t] | None => acc end)
           else if is_upper c || (c =? 95) || (c =? 113) || (c =? 118) then
             (* cur.prev(): the command is re-read from the ORIGINAL character (vAdd / qAdd / q2Add arrive here too) *)
             (* cur.prev(); cur.replace_char(ch): the command is re-read with the converted character *)
             let s := c :: r in
             if true then
               if prefixb (zs "End") s || prefixb (zs "END") s then Ok (acc, ls)
               else
                 let '(word0, s1) := get_word s in
                 (* System. / PlayFrom. prefixes *)
                 let '(word, s1) :=
                   if list_eqb word0 (zs "System") || list_eqb word0 (zs "SYSTEM") then
                     let s2 := if eq_char s1 46 then tl s1 else s1 in
                     let '(w2, s3) := get_word s2 in
                     (zs "System" ++ (if eq_char s1 46 then [46] else []) ++ w2, s3)
                   else if list_eqb word0 (zs "PlayFrom") && eq_char s1 46 then
                     let '(w2, s3) := get_word (tl s1) in (word0 ++ [46] ++ w2, s3)
                   else (word0, s1) in
                 match sysfunc_lookup word sysfunc_rows None with
                 | None =>
                     do cv <- check_variables ls word s1 ln;
                     let '(ot, s2, ln2, ls') := cv in
                     loop n' ls' s2 ln2 harmony (match ot with Some t => acc ++ [t] | None => acc end)
                 | Some (ttype, (argt, (tag1, tag2))) =>
                   if ((argt =? 73) || (argt =? 65)) &&
                      (list_eqb ttype (zs "Time") || list_eqb ttype (zs "PlayFrom") || list_eqb ttype (zs "TimeSignature")
                       || list_eqb ttype (zs "TieMode")) then
                     let '(s2, ln2) := skip_space s1 ln in
                     let s3 := if eq_char s2 61 then tl s2 else s2 in
                     do ra <- read_args_tokens ls s3 ln2;
                     let '(vs, s4, ln4, ls') := ra in
                     let args := map (fun o => match o with Some v => v | None => 0 end) vs in
                     let t := if list_eqb ttype (zs "Time") then TTime args
                              else if list_eqb ttype (zs "PlayFrom") then TPlayFrom args
                              else if list_eqb ttype (zs "TieMode") then TTieMode args else TTimeSignature args in
                     loop n' ls' s4 ln4 harmony (acc ++ [t])
                   else if (argt =? 73) && (list_eqb ttype (zs "Track") || list_eqb ttype (zs "Channel")
                                       || list_eqb ttype (zs "KeyShift") || list_eqb ttype (zs "TrackKey")
                                       || list_eqb ttype (zs "MeasureShift") || list_eqb ttype (zs "Tempo")
                                       || list_eqb ttype (zs "SongVelocityAdd") || list_eqb ttype (zs "SongQAdd")) then
                     let '(s2, ln2) := skip_space s1 ln in
                     let s3 := if eq_char s2 61 then tl s2 else s2 in
                     do ra <- read_args_tokens ls s3 ln2;
                     let '(vs, s4, ln4, ls') := ra in
                     match vs with
                     | [_] =>
                       let v := last_arg vs in
                       let t := if list_eqb ttype (zs "Track") then TTrack v
                                else if list_eqb ttype (zs "Channel") then TChannel v
                                else if list_eqb ttype (zs "KeyShift") then TKeyShift v
                                else if list_eqb ttype (zs "MeasureShift") then TMeasureShift v
                                else if list_eqb ttype (zs "Tempo") then TTempo v
                                else if list_eqb ttype (zs "SongVelocityAdd") then TVAdd v
                                else if list_eqb ttype (zs "SongQAdd") then TQAdd v else TTrackKey v in
                       loop n' ls' s4 ln4 harmony (acc ++ [t])
                     | _ => Unsupported U_UPPER
                     end
                   else if (argt =? 95) && list_eqb ttype (zs "TrackSync") then loop n' ls s1 ln harmony (acc ++ [TTrackSync])
                   else if list_eqb ttype (zs "KeyFlag") then push (Ok (read_key_flag s1 ln))
                   else if list_eqb ttype (zs "TimeBase") then
                     (* read_timebase: the time base is set at lex time, clamped to 48..32767; Empty token *)
                     do ra <- read_arg_value (arg_fuel s1) tb s1 ln;
                     let '(v, s2, ln2) := ra in
                     let t0 := aval_to_i v in
                     let t1 := if t0 <=? 48 then 48 else t0 in
                     let t2 := if t1 >? 32767 then 32767 else t1 in
                     loop n' (mkLex t2 (lx_logs ls) (lx_vars ls) (lx_rhythm ls) (lx_ja ls)) s2 ln2 harmony acc
                   else if list_eqb ttype (zs "Rhythm") then
                     let '(s2, ln2) := skip_space s1 ln in
                     let '(block, s3, ln3) := get_token_nest s2 ln2 123 125 in
                     do sub <- lex_f f ls (rhythm_expand (S (length block)) (lx_rhythm ls) block) ln2;
                     let '(toks, ls') := sub in
                     loop n' ls' s3 ln3 harmony (acc ++ toks)
                   else if list_eqb ttype (zs "Sub") then
                     let '(s2, ln2) := skip_space s1 ln in
                     let '(block, s3, ln3) := get_token_nest s2 ln2 123 125 in
                     do sub <- lex_f f ls block ln2;      (* the block is lexed from the line it starts on *)
                     let '(toks, ls') := sub in
                     loop n' ls' s3 ln3 harmony (acc ++ [TSub toks])
                   else if list_eqb ttype (zs "Div") then
                     let '(s2, ln2) := skip_space s1 ln in
                     let '(block, s3, ln3) := get_token_nest s2 ln2 123 125 in
                     let '(len, s4, ln4) := get_note_length s3 ln3 in
                     do sub <- lex_f f ls block ln2;
                     let '(toks, ls') := sub in
                     loop n' ls' s4 ln4 harmony (acc ++ [TDiv (div_count toks) len toks])
                   else
                     do ra <- read_ext_command ls ttype argt tag1 tag2 s1 ln;
                     let '(ot, s2, ln2, ls') := ra in
                     loop n' ls' s2 ln2 harmony (match ot with Some t => acc ++ [t] | None => acc end)
                 end
             else Unsupported U_CHAR   (* a full-width capital: prev() re-reads the unconverted character *)
           else if c =? 35 then
             let s := c :: r in
             if true then
               if prefixb [35; 35] s || prefixb [35; 32] s || prefixb [35; 45] s then
                 let '(_, s1, ln1) := get_token_ch c_NL s ln in loop n' ls s1 ln1 harmony acc
               else
                 let '(word, s1) := get_word s in
                 do cv <- check_variables ls word s1 ln;
                 let '(ot, s2, ln2, ls') := cv in
                 loop n' ls' s2 ln2 harmony (match ot with Some t => acc ++ [t] | None => acc end)
             else Unsupported U_CHAR
           else if c =? 64 then
             do ra <- read_args_tokens ls r ln;
             let '(vs, s1, ln1, ls') := ra in
             loop n' ls' s1 ln1 harmony (acc ++ [TVoice (map (fun o => match o with Some v => v | None => 0 end) vs)])
           else if c =? 62 then loop n' ls r ln harmony (acc ++ [TOctaveRel 1])
           else if c =? 60 then loop n' ls r ln harmony (acc ++ [TOctaveRel (-1)])
           else if c =? 41 then loop n' ls r ln harmony (acc ++ [TVelocityRel 1])
           else if c =? 40 then loop n' ls r ln harmony (acc ++ [TVelocityRel (-1)])
           else if c =? 47 then
             let s := c :: r in
             if true then
               if prefixb [47; 47; 47] s then
                 let '(_, s1, ln1) := get_token_ch c_NL s ln in loop n' ls s1 ln1 harmony (acc ++ [TComment])
               else if prefixb [47; 47] s then
                 let '(_, s1, ln1) := get_token_ch c_NL s ln in loop n' ls s1 ln1 harmony acc
               else if prefixb [47; 42; 42] s then
                 let '(_, s1, ln1) := get_token_s [42; 47] s ln in loop n' ls s1 ln1 harmony (acc ++ [TComment])
               else if prefixb [47; 42] s then
                 let '(_, s1, ln1) := get_token_s [42; 47] s ln in loop n' ls s1 ln1 harmony acc
               else
                 loop n' (lex_error ls r ln (zs "Could not parse flag '" ++ [c] ++ zs "'")) r ln harmony acc
             else Unsupported U_CHAR
           else if c =? 91 then push (read_loop tb r ln)
           else if c =? 58 then loop n' ls r ln harmony (acc ++ [TLoopBreak])
           else if c =? 93 then loop n' ls r ln harmony (acc ++ [TLoopEnd])
           else if c =? 39 then
             if harmony then
               let '(t, s1, ln1) := read_harmony_end r ln in loop n' ls s1 ln1 false (acc ++ [t])
             else loop n' ls r ln true (acc ++ [THarmonyBegin])
           else if c =? 36 then
             (* read_def_rhythm_macro: $x{...} *)
             match r with
             | [] => loop n' (lx_add_log ls (zs "[ERROR](" ++ show_int ln ++ zs ") could not define Rhythm macro '" ++ [0] ++ zs "' ")) r ln harmony acc
             | mc :: r1 =>
                 let '(s2, ln2) := skip_space r1 ln in
                 let s3 := if eq_char s2 61 then tl s2 else s2 in
                 let '(s4, ln4) := skip_space s3 ln2 in
                 let '(body, s5, ln5) := get_token_nest s4 ln4 123 125 in
                 if (64 <=? mc) && (mc <=? 127) then
                   loop n' (mkLex (lx_timebase ls) (lx_logs ls) (lx_vars ls) ((mc, body) :: lx_rhythm ls) (lx_ja ls)) s5 ln5 harmony acc
                 else
                   loop n' (lx_add_log ls (zs "[ERROR](" ++ show_int ln5 ++ zs ") could not define Rhythm macro '" ++ [mc] ++ zs "' ")) s5 ln5 harmony acc
             end
           else if c =? 123 then
             let s := c :: r in
             if true then
               let '(block, s3, ln3) := get_token_nest s ln 123 125 in
               let '(len, s4, ln4) := get_note_length s3 ln3 in
               do sub <- lex_f f ls block ln;
               let '(toks, ls') := sub in
               loop n' ls' s4 ln4 harmony (acc ++ [TDiv (div_count toks) len toks])
             else Unsupported U_CHAR
           else if c =? 96 then loop n' ls r ln harmony (acc ++ [TOctaveOnce 1])
           else if c =? 34 then loop n' ls r ln harmony (acc ++ [TOctaveOnce (-1)])
           else if c =? 63 then loop n' ls r ln harmony (acc ++ [TPlayFromHere])
           else if c =? 38 then loop n' ls r ln harmony acc       (* read_tie_error: an Empty token *)
           else loop n' (lex_error ls r ln [c]) r ln harmony acc
         end
       end) (S (length src)) ls src lineno false [TLineNo lineno]
  end.

Definition lex (ls : lexstate) (src : list ch) (lineno : Z) : res lex_out :=
  lex_f (S (length src)) ls src lineno.
