(* The script layer: IF / FOR / WHILE / BREAK / CONTINUE / RETURN, INT / STR declarations, `X = expr`, `X++`,
   PRINT, user functions (definition, statement calls, calls inside expressions), as a SEPARATE layer over the
   core note language.

     lexer.rs   lex_preprocess, lex() main loop (script fragment), read_upper_command, check_variables, read_variables,
                read_call_function, read_def_var, read_def_user_function, read_if / read_for / read_while, the Return arm,
                read_args_tokens / lex_calc on top of Expr.v's expression reader
     runner.rs  exec() = the pos / loop_stack machine of LoopMachine.v over script tokens, the arms Print, DefInt, DefStr,
                LetVar, ValueInc, If, For, While, Break, Continue, Return, CallUserFunction, exec_if / exec_while / exec_for
                (iteration limit, break_flag protocol), exec_userfunc_or_array_or_macro (scope push, positional binding,
                declared defaults, Result, break_flag save/restore), exec_args / exec_value
     song.rs    variables_* (scope stack: the HEAD of `ss_scopes` is the innermost scope), Flags.break_flag / max_loop /
                function_needs_return_value

   The value stack `song.stack` is not a component of the state: as in Expr.v, the evaluation of an expression token
   RETURNS what exec() would push (Some v) or the fact that it pushes nothing (None).  exec_value / exec_args take a
   value only when the stack GREW during their exec() (otherwise 0 / None), so entries left behind by earlier commands
   (the Result of a statement call made while function_needs_return_value is set) are never consumed and need not be
   carried.  A slot executed by exec_value that holds SEVERAL expressions (`IF(1,0)`, `RETURN(1,2)`) answers
   [Unsupported U_JUNK] at lex time.

   Outside the fragment ([Unsupported], counted by the check): upper-case commands with arguments (TR, CH, @, ...),
   Sub / Div / tuplets / Rhythm, string macros and their calls, arrays as variables (ARRAY), `.s()`, system values
   (TR, TIME, ...), malformed script syntax (the error paths of the readers). *)
From Coq Require Import String Ascii.
From Sakura.Model Require Import Base Cursor Cursor2 Length Event Writer Song Token LoopMachine LexCore RunCore Compile Msg.
From Sakura.Model Require Expr.
From Sakura.Gen Require Import Consts SysFuncRows Messages VarRows.
Open Scope Z_scope.
Open Scope list_scope.

Notation etok := Expr.tok (only parsing).
Notation sval := Expr.sval (only parsing).

(* sites of Unsupported *)
Definition U_SYNTAX : Z := 100.   (* an error path of a script reader *)
Definition U_JUNK : Z := 101.     (* the code would leave a stale entry on song.stack *)
Definition U_SCMD : Z := 102.     (* a command outside the script fragment *)
Definition U_SMACRO : Z := 103.   (* use of a string variable as a macro *)
Definition U_SVAR : Z := 104.     (* a variable whose value the model does not carry (TRUE, FALSE, version, a function name read as a value) *)
Definition U_SCHILD : Z := 105.   (* a core token with children (Sub, tuplet, macro) *)
Definition U_SRETURN : Z := 106.  (* RETURN without parentheses *)
Definition U_STYPE : Z := 107.    (* a parameter type / default the model does not carry *)

(* ---------------------------------------------------------------------------------------------- *)
(* values of variables, scopes, functions, tokens                                                   *)
(* ---------------------------------------------------------------------------------------------- *)
Inductive vv := VV (v : sval) | VFunc (id : nat) | VOpaque.
Definition scope := list (list ch * vv).

Inductive stok :=
| SCore (t : Token.tok)
| SPrint (args : list (option etok)) (lineno : Z)
| SDefVar (is_int : bool) (name : list ch) (init : option etok)      (* DefInt / DefStr *)
| SLetVar (name : list ch) (e : option etok)
| SValueInc (name : list ch) (d : Z)
| SIf (cond : option etok) (th el : list stok) (lineno : Z)
| SFor (init : list stok) (cond : option etok) (inc body : list stok) (lineno : Z)
| SWhile (cond : option etok) (body : list stok) (lineno : Z)
| SBreak
| SContinue
| SReturn (e : option etok)                       (* no children = RETURN without a value *)
| SCall (id : nat) (args : list (option etok)).       (* read_call_function: value_i = func_id, no name *)

(* SFunction: name, arg_names with arg_def_values, tokens *)
Record fdef := mkF { f_name : list ch; f_params : list (list ch * sval); f_body : list stok }.

(* variables_get: innermost scope first; inside a scope the latest insert wins *)
Fixpoint scope_get (name : list ch) (sc : scope) : option vv :=
  match sc with
  | [] => None
  | (n, v) :: r => if list_eqb n name then Some v else scope_get name r
  end.
Fixpoint vars_lookup (name : list ch) (scopes : list scope) : option vv :=
  match scopes with
  | [] => None
  | sc :: r => match scope_get name sc with Some v => Some v | None => vars_lookup name r end
  end.
(* variables_insert: always into the CURRENT (innermost) scope.  (The stack is never empty: the global scope is
   never popped, pushes and pops are balanced.) *)
Definition vars_insert (name : list ch) (v : vv) (scopes : list scope) : list scope :=
  match scopes with
  | [] => [[(name, v)]]
  | sc :: r => ((name, v) :: sc) :: r
  end.
Definition all_names (scopes : list scope) : list (list ch) := flat_map (map fst) scopes.

(* init_variables(): TRUE / FALSE / SAKURA_VERSION are carried as opaque *)
Definition global_scope : scope :=
  map (fun r => match r with
                | (n, (k, (i, t))) => (n, if k =? 0 then VV (Expr.SInt i) else if k =? 1 then VV (Expr.SStr t) else VOpaque)
                end) var_rows.

(* ---------------------------------------------------------------------------------------------- *)
(* the lexer                                                                                        *)
(* ---------------------------------------------------------------------------------------------- *)
(* song fields read or written at lex time *)
(* (sl_ja: the message language, song.message_data - read through song.get_message, never written by the lexer) *)
Record slex := mkSL { sl_timebase : Z; sl_logs : list (list ch); sl_scopes : list scope; sl_funcs : list fdef; sl_ja : bool }.
Definition sl_add_log (ls : slex) (m : list ch) : slex :=
  if SAKURA_MAX_LOGS <=? zlen (sl_logs ls) then ls else mkSL (sl_timebase ls) (sl_logs ls ++ [m]) (sl_scopes ls) (sl_funcs ls) (sl_ja ls).
Definition sl_set_scopes (ls : slex) (v : list scope) : slex := mkSL (sl_timebase ls) (sl_logs ls) v (sl_funcs ls) (sl_ja ls).
Definition sl_set_funcs (ls : slex) (v : list fdef) : slex := mkSL (sl_timebase ls) (sl_logs ls) (sl_scopes ls) v (sl_ja ls).
Definition sl_insert (ls : slex) (name : list ch) (v : vv) : slex := sl_set_scopes ls (vars_insert name v (sl_scopes ls)).
Definition sl_get (ls : slex) (name : list ch) : option vv := vars_lookup name (sl_scopes ls).

(* the line counter after a reader of Expr.v (which drops it): every line break it consumed is inside a bracket, a string,
   a comment or a length continuation, and each of those advances cur.line *)
Definition count_nl (s : list ch) : Z := zlen (filter (fun c => c =? 10) s).
Definition line_after (s rest : list ch) (ln : Z) : Z := ln + count_nl (firstn (length s - length rest) s).

(* read_calc_tokens: None | Some [token] *)
Definition read_calc_tokens (ls : slex) (s : list ch) (ln : Z) : res (option etok * list ch * Z) :=
  do p <- Expr.read_calc (sl_timebase ls) (all_names (sl_scopes ls)) s;
  let '(t, r) := p in Ok (t, r, line_after s r ln).

(* lex_calc(src): the expressions of a condition / an argument text *)
Definition lex_calc (ls : slex) (src : list ch) : res (list etok) :=
  Expr.lex_calc_loop (sl_timebase ls) (all_names (sl_scopes ls)) (6 * length src + 16) src [].
(* a condition is executed by exec_value: every expression of it pushes, one value is popped *)
Definition cond_of (l : list etok) : res (option etok) :=
  match l with
  | [] => Ok None
  | [t] => Ok (Some t)
  | _ => Unsupported U_JUNK
  end.

(* the children of a Return token: the arguments that hold an expression; exec_value runs them all and takes the
   last value pushed *)
Fixpoint some_args (l : list (option etok)) : list etok :=
  match l with
  | [] => []
  | Some t :: r => t :: some_args r
  | None :: r => some_args r
  end.
Definition return_value_of (args : list (option etok)) : res (option etok) := cond_of (some_args args).

(* read_args_tokens: every argument is a Tokens token holding read_calc_tokens (possibly nothing) *)
Fixpoint read_args_loop_s (fuel : nat) (ls : slex) (s : list ch) (ln : Z) : res (list (option etok) * list ch * Z) :=
  match fuel with
  | O => OutOfFuel
  | S f =>
      let '(s0, ln0) := skip_space s ln in
      do r <- read_calc_tokens ls s0 ln0;
      let '(t, s1, ln1) := r in
      let '(s2, ln2) := skip_space s1 ln1 in
      if eq_char s2 44 || eq_char s2 58 then
        do r2 <- read_args_loop_s f ls (tl s2) ln2;
        let '(ts, s3, ln3) := r2 in Ok (t :: ts, s3, ln3)
      else Ok ([t], s2, ln2)
  end.
Definition read_args_tokens_s (ls : slex) (s : list ch) (ln : Z) : res (list (option etok) * list ch * Z * slex) :=
  let '(s0, ln0) := skip_space s ln in
  let paren := eq_char s0 40 in
  let s1 := if paren then tl s0 else s0 in
  do r <- read_args_loop_s (S (length s1)) ls s1 ln0;
  let '(ts, s2, ln2) := r in
  if paren then
    let '(s3, ln3) := skip_space s2 ln2 in
    if eq_char s3 41 then Ok (ts, tl s3, ln3, ls)
    else Ok (ts, s3, ln3, sl_add_log ls (zs "[ERROR](" ++ show_int ln3 ++ zs ") " ++ msg_MissingParenthesis (sl_ja ls)))
  else Ok (ts, s2, ln2, ls).

(* read_for: the increment of a FOR header ends at the ')' that closes the header; parentheses inside it (level) belong
   to it.  Consumes up to and including that ')', counting lines. *)
Fixpoint get_token_close (s : list ch) (ln : Z) (level : nat) : list ch * list ch * Z :=
  match s with
  | [] => ([], [], ln)
  | c :: r =>
      let ln' := if c =? 10 then ln + 1 else ln in
      if c =? 40 then let '(t, r', ln'') := get_token_close r ln' (S level) in (c :: t, r', ln'')
      else if c =? 41 then
        match level with
        | O => ([], r, ln')
        | S k => let '(t, r', ln'') := get_token_close r ln' k in (c :: t, r', ln'')
        end
      else let '(t, r', ln'') := get_token_close r ln' level in (c :: t, r', ln'')
  end.

(* read_warning / read_error / read_error_cmd *)
Definition read_warning_s (ls : slex) (s : list ch) (ln : Z) (cmd reason : list ch) : slex :=
  sl_add_log ls (zs "[WARN](" ++ show_int ln ++ zs ") " ++ msg_ScriptSyntaxWarning (sl_ja ls) ++ zs " """ ++ cmd ++ zs """ " ++ reason
                 ++ zs " : " ++ msg_Near (sl_ja ls) ++ zs " """ ++ near_text_raw s ++ zs """").
Definition read_error_s (ls : slex) (s : list ch) (ln : Z) (msg : list ch) : slex :=
  sl_add_log ls (zs "[ERROR](" ++ show_int ln ++ zs ") " ++ msg ++ zs " " ++ msg_Near (sl_ja ls) ++ zs " """ ++ near_text_raw s ++ zs """").
Definition read_error_cmd_s (ls : slex) (s : list ch) (ln : Z) (cmd : list ch) : slex :=
  sl_add_log ls (zs "[ERROR](" ++ show_int ln ++ zs ") " ++ msg_ScriptSyntaxError (sl_ja ls) ++ zs " """ ++ cmd ++ zs """ "
                 ++ msg_Near (sl_ja ls) ++ zs " """ ++ near_text_raw s ++ zs """").
Definition reserved_msg (ja : bool) (name : list ch) : list ch := msg_ErrorDefineVariableIsReserved ja ++ zs ": """ ++ name ++ zs """".

(* lex_error on the script lexer state *)
Definition lex_error_s (ls : slex) (s : list ch) (ln : Z) (msg : list ch) : slex :=
  let log := zs "[ERROR](" ++ show_int ln ++ zs ") " ++ msg_UnknownChar (sl_ja ls) ++ zs ": """ ++ msg ++ zs """ "
             ++ msg_Near (sl_ja ls) ++ zs " """ ++ near_text s ++ zs """" in
  let n := zlen (sl_logs ls) in
  if n =? LEX_MAX_ERROR then
    sl_add_log ls (zs "[ERROR](" ++ show_int ln ++ zs ") " ++ msg_TooManyErrorsInLexer (sl_ja ls))
  else if n <? LEX_MAX_ERROR then sl_add_log ls log
  else ls.

(* lex_preprocess: every FUNCTION name of the text is registered before anything is read, so that calls before the
   definition are recognised.  The cursor is put back afterwards. *)
Fixpoint preprocess_f (fuel : nat) (ls : slex) (s : list ch) (ln : Z) : slex :=
  match fuel with
  | O => ls
  | S f =>
      match s with
      | [] => ls
      | c :: r =>
          if prefixb [47; 42] s then let '(_, r', ln') := get_token_s [42; 47] s ln in preprocess_f f ls r' ln'
          else if prefixb [47; 47] s then let '(_, r', ln') := get_token_ch c_NL s ln in preprocess_f f ls r' ln'
          else if is_upper c then
            let '(word, s1) := get_word s in
            if list_eqb word (zs "FUNCTION") || list_eqb word (zs "Function") then
              let '(s2, ln2) := skip_space s1 ln in
              let '(fname, s3) := get_word s2 in
              let ls1 := match sl_get ls fname with
                         | Some _ => read_warning_s ls s3 ln2 fname (msg_ErrorRedfineFnuction (sl_ja ls))
                         | None => ls
                         end in
              let ls2 := if is_reserved fname then read_error_s ls1 s3 ln2 (reserved_msg (sl_ja ls1) fname) else ls1 in
              let id := length (sl_funcs ls2) in
              let ls3 := sl_set_funcs (sl_insert ls2 fname (VFunc id)) (sl_funcs ls2 ++ [mkF fname [] []]) in
              preprocess_f f ls3 s3 ln2
            else if list_eqb word (zs "END") || list_eqb word (zs "End") then ls
            else
              match s1 with
              | [] => ls
              | c1 :: r1 => preprocess_f f ls r1 (if c1 =? c_NL then ln + 1 else ln)
              end
          else preprocess_f f ls r (if c =? c_NL then ln + 1 else ln)
      end
  end.
Definition lex_preprocess (ls : slex) (src : list ch) (ln : Z) : slex := preprocess_f (S (length src)) ls src ln.

(* the parameter list of read_def_user_function: `[type ]name[=default]` separated by commas *)
Fixpoint set_nth_f (n : nat) (v : fdef) (l : list fdef) : list fdef :=
  match l, n with
  | [], _ => []
  | _ :: r, O => v :: r
  | x :: r, S k => x :: set_nth_f k v r
  end.
Fixpoint read_params (fuel : nat) (tb : Z) (s : list ch) : res (list (list ch * sval)) :=
  match fuel with
  | O => OutOfFuel
  | S f =>
      match s with
      | [] => Ok []
      | _ =>
        let '(s0, _) := skip_space s 0 in
        let '(name0, s1) := get_word s0 in
        match name0 with
        | [] => Ok []
        | _ =>
          do tn <-
            (if eq_char s1 32 then
               let '(s2, _) := skip_space s1 0 in
               let '(name, s3) := get_word s2 in
               if list_eqb name0 (zs "Int") || list_eqb name0 (zs "INT") || list_eqb name0 (zs "I") then Ok (Expr.SInt 0, name, s3)
               else if list_eqb name0 (zs "Str") || list_eqb name0 (zs "STR") || list_eqb name0 (zs "S") then Ok (Expr.SStr [], name, s3)
               else Unsupported U_STYPE
             else Ok (Expr.SInt 0, name0, s1));
          let '(def0, name, s4) := tn in
          let '(s5, _) := skip_space s4 0 in
          do dv <-
            (if eq_char s5 61 then
               do r <- read_arg_value (arg_fuel s5) tb (tl s5) 0;
               let '(v, s6, _) := r in
               Ok (match v with AInt i => Expr.SInt i | ANone => Expr.SNone end, s6)
             else Ok (def0, s5));
          let '(def, s6) := dv in
          let '(s7, _) := skip_space s6 0 in
          if eq_char s7 44 then
            do rest <- read_params f tb (tl s7); Ok ((name, def) :: rest)
          else Ok [(name, def)]
        end
      end
  end.

Definition starts_int (s : list ch) : bool := prefixb (zs "Int ") s || prefixb (zs "INT ") s.

(* lex(): the main loop over the script fragment.  `fuel` bounds the nesting of blocks. *)
Definition slex_out := (list stok * slex)%type.

Fixpoint slex_f (fuel : nat) (ls : slex) (src : list ch) (lineno : Z) : res slex_out :=
  match fuel with
  | O => OutOfFuel
  | S f =>
    (fix loop (n : nat) (ls : slex) (s : list ch) (ln : Z) (harmony : bool) (acc : list stok) {struct n} : res slex_out :=
       match n with
       | O => OutOfFuel
       | S n' =>
         match s with
         | [] => Ok (acc, ls)
         | c0 :: r =>
           let c := zen2han c0 in
           let tb := sl_timebase ls in
           let push (x : res (Token.tok * list ch * Z)) : res slex_out :=
             do y <- x; let '(t, s', ln') := y in loop n' ls s' ln' harmony (acc ++ [SCore t]) in
           (* readers that may answer with no token (reservation forms the core model reads: `l.Random(..)` ...) *)
           let pusho (x : res (option Token.tok * list ch * Z)) : res slex_out :=
             do y <- x; let '(ot, s', ln') := y in
             loop n' ls s' ln' harmony (match ot with Some t => acc ++ [SCore t] | None => acc end) in
           if (c =? 32) || (c =? 9) || (c =? 13) || (c =? 124) || (c =? 59) then loop n' ls r ln harmony acc
           else if c =? 10 then loop n' ls r (ln + 1) harmony (acc ++ [SCore (TLineNo (ln + 1))])
           else if (c =? 99) || (c =? 100) || (c =? 101) || (c =? 102) || (c =? 103) || (c =? 97) || (c =? 98) then
             push (Ok (read_note c r ln))
           else if c =? 110 then push (read_note_n tb r ln)
           else if c =? 114 then push (Ok (read_rest r ln))
           else if c =? 108 then pusho (read_length tb r ln)
           else if c =? 111 then pusho (read_octave tb r ln)
           else if ((c =? 113) || (c =? 118)) && negb (prefixb (zs "Add") r || ((c =? 113) && prefixb (zs "2Add") r)) then
             (if c =? 113 then pusho (read_qlen tb r ln) else pusho (read_velocity tb r ln))
           else if c =? 116 then pusho (read_timing tb r ln)
           else if (c =? 112) || (c =? 121) then Unsupported U_SCMD
           else if is_upper c || (c =? 95) || (c =? 35) then
             let s := c :: r in
             if (c =? 35) && (prefixb [35; 35] s || prefixb [35; 32] s || prefixb [35; 45] s) then
               let '(_, s1, ln1) := get_token_ch c_NL s ln in loop n' ls s1 ln1 harmony acc
             else if negb (c =? 35) && (prefixb (zs "End") s || prefixb (zs "END") s) then Ok (acc, ls)
             else
               (* read_upper_command *)
               let '(word, s1) := get_word s in
               if list_eqb word (zs "System") || list_eqb word (zs "SYSTEM") || (list_eqb word (zs "PlayFrom") && eq_char s1 46)
               then Unsupported U_SCMD
               else
               let lineno := ln in
               match sysfunc_lookup word sysfunc_rows None with
               | Some (ttype, (argt, _)) =>
                   if list_eqb ttype (zs "Print") then
                     let '(s2, ln2) := skip_space s1 ln in
                     let s3 := if eq_char s2 61 then tl s2 else s2 in
                     do ra <- read_args_tokens_s ls s3 ln2;
                     let '(args, s4, ln4, ls') := ra in
                     loop n' ls' s4 ln4 harmony (acc ++ [SPrint args lineno])
                   else if list_eqb ttype (zs "Break") then loop n' ls s1 ln harmony (acc ++ [SBreak])
                   else if list_eqb ttype (zs "Continue") then loop n' ls s1 ln harmony (acc ++ [SContinue])
                   else if list_eqb ttype (zs "TrackSync") then loop n' ls s1 ln harmony (acc ++ [SCore TTrackSync])
                   else if list_eqb ttype (zs "Return") then
                     (* RETURN without a value (no parentheses, or empty ones) has no children *)
                     let '(s2, ln2) := skip_space s1 ln in
                     if eq_char s2 40 then
                       do ra <- read_args_tokens_s ls s2 ln2;
                       let '(args, s4, ln4, ls') := ra in
                       do e <- return_value_of args;
                       loop n' ls' s4 ln4 harmony (acc ++ [SReturn e])
                     else loop n' ls s2 ln2 harmony (acc ++ [SReturn None])
                   else if list_eqb ttype (zs "DefInt") || list_eqb ttype (zs "DefStr") then
                     (* read_def_var *)
                     let is_int := list_eqb ttype (zs "DefInt") in
                     let '(s2, ln2) := skip_space s1 ln in
                     let '(name, s3) := get_word s2 in
                     match name with
                     | [] => Unsupported U_SYNTAX
                     | _ =>
                       if is_reserved name then Unsupported U_SYNTAX
                       else
                         let '(s4, ln4) := skip_space s3 ln2 in
                         do iv <- (if eq_char s4 61 then read_calc_tokens ls (tl s4) ln4 else Ok (None, s4, ln4));
                         let '(init, s5, ln5) := iv in
                         let ls' := sl_insert ls name (VV (if is_int then Expr.SInt 0 else Expr.SStr [])) in
                         loop n' ls' s5 ln5 harmony (acc ++ [SDefVar is_int name init])
                     end
                   else if list_eqb ttype (zs "If") then
                     (* read_if *)
                     let '(s2, ln2) := skip_space s1 ln in
                     if negb (eq_char s2 40) then Unsupported U_SYNTAX else
                     let '(cond_s, s3, ln3) := LexCore.get_token_nest s2 ln2 40 41 in
                     do cl <- lex_calc ls cond_s;
                     do cond <- cond_of cl;
                     let '(s4, ln4) := skip_space_ret s3 ln3 in
                     if negb (eq_char s4 123) then Unsupported U_SYNTAX else
                     let '(then_s, s5, ln5) := LexCore.get_token_nest s4 ln4 123 125 in
                     do th <- slex_f f ls then_s ln4;          (* the block starts on the line of its '{' *)
                     let '(then_tok, ls1) := th in
                     let '(s6, ln6) := skip_space_ret s5 ln5 in
                     if prefixb (zs "ELSE") s6 || prefixb (zs "Else") s6 then
                       let '(s7, ln7) := skip_space_ret (skipn 4 s6) ln6 in
                       if negb (eq_char s7 123) then Unsupported U_SYNTAX else
                       let '(else_s, s8, ln8) := LexCore.get_token_nest s7 ln7 123 125 in
                       do el <- slex_f f ls1 else_s ln7;       (* ... the ELSE block on the line of its '{' too *)
                       let '(else_tok, ls2) := el in
                       loop n' ls2 s8 ln8 harmony (acc ++ [SIf cond then_tok else_tok lineno])
                     else loop n' ls1 s6 ln6 harmony (acc ++ [SIf cond then_tok [] lineno])
                   else if list_eqb ttype (zs "While") then
                     (* read_while: the condition is lexed with the line of the word WHILE, the body with the line of its '{' *)
                     let '(s2, ln2) := skip_space s1 ln in
                     if negb (eq_char s2 40) then Unsupported U_SYNTAX else
                     let '(cond_s, s3, ln3) := LexCore.get_token_nest s2 ln2 40 41 in
                     do cl <- lex_calc ls cond_s;
                     do cond <- cond_of cl;
                     let '(s4, ln4) := skip_space_ret s3 ln3 in
                     let '(body_s, s5, ln5) := LexCore.get_token_nest s4 ln4 123 125 in
                     do bd <- slex_f f ls body_s ln4;
                     let '(body_tok, ls1) := bd in
                     loop n' ls1 s5 ln5 harmony (acc ++ [SWhile cond body_tok lineno])
                   else if list_eqb ttype (zs "For") then
                     (* read_for *)
                     let '(s2, ln2) := skip_space s1 ln in
                     if negb (eq_char s2 40) then Unsupported U_SYNTAX else
                     let '(init_raw, s3, ln3) := get_token_ch 59 (tl s2) ln2 in
                     let '(cond_s, s4, ln4) := get_token_ch 59 s3 ln3 in
                     let '(inc_s, s5, ln5) := get_token_close s4 ln4 0 in     (* up to the ')' that closes the header *)
                     let '(s6, ln6) := skip_space_ret s5 ln5 in
                     if negb (eq_char s6 123) then Unsupported U_SYNTAX else
                     let '(body_s, s7, ln7) := LexCore.get_token_nest s6 ln6 123 125 in
                     let init_t := trim init_raw in
                     let init_s := match init_t with
                                   | [] => init_t
                                   | _ => if starts_int init_t then init_t else zs "Int " ++ init_t
                                   end in
                     do it <- slex_f f ls init_s lineno;
                     let '(init_tok, ls1) := it in
                     do cl <- lex_calc ls1 cond_s;
                     do cond <- cond_of cl;
                     do ic <- slex_f f ls1 inc_s lineno;
                     let '(inc_tok, ls2) := ic in
                     do bd <- slex_f f ls2 body_s ln6;     (* the body starts on the line of its '{' *)
                     let '(body_tok, ls3) := bd in
                     loop n' ls3 s7 ln7 harmony (acc ++ [SFor init_tok cond inc_tok body_tok lineno])
                   else if list_eqb ttype (zs "DefUserFunction") then
                     (* read_def_user_function *)
                     let '(s2, ln2) := skip_space s1 ln in
                     let '(fname, s3) := get_word s2 in
                     let '(s4, ln4) := skip_space s3 ln2 in
                     if negb (eq_char s4 40) then Unsupported U_SYNTAX else
                     let '(args_str, s5, ln5) := LexCore.get_token_nest s4 ln4 40 41 in
                     do params <- read_params (S (length args_str)) tb args_str;
                     (* variables_stack_push; the parameters become local names *)
                     let ls1 := fold_left (fun l p => sl_insert l (fst p) (VV (snd p))) params (sl_set_scopes ls ([] :: sl_scopes ls)) in
                     let '(s6, ln6) := skip_space_ret s5 ln5 in
                     if negb (eq_char s6 123) then Unsupported U_SYNTAX else
                     let '(body_s, s7, ln7) := LexCore.get_token_nest s6 ln6 123 125 in
                     do bd <- slex_f f ls1 body_s ln6;
                     let '(body_tok, ls2) := bd in
                     let ls3 := sl_set_scopes ls2 (tl (sl_scopes ls2)) in        (* variables_stack_pop *)
                     match sl_get ls3 fname with
                     | Some (VFunc id) =>
                         if Nat.ltb id (length (sl_funcs ls3)) then
                           loop n' (sl_set_funcs ls3 (set_nth_f id (mkF fname params body_tok) (sl_funcs ls3))) s7 ln7 harmony acc
                         else Panic 1101
                     | _ => Unsupported U_SYNTAX
                     end
                   else Unsupported U_SCMD
               | None =>
                   (* check_variables *)
                   if prefixb [43; 43] s1 then loop n' ls (skipn 2 s1) ln harmony (acc ++ [SValueInc word 1])
                   else if prefixb [45; 45] s1 then loop n' ls (skipn 2 s1) ln harmony (acc ++ [SValueInc word (-1)])
                   else
                     let '(s2, ln2) := skip_space s1 ln in
                     if eq_char s2 61 then
                       let '(s3, ln3) := skip_space (tl s2) ln2 in
                       if is_reserved word then Unsupported U_SYNTAX
                       else if eq_char s3 123 then
                         let '(body, s4, ln4) := LexCore.get_token_nest s3 ln3 123 125 in
                         loop n' (sl_insert ls word (VV (Expr.SStr body))) s4 ln4 harmony acc
                       else
                         do rv <- read_calc_tokens ls s3 ln3;
                         let '(e, s4, ln4) := rv in
                         loop n' (sl_insert ls word (VV Expr.SNone)) s4 ln4 harmony (acc ++ [SLetVar word e])
                     else if prefixb (zs ".s(") s2 then Unsupported U_SCMD
                     else
                       match sl_get ls word with
                       | Some (VV (Expr.SStr _)) => Unsupported U_SMACRO
                       | Some (VFunc id) =>
                           (* read_call_function *)
                           let '(s3, ln3) := skip_space s2 ln2 in
                           do ra <- read_args_tokens_s ls s3 ln3;
                           let '(args, s4, ln4, ls') := ra in
                           loop n' ls' s4 ln4 harmony (acc ++ [SCall id args])
                       | Some _ => loop n' ls s2 ln2 harmony acc          (* Empty token "Could not execute" *)
                       | None => loop n' (read_error_cmd_s ls s2 ln word) s2 ln2 harmony acc   (* reported on the line of the word *)
                       end
               end
           else if (c =? 113) || (c =? 118) then Unsupported U_SCMD      (* vAdd / qAdd / q2Add *)
           else if c =? 64 then Unsupported U_SCMD
           else if c =? 62 then loop n' ls r ln harmony (acc ++ [SCore (TOctaveRel 1)])
           else if c =? 60 then loop n' ls r ln harmony (acc ++ [SCore (TOctaveRel (-1))])
           else if c =? 41 then loop n' ls r ln harmony (acc ++ [SCore (TVelocityRel 1)])
           else if c =? 40 then loop n' ls r ln harmony (acc ++ [SCore (TVelocityRel (-1))])
           else if c =? 47 then
             let s := c :: r in
             if prefixb [47; 47; 47] s then
               let '(_, s1, ln1) := get_token_ch c_NL s ln in loop n' ls s1 ln1 harmony (acc ++ [SCore TComment])
             else if prefixb [47; 47] s then
               let '(_, s1, ln1) := get_token_ch c_NL s ln in loop n' ls s1 ln1 harmony acc
             else if prefixb [47; 42; 42] s then
               let '(_, s1, ln1) := get_token_s [42; 47] s ln in loop n' ls s1 ln1 harmony (acc ++ [SCore TComment])
             else if prefixb [47; 42] s then
               let '(_, s1, ln1) := get_token_s [42; 47] s ln in loop n' ls s1 ln1 harmony acc
             else
               loop n' (lex_error_s ls r ln (zs "Could not parse flag '" ++ [c] ++ zs "'")) r ln harmony acc
           else if c =? 91 then push (read_loop tb r ln)
           else if c =? 58 then loop n' ls r ln harmony (acc ++ [SCore TLoopBreak])
           else if c =? 93 then loop n' ls r ln harmony (acc ++ [SCore TLoopEnd])
           else if c =? 39 then
             if harmony then
               let '(t, s1, ln1) := read_harmony_end r ln in loop n' ls s1 ln1 false (acc ++ [SCore t])
             else loop n' ls r ln true (acc ++ [SCore THarmonyBegin])
           else if (c =? 36) || (c =? 123) then Unsupported U_SCMD
           else if c =? 96 then loop n' ls r ln harmony (acc ++ [SCore (TOctaveOnce 1)])
           else if c =? 34 then loop n' ls r ln harmony (acc ++ [SCore (TOctaveOnce (-1))])
           else if c =? 63 then loop n' ls r ln harmony (acc ++ [SCore TPlayFromHere])
           else if c =? 38 then loop n' ls r ln harmony acc
           else loop n' (lex_error_s ls r ln [c]) r ln harmony acc
         end
       end) (S (length src)) (lex_preprocess ls src lineno) src lineno false [SCore (TLineNo lineno)]
  end.

Definition lex_s (ls : slex) (src : list ch) (lineno : Z) : res slex_out :=
  slex_f (S (length src)) ls src lineno.

(* ---------------------------------------------------------------------------------------------- *)
(* the runner                                                                                       *)
(* ---------------------------------------------------------------------------------------------- *)
(* Flags::new(): max_loop *)
Definition MAX_LOOP : Z := 10000.

Record sstate := mkS { ss_song : song; ss_scopes : list scope; ss_funcs : list fdef; ss_needs : bool }.
Definition st_set_song (st : sstate) (sg : song) : sstate := mkS sg (ss_scopes st) (ss_funcs st) (ss_needs st).
Definition st_set_scopes (st : sstate) (v : list scope) : sstate := mkS (ss_song st) v (ss_funcs st) (ss_needs st).
Definition st_set_needs (st : sstate) (b : bool) : sstate := mkS (ss_song st) (ss_scopes st) (ss_funcs st) b.
Definition st_flag (st : sstate) : Z := s_break_flag (ss_song st).
Definition st_set_flag (st : sstate) (v : Z) : sstate := st_set_song st (s_set_break_flag (ss_song st) v).
Definition st_log (st : sstate) (m : list ch) : sstate := st_set_song st (add_log (ss_song st) m).
Definition st_runtime_error (st : sstate) (msg : list ch) : sstate := st_set_song st (runtime_error (ss_song st) msg).
Definition st_insert (st : sstate) (name : list ch) (v : vv) : sstate := st_set_scopes st (vars_insert name v (ss_scopes st)).

Definition t_Result : list ch := [82; 101; 115; 117; 108; 116].
Definition opt_none (v : option sval) : sval := match v with Some x => x | None => Expr.SNone end.
Definition opt_zero (v : option sval) : sval := match v with Some x => x | None => Expr.SInt 0 end.
Definition is_arr (v : sval) : bool := match v with Expr.SArr _ => true | _ => false end.

(* disp.join(" ") *)
Fixpoint join_blank (l : list (list ch)) : list ch :=
  match l with
  | [] => []
  | [x] => x
  | x :: r => x ++ 32 :: join_blank r
  end.

(* the positional binding of exec_userfunc_or_array_or_macro: an argument that is missing or None takes the declared default *)
Fixpoint bind_params (ps : list (list ch * sval)) (i : nat) (vs : list sval) (scopes : list scope) : list scope :=
  match ps with
  | [] => scopes
  | (name, def) :: r =>
      let v := nth i vs Expr.SNone in
      let v' := if Expr.is_none v then def else v in
      bind_params r (S i) vs (vars_insert name (VV v') scopes)
  end.

(* ValueInc *)
Definition value_inc (st : sstate) (name : list ch) (d : Z) : res sstate :=
  match vars_lookup name (ss_scopes st) with
  | Some (VV v) => Ok (st_insert st name (VV (Expr.SInt (Expr.to_i v + d))))
  | Some (VFunc _) => Ok (st_insert st name (VV (Expr.SInt (0 + d))))
  | Some VOpaque => Unsupported U_SVAR
  | None => Ok (st_insert st name (VV (Expr.SInt (0 + d))))
  end.

(* a list of expression tokens executed one after the other, each value taken as soon as it is pushed (exec_args; the
   items of MakeArray); `dflt` says what a token that pushes nothing contributes *)
Definition eval_list (f : etok -> sstate -> res (option sval * sstate)) (dflt : option sval -> sval)
  : list etok -> sstate -> res (list sval * sstate) :=
  fix go (l : list etok) (st : sstate) : res (list sval * sstate) :=
    match l with
    | [] => Ok ([], st)
    | x :: r =>
        do p <- f x st;
        do q <- go r (snd p);
        Ok (dflt (fst p) :: fst q, snd q)
    end.

Section Step.
  (* exec() one nesting level down (blocks, function bodies) *)
  Variable exec_children : list stok -> res sstate -> res sstate.

  (* the part of exec_userfunc_or_array_or_macro after the arguments have been evaluated in the pushed scope *)
  Definition finish_call (fd : fdef) (vs : list sval) (st : sstate) : res (option sval * sstate) :=
    let st1 := st_set_scopes st (bind_params (f_params fd) 0 vs (ss_scopes st)) in
    let tmp_break_flag := st_flag st1 in
    do st2 <- exec_children (f_body fd) (Ok st1);
    let st3 := st_set_flag st2 tmp_break_flag in
    match ss_scopes st3 with
    | [] => Panic 1102
    | vars :: rest =>
        let st4 := st_set_scopes st3 rest in
        if ss_needs st4 then
          match scope_get t_Result vars with
          | Some (VV v) => Ok (Some v, st4)
          | Some _ => Unsupported U_SVAR
          | None => Ok (Some Expr.SNone, st4)
          end
        else Ok (None, st4)
    end.

  (* exec(song, [t]) for an expression token, on a state whose break_flag is 0: what it pushes, if anything *)
  Fixpoint eval_tok (t : etok) (st : sstate) : res (option sval * sstate) :=
    (* exec_args over expression tokens *)
    let exec_args_e (l : list etok) (st : sstate) : res (list sval * sstate) :=
      let tmp := ss_needs st in
      do p <- eval_list eval_tok opt_none l (st_set_needs st true);
      let '(vs, st1) := p in Ok (vs, st_set_needs st1 tmp) in
    match t with
    | Expr.TConstInt v => Ok (Some (Expr.SInt v), st)
    | Expr.TConstStr s => Ok (Some (Expr.SStr s), st)
    | Expr.TGetVar x =>
        match vars_lookup x (ss_scopes st) with
        | Some (VV v) => Ok (Some v, st)
        | Some _ => Unsupported U_SVAR
        | None => if Expr.name_in x Expr.system_names then Unsupported Expr.U_SYSVAR else Ok (Some Expr.SNone, st)
        end
    | Expr.TCalc flag _ l r =>
        if flag =? 0 then Unsupported Expr.U_STATE else
        (* exec_args on the two children *)
        let tmp := ss_needs st in
        do p <- eval_tok l (st_set_needs st true);
        let '(a, st1) := p in
        do q <- eval_tok r st1;
        let '(b, st2) := q in
        do v <- Expr.calc flag (opt_none a) (opt_none b);
        Ok (Some v, st_set_needs st2 tmp)
    | Expr.TCall false name args =>
        (* TokenType::Value with tag 1: exec_sys_function; the value is pushed only when a value is wanted *)
        do p <- exec_args_e args st;
        let '(vs, st1) := p in
        match vars_lookup name (ss_scopes st1) with
        | Some (VFunc _) => Unsupported Expr.U_STATE
        | _ =>
            do v <- Expr.sys_function name vs;
            Ok (if ss_needs st1 then Some v else None, st1)
        end
    | Expr.TCall true name args =>
        (* CallUserFunction with the name in data[0]: array element, string macro, or the function the name is bound to NOW *)
        match vars_lookup name (ss_scopes st) with
        | Some (VV (Expr.SArr a)) =>
            do p <- exec_args_e args st;
            let '(vs, st1) := p in
            match vs with
            | [] => Unsupported Expr.U_INDEX
            | v0 :: _ =>
                let index := Expr.as_usize (Expr.to_i v0) in
                if zlen a <=? index then Unsupported Expr.U_INDEX
                else Ok (Some (nth (Z.to_nat index) a Expr.SNone), st1)
            end
        | Some (VV (Expr.SStr _)) => Unsupported Expr.U_STATE
        | other =>
            let func_id := match other with Some (VFunc id) => id | _ => length (ss_funcs st) end in
            match nth_error (ss_funcs st) func_id with
            | None =>
                Ok (None, st_runtime_error st (zs "broken func_id=" ++ show_int (Z.of_nat func_id) ++ zs " in exec_call_user_function"))
            | Some fd =>
                let st0 := st_set_scopes st ([] :: ss_scopes st) in          (* variables_stack_push *)
                do p <- exec_args_e args st0;
                let '(vs, st1) := p in
                finish_call fd vs st1
            end
        end
    | Expr.TValueInc _ d =>
        (* read_value_word stores the name in data[0], the ValueInc arm reads value_s (absent): the variable with the
           EMPTY name is incremented, nothing is pushed *)
        do st1 <- value_inc st [] d; Ok (None, st1)
    | Expr.TMakeArray items =>
        (* exec_value on each item *)
        let tmp := ss_needs st in
        do p <- eval_list eval_tok opt_zero items (st_set_needs st true);
        let '(vs, st1) := p in Ok (Some (Expr.SArr vs), st_set_needs st1 tmp)
    end.

  (* exec_value on the children of a statement token (nothing or one expression).  With break_flag raised exec() does
     nothing and the pop finds an empty stack. *)
  Definition exec_value_o (e : option etok) (st : sstate) : res (sval * sstate) :=
    if negb (st_flag st =? 0) then Ok (Expr.SInt 0, st)
    else
      match e with
      | None => Ok (Expr.SInt 0, st)
      | Some t =>
          let tmp := ss_needs st in
          do p <- eval_tok t (st_set_needs st true);
          let '(v, st1) := p in Ok (opt_zero v, st_set_needs st1 tmp)
      end.

  (* exec_args on the argument list of a statement token *)
  Fixpoint eval_args_o (l : list (option etok)) (st : sstate) : res (list sval * sstate) :=
    match l with
    | [] => Ok ([], st)
    | a :: r =>
        do p <- match a with
                | None => Ok (None, st)
                | Some t => eval_tok t st
                end;
        let '(v, st1) := p in
        do q <- eval_args_o r st1;
        let '(vs, st2) := q in Ok (opt_none v :: vs, st2)
    end.
  Definition exec_args_o (l : list (option etok)) (st : sstate) : res (list sval * sstate) :=
    let tmp := ss_needs st in
    do p <- eval_args_o l (st_set_needs st true);
    let '(vs, st1) := p in Ok (vs, st_set_needs st1 tmp).

  Definition limit_msg (ja : bool) (is_for : bool) (lineno : Z) : list ch :=
    zs "[ERROR](" ++ show_int lineno ++ zs ") " ++ msg_LoopTooManyTimes ja ++ (if is_for then zs " FOR(>" else zs " WHILE(>")
    ++ show_int MAX_LOOP ++ zs ")".
  (* the limit arm: the error is logged, a BREAK / CONTINUE of the last pass is consumed, a RETURN is kept *)
  Definition limit_exit (is_for : bool) (lineno : Z) (st : sstate) : sstate :=
    let st1 := st_log st (limit_msg (s_ja (ss_song st)) is_for lineno) in
    if (st_flag st1 =? 1) || (st_flag st1 =? 2) then st_set_flag st1 0 else st1.

  (* exec_while *)
  Fixpoint while_loop (n : nat) (cond : option etok) (body : list stok) (lineno : Z) (counter : Z) (st : sstate) : res sstate :=
    match n with
    | O => OutOfFuel
    | S n' =>
        do p <- exec_value_o cond st;
        let '(v, st1) := p in
        if negb (Expr.to_b v) then Ok st1
        else
          do st2 <- exec_children body (Ok st1);
          let counter' := counter + 1 in
          if counter' >? MAX_LOOP then Ok (limit_exit false lineno st2)
          else if st_flag st2 =? 1 then Ok (st_set_flag st2 0)
          else if st_flag st2 =? 2 then while_loop n' cond body lineno counter' (st_set_flag st2 0)
          else if st_flag st2 =? 3 then Ok st2
          else while_loop n' cond body lineno counter' st2
    end.

  (* exec_for, after the initialiser *)
  Fixpoint for_loop (n : nat) (cond : option etok) (inc body : list stok) (lineno : Z) (counter : Z) (st : sstate) : res sstate :=
    match n with
    | O => OutOfFuel
    | S n' =>
        do p <- exec_value_o cond st;
        let '(v, st1) := p in
        if negb (Expr.to_b v) then Ok st1
        else
          do st2 <- exec_children body (Ok st1);
          let counter' := counter + 1 in
          if counter' >? MAX_LOOP then Ok (limit_exit true lineno st2)
          else if st_flag st2 =? 1 then Ok (st_set_flag st2 0)
          else if st_flag st2 =? 2 then
            do st3 <- exec_children inc (Ok (st_set_flag st2 0));
            (* a BREAK / CONTINUE written in the increment belongs to this loop *)
            if st_flag st3 =? 1 then Ok (st_set_flag st3 0)
            else if st_flag st3 =? 2 then for_loop n' cond inc body lineno counter' (st_set_flag st3 0)
            else for_loop n' cond inc body lineno counter' st3
          else
            do st3 <- exec_children inc (Ok st2);
            if st_flag st3 =? 1 then Ok (st_set_flag st3 0)
            else if st_flag st3 =? 2 then for_loop n' cond inc body lineno counter' (st_set_flag st3 0)
            else for_loop n' cond inc body lineno counter' st3
    end.

  Definition LOOP_FUEL : nat := Z.to_nat (MAX_LOOP + 2).

  (* the arm of exec() for one non-loop token *)
  Definition sstep (t : stok) (st : sstate) : res sstate :=
    match t with
    | SCore ct =>
        do sg <- step_song (fun _ _ => Unsupported U_SCHILD) ct (ss_song st);
        Ok (st_set_song st sg)
    | SPrint args lineno =>
        do p <- exec_args_o args st;
        let '(vs, st1) := p in
        Ok (st_log st1 (zs "[PRINT](" ++ show_int lineno ++ zs ") " ++ join_blank (map Expr.to_s vs)))
    | SDefVar is_int name init =>
        do p <- exec_value_o init st;
        let '(v, st1) := p in
        let st2 := if is_int && is_arr v then st_runtime_error st1 (msg_ErrorTypeMismatch (s_ja (ss_song st1)) ++ zs ": " ++ name) else st1 in
        Ok (st_insert st2 name (VV v))
    | SLetVar name e =>
        do p <- exec_value_o e st;
        let '(v, st1) := p in Ok (st_insert st1 name (VV v))
    | SValueInc name d => value_inc st name d
    | SIf cond th el _ =>
        do p <- exec_value_o cond st;
        let '(v, st1) := p in
        exec_children (if Expr.to_b v then th else el) (Ok st1)
    | SWhile cond body lineno => while_loop LOOP_FUEL cond body lineno 0 st
    | SFor init cond inc body lineno =>
        do st1 <- exec_children init (Ok st);
        for_loop LOOP_FUEL cond inc body lineno 0 st1
    | SBreak => Ok (st_set_flag st 1)
    | SContinue => Ok (st_set_flag st 2)
    | SReturn e =>
        match e with
        | None => Ok (st_set_flag st 3)                 (* RETURN without a value keeps Result *)
        | Some _ =>
            do p <- exec_value_o e st;
            let '(v, st1) := p in
            Ok (st_set_flag (st_insert st1 t_Result (VV v)) 3)
        end
    | SCall id args =>
        (* in statement position the value of the call, if one is pushed, is never consumed *)
        match nth_error (ss_funcs st) id with
        | None =>
            Ok (st_runtime_error st (zs "broken func_id=" ++ show_int (Z.of_nat id) ++ zs " in exec_call_user_function"))
        | Some fd =>
            let st0 := st_set_scopes st ([] :: ss_scopes st) in
            do p <- exec_args_o args st0;
            let '(vs, st1) := p in
            do q <- finish_call fd vs st1;
            Ok (snd q)
        end
    end.

  Definition step_stok (t : stok) (s : res sstate) : res sstate := do st <- s; sstep t st.
End Step.

Definition halted_s (s : res sstate) : bool :=
  match s with Ok st => negb (st_flag st =? 0) | _ => true end.
Definition count_of_s (n : Z) (s : res sstate) : nat := Z.to_nat n.
Definition to_ltok_s (t : stok) : ltok stok :=
  match t with
  | SCore (TLoopBegin n) => LBegin n
  | SCore TLoopBreak => LBreak
  | SCore TLoopEnd => LEnd
  | _ => LOther t
  end.

(* exec(song, tokens).  `depth` bounds the nesting of blocks and calls, STEPS the iterations of each while loop of exec();
   exhausting either is OutOfFuel, never a normal-looking value. *)
Fixpoint exec_s (depth : nat) (toks : list stok) (s : res sstate) : res sstate :=
  match depth with
  | O => OutOfFuel
  | S d =>
      match run stok (res sstate) (step_stok (exec_s d)) halted_s count_of_s STEPS (map to_ltok_s toks) s with
      | Some s' => s'
      | None => OutOfFuel
      end
  end.

(* ---------------------------------------------------------------------------------------------- *)
(* the pipeline                                                                                     *)
(* ---------------------------------------------------------------------------------------------- *)
Definition DEPTH : nat := Z.to_nat 600.

(* `ja` = the message language (false = "en", the default; true = "ja") *)
Definition lex_script_lang (ja : bool) (src : list ch) : res slex_out := lex_s (mkSL 96 [] [global_scope] [] ja) src 0.
Definition lex_script (src : list ch) : res slex_out := lex_script_lang false src.

Definition state_after_lex (ls : slex) : sstate :=
  mkS (song_after_lex (mkLex (sl_timebase ls) (sl_logs ls) [] rhythm_rows (sl_ja ls))) (sl_scopes ls) (sl_funcs ls) false.

Definition run_script_lang (ja : bool) (src : list ch) : res sstate :=
  do lx <- lex_script_lang ja src;
  let '(toks, ls) := lx in
  exec_s DEPTH toks (Ok (state_after_lex ls)).
Definition run_script (src : list ch) : res sstate := run_script_lang false src.

Definition compile_script_lang (ja : bool) (src : list ch) : res (list byte * list ch) :=
  do st <- run_script_lang ja src;
  let s := ss_song st in
  do bytes <- generate (s_timebase s) (tracks_for_writer s);
  Ok (bytes, logs_str (s_logs s)).
Definition compile_script (src : list ch) : res (list byte * list ch) := compile_script_lang false src.
