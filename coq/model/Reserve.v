(* song.rs: the reservation methods of Track (calc_v_on_time, calc_{v,t,qlen,o,l}_on_note,
   write_cc_on_time, write_pb_on_time, set/remove/write_cc_on_note(_wave)) and Song::{rand,
   calc_rand_value}, on a track record that keeps only the fields these methods touch.
   Definitions only. isize is Z; `as usize` on an index is written out (idx_usize / the sign test in
   cc_pending); f32 is model/F32.v. *)
From Sakura.Model Require Import Base Event F32.
From Sakura.Gen Require Import Consts.

(* x_on_note: Option<Vec<isize>>, x_on_note_index, x_on_note_is_cycle *)
Record onres := mkOnres { r_list : option (list Z); r_index : Z; r_cycle : bool }.
(* ControlChangeOnNoteWave { no, data, index } *)
Record cc_res := mkCC { cc_no : Z; cc_data : list Z; cc_index : Z }.

Record track := mkTrack {
  tr_timepos : Z; tr_channel : Z; tr_velocity : Z; tr_qlen : Z; tr_timing : Z; tr_octave : Z;
  tr_v_on_time_start : Z; tr_v_on_time : option (list Z);
  tr_v : onres; tr_q : onres; tr_t : onres; tr_o : onres; tr_l : onres;
  tr_freq : Z;                       (* cc_on_time_freq *)
  tr_events : list event;
  tr_cc_on_note : list cc_res; tr_cc_on_note_wave : list cc_res
}.

Definition set_timepos (k : track) (x : Z) : track :=
  mkTrack x (tr_channel k) (tr_velocity k) (tr_qlen k) (tr_timing k) (tr_octave k) (tr_v_on_time_start k) (tr_v_on_time k)
    (tr_v k) (tr_q k) (tr_t k) (tr_o k) (tr_l k) (tr_freq k) (tr_events k) (tr_cc_on_note k) (tr_cc_on_note_wave k).
Definition set_velocity (k : track) (x : Z) : track :=
  mkTrack (tr_timepos k) (tr_channel k) x (tr_qlen k) (tr_timing k) (tr_octave k) (tr_v_on_time_start k) (tr_v_on_time k)
    (tr_v k) (tr_q k) (tr_t k) (tr_o k) (tr_l k) (tr_freq k) (tr_events k) (tr_cc_on_note k) (tr_cc_on_note_wave k).
Definition set_qlen (k : track) (x : Z) : track :=
  mkTrack (tr_timepos k) (tr_channel k) (tr_velocity k) x (tr_timing k) (tr_octave k) (tr_v_on_time_start k) (tr_v_on_time k)
    (tr_v k) (tr_q k) (tr_t k) (tr_o k) (tr_l k) (tr_freq k) (tr_events k) (tr_cc_on_note k) (tr_cc_on_note_wave k).
Definition set_timing (k : track) (x : Z) : track :=
  mkTrack (tr_timepos k) (tr_channel k) (tr_velocity k) (tr_qlen k) x (tr_octave k) (tr_v_on_time_start k) (tr_v_on_time k)
    (tr_v k) (tr_q k) (tr_t k) (tr_o k) (tr_l k) (tr_freq k) (tr_events k) (tr_cc_on_note k) (tr_cc_on_note_wave k).
Definition set_octave (k : track) (x : Z) : track :=
  mkTrack (tr_timepos k) (tr_channel k) (tr_velocity k) (tr_qlen k) (tr_timing k) x (tr_v_on_time_start k) (tr_v_on_time k)
    (tr_v k) (tr_q k) (tr_t k) (tr_o k) (tr_l k) (tr_freq k) (tr_events k) (tr_cc_on_note k) (tr_cc_on_note_wave k).
Definition set_v_on_time (k : track) (x : option (list Z)) (start : Z) : track :=
  mkTrack (tr_timepos k) (tr_channel k) (tr_velocity k) (tr_qlen k) (tr_timing k) (tr_octave k) start x
    (tr_v k) (tr_q k) (tr_t k) (tr_o k) (tr_l k) (tr_freq k) (tr_events k) (tr_cc_on_note k) (tr_cc_on_note_wave k).
Definition set_v (k : track) (x : onres) : track :=
  mkTrack (tr_timepos k) (tr_channel k) (tr_velocity k) (tr_qlen k) (tr_timing k) (tr_octave k) (tr_v_on_time_start k) (tr_v_on_time k)
    x (tr_q k) (tr_t k) (tr_o k) (tr_l k) (tr_freq k) (tr_events k) (tr_cc_on_note k) (tr_cc_on_note_wave k).
Definition set_q (k : track) (x : onres) : track :=
  mkTrack (tr_timepos k) (tr_channel k) (tr_velocity k) (tr_qlen k) (tr_timing k) (tr_octave k) (tr_v_on_time_start k) (tr_v_on_time k)
    (tr_v k) x (tr_t k) (tr_o k) (tr_l k) (tr_freq k) (tr_events k) (tr_cc_on_note k) (tr_cc_on_note_wave k).
Definition set_t (k : track) (x : onres) : track :=
  mkTrack (tr_timepos k) (tr_channel k) (tr_velocity k) (tr_qlen k) (tr_timing k) (tr_octave k) (tr_v_on_time_start k) (tr_v_on_time k)
    (tr_v k) (tr_q k) x (tr_o k) (tr_l k) (tr_freq k) (tr_events k) (tr_cc_on_note k) (tr_cc_on_note_wave k).
Definition set_o (k : track) (x : onres) : track :=
  mkTrack (tr_timepos k) (tr_channel k) (tr_velocity k) (tr_qlen k) (tr_timing k) (tr_octave k) (tr_v_on_time_start k) (tr_v_on_time k)
    (tr_v k) (tr_q k) (tr_t k) x (tr_l k) (tr_freq k) (tr_events k) (tr_cc_on_note k) (tr_cc_on_note_wave k).
Definition set_l (k : track) (x : onres) : track :=
  mkTrack (tr_timepos k) (tr_channel k) (tr_velocity k) (tr_qlen k) (tr_timing k) (tr_octave k) (tr_v_on_time_start k) (tr_v_on_time k)
    (tr_v k) (tr_q k) (tr_t k) (tr_o k) x (tr_freq k) (tr_events k) (tr_cc_on_note k) (tr_cc_on_note_wave k).
Definition set_events (k : track) (x : list event) : track :=
  mkTrack (tr_timepos k) (tr_channel k) (tr_velocity k) (tr_qlen k) (tr_timing k) (tr_octave k) (tr_v_on_time_start k) (tr_v_on_time k)
    (tr_v k) (tr_q k) (tr_t k) (tr_o k) (tr_l k) (tr_freq k) x (tr_cc_on_note k) (tr_cc_on_note_wave k).
Definition set_cc_list (k : track) (x : list cc_res) : track :=
  mkTrack (tr_timepos k) (tr_channel k) (tr_velocity k) (tr_qlen k) (tr_timing k) (tr_octave k) (tr_v_on_time_start k) (tr_v_on_time k)
    (tr_v k) (tr_q k) (tr_t k) (tr_o k) (tr_l k) (tr_freq k) (tr_events k) x (tr_cc_on_note_wave k).
Definition set_cc_wave_list (k : track) (x : list cc_res) : track :=
  mkTrack (tr_timepos k) (tr_channel k) (tr_velocity k) (tr_qlen k) (tr_timing k) (tr_octave k) (tr_v_on_time_start k) (tr_v_on_time k)
    (tr_v k) (tr_q k) (tr_t k) (tr_o k) (tr_l k) (tr_freq k) (tr_events k) (tr_cc_on_note k) x.

(* ---- calc_{v,t,qlen,o,l}_on_note ---------------------------------------------------------- *)

(* `index as usize` for a 64-bit isize *)
Definition idx_usize (i : Z) : Z := if i <? 0 then i + 2 ^ 64 else i.

(* The common body of the five functions. Result: the returned value, the new
   (list, index, cycle flag) and whether a reserved value was applied. `clear_on_empty` is the only
   structural difference: o and l drop an empty list (`Some(vec![])`), v/t/q keep it. *)
Definition on_note_step (clear_on_empty : bool) (r : onres) (def : Z) : Z * onres * bool :=
  match r_list r with
  | None => (def, r, false)
  | Some ia =>
      let n := zlen ia in
      if n =? 0 then (def, (if clear_on_empty then mkOnres None (r_index r) (r_cycle r) else r), false)
      else if (r_index r >=? n) && negb (r_cycle r) then (def, mkOnres None 0 (r_cycle r), false)
      else
        let idx := if r_index r >=? n then 0 else r_index r in
        let v := nth (Z.to_nat (Z.rem (idx_usize idx) n)) ia 0 in
        (v, mkOnres (Some ia) (idx + 1) (r_cycle r), true)
  end.

Definition calc_v_on_note (k : track) (def : Z) : Z * track :=
  let '(v, r, applied) := on_note_step false (tr_v k) def in
  (v, set_v (if applied then set_velocity k v else k) r).
Definition calc_t_on_note (k : track) (def : Z) : Z * track :=
  let '(v, r, applied) := on_note_step false (tr_t k) def in
  (v, set_t (if applied then set_timing k v else k) r).
Definition calc_qlen_on_note (k : track) (def : Z) : Z * track :=
  let '(v, r, applied) := on_note_step false (tr_q k) def in
  (v, set_q (if applied then set_qlen k v else k) r).
Definition calc_o_on_note (k : track) (def : Z) : Z * track :=
  let '(v, r, applied) := on_note_step true (tr_o k) def in
  (v, set_o (if applied then set_octave k v else k) r).
(* the length is NOT stored in the track *)
Definition calc_l_on_note (k : track) (def : Z) : Z * track :=
  let '(v, r, _) := on_note_step true (tr_l k) def in
  (v, set_l k r).

(* uniform access, used by the driver and by the statements of C16 *)
Inductive which := WV | WQ | WT | WO | WL.
Definition calc_on_note (w : which) : track -> Z -> Z * track :=
  match w with WV => calc_v_on_note | WQ => calc_qlen_on_note | WT => calc_t_on_note
             | WO => calc_o_on_note | WL => calc_l_on_note end.
Definition get_res (w : which) : track -> onres :=
  match w with WV => tr_v | WQ => tr_q | WT => tr_t | WO => tr_o | WL => tr_l end.
Definition set_res (w : which) : track -> onres -> track :=
  match w with WV => set_v | WQ => set_q | WT => set_t | WO => set_o | WL => set_l end.
(* the track field in which an applied value is stored (none for l) *)
Definition set_stored (w : which) (k : track) (v : Z) : track :=
  match w with WV => set_velocity k v | WQ => set_qlen k v | WT => set_timing k v | WO => set_octave k v | WL => k end.
Definition get_stored (w : which) (k : track) : option Z :=
  match w with WV => Some (tr_velocity k) | WQ => Some (tr_qlen k) | WT => Some (tr_timing k)
             | WO => Some (tr_octave k) | WL => None end.

(* consecutive notes: call the function once per note with that note's default *)
Fixpoint run_calls (f : track -> Z -> Z * track) (k : track) (defs : list Z) : list Z * track :=
  match defs with
  | [] => ([], k)
  | d :: rest => let '(v, k1) := f k d in let '(vs, k2) := run_calls f k1 rest in (v :: vs, k2)
  end.

(* ---- (lo, hi, len)* segment lists ---------------------------------------------------------- *)

(* for i in 0..ia.len()/3 { ia[i*3], ia[i*3+1], ia[i*3+2] } *)
Fixpoint triples (ia : list Z) : list (Z * Z * Z) :=
  match ia with
  | a :: b :: c :: r => (a, b, c) :: triples r
  | _ => []
  end.

(* for j in 0..len *)
Fixpoint zrange_from (n : nat) (j : Z) : list Z :=
  match n with O => [] | S m => j :: zrange_from m (j + 1) end.
Definition zrange (len : Z) : list Z := zrange_from (Z.to_nat len) 0.

(* ---- calc_v_on_time -------------------------------------------------------------------------- *)
(* the loop: (area_time, result); result starts as isize::MIN *)
Definition v_on_time_loop (cur : Z) (segs : list (Z * Z * Z)) : Z * Z :=
  fold_left (fun (st : Z * Z) (seg : Z * Z * Z) =>
               let '(area, result) := st in
               let '(low, high, len) := seg in
               let area_to := area + len in
               (area_to, if (area <=? cur) && (cur <? area_to) then ramp_value low high (cur - area) len else result))
            segs (0, isize_min).

Definition calc_v_on_time (k : track) (def : Z) : Z * track :=
  match tr_v_on_time k with
  | None => (def, k)
  | Some ia =>
      let cur := tr_timepos k - tr_v_on_time_start k in
      let '(area, result) := v_on_time_loop cur (triples ia) in
      let k' := if area <=? cur then set_v_on_time k None (-1) else k in
      ((if result =? isize_min then def else result), k')
  end.

(* ---- write_cc_on_time / write_pb_on_time ------------------------------------------------------ *)
(* one segment: the events pushed by the inner `for j in 0..len` loop, starting at `base` *)
Definition ramp_events (mk : Z -> Z -> event) (base freq maxv : Z) (seg : Z * Z * Z) : list event :=
  let '(low, high, len) := seg in
  flat_map (fun j => if Z.rem j freq =? 0
                     then [mk (base + j) (value_range 0 (ramp_value low high j len) maxv)]
                     else []) (zrange len).
(* `let mut base = self.timepos; for each segment { ...; if len > 0 { base += len; } }`:
   each segment starts where the previous one ended *)
Definition next_base (base len : Z) : Z := if len >? 0 then base + len else base.
Fixpoint ramp_segments (mk : Z -> Z -> event) (base freq maxv : Z) (segs : list (Z * Z * Z)) : list event :=
  match segs with
  | [] => []
  | seg :: r => ramp_events mk base freq maxv seg ++ ramp_segments mk (next_base base (snd seg)) freq maxv r
  end.

Definition cc_freq (k : track) : Z := if tr_freq k <? 1 then 1 else tr_freq k.
Definition write_cc_on_time (k : track) (cc : Z) (ia : list Z) : track :=
  set_events k (tr_events k ++
    ramp_segments (fun t v => ev_cc t (tr_channel k) cc v) (tr_timepos k) (cc_freq k) 127 (triples ia)).

Definition pb_freq (timebase : Z) : Z := if timebase <? 32 then 1 else Z.quot timebase 32.
Definition pb_segment (is_big : Z) (seg : Z * Z * Z) : Z * Z * Z :=
  let '(low, high, len) := seg in
  if is_big =? 0 then (low * 128, high * 128, len) else (low + 8192, high + 8192, len).
Definition write_pb_on_time (k : track) (is_big : Z) (ia : list Z) (timebase : Z) : track :=
  set_events k (tr_events k ++
    ramp_segments (fun t v => ev_pitch_bend t (tr_channel k) v) (tr_timepos k) (pb_freq timebase) 16383
                  (map (pb_segment is_big) (triples ia))).

(* ---- controller reservations per note ---------------------------------------------------------- *)
Definition remove_cc (no : Z) (l : list cc_res) : list cc_res := filter (fun c => negb (cc_no c =? no)) l.
Definition remove_cc_on_note (k : track) (no : Z) : track := set_cc_list k (remove_cc no (tr_cc_on_note k)).
Definition remove_cc_on_note_wave (k : track) (no : Z) : track := set_cc_wave_list k (remove_cc no (tr_cc_on_note_wave k)).
Definition remove_cc_on (k : track) (no : Z) : track := remove_cc_on_note_wave (remove_cc_on_note k no) no.
Definition set_cc_on_note (k : track) (no : Z) (ia : list Z) : track :=
  let k1 := remove_cc_on k no in set_cc_list k1 (tr_cc_on_note k1 ++ [mkCC no ia 0]).
Definition set_cc_on_note_wave (k : track) (no : Z) (ia : list Z) : track :=
  let k1 := remove_cc_on k no in set_cc_wave_list k1 (tr_cc_on_note_wave k1 ++ [mkCC no ia 0]).

Definition write_cc_on_note_wave (k : track) (start_pos : Z) : track :=
  let end_pos := tr_timepos k in
  let k1 := set_timepos k start_pos in
  let k2 := fold_left (fun t cow => write_cc_on_time t (cc_no cow) (cc_data cow)) (tr_cc_on_note_wave k) k1 in
  set_timepos k2 end_pos.

(* `data.len() > index as usize`: a negative index is a huge usize *)
Definition cc_pending (c : cc_res) : bool := (0 <=? cc_index c) && (cc_index c <? zlen (cc_data c)).
Definition cc_bump (c : cc_res) : cc_res :=
  if cc_pending c then mkCC (cc_no c) (cc_data c) (cc_index c + 1) else c.
Definition cc_note_events (start_pos ch : Z) (l : list cc_res) : list event :=
  flat_map (fun c => if cc_pending c then [ev_cc start_pos ch (cc_no c) (nth (Z.to_nat (cc_index c)) (cc_data c) 0)] else []) l.
Definition write_cc_on_note (k : track) (start_pos : Z) : track :=
  let l := tr_cc_on_note k in
  set_cc_list (set_events k (tr_events k ++ cc_note_events start_pos (tr_channel k) l))
              (filter cc_pending (map cc_bump l)).

Fixpoint run_cc_notes (k : track) (starts : list Z) : track :=
  match starts with
  | [] => k
  | s :: rest => run_cc_notes (write_cc_on_note k s) rest
  end.

(* ---- Song::rand (xorshift32 on u32) and calc_rand_value ---------------------------------------- *)
Definition u32 (z : Z) : Z := z mod 2 ^ 32.
Definition rand_next (seed : Z) : Z :=
  let y := seed in
  let y := Z.lxor y (u32 (Z.shiftl y 13)) in
  let y := Z.lxor y (Z.shiftr y 17) in
  let y := Z.lxor y (u32 (Z.shiftl y 5)) in
  y.
(* returns (value, new seed); no number is drawn when the width is <= 0 *)
Definition calc_rand_value (seed val rand_v : Z) : Z * Z :=
  if rand_v <=? 0 then (val, seed)
  else let r := rand_next seed in (val + (Z.rem r rand_v - Z.quot rand_v 2), r).

Fixpoint rand_seq (seed : Z) (n : nat) : list Z :=
  match n with O => [] | S m => let r := rand_next seed in r :: rand_seq r m end.
Fixpoint rand_values (seed val width : Z) (n : nat) : list Z :=
  match n with
  | O => []
  | S m => let '(v, s) := calc_rand_value seed val width in v :: rand_values s val width m
  end.

(* ---- runner.rs: the reservation token arms and their use in exec_note / exec_note_n -------------- *)
(* The part of Song/Track state these arms touch besides the track record above: track.length, the four
   random widths, the seed and the time base. Notes are plain (no explicit length/velocity/..., no tie,
   no harmony, key shifts 0), which is the fragment the C16 checks generate. *)
Record rstate := mkRS {
  rs_k : track; rs_length : Z; rs_vr : Z; rs_qr : Z; rs_tr : Z; rs_or : Z; rs_seed : Z; rs_timebase : Z }.
Definition with_k (s : rstate) (k : track) : rstate :=
  mkRS k (rs_length s) (rs_vr s) (rs_qr s) (rs_tr s) (rs_or s) (rs_seed s) (rs_timebase s).
Definition with_seed (s : rstate) (x : Z) : rstate :=
  mkRS (rs_k s) (rs_length s) (rs_vr s) (rs_qr s) (rs_tr s) (rs_or s) x (rs_timebase s).
Definition with_length (s : rstate) (x : Z) : rstate :=
  mkRS (rs_k s) x (rs_vr s) (rs_qr s) (rs_tr s) (rs_or s) (rs_seed s) (rs_timebase s).
Definition with_rand (w : which) (s : rstate) (x : Z) : rstate :=
  match w with
  | WV => mkRS (rs_k s) (rs_length s) x (rs_qr s) (rs_tr s) (rs_or s) (rs_seed s) (rs_timebase s)
  | WQ => mkRS (rs_k s) (rs_length s) (rs_vr s) x (rs_tr s) (rs_or s) (rs_seed s) (rs_timebase s)
  | WT => mkRS (rs_k s) (rs_length s) (rs_vr s) (rs_qr s) x (rs_or s) (rs_seed s) (rs_timebase s)
  | WO => mkRS (rs_k s) (rs_length s) (rs_vr s) (rs_qr s) (rs_tr s) x (rs_seed s) (rs_timebase s)
  | WL => s
  end.

Inductive rcmd :=
| ROnNote (w : which) (cyc : bool) (ia : list Z)     (* x.onNote / x.onCycle *)
| RVOnTime (ia : list Z)                             (* v.onTime *)
| RPlain (w : which) (v : Z)                         (* v / q / t / o <n>; l: the computed length in ticks *)
| RRandom (w : which) (r : Z)                        (* x.Random *)
| RCCOnTime (no : Z) (ia : list Z)
| RCCOnNote (no : Z) (ia : list Z)
| RCCOnNoteWave (no : Z) (ia : list Z)
| RFreq (f : Z)
| RPBOnTime (is_big : Z) (ia : list Z)
| RCC (no v : Z)                                     (* plain controller value *)
| RNote (pc : Z)                                     (* lettered note, pitch class 0..11 *)
| RNoteN (key : Z)                                   (* numbered note *)
| RRest.

(* (notelen as f32 * qlen as f32 / 100.0) as isize *)
Definition gate_f32 (notelen qlen : Z) : Z :=
  f32_to_Z (f32_div (f32_mul (f32_of_Z notelen) (f32_of_Z qlen)) (f32_of_Z 100)).

(* `if x_rand > 0 { song.calc_rand_value(v, x_rand) } else { v }` *)
Definition draw (s : rstate) (val width : Z) : Z * rstate :=
  if width >? 0 then let '(v, seed) := calc_rand_value (rs_seed s) val width in (v, with_seed s seed)
  else (val, s).

Definition set_freq (k : track) (f : Z) : track :=
  mkTrack (tr_timepos k) (tr_channel k) (tr_velocity k) (tr_qlen k) (tr_timing k) (tr_octave k) (tr_v_on_time_start k) (tr_v_on_time k)
    (tr_v k) (tr_q k) (tr_t k) (tr_o k) (tr_l k) f (tr_events k) (tr_cc_on_note k) (tr_cc_on_note_wave k).

Definition finish_note (k : track) (start_pos : Z) (e : event) : track :=
  let k := write_cc_on_note k start_pos in
  let k := write_cc_on_note_wave k start_pos in
  set_events k (tr_events k ++ [e]).

Definition exec_note (s : rstate) (pc : Z) : rstate :=
  let k := rs_k s in
  let no := tr_octave k * 12 + pc in
  let timepos := tr_timepos k in
  let '(v, k) := calc_v_on_time k (tr_velocity k) in
  let '(v, k) := calc_v_on_note k v in
  let '(t, k) := calc_t_on_note k (tr_timing (rs_k s)) in
  let '(qlen, k) := calc_qlen_on_note k (tr_qlen (rs_k s)) in
  let '(o_abs, k) := calc_o_on_note k (-1) in
  let no := if o_abs =? -1 then no else Z.rem no 12 + o_abs * 12 in
  let s := with_k s k in
  let '(no, s) := if rs_or s >? 0
                  then let '(r, s1) := draw s 0 (rs_or s) in (if r =? 0 then no else no + r * 12, s1)
                  else (no, s) in
  let '(v, s) := draw s v (rs_vr s) in
  let '(t, s) := draw s t (rs_tr s) in
  let '(qlen, s) := draw s qlen (rs_qr s) in
  let '(l_on, k) := calc_l_on_note (rs_k s) (-1) in
  let notelen := if l_on =? -1 then rs_length s else l_on in
  let e := ev_note (timepos + t) (tr_channel k) (value_range 0 no 127) (gate_f32 notelen qlen) (value_range 0 v 127) in
  let k := set_timepos k (tr_timepos k + notelen) in
  with_k s (finish_note k timepos e).

Definition exec_note_n (s : rstate) (key : Z) : rstate :=
  let k := rs_k s in
  let start_pos := tr_timepos k in
  let notelen := rs_length s in
  let '(v, k) := calc_v_on_time k (tr_velocity k) in
  let '(v, k) := calc_v_on_note k v in
  let '(t, k) := calc_t_on_note k (tr_timing (rs_k s)) in
  let '(qlen, k) := calc_qlen_on_note k (tr_qlen (rs_k s)) in
  let '(_, k) := calc_o_on_note k (-1) in
  let '(l_on, k) := calc_l_on_note k (-1) in
  let notelen := if l_on =? -1 then notelen else l_on in
  let s := with_k s k in
  let '(v, s) := draw s v (rs_vr s) in
  let '(t, s) := draw s t (rs_tr s) in
  let '(qlen, s) := draw s qlen (rs_qr s) in
  let k := rs_k s in
  let e := ev_note (tr_timepos k + t) (tr_channel k) (value_range 0 key 127) (gate_f32 notelen qlen) (value_range 0 v 127) in
  let k := finish_note k start_pos e in
  with_k s (set_timepos k (tr_timepos k + notelen)).

Definition exec_cmd (s : rstate) (c : rcmd) : rstate :=
  let k := rs_k s in
  match c with
  | ROnNote w cyc ia =>
      let k := match w with WV => set_v_on_time k None (tr_v_on_time_start k) | _ => k end in
      with_k s (set_res w k (mkOnres (Some ia) 0 cyc))
  | RVOnTime ia =>
      let k := set_v k (mkOnres None (r_index (tr_v k)) (r_cycle (tr_v k))) in
      with_k s (set_v_on_time k (Some ia) (tr_timepos k))
  | RPlain w v =>
      let r := get_res w k in
      let k := set_res w k (mkOnres None (r_index r) (r_cycle r)) in
      match w with
      | WV => with_k s (set_velocity (set_v_on_time k None (tr_v_on_time_start k)) (value_range 0 v 127))
      | WQ => with_k s (set_qlen k (value_range 0 v 100))
      | WT => with_k s (set_timing k v)
      | WO => with_k s (set_octave k (value_range 0 v 10))
      | WL => with_length (with_k s k) v
      end
  | RRandom w r => with_rand w s r
  | RCCOnTime no ia => with_k s (write_cc_on_time (remove_cc_on k no) no ia)
  | RCCOnNote no ia => with_k s (set_cc_on_note k no ia)
  | RCCOnNoteWave no ia => with_k s (set_cc_on_note_wave k no ia)
  | RFreq f => with_k s (set_freq k f)
  | RPBOnTime is_big ia => with_k s (write_pb_on_time k is_big ia (rs_timebase s))
  | RCC no v =>
      let k := remove_cc_on_note_wave k no in
      with_k s (set_events k (tr_events k ++ [ev_cc (tr_timepos k) (tr_channel k) no v]))
  | RNote pc => exec_note s pc
  | RNoteN key => exec_note_n s key
  | RRest => with_k s (set_timepos k (tr_timepos k + rs_length s))
  end.

Definition exec_cmds (s : rstate) (cs : list rcmd) : rstate := fold_left exec_cmd cs s.

(* Track::new(timebase, channel) / Song::new() restricted to the modelled fields *)
Definition onres_new : onres := mkOnres None 0 false.
Definition track_new (channel : Z) : track :=
  mkTrack 0 channel 100 90 0 5 (-1) None onres_new onres_new onres_new onres_new onres_new 4 [] [] [].
Definition rstate_new (channel timebase : Z) : rstate :=
  mkRS (track_new channel) timebase 0 0 0 0 SAKURA_DEFAULT_RANDOM_SEED timebase.
