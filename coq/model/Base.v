(* Base conventions of the model: characters are Unicode scalar values (Z), bytes are Z in
   0..255, Rust isize/usize are unbounded Z (casts are written out where the code casts). *)
From Coq Require Export List ZArith Bool Lia.
Export ListNotations.
Open Scope Z_scope.

Notation ch := Z (only parsing).
Notation byte := Z (only parsing).

(* Outcome of a model function: a value, a Rust panic site, exhausted fuel (a loop that does
   not advance) or language outside the modelled fragment. *)
Inductive res (A : Type) : Type :=
| Ok (a : A)
| Panic (site : Z)
| OutOfFuel
| Unsupported (what : Z).
Arguments Ok {A} a.
Arguments Panic {A} site.
Arguments OutOfFuel {A}.
Arguments Unsupported {A} what.

Definition bind {A B} (r : res A) (f : A -> res B) : res B :=
  match r with
  | Ok a => f a
  | Panic s => Panic s
  | OutOfFuel => OutOfFuel
  | Unsupported w => Unsupported w
  end.
Notation "'do' x <- r ; k" := (bind r (fun x => k)) (at level 200, x pattern, r at level 100, k at level 200).

(* prefix test on character/byte lists *)
Fixpoint prefixb (p s : list Z) : bool :=
  match p, s with
  | [], _ => true
  | x :: p', y :: s' => (x =? y) && prefixb p' s'
  | _ :: _, [] => false
  end.

Fixpoint list_eqb (a b : list Z) : bool :=
  match a, b with
  | [], [] => true
  | x :: a', y :: b' => (x =? y) && list_eqb a' b'
  | _, _ => false
  end.

(* Rust `as u8` *)
Definition as_u8 (v : Z) : Z := v mod 256.
(* value_range(min, v, max) of runner.rs *)
Definition value_range (lo v hi : Z) : Z := if v <? lo then lo else if v >? hi then hi else v.

Definition zlen {A} (l : list A) : Z := Z.of_nat (length l).
