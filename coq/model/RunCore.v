(* runner.rs: exec() and the arms of the core note language, as an instantiation of the generic
   pos/loop_stack machine (LoopMachine.v).  The machine state is `res song`: a panic / unsupported
   construct / exhausted fuel halts it (like break_flag), so errors propagate to the result. *)
From Sakura.Model Require Import Base Cursor Length Event Song Token LoopMachine.
Open Scope Z_scope.

Definition U_RUN_TRACKNO := 20. Definition U_RUN_TIE := 21. Definition U_RUN_VSUB := 22. Definition U_RUN_LOOPCOUNT := 23.

Definition note_len_real (notelen qlen : Z) : Z := Z.quot (notelen * qlen) 100.
   (* (notelen as f32 * qlen as f32 / 100.0) as isize ; exact while notelen*qlen < 2^24 and the quotient < 2^17 *)

Definition key_flag_at (s : song) (no : Z) : Z := nth (Z.to_nat (no mod 12)) (s_key_flag s) 0.

(* set_note_info_with_default_value: final note number *)
Definition note_number (s : song) (base flag natural oct : Z) : Z :=
  let trk := cur_track s in
  let no := base mod 12 in
  let o := if oct <? 0 then tr_octave trk else oct in
  let n0 := o * 12 + no + flag in
  if s_use_key_shift s then
    n0 + (if natural =? 0 then key_flag_at s no else 0) + s_key_shift s + tr_track_key trk
  else n0.

(* the tail of exec_note / exec_note_n: advance, octave_once, chord collection, event *)
Definition emit_note (s : song) (ev : event) (notelen : Z) (is_lettered : bool) (slur : Z) : res song :=
  let s1 := upd_cur s (fun t => tr_set_timepos t (tr_timepos t + notelen)) in
  if is_lettered then
    let s2 := if s_octave_once s1 =? 0 then s1
              else s_set_octave_once (upd_cur s1 (fun t => tr_set_octave t (tr_octave t - s_octave_once s1))) 0 in
    if s_harmony_flag s2 then
      Ok (s_set_harmony (upd_cur s2 (fun t => tr_set_timepos t (s_harmony_time s2))) true (s_harmony_time s2)
                        (s_harmony_events s2 ++ [ev]))
    else if (slur >=? 1) || negb (match tr_tie_notes (cur_track s2) with [] => true | _ => false end) then Unsupported U_RUN_TIE
    else Ok (upd_cur s2 (fun t => tr_push_event t ev))
  else
    if slur >=? 1 then Unsupported U_RUN_TIE
    else Ok (upd_cur s (fun t => tr_set_timepos (tr_push_event t ev) (tr_timepos t + notelen))).

Definition exec_note (s : song) (base flag natural : Z) (len : list ch) (qlen vel timing oct slur : Z) : res song :=
  let trk := cur_track s in
  let q := if qlen =? 0 then tr_qlen trk else qlen in
  let v := if vel <? 0 then tr_velocity trk else vel in
  let t := if timing =? ISIZE_MIN then tr_timing trk else timing in
  let no := note_number s base flag natural oct in
  let notelen := calc_length len (s_timebase s) (tr_length trk) in
  let ev := ev_note (tr_timepos trk + t) (tr_channel trk) (value_range 0 no 127) (note_len_real notelen q) (value_range 0 v 127) in
  emit_note s ev notelen true slur.

Definition exec_note_n (s : song) (no : Z) (len : list ch) (qlen vel timing slur : Z) : res song :=
  let trk := cur_track s in
  let notelen := calc_length len (s_timebase s) (tr_length trk) in
  let q := if negb (qlen =? 0) then qlen else tr_qlen trk in
  let v := if vel >=? 0 then vel else tr_velocity trk in
  let t := if negb (timing =? ISIZE_MIN) then timing else tr_timing trk in
  let ev := ev_note (tr_timepos trk + t) (tr_channel trk)
                    (value_range 0 (no + tr_track_key trk + s_key_shift s) 127) (note_len_real notelen q) (value_range 0 v 127) in
  emit_note s ev notelen false slur.

Definition exec_rest (s : song) (dir : Z) (len : list ch) : song :=
  upd_cur s (fun t => tr_set_timepos t (tr_timepos t + calc_length len (s_timebase s) (tr_length t) * dir)).

Definition exec_voice (s : song) (args : list Z) : song :=
  let trk := cur_track s in
  let no := value_range 1 (nth 0 args 1) 128 - 1 in
  match args with
  | [_] => upd_cur s (fun t => tr_push_event t (ev_voice (tr_timepos trk) (tr_channel trk) no))
  | _ =>
      let msb := nth 1 args 0 in let lsb := nth 2 args 0 in
      upd_cur s (fun t => tr_push_event (tr_push_event (tr_push_event t
        (ev_cc (tr_timepos trk) (tr_channel trk) 0 msb)) (ev_cc (tr_timepos trk) (tr_channel trk) 32 lsb))
        (ev_voice (tr_timepos trk) (tr_channel trk) no))
  end.

(* exec_harmony(end): the collected notes are popped from the END of harmony_events *)
Definition set_harmony_note (e : event) (time note_len qlen : Z) (vel : option Z) : event :=
  mkEvent (e_type e) time (e_ch e) (e_v1 e)
          (if qlen =? 0 then e_v2 e else Z.quot (note_len * qlen) 100)
          (match vel with Some v => v | None => e_v3 e end) (e_data e).
Definition exec_harmony_end (s : song) (len : list ch) (qlen : Z) (vel : option Z) : song :=
  if s_harmony_flag s then
    let trk := cur_track s in
    let q := if qlen <? 0 then tr_qlen trk else qlen in
    let note_len := calc_length len (s_timebase s) (tr_length trk) in
    let evs := map (fun e => set_harmony_note e (s_harmony_time s) note_len q vel) (rev (s_harmony_events s)) in
    let s1 := upd_cur s (fun t => tr_set_timepos (tr_set_events t (tr_events t ++ evs)) (s_harmony_time s + note_len)) in
    s_set_harmony s1 false (s_harmony_time s) []
  else s.

Section Exec.
  (* exec() of the children of Sub / Div: supplied with one unit less of nesting fuel *)
  Variable exec_children : list tok -> res song -> res song.

  Definition step_song (t : tok) (s : song) : res song :=
    match t with
    | TLineNo ln => Ok (s_set_lineno s ln)
    | TNote base flag natural len qlen vel timing oct slur => exec_note s base flag natural len qlen vel timing oct slur
    | TNoteN no len qlen vel timing slur => exec_note_n s no len qlen vel timing slur
    | TRest dir len => Ok (exec_rest s dir len)
    | TLength len => Ok (upd_cur s (fun t => tr_set_length t (calc_length len (s_timebase s) (s_timebase s))))
    | TOctave v => Ok (upd_cur s (fun t => tr_set_octave t (value_range 0 v 10)))
    | TOctaveRel v => Ok (upd_cur s (fun t => tr_set_octave t (value_range 0 (tr_octave t + v) 10)))
    | TOctaveOnce v =>
        Ok (s_set_octave_once (upd_cur s (fun t => tr_set_octave t (value_range 0 (tr_octave t + v) 10))) (s_octave_once s + v))
    | TVelocity v ino =>
        if ino >? 0 then Unsupported U_RUN_VSUB
        else Ok (upd_cur s (fun t => tr_set_velocity t (value_range 0 v 127)))
    | TVelocityRel v => Ok (upd_cur s (fun t => tr_set_velocity t (value_range 0 (tr_velocity t + s_v_add s * v) 127)))
    | TQLen v => Ok (upd_cur s (fun t => tr_set_qlen t (value_range 0 v 100)))
    | TQLenRel v => Ok (upd_cur s (fun t => tr_set_qlen t (tr_qlen t + s_q_add s * v)))
    | TTiming v => Ok (upd_cur s (fun t => tr_set_timing t v))
    | TLoopBegin _ | TLoopBreak | TLoopEnd => Ok s          (* handled by the machine *)
    | THarmonyBegin => Ok (s_set_harmony s true (tr_timepos (cur_track s)) (s_harmony_events s))
    | THarmonyEnd len qlen vel => Ok (exec_harmony_end s len qlen vel)
    | TDiv cnt len children =>
        let trk := cur_track s in
        let div_len := calc_length len (s_timebase s) (tr_length trk) in
        let note_len := if cnt >? 0 then Z.quot div_len cnt else 0 in
        let timepos_end := tr_timepos trk + div_len in
        let length_org := tr_length trk in
        do s2 <- exec_children children (Ok (upd_cur s (fun t => tr_set_length t note_len)));
        Ok (upd_cur s2 (fun t => tr_set_length (tr_set_timepos t timepos_end) length_org))
    | TSub children =>
        let timepos_tmp := tr_timepos (cur_track s) in
        do s2 <- exec_children children (Ok s);
        Ok (upd_cur s2 (fun t => tr_set_timepos t timepos_tmp))
    | TTrack v =>
        if (v <? 0) || (v >? 999) then Unsupported U_RUN_TRACKNO else Ok (change_cur_track s (Z.to_nat v))
    | TChannel v => Ok (upd_cur s (fun t => tr_set_channel t (value_range 1 v 16 - 1)))
    | TVoice args => Ok (exec_voice s args)
    | TKeyFlag flags => Ok (s_set_key_flag s flags)
    | TKeyShift v => Ok (s_set_key_shift s v)
    | TTrackKey v => Ok (upd_cur s (fun t => tr_set_track_key t v))
    | TTrackSync => Ok (track_sync s)
    | TPlayFromHere => Ok (s_set_play_from s (tr_timepos (cur_track s)))
    | TComment => Ok s
    end.

  Definition step_tok (t : tok) (s : res song) : res song := do sg <- s; step_song t sg.
End Exec.

Definition halted (s : res song) : bool :=
  match s with Ok sg => negb (s_break_flag sg =? 0) | _ => true end.
Definition count_of (n : Z) (s : res song) : nat := Z.to_nat n.
Definition to_ltok (t : tok) : ltok tok :=
  match t with TLoopBegin n => LBegin n | TLoopBreak => LBreak | TLoopEnd => LEnd | _ => LOther t end.

(* exec(song, tokens).  `depth` bounds the nesting of Sub/Div blocks, `steps` the iterations of each
   while loop; exhausting either is OutOfFuel, never a normal-looking value. *)
Fixpoint exec_f (depth : nat) (steps : nat) (toks : list tok) (s : res song) : res song :=
  match depth with
  | O => OutOfFuel
  | S d =>
      match run tok (res song) (step_tok (exec_f d steps)) halted count_of steps (map to_ltok toks) s with
      | Some s' => s'
      | None => OutOfFuel
      end
  end.
