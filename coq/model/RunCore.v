(* runner.rs: exec() and the arms of the core note language, as an instantiation of the generic
   pos/loop_stack machine (LoopMachine.v).  The machine state is `res song`: a panic / unsupported
   construct / exhausted fuel halts it (like break_flag), so errors propagate to the result. *)
From Sakura.Model Require Import Base Cursor Length Event Song Token LoopMachine LexCore Tie RunRsv Msg.
From Sakura.Model Require Reserve.
From Sakura.Model Require Utf8 F32.
From Sakura.Model Require Cmd.   (* the event shapes of the command arms (property C15): used qualified *)
From Sakura.Gen Require Import Messages.
From Coq Require Import String.
Open Scope string_scope.
Open Scope Z_scope.

Definition U_RUN_TRACKNO := 20. Definition U_RUN_TIE := 21. Definition U_RUN_VSUB := 22. Definition U_RUN_LOOPCOUNT := 23.
Definition U_RUN_CHAR := 24. Definition U_RUN_SIZE := 25.

Definition SYSEX_MAX : Z := 100000.

Definition note_len_real (notelen qlen : Z) : Z := Z.quot (notelen * qlen) 100.
   (* (notelen as f32 * qlen as f32 / 100.0) as isize ; exact while notelen*qlen < 2^24 and the quotient < 2^17 *)

Definition key_flag_at (s : song) (no : Z) : Z := nth (Z.to_nat (no mod 12)) (s_key_flag s) 0.

(* set_note_info_with_default_value: final note number *)
Definition note_number (s : song) (base flag natural oct : Z) : Z :=
  let trk := cur_track s in
  let no := base mod 12 in
  let o := if oct <? 0 then tr_octave trk else oct in
  let n0 := o * 12 + no + flag in
  if s_use_key_shift s then
    n0 + (if natural =? 0 then key_flag_at s no else 0) + s_key_shift s + tr_track_key trk
  else n0.

(* the tail of exec_note / exec_note_n: advance, octave_once, chord collection, controller reservations, event.
   start_pos is the pointer on entry. *)
Definition emit_note (s : song) (ev : event) (notelen : Z) (is_lettered : bool) (slur : Z) : res song :=
  let start_pos := tr_timepos (cur_track s) in
  let s1 := upd_cur s (fun t => tr_set_timepos t (tr_timepos t + notelen)) in
  if is_lettered then
    let s2 := if s_octave_once s1 =? 0 then s1
              else s_set_octave_once (upd_cur s1 (fun t => tr_set_octave t (tr_octave t - s_octave_once s1))) 0 in
    if s_harmony_flag s2 then
      Ok (s_set_harmony (upd_cur s2 (fun t => tr_set_timepos t (s_harmony_time s2))) true (s_harmony_time s2)
                        (s_harmony_events s2 ++ [ev]))
    else if slur >=? 1 then Ok (upd_cur s2 (fun t => push_tie_note t ev))
    else if negb (match tr_tie_notes (cur_track s2) with [] => true | _ => false end) then
      Ok (upd_cur s2 (fun t => check_tie_notes (s_timebase s2) (push_tie_note t ev)))
    else Ok (upd_cur s2 (fun t => tr_push_event (write_cc_notes t start_pos) ev))
  else
    (* exec_note_n never looks at the '&' of a numbered note *)
    Ok (upd_cur s (fun t => tr_set_timepos (tr_push_event (write_cc_notes t (tr_timepos t)) ev) (tr_timepos t + notelen))).

(* the reservations and random widths of the current track applied to the values of one note:
   (velocity, timing, gate, absolute octave or -1, reserved length or -1) and the seed after the draws *)
Definition exec_note (s : song) (base flag natural : Z) (len : list ch) (qlen vel timing oct slur : Z) : res song :=
  let trk := cur_track s in
  let q := if qlen =? 0 then tr_qlen trk else qlen in
  let v := if vel <? 0 then tr_velocity trk else vel in
  let t := if timing =? ISIZE_MIN then tr_timing trk else timing in
  let no := note_number s base flag natural oct in
  let '(v1, t1, q1, o_abs, l_on) := fst (rsv_on_note (to_rtrack trk) v t q) in
  let no1 := if o_abs =? -1 then no else Z.rem no 12 + o_abs * 12 in
  let r := tr_rsv trk in
  let '(no2, sd1) := draw_octave (s_rand_seed s) no1 (rv_o_rand r) in
  let '(v2, sd2) := draw sd1 v1 (rv_v_rand r) in
  let '(t2, sd3) := draw sd2 t1 (rv_t_rand r) in
  let '(q2, sd4) := draw sd3 q1 (rv_q_rand r) in
  let notelen0 := calc_length len (s_timebase s) (tr_length trk) in
  let notelen := if l_on =? -1 then notelen0 else l_on in
  let ev := ev_note (tr_timepos trk + t2) (tr_channel trk) (value_range 0 no2 127) (note_len_real notelen q2) (value_range 0 v2 127) in
  emit_note (s_set_rand_seed (upd_cur s (fun x => rsv_advance x v t q)) sd4) ev notelen true slur.

Definition exec_note_n (s : song) (no : Z) (len : list ch) (qlen vel timing slur : Z) : res song :=
  let trk := cur_track s in
  let notelen0 := calc_length len (s_timebase s) (tr_length trk) in
  let q := if negb (qlen =? 0) then qlen else tr_qlen trk in
  let v := if vel >=? 0 then vel else tr_velocity trk in
  let t := if negb (timing =? ISIZE_MIN) then timing else tr_timing trk in
  let '(v1, t1, q1, _, l_on) := fst (rsv_on_note (to_rtrack trk) v t q) in
  let notelen := if l_on =? -1 then notelen0 else l_on in
  let r := tr_rsv trk in
  let '(v2, sd2) := draw (s_rand_seed s) v1 (rv_v_rand r) in
  let '(t2, sd3) := draw sd2 t1 (rv_t_rand r) in
  let '(q2, sd4) := draw sd3 q1 (rv_q_rand r) in
  let ev := ev_note (tr_timepos trk + t2) (tr_channel trk)
                    (value_range 0 (no + tr_track_key trk + s_key_shift s) 127) (note_len_real notelen q2) (value_range 0 v2 127) in
  emit_note (s_set_rand_seed (upd_cur s (fun x => rsv_advance x v t q)) sd4) ev notelen false slur.

Definition exec_rest (s : song) (dir : Z) (len : list ch) : song :=
  upd_cur s (fun t => tr_set_timepos t (tr_timepos t + calc_length len (s_timebase s) (tr_length t) * dir)).

Definition exec_voice (s : song) (args : list Z) : song :=
  let trk := cur_track s in
  let no := value_range 1 (nth 0 args 1) 128 - 1 in
  match args with
  | [_] => upd_cur s (fun t => tr_push_event t (ev_voice (tr_timepos trk) (tr_channel trk) no))
  | _ =>
      let msb := nth 1 args 0 in let lsb := nth 2 args 0 in
      upd_cur s (fun t => tr_push_event (tr_push_event (tr_push_event t
        (ev_cc (tr_timepos trk) (tr_channel trk) 0 msb)) (ev_cc (tr_timepos trk) (tr_channel trk) 32 lsb))
        (ev_voice (tr_timepos trk) (tr_channel trk) no))
  end.

(* exec_harmony(end): the collected notes are popped from the END of harmony_events *)
Definition set_harmony_note (e : event) (time note_len qlen : Z) (vel : option Z) : event :=
  mkEvent (e_type e) time (e_ch e) (e_v1 e)
          (if qlen =? 0 then e_v2 e else Z.quot (note_len * qlen) 100)
          (match vel with Some v => v | None => e_v3 e end) (e_data e).
Definition exec_harmony_end (s : song) (len : list ch) (qlen : Z) (vel : option Z) : song :=
  if s_harmony_flag s then
    let trk := cur_track s in
    let q := if qlen <? 0 then tr_qlen trk else qlen in
    let note_len := calc_length len (s_timebase s) (tr_length trk) in
    let evs := map (fun e => set_harmony_note e (s_harmony_time s) note_len q vel) (rev (s_harmony_events s)) in
    let s1 := upd_cur s (fun t => tr_set_timepos (tr_set_events t (tr_events t ++ evs)) (s_harmony_time s + note_len)) in
    s_set_harmony s1 false (s_harmony_time s) []
  else s.

(* runtime_error *)
Definition runtime_error (s : song) (msg : list ch) : song :=
  add_log s (zs "[ERROR](" ++ show_int (s_lineno s) ++ zs ") " ++ msg_RuntimeError (s_ja s) ++ zs ": " ++ msg).

(* exec_get_time: TIME(n) is tick n; TIME(m:b:t) = (m - 1 + shift) * beat * numerator + (b - 1) * beat + t *)
Definition exec_get_time (s : song) (args : list Z) (cmd : list ch) : Z * song :=
  match args with
  | [] => (0, runtime_error s (zs "[" ++ cmd ++ zs "] no arguments"))
  | [a] => (a, s)
  | m :: b :: t :: _ =>
      let mes := m + s_measure_shift s in
      let base := Z.quot (s_timebase s * 4) (s_timesig_deno s) in
      ((mes - 1) * (base * s_timesig_frac s) + (b - 1) * base + t, s)
  | _ => (0, runtime_error s (zs "[" ++ cmd ++ zs "] needs 1 or 3 arguments"))
  end.

(* tempo_change: FF 51 03 + 60000000/tempo big-endian *)
Definition tempo_change (s : song) (tempo : Z) : song :=
  let mpq := if tempo >? 0 then Z.quot 60000000 tempo else 120 in
  let e := ev_meta (tr_timepos (cur_track s)) 255 81 3
                   [as_u8 (Z.land (Z.shiftr mpq 16) 255); as_u8 (Z.land (Z.shiftr mpq 8) 255); as_u8 (Z.land mpq 255)] in
  upd_cur (s_set_time s tempo (s_timesig_frac s) (s_timesig_deno s) (s_measure_shift s)) (fun t => tr_push_event t e).

(* tempo_change_a_to_b: one tempo event every sixteenth note, interpolated in f32
     v = (a as f32) + (width as f32) * (i as f32 / step_cnt as f32);  tempo_change(song, v as isize);  timepos += step
   then the target tempo at timepos + len; the pointer is put back.
   `step` is timebase * 4 / 16: the time base is clamped to 48..32767 where it is set (read_timebase), so the divisor is not 0
   in any song reached from a source (PipelineP.dims_inv); a song with a time base below 4 is outside the model. *)
Definition tempo_ramp_value (a width i n : Z) : Z :=
  F32.f32_to_Z (F32.f32_add (F32.f32_of_Z a) (F32.f32_mul (F32.f32_of_Z width) (F32.f32_div (F32.f32_of_Z i) (F32.f32_of_Z n)))).
Fixpoint tempo_ramp_loop (s : song) (a width step step_cnt : Z) (idx : list Z) : song :=
  match idx with
  | [] => s
  | i :: r =>
      let s1 := tempo_change s (tempo_ramp_value a width i step_cnt) in
      tempo_ramp_loop (upd_cur s1 (fun t => tr_set_timepos t (tr_timepos t + step))) a width step step_cnt r
  end.
Definition tempo_change_a_to_b (s : song) (a b len : Z) : res song :=
  let step := Z.quot (s_timebase s * 4) 16 in
  if step =? 0 then Unsupported U_RUN_SIZE
  else if RAMP_MAX <? len then Unsupported U_RUN_LOOPCOUNT        (* a ramp beyond any reasonable size *)
  else
    let step_cnt := Z.quot len step in
    let timepos := tr_timepos (cur_track s) in
    let s1 := tempo_ramp_loop s a (b - a) step step_cnt (Reserve.zrange step_cnt) in
    let s2 := tempo_change (upd_cur s1 (fun t => tr_set_timepos t (timepos + len))) b in
    Ok (upd_cur s2 (fun t => tr_set_timepos t timepos)).
(* the TempoChange arm: 3 arguments a -> b over len, 2 arguments from the current tempo, otherwise the first argument *)
Definition exec_tempo_change (s : song) (a : Z) (rest : list Z) : res song :=
  match rest with
  | [b; len] => tempo_change_a_to_b s a b len
  | [len] => tempo_change_a_to_b s (s_tempo s) a len
  | _ => Ok (tempo_change s a)
  end.

Definition exec_time_signature (s : song) (args : list Z) : song :=
  match args with
  | a :: b :: _ =>
      let frac := value_range 2 a 64 in
      let d0 := value_range 2 b 64 in
      let ok := (d0 =? 2) || (d0 =? 4) || (d0 =? 8) || (d0 =? 16) in
      let s1 := if ok then s else runtime_error s (zs "[TimeSignature] value must be 2/4/8/16,n") in
      let deno := if ok then d0 else 4 in
      let deno_v := if deno =? 2 then 1 else if deno =? 4 then 2 else if deno =? 8 then 3 else if deno =? 16 then 4 else 2 in
      let s2 := s_set_time s1 (s_tempo s1) frac deno (s_measure_shift s1) in
      upd_cur s2 (fun t => tr_push_event t (ev_meta (tr_timepos (cur_track s2)) 255 88 4 [as_u8 frac; as_u8 deno_v; 24; 8]))
  | _ => runtime_error s (zs "[TimeSignature] argument must be 2")
  end.

(* str::replace: all non-overlapping occurrences, left to right (pat non-empty) *)
Fixpoint replace_all (fuel : nat) (pat rep s : list ch) : list ch :=
  match fuel with
  | O => s
  | S f =>
      match s with
      | [] => []
      | c :: r => if prefixb pat s then rep ++ replace_all f pat rep (skipn (List.length pat) s)
                  else c :: replace_all f pat rep r
      end
  end.
Definition marg_to_s (a : option marg) : list ch :=
  match a with Some (MStr t) => t | Some (MInt v) => show_int v | None => [] end.
(* "#?1", "#?2", ... replaced one after the other *)
Fixpoint subst_args (i : Z) (args : list (option marg)) (text : list ch) : list ch :=
  match args with
  | [] => text
  | a :: r => subst_args (i + 1) r (replace_all (S (List.length text)) ([35; 63] ++ show_int i) (marg_to_s a) text)
  end.

Definition ls_of_song (s : song) : lexstate := mkLex (s_timebase s) (s_logs s) (s_vars s) (s_rhythm s) (s_ja s).
(* read_timebase also lets every track that still has the default length (a quarter note of the old time base) follow
   the new one.  Exact for one TimeBase command per lexed text (and for any number of them at the top level, where only
   track 0 exists, with the default length); two TimeBase commands inside one run-time-lexed text are a stated model gap. *)
Definition follow_timebase (old new : Z) (t : track) : track :=
  if (tr_length t =? old) && negb (old =? new) then tr_set_length t new else t.
(* (the message language is not written back: the lexer only reads it) *)
Definition song_with_ls (s : song) (ls : lexstate) : song :=
  let s1 := s_set_tracks s (map (follow_timebase (s_timebase s) (lx_timebase ls)) (s_tracks s)) in
  s_set_rhythm (s_set_vars (s_set_logs (s_set_timebase s1 (lx_timebase ls)) (lx_logs ls)) (lx_vars ls)) (lx_rhythm ls).

(* song.add_event for the events of one command arm (shapes: model/Cmd.v), at the pointer / channel of the current track *)
Definition add_events (s : song) (f : Z -> Z -> list event) : song :=
  let trk := cur_track s in
  upd_cur s (fun t => tr_push_events t (f (tr_timepos trk) (tr_channel trk))).

(* the SysEx arm: no value at all is a runtime error; F0 / F7 are supplied (Cmd.cmd_sysex); the device number is a u8 field *)
Definition exec_sysex (s : song) (checksum : Z) (args : list Z) : res song :=
  match args with
  | [] => Ok (runtime_error s (zs "SysEx : " ++ msg_ErrorWrongArguments (s_ja s)))
  | _ =>
      if SYSEX_MAX <? zlen args then Unsupported U_RUN_SIZE        (* a message beyond any reasonable size *)
      else Ok (add_events s (fun tp _ => Cmd.cmd_sysex tp args (checksum =? 1)))
  end.
(* the GSEffect arm (data[0] of the custom effects exists: read_args_tokens yields at least one argument) *)
Definition exec_gs_effect (s : song) (tag a : Z) (rest : list Z) : res song :=
  do evs <- Cmd.cmd_gs_effect (tr_timepos (cur_track s)) (as_u8 (s_device s)) (tr_channel (cur_track s)) tag (a :: rest);
  Ok (add_events s (fun _ _ => evs)).

(* exec_cc_rpn_nrpn_direct *)
Definition exec_rpn_direct (s : song) (nrpn : bool) (args : list Z) : song :=
  match args with
  | [_; _; _] => add_events s (fun tp ch => if nrpn then Cmd.cmd_nrpn_direct tp ch args else Cmd.cmd_rpn_direct tp ch args)
  | _ => runtime_error s (zs "RPN/NRPN needs 3 arguments")
  end.

(* exec_play: every part on its own track (1, 2, ...), all from the pointer of the current track; the end is the latest
   end; all tracks are aligned there; the current track is restored.  `ec` = exec() for the tokens of a part.
   A part that is no string evaluates to its decimal text (an empty one to "0"). *)
Definition play_text (a : option marg) : list ch :=
  match a with Some (MStr t) => t | Some (MInt v) => show_int v | None => [48] end.
Fixpoint play_parts (ec : list tok -> res song -> res song) (lineno start_pos : Z) (args : list (option marg))
                    (index : nat) (s : song) (last : Z) : res (song * Z) :=
  match args with
  | [] => Ok (s, last)
  | a :: r =>
      let s2 := upd_cur (change_cur_track s index) (fun t => tr_set_timepos t start_pos) in
      do lx <- lex (ls_of_song s2) (play_text a) lineno;
      let '(toks, ls') := lx in
      do s3 <- ec toks (Ok (song_with_ls s2 ls'));
      let tp := tr_timepos (cur_track s3) in
      play_parts ec lineno start_pos r (S index) s3 (if tp >? last then tp else last)
  end.
Definition exec_play (ec : list tok -> res song -> res song) (s : song) (args : list (option marg)) (lineno : Z) : res song :=
  (* track numbers stay within 0..999 as for TR() *)
  if (999 <? zlen args) || (999 <? Z.of_nat (s_cur s)) then Unsupported U_RUN_TRACKNO
  else
    let start_pos := tr_timepos (cur_track s) in
    do r <- play_parts ec lineno start_pos args 1 s start_pos;
    let '(s4, last) := r in
    Ok (change_cur_track (track_sync (upd_cur s4 (fun t => tr_set_timepos t last))) (s_cur s)).

(* the DefStr arm: the value of the (literal) expression; exec_value of nothing is Int 0 *)
Definition def_str_value (v : option marg) : vval :=
  match v with Some (MStr t) => VStr t 0 | Some (MInt z) => VInt z | None => VInt 0 end.

Section Exec.
  (* exec() of the children of Sub / Div: supplied with one unit less of nesting fuel *)
  Variable exec_children : list tok -> res song -> res song.

  Definition step_song (t : tok) (s : song) : res song :=
    match t with
    | TLineNo ln => Ok (s_set_lineno s ln)
    | TNote base flag natural len qlen vel timing oct slur => exec_note s base flag natural len qlen vel timing oct slur
    | TNoteN no len qlen vel timing slur => exec_note_n s no len qlen vel timing slur
    | TRest dir len => Ok (exec_rest s dir len)
    | TLength len => Ok (upd_cur s (fun t => tr_set_length (rsv_clear Reserve.WL t) (calc_length len (s_timebase s) (s_timebase s))))
    | TOctave v => Ok (upd_cur s (fun t => tr_set_octave (rsv_clear Reserve.WO t) (value_range 0 v 10)))
    | TOctaveRel v => Ok (upd_cur s (fun t => tr_set_octave t (value_range 0 (tr_octave t + v) 10)))
    | TOctaveOnce v =>
        (* only what was applied (after the clamp to 0..10) is taken back after the note *)
        let before := tr_octave (cur_track s) in
        let after := value_range 0 (before + v) 10 in
        Ok (s_set_octave_once (upd_cur s (fun t => tr_set_octave t after)) (s_octave_once s + (after - before)))
    | TVelocity v ino =>
        if ino >? 0 then Unsupported U_RUN_VSUB
        else Ok (upd_cur s (fun t => tr_set_velocity (rsv_clear Reserve.WV t) (value_range 0 v 127)))
    | TVelocityRel v => Ok (upd_cur s (fun t => tr_set_velocity t (value_range 0 (tr_velocity t + s_v_add s * v) 127)))
    | TQLen v => Ok (upd_cur s (fun t => tr_set_qlen (rsv_clear Reserve.WQ t) (value_range 0 v 100)))
    | TQLenRel v => Ok (upd_cur s (fun t => tr_set_qlen t (tr_qlen t + s_q_add s * v)))
    | TTiming v => Ok (upd_cur s (fun t => tr_set_timing (rsv_clear Reserve.WT t) v))
    | TLoopBegin _ | TLoopBreak | TLoopEnd => Ok s          (* handled by the machine *)
    | THarmonyBegin => Ok (s_set_harmony s true (tr_timepos (cur_track s)) (s_harmony_events s))
    | THarmonyEnd len qlen vel => Ok (exec_harmony_end s len qlen vel)
    | TDiv cnt len children =>
        let trk := cur_track s in
        let div_len := calc_length len (s_timebase s) (tr_length trk) in
        let note_len := if cnt >? 0 then Z.quot div_len cnt else 0 in
        let timepos_end := tr_timepos trk + div_len in
        let length_org := tr_length trk in
        do s2 <- exec_children children (Ok (upd_cur s (fun t => tr_set_length t note_len)));
        Ok (upd_cur s2 (fun t => tr_set_length (tr_set_timepos t timepos_end) length_org))
    | TSub children =>
        let timepos_tmp := tr_timepos (cur_track s) in
        do s2 <- exec_children children (Ok s);
        Ok (upd_cur s2 (fun t => tr_set_timepos t timepos_tmp))
    | TTrack v =>
        if (v <? 0) || (v >? 999) then Unsupported U_RUN_TRACKNO else Ok (change_cur_track s (Z.to_nat v))
    | TChannel v => Ok (upd_cur s (fun t => tr_set_channel t (value_range 1 v 16 - 1)))
    | TVoice args => Ok (exec_voice s args)
    | TKeyFlag flags => Ok (s_set_key_flag s flags)
    | TKeyShift v => Ok (s_set_key_shift s v)
    | TTrackKey v => Ok (upd_cur s (fun t => tr_set_track_key t v))
    | TTrackSync => Ok (track_sync s)
    | TPlayFromHere => Ok (s_set_play_from s (tr_timepos (cur_track s)))
    | TComment => Ok s
    | TTime args => let '(v, s1) := exec_get_time s args (zs "TIME") in Ok (upd_cur s1 (fun t => tr_set_timepos t v))
    | TPlayFrom args => let '(v, s1) := exec_get_time s args (zs "PlayFrom") in Ok (s_set_play_from s1 v)
    | TTimeSignature args => Ok (exec_time_signature s args)
    | TMeasureShift v => Ok (s_set_time s (s_tempo s) (s_timesig_frac s) (s_timesig_deno s) v)
    | TTempo v => Ok (tempo_change s (value_range 10 v 300))
    | TTieMode args => Ok (upd_cur s (fun t => set_tie_mode t (nth_error args 0) (nth_error args 1)))
    | TValue name args lineno =>
        (* a string variable / macro: its text (arguments substituted) is lexed NOW and executed as a nested exec() *)
        let text_of (s : song) : res (list ch * song) :=
          match vars_get name (s_vars s) with
          | Some (VStr body _) => Ok (body, s)
          | Some _ => Unsupported U_VAR
          | None =>
              match args with
              | None => Ok ([], add_log s (zs "[WARN](" ++ show_int (s_lineno s) ++ zs ") Undefined: " ++ name))
              | Some _ => Ok ([], s)
              end
          end in
        do ts <- text_of s;
        let '(body, s1) := ts in
        let text := match args with Some a => subst_args 1 a body | None => body end in
        do lx <- lex (ls_of_song s1) text lineno;
        let '(toks, ls') := lx in
        exec_children toks (Ok (song_with_ls s1 ls'))
    | TVAdd v => Ok (s_set_adds s v (s_q_add s))
    | TQAdd v => Ok (s_set_adds s (s_v_add s) v)
    | TCC no v =>
        (* trk.remove_cc_on_note_wave(no); add_event(cc) *)
        Ok (add_events (upd_cur s (fun t => on_rt t (fun k => Reserve.remove_cc_on_note_wave k no))) (fun tp ch => Cmd.cmd_cc tp ch no v))
    | TPitchBend big v => Ok (add_events s (fun tp ch => Cmd.cmd_pitch_bend tp ch (negb (big =? 0)) v))
    | TRpnCmd nrpn msb lsb v =>
        Ok (add_events s (fun tp ch => if nrpn then Cmd.cmd_nrpn tp ch msb lsb v else Cmd.cmd_rpn tp ch msb lsb v))
    | TRpnDirect nrpn args => Ok (exec_rpn_direct s nrpn args)
    | TRandom w r => Ok (upd_cur s (rsv_set_rand w r))
    | TOnNote w cyc ia => Ok (upd_cur s (rsv_set_on_note w cyc ia))
    | TVOnTime ia => Ok (upd_cur s (rsv_set_v_on_time ia))
    | TCCOnTime no ia => Ok (upd_cur s (fun t => on_rt t (fun k => Reserve.write_cc_on_time (Reserve.remove_cc_on k no) no ia)))
    | TCCOnNote no ia => Ok (upd_cur s (fun t => on_rt t (fun k => Reserve.set_cc_on_note k no ia)))
    | TCCOnNoteWave no ia => Ok (upd_cur s (fun t => on_rt t (fun k => Reserve.set_cc_on_note_wave k no ia)))
    | TCCFreq v => Ok (upd_cur s (fun t => on_rt t (fun k => Reserve.set_freq k v)))
    | TPBOnTime big ia => Ok (upd_cur s (fun t => on_rt t (fun k => Reserve.write_pb_on_time k big ia (s_timebase s))))
    | TDecresc len v1 v2 =>
        (* exec_decres: an empty length means a whole note; no remove_cc_on here *)
        let len_s := match len with [] => [49] | _ => len end in
        let l := calc_length len_s (s_timebase s) (tr_length (cur_track s)) in
        if RAMP_MAX <? l then Unsupported U_RUN_LOOPCOUNT       (* a ramp beyond any reasonable size *)
        else Ok (upd_cur s (fun t => on_rt t (fun k => Reserve.write_cc_on_time k 11 [v1; v2; l])))
    | TPlay args lineno => exec_play exec_children s args lineno
    | TDefStr name v => Ok (s_set_vars s ((name, def_str_value v) :: s_vars s))
    | TMetaText ty a =>
        (* exec_args(..)[0].to_s(): the text, the decimal text of an integer, "" for no value; cut below 128 bytes.
           The meta type is the tag of the table row (1..7 there; 0..127 without End Of Track (47) is what a meta event can carry);
           a text with a value that is no Rust `char` is no input of the code *)
        let txt := marg_to_s a in
        if (0 <=? ty) && (ty <? 128) && negb (ty =? 47) && forallb Utf8.is_char txt
        then Ok (add_events s (fun tp _ => Cmd.cmd_meta_text tp ty txt))
        else Unsupported U_RUN_CHAR
    | TPort v =>
        (* trk.port = port (a field nothing reads); FF 21 01 <port as u8> at the pointer of the current track *)
        Ok (add_events s (fun tp _ => Cmd.cmd_port tp v))
    | TTempoChange a rest => exec_tempo_change s a rest
    | TSysEx checksum args => exec_sysex s checksum args
    | TSysexReset kind => Ok (add_events s (fun tp _ => Cmd.cmd_sysex_reset tp (as_u8 (s_device s)) kind))
    | TSysExCommand tag args => Ok (add_events s (fun tp _ => Cmd.cmd_sysex_command tp tag args))
    | TGSEffect tag a rest => exec_gs_effect s tag a rest
    | TDeviceNumber args => Ok (s_set_device s (as_u8 (nth 0 args 0)))
    end.

  Definition step_tok (t : tok) (s : res song) : res song := do sg <- s; step_song t sg.
End Exec.

Definition halted (s : res song) : bool :=
  match s with Ok sg => negb (s_break_flag sg =? 0) | _ => true end.
Definition count_of (n : Z) (s : res song) : nat := Z.to_nat n.
Definition to_ltok (t : tok) : ltok tok :=
  match t with TLoopBegin n => LBegin n | TLoopBreak => LBreak | TLoopEnd => LEnd | _ => LOther t end.

(* exec(song, tokens).  `depth` bounds the nesting of Sub/Div blocks, `steps` the iterations of each
   while loop; exhausting either is OutOfFuel, never a normal-looking value. *)
Fixpoint exec_f (depth : nat) (steps : nat) (toks : list tok) (s : res song) : res song :=
  match depth with
  | O => OutOfFuel
  | S d =>
      match run tok (res song) (step_tok (exec_f d steps)) halted count_of steps (map to_ltok toks) s with
      | Some s' => s'
      | None => OutOfFuel
      end
  end.
