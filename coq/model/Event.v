(* song.rs: Event and its constructors *)
From Sakura.Model Require Import Base.

Inductive etype := NoteOn | NoteOff | ControllChange | PitchBend | PitchBendRange | Voice | Meta | SysEx | DirectSMF.

Definition etype_eqb (a b : etype) : bool :=
  match a, b with
  | NoteOn, NoteOn | NoteOff, NoteOff | ControllChange, ControllChange | PitchBend, PitchBend
  | PitchBendRange, PitchBendRange | Voice, Voice | Meta, Meta | SysEx, SysEx | DirectSMF, DirectSMF => true
  | _, _ => false
  end.

Record event := mkEvent {
  e_type : etype; e_time : Z; e_ch : Z; e_v1 : Z; e_v2 : Z; e_v3 : Z; e_data : option (list byte)
}.

Definition ev_note (time ch no len vel : Z) := mkEvent NoteOn time ch no len vel None.
Definition ev_voice (time ch v : Z) := mkEvent Voice time ch v 0 0 None.
Definition ev_meta (time v1 v2 v3 : Z) (d : list byte) := mkEvent Meta time 0 v1 v2 v3 (Some d).
Definition ev_direct_smf (time : Z) (d : list byte) := mkEvent DirectSMF time 0 0 0 0 (Some d).
Definition ev_sysex_raw (time : Z) (d : list byte) := mkEvent SysEx time 0 0 0 0 (Some d).
Definition ev_cc (time ch no v : Z) := mkEvent ControllChange time ch no v 0 None.
Definition ev_pitch_bend (time ch v : Z) := mkEvent PitchBend time ch v 0 0 None.
Definition ev_pitch_bend_range (time ch v : Z) := mkEvent PitchBendRange time ch v 0 0 None.

Definition set_time (e : event) (t : Z) : event :=
  mkEvent (e_type e) t (e_ch e) (e_v1 e) (e_v2 e) (e_v3 e) (e_data e).
Definition set_type (e : event) (ty : etype) : event :=
  mkEvent ty (e_time e) (e_ch e) (e_v1 e) (e_v2 e) (e_v3 e) (e_data e).

(* Event::sysex(time, data, checksum_mode): values `as u8`; in checksum mode -1 opens a summed
   region (sum from 0) and -2 closes it, emitting (128 - (sum & 0x7F)) & 0x7F *)
Fixpoint sysex_sum_loop (vs : list Z) (flag : bool) (sum : Z) : list byte :=
  match vs with
  | [] => []
  | n :: r =>
      if flag && (n =? -2) then as_u8 (Z.land (128 - Z.land sum 127) 127) :: sysex_sum_loop r false sum
      else
        let sum' := if flag then sum + n else sum in
        if n =? -1 then sysex_sum_loop r true 0      (* every {..} group has its own checksum *)
        else as_u8 n :: sysex_sum_loop r flag sum'
  end.
Definition ev_sysex (time : Z) (vs : list Z) (checksum_mode : bool) : event :=
  if checksum_mode then ev_sysex_raw time (sysex_sum_loop vs false 0)
  else ev_sysex_raw time (map as_u8 vs).
