(* Rust `f32` as used by the ramps of song.rs: IEEE-754 binary32 (prec 24, emax 128), round to
   nearest even, through the standard library's executable SpecFloat. Definitions only.
     isize as f32   |->  f32_of_Z     (binary_normalize: exact integer, rounded once)
     a * b, a / b, a + b  |->  f32_mul / f32_div / f32_add
     f32 as isize   |->  f32_to_Z     (truncation toward zero, NaN -> 0, saturating at the 64-bit bounds)
   Validated bit-for-bit against rustc by the correspondence kind `f32ops` of tools/props/c16.py. *)
From Coq Require Import ZArith.
From Coq Require Export Floats.SpecFloat.
Open Scope Z_scope.

Definition f32 := spec_float.
Definition f32_prec : Z := 24.
Definition f32_emax : Z := 128.

Definition f32_of_Z (z : Z) : f32 := binary_normalize f32_prec f32_emax z 0 false.
Definition f32_mul (a b : f32) : f32 := SFmul f32_prec f32_emax a b.
Definition f32_div (a b : f32) : f32 := SFdiv f32_prec f32_emax a b.
Definition f32_add (a b : f32) : f32 := SFadd f32_prec f32_emax a b.

Definition isize_min : Z := - 2 ^ 63.
Definition isize_max : Z := 2 ^ 63 - 1.

(* magnitude of a finite float, truncated toward zero *)
Definition f32_trunc_abs (m : positive) (e : Z) : Z :=
  match e with
  | Z0 => Zpos m
  | Zpos p => Zpos m * 2 ^ Zpos p
  | Zneg p => Zpos m / 2 ^ Zpos p
  end.

Definition f32_to_Z (x : f32) : Z :=
  match x with
  | S754_zero _ => 0
  | S754_nan => 0
  | S754_infinity s => if s then isize_min else isize_max
  | S754_finite s m e =>
      let a := f32_trunc_abs m e in
      let v := if s then - a else a in
      if v <? isize_min then isize_min else if v >? isize_max then isize_max else v
  end.

(* the interpolation of write_cc_on_time / write_pb_on_time / calc_v_on_time:
   ((high - low) as f32 * (j as f32 / len as f32) + low as f32) as isize *)
Definition ramp_f32 (low high j len : Z) : f32 :=
  f32_add (f32_mul (f32_of_Z (high - low)) (f32_div (f32_of_Z j) (f32_of_Z len))) (f32_of_Z low).
Definition ramp_value (low high j len : Z) : Z := f32_to_Z (ramp_f32 low high j len).
