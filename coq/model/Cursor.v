(* source_cursor.rs, re-stated over "remaining suffix + line counter".
   A cursor of the Rust code is (src, index, line); here it is (skipn index src, line).
   Every reader returns what it read and the cursor after it. *)
From Sakura.Model Require Import Base.
From Sakura.Gen Require Import Consts.

Record cursor := mkCur { rest : list ch; line : Z }.

Definition c_NL : ch := 10.   Definition c_CR : ch := 13.  Definition c_TAB : ch := 9.
Definition c_SP : ch := 32.   Definition c_BAR : ch := 124. Definition c_SLASH : ch := 47.
Definition c_STAR : ch := 42. Definition c_DOT : ch := 46. Definition c_HAT : ch := 94.
Definition c_PCT : ch := 37.  Definition c_MINUS : ch := 45. Definition c_PLUS : ch := 43.
Definition c_DOLLAR : ch := 36. Definition c_0 : ch := 48. Definition c_x : ch := 120.
Definition c_o : ch := 111.

Definition is_digit (c : ch) : bool := (48 <=? c) && (c <=? 57).
Definition is_upper (c : ch) : bool := (65 <=? c) && (c <=? 90).
Definition is_lower (c : ch) : bool := (97 <=? c) && (c <=? 122).

(* peek_n(0): '\0' at end of input *)
Definition peek0 (s : list ch) : ch := match s with c :: _ => c | [] => 0 end.
Definition is_numeric (s : list ch) : bool := match s with c :: _ => is_digit c | [] => false end.
Definition eq_char (s : list ch) (c : ch) : bool := match s with d :: _ => d =? c | [] => false end.

(* numerals saturate: every digit step is capped at NUMERAL_MAX (generated from source_cursor.rs), so that arithmetic on
   what was read cannot overflow 64 bits *)
Definition sat (v : Z) : Z := Z.min v NUMERAL_MAX.

(* decimal digits: no = min(no*10 + (ch - '0'), NUMERAL_MAX) *)
Fixpoint take_dec (acc : Z) (s : list ch) : Z * list ch :=
  match s with
  | c :: r => if is_digit c then take_dec (sat (acc * 10 + (c - 48))) r else (acc, s)
  | [] => (acc, [])
  end.

(* "octal" digits of get_int: the code accepts '0'..='8' *)
Definition is_oct_digit (c : ch) : bool := (48 <=? c) && (c <=? 56).
Fixpoint take_oct (acc : Z) (s : list ch) : Z * list ch :=
  match s with
  | c :: r => if is_oct_digit c then take_oct (sat (acc * 8 + (c - 48))) r else (acc, s)
  | [] => (acc, [])
  end.

Definition hex_val (c : ch) : option Z :=
  if is_digit c then Some (c - 48)
  else if (97 <=? c) && (c <=? 102) then Some (10 + (c - 97))
  else if (65 <=? c) && (c <=? 70) then Some (10 + (c - 65))
  else None.
(* no = no << 4 | digit ; equal to no*16 + digit for no >= 0 *)
Fixpoint take_hex (acc : Z) (s : list ch) : Z * list ch :=
  match s with
  | c :: r => match hex_val c with
              | Some d => take_hex (sat (acc * 16 + d)) r
              | None => (acc, s)
              end
  | [] => (acc, [])
  end.

(* get_hex(def, check_flag) *)
Definition get_hex (def : Z) (check_flag : bool) (s : list ch) : Z * list ch :=
  let '(flag, s1) :=
    if check_flag then
      let '(flag, s1) := if eq_char s c_MINUS then (-1, tl s) else (1, s) in
      let s2 := if eq_char s1 c_DOLLAR then tl s1 else s1 in
      let s3 := if prefixb [c_0; c_x] s2 then skipn 2 s2 else s2 in
      (flag, s3)
    else (1, s) in
  match hex_val (peek0 s1) with
  | None => (def, s1)
  | Some _ => let '(no, s2) := take_hex 0 s1 in (no * flag, s2)
  end.

(* flag.wrapping_mul(v): the only product of a sign and a 64-bit value that overflows is -1 * isize::MIN, which wraps
   to isize::MIN (the "no value" default of the note parameters passes through `-$` / `-0x` unchanged) *)
Definition wrap_sign (z : Z) : Z := if z =? 9223372036854775808 then -9223372036854775808 else z.

(* get_int(def) *)
Definition get_int (def : Z) (s : list ch) : Z * list ch :=
  let '(flag, s1) := if eq_char s c_MINUS then (-1, tl s) else (1, s) in
  if prefixb [c_0; c_x] s1 || eq_char s1 c_DOLLAR then
    let '(v, s2) := get_hex def true s1 in (wrap_sign (flag * v), s2)
  else if prefixb [c_0; c_o] s1 then
    let s2 := skipn 2 s1 in
    if is_oct_digit (peek0 s2) && negb (match s2 with [] => true | _ => false end) then
      let '(no, s3) := take_oct 0 s2 in (no * flag, s3)
    else (def, s2)
  else if negb (is_numeric s1) then (def, s1)
  else let '(no, s2) := take_dec 0 s1 in (no * flag, s2).

(* get_token_ch(splitter): consumes up to and including the splitter, counting lines *)
Fixpoint get_token_ch (splitter : ch) (s : list ch) (ln : Z) : list ch * list ch * Z :=
  match s with
  | [] => ([], [], ln)
  | c :: r =>
      let ln' := if c =? c_NL then ln + 1 else ln in
      if c =? splitter then ([], r, ln')
      else let '(t, r', ln'') := get_token_ch splitter r ln' in (c :: t, r', ln'')
  end.

(* get_token_s(splitter) *)
Fixpoint get_token_s (splitter : list ch) (s : list ch) (ln : Z) : list ch * list ch * Z :=
  match s with
  | [] => ([], [], ln)
  | c :: r =>
      if prefixb splitter s then ([], skipn (length splitter) s, ln)
      else
        let ln' := if c =? c_NL then ln + 1 else ln in
        let '(t, r', ln'') := get_token_s splitter r ln' in (c :: t, r', ln'')
  end.

(* skip_space_ret: blanks, line breaks, // and /* */ comments. Fuel = characters left. *)
Fixpoint skip_space_ret_f (fuel : nat) (s : list ch) (ln : Z) : list ch * Z :=
  match fuel with
  | O => (s, ln)
  | S f =>
      match s with
      | [] => ([], ln)
      | c :: r =>
          if (c =? c_CR) || (c =? c_TAB) || (c =? c_SP) then skip_space_ret_f f r ln
          else if c =? c_NL then skip_space_ret_f f r (ln + 1)
          else if c =? c_SLASH then
            if prefixb [c_SLASH; c_SLASH] s then
              let '(_, r', ln') := get_token_ch c_NL s ln in skip_space_ret_f f r' ln'
            else if prefixb [c_SLASH; c_STAR] s then
              let '(_, r', ln') := get_token_s [c_STAR; c_SLASH] s ln in skip_space_ret_f f r' ln'
            else (s, ln)
          else (s, ln)
      end
  end.
Definition skip_space_ret (s : list ch) (ln : Z) := skip_space_ret_f (S (length s)) s ln.

(* skip_space: blanks and /* */ only *)
Fixpoint skip_space_f (fuel : nat) (s : list ch) (ln : Z) : list ch * Z :=
  match fuel with
  | O => (s, ln)
  | S f =>
      match s with
      | [] => ([], ln)
      | c :: r =>
          if (c =? c_TAB) || (c =? c_SP) then skip_space_f f r ln
          else if c =? c_SLASH then
            if prefixb [c_SLASH; c_STAR] s then
              let '(_, r', ln') := get_token_s [c_STAR; c_SLASH] s ln in skip_space_f f r' ln'
            else (s, ln)
          else (s, ln)
      end
  end.
Definition skip_space (s : list ch) (ln : Z) := skip_space_f (S (length s)) s ln.

Definition is_len_char (c : ch) : bool :=
  is_digit c || (c =? c_DOT) || (c =? c_HAT) || (c =? c_PCT) || (c =? c_MINUS) || (c =? c_PLUS).
Definition is_len_blank (c : ch) : bool := (c =? c_SP) || (c =? c_BAR) || (c =? c_TAB) || (c =? c_CR).   (* CR: a CRLF line break before ^ continues the length like LF *)

(* get_note_length: the characters of a length; blanks and bars inside are dropped; a line
   break continues the length only when the next non-blank character is '^'. On roll-back
   the index AND the line counter are restored. *)
Fixpoint get_note_length_f (fuel : nat) (s : list ch) (ln : Z) : list ch * list ch * Z :=
  match fuel with
  | O => ([], s, ln)
  | S f =>
      match s with
      | [] => ([], [], ln)
      | c :: r =>
          if is_len_char c then
            let '(t, r', ln') := get_note_length_f f r ln in (c :: t, r', ln')
          else if is_len_blank c then get_note_length_f f r ln
          else if c =? c_NL then
            let '(r2, ln2) := skip_space_ret r (ln + 1) in
            if eq_char r2 c_HAT then get_note_length_f f r2 ln2
            else ([], s, ln)
          else ([], s, ln)
      end
  end.
Definition get_note_length (s : list ch) (ln : Z) := get_note_length_f (S (length s)) s ln.
