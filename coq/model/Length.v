(* runner.rs calc_length, re-stated.  The f32 expressions of the code
     res += (res as f32 / 2.0 + res as f32 / 4.0 + ...) as isize      and     n = (n as f32 * 1.5) as isize
   are written in exact arithmetic (truncation toward zero = Z.quot); they coincide with the
   f32 results whenever |res| < 2^20 (every quotient and partial sum is then a dyadic rational
   with at most 24 significant bits).  That range is part of the trusted base and is what the
   correspondence check samples up to its edge. *)
From Sakura.Model Require Import Base Cursor.

Definition dots_add (k : Z) (x : Z) : Z := x + Z.quot (x * (2 ^ k - 1)) (2 ^ k).

(* head: `if cur.peek_n(0) == '.' { if eq("....") .. else if eq("...") .. else if eq("..") .. else .. }` *)
Definition head_dots (x : Z) (s : list ch) : Z * list ch :=
  if prefixb [c_DOT; c_DOT; c_DOT; c_DOT] s then (dots_add 4 x, skipn 4 s)
  else if prefixb [c_DOT; c_DOT; c_DOT] s then (dots_add 3 x, skipn 3 s)
  else if prefixb [c_DOT; c_DOT] s then (dots_add 2 x, skipn 2 s)
  else if prefixb [c_DOT] s then (dots_add 1 x, skipn 1 s)
  else (x, s).

(* parts: same ladder, but the single dot is written `(n as f32 * 1.5) as isize` *)
Definition part_dots (x : Z) (s : list ch) : Z * list ch :=
  if prefixb [c_DOT; c_DOT; c_DOT; c_DOT] s then (dots_add 4 x, skipn 4 s)
  else if prefixb [c_DOT; c_DOT; c_DOT] s then (dots_add 3 x, skipn 3 s)
  else if prefixb [c_DOT; c_DOT] s then (dots_add 2 x, skipn 2 s)
  else if prefixb [c_DOT] s then (Z.quot (x * 3) 2, skipn 1 s)
  else (x, s).

Definition head_value (tb def : Z) (s : list ch) : Z * list ch :=
  let '(step, s1) := if eq_char s c_PCT then (true, tl s) else (false, s) in
  if is_numeric s1 || eq_char s1 c_MINUS then
    if step then get_int 0 s1
    else let '(i, s2) := get_int 4 s1 in ((if i >? 0 then Z.quot (tb * 4) i else 0), s2)
  else (def, s1).

(* one pass of the `while !cur.is_eos()` loop; None = break.  Each part decides its own
   step mode from its own '%' prefix. *)
Definition part_value (tb def : Z) (s : list ch) : option (Z * list ch) :=
  match s with
  | [] => None
  | c :: r =>
      if negb ((c =? c_HAT) || (c =? c_PLUS)) then None
      else
        let '(step, s1) := if eq_char r c_PCT then (true, tl r) else (false, r) in
        if is_numeric s1 || eq_char s1 c_MINUS then
          let '(n, s2) :=
            if step then get_int 0 s1
            else let '(i, s2) := get_int 4 s1 in
                 ((if i =? 0 then def else Z.quot (tb * 4) i), s2) in
          let '(n', s3) := part_dots n s2 in Some (n', s3)
        else Some (def, s1)
  end.

Fixpoint parts_loop (fuel : nat) (tb def acc : Z) (s : list ch) : Z :=
  match fuel with
  | O => acc
  | S f => match part_value tb def s with
           | None => acc
           | Some (n, s') => parts_loop f tb def (acc + n) s'
           end
  end.

Definition calc_length (len_str : list ch) (tb def : Z) : Z :=
  match len_str with
  | [] => def
  | _ =>
      let '(v, s1) := head_value tb def len_str in
      let '(v', s2) := head_dots v s1 in
      parts_loop (S (length s2)) tb def v' s2
  end.
