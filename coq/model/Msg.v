(* The message texts by language: sakura_message.rs get_message(lang, kind), read through song.get_message(kind).
   `ja` is the language flag of the song (song.rs message_data, set by Song::set_language before lex and exec;
   false = MessageLang::EN, the value of Song::new()).  The texts are regenerated from /repo (gen/Messages.v). *)
From Sakura.Model Require Import Base.
From Sakura.Gen Require Import Messages.

Definition msg_UnknownChar (ja : bool) : list ch := if ja then msg_ja_UnknownChar else msg_en_UnknownChar.
Definition msg_UnknownCommand (ja : bool) : list ch := if ja then msg_ja_UnknownCommand else msg_en_UnknownCommand.
Definition msg_UnknownError (ja : bool) : list ch := if ja then msg_ja_UnknownError else msg_en_UnknownError.
Definition msg_Near (ja : bool) : list ch := if ja then msg_ja_Near else msg_en_Near.
Definition msg_TooManyErrorsInLexer (ja : bool) : list ch := if ja then msg_ja_TooManyErrorsInLexer else msg_en_TooManyErrorsInLexer.
Definition msg_ScriptSyntaxError (ja : bool) : list ch := if ja then msg_ja_ScriptSyntaxError else msg_en_ScriptSyntaxError.
Definition msg_ScriptSyntaxWarning (ja : bool) : list ch := if ja then msg_ja_ScriptSyntaxWarning else msg_en_ScriptSyntaxWarning.
Definition msg_MissingParenthesis (ja : bool) : list ch := if ja then msg_ja_MissingParenthesis else msg_en_MissingParenthesis.
Definition msg_LoopTooManyTimes (ja : bool) : list ch := if ja then msg_ja_LoopTooManyTimes else msg_en_LoopTooManyTimes.
Definition msg_ErrorRedfineFnuction (ja : bool) : list ch := if ja then msg_ja_ErrorRedfineFnuction else msg_en_ErrorRedfineFnuction.
Definition msg_RuntimeError (ja : bool) : list ch := if ja then msg_ja_RuntimeError else msg_en_RuntimeError.
Definition msg_ErrorDefineVariableIsReserved (ja : bool) : list ch := if ja then msg_ja_ErrorDefineVariableIsReserved else msg_en_ErrorDefineVariableIsReserved.
Definition msg_ErrorWrongArguments (ja : bool) : list ch := if ja then msg_ja_ErrorWrongArguments else msg_en_ErrorWrongArguments.
Definition msg_ErrorTypeMismatch (ja : bool) : list ch := if ja then msg_ja_ErrorTypeMismatch else msg_en_ErrorTypeMismatch.
Definition msg_ErrorMissingValue (ja : bool) : list ch := if ja then msg_ja_ErrorMissingValue else msg_en_ErrorMissingValue.
Definition msg_InvalidArgument (ja : bool) : list ch := if ja then msg_ja_InvalidArgument else msg_en_InvalidArgument.

(* every message kind, as a function of the language *)
Definition all_messages : list (bool -> list ch) :=
  [msg_UnknownChar; msg_UnknownCommand; msg_UnknownError; msg_Near; msg_TooManyErrorsInLexer; msg_ScriptSyntaxError; msg_ScriptSyntaxWarning; msg_MissingParenthesis; msg_LoopTooManyTimes; msg_ErrorRedfineFnuction; msg_RuntimeError; msg_ErrorDefineVariableIsReserved; msg_ErrorWrongArguments; msg_ErrorTypeMismatch; msg_ErrorMissingValue; msg_InvalidArgument].
