(* The reservation methods of song.rs Track inside the pipeline model.
   model/Reserve.v transcribes those methods (calc_v_on_time, calc_{v,t,qlen,o,l}_on_note, write_cc_on_time,
   write_pb_on_time, set/remove/write_cc_on_note(_wave), Song::calc_rand_value) on a record with the fields they touch;
   the pipeline's track (Song.track) carries the same fields - the shared ones directly, the reservation-only ones in
   tr_rsv - and every method is used here THROUGH the conversion to_rtrack / of_rtrack, never re-stated. *)
From Sakura.Model Require Import Base Event Song.
From Sakura.Model Require Reserve.
Open Scope Z_scope.

Definition to_rtrack (t : track) : Reserve.track :=
  let r := tr_rsv t in
  Reserve.mkTrack (tr_timepos t) (tr_channel t) (tr_velocity t) (tr_qlen t) (tr_timing t) (tr_octave t)
    (rv_v_on_time_start r) (rv_v_on_time r) (rv_v r) (rv_q r) (rv_t r) (rv_o r) (rv_l r) (rv_freq r) (tr_events t)
    (rv_cc_on_note r) (rv_cc_on_note_wave r).
(* write back: everything a Reserve method can change; length, keys, tie state and the random widths stay *)
Definition of_rtrack (t : track) (k : Reserve.track) : track :=
  mkTrack (Reserve.tr_timepos k) (Reserve.tr_channel k) (tr_length t) (Reserve.tr_octave k) (Reserve.tr_velocity k)
          (Reserve.tr_qlen k) (Reserve.tr_timing k) (tr_track_key t) (tr_tie_mode t) (tr_tie_value t) (tr_bend_range t)
          (Reserve.tr_events k) (tr_tie_notes t)
          (mkRsv (Reserve.tr_v_on_time_start k) (Reserve.tr_v_on_time k) (Reserve.tr_v k) (Reserve.tr_q k) (Reserve.tr_t k)
                 (Reserve.tr_o k) (Reserve.tr_l k) (Reserve.tr_freq k) (Reserve.tr_cc_on_note k) (Reserve.tr_cc_on_note_wave k)
                 (rv_v_rand (tr_rsv t)) (rv_q_rand (tr_rsv t)) (rv_t_rand (tr_rsv t)) (rv_o_rand (tr_rsv t))).
Definition on_rt (t : track) (f : Reserve.track -> Reserve.track) : track := of_rtrack t (f (to_rtrack t)).

(* exec_note / exec_note_n: the six calc_* calls in the order of the code. Result: velocity, timing, gate, the absolute
   octave (-1 = none) and the reserved length (-1 = none), and the track afterwards.  (In exec_note the code calls
   calc_l_on_note after the random draws; the draws do not touch the track, so the place of that call is immaterial.) *)
Definition rsv_on_note (k : Reserve.track) (v tm q : Z) : (Z * Z * Z * Z * Z) * Reserve.track :=
  let '(v1, k) := Reserve.calc_v_on_time k v in
  let '(v2, k) := Reserve.calc_v_on_note k v1 in
  let '(t1, k) := Reserve.calc_t_on_note k tm in
  let '(q1, k) := Reserve.calc_qlen_on_note k q in
  let '(o_abs, k) := Reserve.calc_o_on_note k (-1) in
  let '(l_on, k) := Reserve.calc_l_on_note k (-1) in
  ((v2, t1, q1, o_abs, l_on), k).
Definition rsv_advance (t : track) (v tm q : Z) : track := of_rtrack t (snd (rsv_on_note (to_rtrack t) v tm q)).

(* `if x_rand > 0 { song.calc_rand_value(v, x_rand) } else { v }` : value and seed *)
Definition draw (seed val width : Z) : Z * Z :=
  if width >? 0 then Reserve.calc_rand_value seed val width else (val, seed).
(* the octave draw of exec_note: `if o_rand > 0 { r = calc_rand_value(0, o_rand); if r != 0 { no += r * 12 } }` *)
Definition draw_octave (seed no width : Z) : Z * Z :=
  if width >? 0 then
    let '(r, sd) := Reserve.calc_rand_value seed 0 width in ((if r =? 0 then no else no + r * 12), sd)
  else (no, seed).

(* write_cc_on_note(start_pos); write_cc_on_note_wave(start_pos) *)
Definition write_cc_notes (t : track) (start_pos : Z) : track :=
  on_rt t (fun k => Reserve.write_cc_on_note_wave (Reserve.write_cc_on_note k start_pos) start_pos).

(* `x_on_note = None` of the Length / Octave / QLen / Velocity / Timing arms (index and cycle flag stay);
   Velocity also drops v_on_time *)
Definition rsv_clear (w : Reserve.which) (t : track) : track :=
  on_rt t (fun k =>
    let r := Reserve.get_res w k in
    let k := Reserve.set_res w k (Reserve.mkOnres None (Reserve.r_index r) (Reserve.r_cycle r)) in
    match w with Reserve.WV => Reserve.set_v_on_time k None (Reserve.tr_v_on_time_start k) | _ => k end).

(* x.Random *)
Definition rsv_set_rand (w : Reserve.which) (x : Z) (t : track) : track :=
  let r := tr_rsv t in
  tr_set_rsv t
    (match w with
     | Reserve.WV => mkRsv (rv_v_on_time_start r) (rv_v_on_time r) (rv_v r) (rv_q r) (rv_t r) (rv_o r) (rv_l r) (rv_freq r)
                           (rv_cc_on_note r) (rv_cc_on_note_wave r) x (rv_q_rand r) (rv_t_rand r) (rv_o_rand r)
     | Reserve.WQ => mkRsv (rv_v_on_time_start r) (rv_v_on_time r) (rv_v r) (rv_q r) (rv_t r) (rv_o r) (rv_l r) (rv_freq r)
                           (rv_cc_on_note r) (rv_cc_on_note_wave r) (rv_v_rand r) x (rv_t_rand r) (rv_o_rand r)
     | Reserve.WT => mkRsv (rv_v_on_time_start r) (rv_v_on_time r) (rv_v r) (rv_q r) (rv_t r) (rv_o r) (rv_l r) (rv_freq r)
                           (rv_cc_on_note r) (rv_cc_on_note_wave r) (rv_v_rand r) (rv_q_rand r) x (rv_o_rand r)
     | Reserve.WO => mkRsv (rv_v_on_time_start r) (rv_v_on_time r) (rv_v r) (rv_q r) (rv_t r) (rv_o r) (rv_l r) (rv_freq r)
                           (rv_cc_on_note r) (rv_cc_on_note_wave r) (rv_v_rand r) (rv_q_rand r) (rv_t_rand r) x
     | Reserve.WL => r
     end).

(* x.onNote / x.onCycle: the list is installed with index 0; v also drops v_on_time (its start stays) *)
Definition rsv_set_on_note (w : Reserve.which) (cyc : bool) (ia : list Z) (t : track) : track :=
  on_rt t (fun k =>
    let k := match w with Reserve.WV => Reserve.set_v_on_time k None (Reserve.tr_v_on_time_start k) | _ => k end in
    Reserve.set_res w k (Reserve.mkOnres (Some ia) 0 cyc)).
(* v.onTime: v_on_note = None; the ramp starts at the pointer *)
Definition rsv_set_v_on_time (ia : list Z) (t : track) : track :=
  on_rt t (fun k =>
    let k := Reserve.set_v k (Reserve.mkOnres None (Reserve.r_index (Reserve.tr_v k)) (Reserve.r_cycle (Reserve.tr_v k))) in
    Reserve.set_v_on_time k (Some ia) (Reserve.tr_timepos k)).
