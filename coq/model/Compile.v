(* lib.rs compile(): lex -> exec -> (flush ties) -> play_from -> normalize/sort -> SMF bytes, and the log text.
   Source text here is what lexer::lex receives (after sutoton::convert). *)
From Sakura.Model Require Import Base Cursor Event Writer Song Token LexCore RunCore Tie.
From Sakura.Gen Require Import Consts VarRows.
Open Scope Z_scope.

(* song.rs Track::play_from(timepos) *)
Fixpoint set_cc (n : nat) (v : Z) (l : list Z) : list Z :=
  match l, n with
  | [], _ => []
  | _ :: r, O => v :: r
  | x :: r, S k => x :: set_cc k v r
  end.
(* cc_values[ch][no] = v *)
Fixpoint set_cc2 (c n : nat) (v : Z) (t : list (list Z)) : list (list Z) :=
  match t, c with
  | [], _ => []
  | row :: r, O => set_cc n v row :: r
  | row :: r, S k => row :: set_cc2 k n v r
  end.
(* the tables are PER CHANNEL (a track may use several channels): pf_cc = cc_values[16][128], pf_voice = voices[16] *)
Record pf_acc := mkPf { pf_head : list event; pf_rest : list event; pf_cc : list (list Z); pf_voice : list Z }.
(* value_range(0, e.channel, 15) as usize: the channel as the writer will send it *)
Definition pf_chan (e : event) : nat := Z.to_nat (value_range 0 (e_ch e) 15).
Definition pf_step (tp : Z) (a : pf_acc) (e : event) : pf_acc :=
  let t := e_time e - tp in
  match e_type e with
  | Meta | SysEx =>
      if t <? 0 then mkPf (pf_head a ++ [set_time e 0]) (pf_rest a) (pf_cc a) (pf_voice a)
      else mkPf (pf_head a) (pf_rest a ++ [set_time e t]) (pf_cc a) (pf_voice a)
  | NoteOn =>
      if t <? 0 then a else mkPf (pf_head a) (pf_rest a ++ [set_time e t]) (pf_cc a) (pf_voice a)
  | Voice =>
      if t <? 0 then mkPf (pf_head a) (pf_rest a) (pf_cc a) (set_cc (pf_chan e) (e_v1 e) (pf_voice a))
      else mkPf (pf_head a) (pf_rest a ++ [set_time e t]) (pf_cc a) (pf_voice a)
  | ControllChange =>
      if t <? 0 then
        if (0 <=? e_v1 e) && (e_v1 e <? 128) then
          (* the value as the writer will send it (0..127), in the row of the channel it was set on *)
          mkPf (pf_head a) (pf_rest a)
               (set_cc2 (pf_chan e) (Z.to_nat (e_v1 e)) (value_range 0 (e_v2 e) 127) (pf_cc a)) (pf_voice a)
        else a
      else mkPf (pf_head a) (pf_rest a ++ [set_time e t]) (pf_cc a) (pf_voice a)
  | _ => a
  end.
(* for no in 0..128 { if cc_values[ch][no] < 0 { continue; } push cc(0, ch, no, value) } *)
Fixpoint restore_ccs (ch no : Z) (ccs : list Z) : list event :=
  match ccs with
  | [] => []
  | v :: r => (if v <? 0 then [] else [ev_cc 0 ch no v]) ++ restore_ccs ch (no + 1) r
  end.
(* for ch in 0..16 { ... } *)
Fixpoint restore_cc_rows (ch : Z) (rows : list (list Z)) : list event :=
  match rows with
  | [] => []
  | row :: r => restore_ccs ch 0 row ++ restore_cc_rows (ch + 1) r
  end.
(* for ch in 0..16 { if voices[ch] >= 0 { push voice(0, ch, voices[ch]) } } *)
Fixpoint restore_voices (ch : Z) (vs : list Z) : list event :=
  match vs with
  | [] => []
  | v :: r => (if v >=? 0 then [ev_voice 0 ch v] else []) ++ restore_voices (ch + 1) r
  end.
Definition play_from (tp : Z) (evs : list event) : list event :=
  let a := fold_left (pf_step tp) evs (mkPf [] [] (repeat (repeat (-1) 128) 16) (repeat (-1) 16)) in
  pf_head a ++ restore_cc_rows 0 (pf_cc a) ++ restore_voices 0 (pf_voice a) ++ pf_rest a.

(* get_logs_str *)
Fixpoint join_lines (l : list (list ch)) : list ch :=
  match l with
  | [] => []
  | [x] => x
  | x :: r => x ++ [10] ++ join_lines r
  end.
Definition logs_str (logs : list (list ch)) : list ch :=
  let m := join_lines logs in
  if zlen m <=? SAKURA_MAX_LOGS_CHARS then m else firstn (Z.to_nat SAKURA_MAX_LOGS_CHARS) m ++ [46; 46; 46].

Definition STEPS : nat := Z.to_nat 400000.

(* Song::new() followed by Song::set_language: SakuraCompiler::compile sets the language before lex and exec *)
Definition song_new_lang (ja : bool) : song := s_set_ja song_new ja.
(* the song exec() starts from: the language is the one the lexer ran with (one Song in the code) *)
Definition song_after_lex (ls : lexstate) : song := song_with_ls (song_new_lang (lx_ja ls)) ls.

(* `ja` = the message language (false = "en", the default of every entry point; true = "ja", SakuraCompiler::set_language) *)
Definition run_source_lang (ja : bool) (src : list ch) : res song :=
  do lx <- lex (mkLex 96 [] init_vars rhythm_rows ja) src 0;
  let '(toks, ls) := lx in
  exec_f (S (length src)) STEPS toks (Ok (song_after_lex ls)).
Definition run_source (src : list ch) : res song := run_source_lang false src.

(* generate(): flush_tie_notes (pending tied groups of every track), then play_from_all_track *)
Definition tracks_for_writer (s : song) : list (list event) :=
  map (fun t => let evs := tr_events (check_tie_notes (s_timebase s) t) in
                (* play_from_all_track sorts by time first: "latest" means latest in time *)
                if s_play_from s <? 0 then evs else play_from (s_play_from s) (events_sort evs)) (s_tracks s).

Definition compile_lang (ja : bool) (src : list ch) : res (list byte * list ch) :=
  do s <- run_source_lang ja src;
  do bytes <- generate (s_timebase s) (tracks_for_writer s);
  Ok (bytes, logs_str (s_logs s)).
Definition compile (src : list ch) : res (list byte * list ch) := compile_lang false src.
