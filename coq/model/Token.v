(* token.rs / lexer.rs: the tokens of the modelled fragment. Each constructor carries what the
   Rust Token carries for that TokenType (value_i, data[..], children), already reduced to integers
   where the fragment only admits literal arguments. *)
From Sakura.Model Require Import Base.
From Sakura.Model Require Reserve.   (* `which`: v / q / t / o / l *)

Definition ISIZE_MIN : Z := - 9223372036854775808.

(* an argument of a macro call: {text} or an integer literal *)
Inductive marg := MStr (s : list ch) | MInt (v : Z).

Inductive tok :=
| TLineNo (ln : Z)
| TNote (base flag natural : Z) (len : list ch) (qlen vel timing oct slur : Z)
| TNoteN (no : Z) (len : list ch) (qlen vel timing slur : Z)
| TRest (dir : Z) (len : list ch)
| TLength (len : list ch)
| TOctave (v : Z) | TOctaveRel (v : Z) | TOctaveOnce (v : Z)
| TVelocity (v ino : Z) | TVelocityRel (v : Z)
| TQLen (v : Z) | TQLenRel (v : Z) | TTiming (v : Z)
| TLoopBegin (n : Z) | TLoopBreak | TLoopEnd
| THarmonyBegin | THarmonyEnd (len : list ch) (qlen : Z) (vel : option Z)
| TDiv (cnt : Z) (len : list ch) (children : list tok)
| TSub (children : list tok)
| TTrack (arg : Z) | TChannel (arg : Z) | TVoice (args : list Z)
| TKeyFlag (flags : list Z) | TKeyShift (arg : Z) | TTrackKey (arg : Z)
| TTrackSync | TPlayFromHere | TComment
| TTime (args : list Z) | TPlayFrom (args : list Z) | TTimeSignature (args : list Z) | TMeasureShift (arg : Z) | TTempo (arg : Z)
| TVAdd (arg : Z) | TQAdd (arg : Z) | TTieMode (args : list Z)
| TValue (name : list ch) (args : option (list (option marg))) (lineno : Z)
(* controllers and bends with literal arguments (appended so that earlier case analyses keep their order) *)
| TCC (no v : Z)                                   (* ControlChange: y<no>,<v>  CC(no,v)  M(v) V(v) ... *)
| TPitchBend (big v : Z)                           (* PitchBend: value_i = 1 for PB / PitchBend, 0 for p *)
| TRpnCmd (nrpn : bool) (msb lsb v : Z)            (* RPNCommand / NRPNCommand: BR(v) FineTune(v) VibratoRate(v) ... *)
| TRpnDirect (nrpn : bool) (args : list Z)         (* RPN(a,b,c) / NRPN(a,b,c) *)
(* reservations (literal arguments) *)
| TRandom (w : Reserve.which) (r : Z)              (* v.Random q.Random t.Random o.Random *)
| TOnNote (w : Reserve.which) (cyc : bool) (ia : list Z)   (* x.onNote / x.onCycle for v q t o l *)
| TVOnTime (ia : list Z)                           (* v.onTime *)
| TCCOnTime (no : Z) (ia : list Z)                 (* y<no>.onTime  M.onTime ...; Fadein / Fadeout *)
| TCCOnNote (no : Z) (ia : list Z)
| TCCOnNoteWave (no : Z) (ia : list Z)
| TCCFreq (v : Z)                                  (* M.Frequency(n) *)
| TPBOnTime (big : Z) (ia : list Z)                (* PB.onTime / p.onTime *)
| TDecresc (len : list ch) (v1 v2 : Z)             (* Cresc / Decresc *)
(* PLAY(part, ...) with literal parts; STR / Str definitions with a literal value *)
| TPlay (args : list (option marg)) (lineno : Z)
| TDefStr (name : list ch) (v : option marg)
(* text meta events: value_i = the meta type of the table row, the FIRST argument ({text} / "text" / an integer literal / nothing) *)
| TMetaText (ty : Z) (a : option marg)
(* Port(n): the FIRST argument *)
| TPort (v : Z)
(* TempoChange(a [,b [,len]]): the first argument and the others (read_args_tokens yields at least one) *)
| TTempoChange (a : Z) (rest : list Z)
(* system exclusive messages *)
| TSysEx (checksum : Z) (args : list Z)            (* SysEx: value_i = 1 when a {..} checksum group was read; -1 / -2 mark the group *)
| TSysexReset (kind : Z)                           (* ResetGM (0) / ResetGS (1) / ResetXG (2) *)
| TSysExCommand (tag : Z) (args : list Z)          (* MasterVolume (1) / MasterBalance (2) *)
| TGSEffect (tag a : Z) (rest : list Z)            (* GSEffect / GSReverb... / GSChorus... / GS_RHYTHM / GSScaleTuning: first argument, the others *)
| TDeviceNumber (args : list Z).
