(* runner.rs: the arms of exec() that write a MIDI message, as functions from the evaluated argument
   values (and the track's time pointer / channel, the song's device number) to the events they
   add:  ControlChange, Voice (exec_voice), Tempo / tempo_change, TempoChange (one argument), MetaText,
   Port, TimeSignature, PitchBend, RPN / NRPN (exec_cc_rpn_nrpn_direct), RPNCommand / NRPNCommand
   (exec_cc_rpn_nrpn), SysEx, SysexReset, SysExCommand, GSEffect.
   `run_command` dispatches a command NAME through the generated system function table exactly as
   read_upper_command + exec do: token type and tags come from the row. *)
From Sakura.Model Require Import Base Event Utf8.
From Sakura.Gen Require Import SysFuncTable.

(* TokenType::ControlChange: Event::cc(timepos, channel, no, val) *)
Definition cmd_cc (time ch no v : Z) : list event := [ev_cc time ch no v].

(* exec_voice: args are the evaluated arguments (read_args_tokens always yields at least one) *)
Definition cmd_voice (time ch : Z) (args : list Z) : list event :=
  let no0 := match args with a :: _ => a | [] => 1 end in
  let no := value_range 1 no0 128 - 1 in
  let bank_msb := nth 1 args 0 in
  let bank_lsb := nth 2 args 0 in
  if (length args =? 1)%nat then [ev_voice time ch no]
  else [ev_cc time ch 0 bank_msb; ev_cc time ch 32 bank_lsb; ev_voice time ch no].

(* tempo_change *)
Definition tempo_mpq (tempo : Z) : Z := if tempo >? 0 then Z.quot 60000000 tempo else 120.
Definition tempo_change (time tempo : Z) : list event :=
  let mpq := tempo_mpq tempo in
  [ev_meta time 255 81 3 [as_u8 (Z.land (Z.shiftr mpq 16) 255); as_u8 (Z.land (Z.shiftr mpq 8) 255);
                          as_u8 (Z.land (Z.shiftr mpq 0) 255)]].
(* TokenType::Tempo *)
Definition cmd_tempo (time tempo : Z) : list event := tempo_change time (value_range 10 tempo 300).

(* TokenType::MetaText: characters are kept while the running UTF-8 length stays below 128 *)
Fixpoint meta_cut (cs : list Z) (cnt : Z) : list Z :=
  match cs with
  | [] => []
  | c :: r => let cnt' := cnt + utf8_len c in if cnt' <? 128 then c :: meta_cut r cnt' else []
  end.
Definition cmd_meta_text (time ty : Z) (txt : list Z) : list event :=
  let bytes := utf8_encode (meta_cut txt 0) in
  [ev_meta time 255 ty (zlen bytes) bytes].

(* TokenType::Port *)
Definition cmd_port (time port : Z) : list event := [ev_meta time 255 33 1 [as_u8 port]].

(* TokenType::TimeSignature (fewer than two arguments: runtime error, nothing written) *)
Definition timesig_deno (d : Z) : Z :=
  let d := value_range 2 d 64 in
  if d =? 2 then 2 else if d =? 4 then 4 else if d =? 8 then 8 else if d =? 16 then 16 else 4.
Definition timesig_deno_v (deno : Z) : Z :=
  if deno =? 2 then 1 else if deno =? 4 then 2 else if deno =? 8 then 3 else if deno =? 16 then 4 else 2.
Definition cmd_timesig (time : Z) (args : list Z) : list event :=
  match args with
  | a0 :: a1 :: _ =>
      let frac := value_range 2 a0 64 in
      [ev_meta time 255 88 4 [as_u8 frac; as_u8 (timesig_deno_v (timesig_deno a1)); 24; 8]]
  | _ => []
  end.

(* TokenType::PitchBend: value_i = 1 for PitchBend/PB (big), 0 for p (small) *)
Definition cmd_pitch_bend (time ch : Z) (big : bool) (v : Z) : list event :=
  [ev_pitch_bend time ch (if big then v + 8192 else v * 128)].

(* exec_cc_rpn_nrpn / exec_cc_rpn_nrpn_direct *)
Definition cmd_select_data (time ch cc1 cc2 cc3 msb lsb v : Z) : list event :=
  [ev_cc time ch cc1 msb; ev_cc time ch cc2 lsb; ev_cc time ch cc3 v].
Definition cmd_rpn (time ch msb lsb v : Z) : list event := cmd_select_data time ch 101 100 6 msb lsb v.
Definition cmd_nrpn (time ch msb lsb v : Z) : list event := cmd_select_data time ch 99 98 6 msb lsb v.
Definition cmd_rpn_direct (time ch : Z) (args : list Z) : list event :=
  match args with [m; l; v] => cmd_rpn time ch m l v | _ => [] end.
Definition cmd_nrpn_direct (time ch : Z) (args : list Z) : list event :=
  match args with [m; l; v] => cmd_nrpn time ch m l v | _ => [] end.

(* TokenType::SysEx: F0 / F7 are supplied when missing *)
Definition cmd_sysex (time : Z) (args : list Z) (checksum : bool) : list event :=
  match args with
  | [] => []
  | a0 :: _ =>
      let a1 := if a0 =? 240 then args else 240 :: args in
      let a2 := if last a1 0 =? 247 then a1 else a1 ++ [247] in
      [ev_sysex time a2 checksum]
  end.

(* TokenType::SysexReset *)
Definition cmd_sysex_reset (time dev kind : Z) : list event :=
  if kind =? 0 then [ev_sysex_raw time [240; 126; 127; 9; 1; 247]]
  else if kind =? 1 then [ev_sysex_raw time [240; 65; dev; 66; 18; 64; 0; 127; 0; 65; 247]]
  else if kind =? 2 then [ev_sysex_raw time [240; 67; dev; 76; 0; 0; 126; 0; 247]]
  else [].

(* TokenType::SysExCommand (universal real time): MasterVolume (1), MasterBalance (2) *)
Definition cmd_sysex_command (time tag : Z) (args : list Z) : list event :=
  let sub_id := Z.land (as_u8 tag) 127 in
  let a0 := match args with a :: _ => a | [] => 0 end in
  if sub_id =? 1 then
    let val := Z.land (as_u8 a0) 127 in
    [ev_sysex time [240; 127; 127; 4; 1; 0; val; 247] false]
  else if sub_id =? 2 then
    let val := a0 + 8192 in
    [ev_sysex time [240; 127; 127; 4; 2; Z.land val 127; Z.land (Z.shiftr val 7) 127; 247] false]
  else [].

(* TokenType::GSEffect *)
Definition gs_dt1 (time dev : Z) (body : list Z) : event :=
  ev_sysex time ([240; 65; dev; 66; 18; -1] ++ body ++ [-2; 247]) true.
Definition cmd_gs_effect (time dev ch tag : Z) (args : list Z) : res (list event) :=
  if tag =? 0 then
    Ok [gs_dt1 time dev [64; 1; as_u8 (nth 0 args 0); as_u8 (nth 1 args 0)]]
  else if tag =? 17 then
    if (12 <=? length args)%nat then
      Ok (map (fun ic => gs_dt1 time dev ([64; ic; 64] ++ firstn 12 args)) [17; 18; 19; 20; 21; 22; 23; 24; 25; 26; 27; 28; 29; 30; 31])
    else Ok []
  else if tag =? 21 then
    let sys_ch := as_u8 (if ch =? 9 then 0 else if ch <=? 9 then ch + 1 else ch) in
    Ok [gs_dt1 time dev [64; 16 + sys_ch; 21; as_u8 (nth 0 args 0)]]
  else if (48 <=? tag) && (tag <=? 64) then
    match args with
    | a0 :: _ => Ok [gs_dt1 time dev [64; 1; as_u8 (Z.rem tag 256); as_u8 a0]]
    | [] => Panic 2 (* data[0] *)
    end
  else Ok [].

(* ---- dispatch through the system function table ---- *)
Record cstate := mkC { c_time : Z; c_ch : Z; c_dev : Z }.

Fixpoint find_sysfunc (name : list Z) (l : list sysfunc) : option sysfunc :=
  match l with
  | [] => None
  | r :: rest => if list_eqb name (sf_name r) then Some r else find_sysfunc name rest
  end.

(* one command `NAME(args)` (text commands: `NAME="text"`); arguments already evaluated.
   Forms whose argument evaluation the model does not cover are Unsupported. *)
Definition run_row (r : sysfunc) (st : cstate) (args : list Z) (txt : list Z) : res (list event) :=
  let time := c_time st in let ch := c_ch st in
  match sf_type r with
  | TkControlChangeCommand => match args with [v] => Ok (cmd_cc time ch (sf_tag1 r) v) | _ => Unsupported 1 end
  | TkControlChange => match args with [no; v] => Ok (cmd_cc time ch no v) | _ => Unsupported 1 end
  | TkVoice => match args with [] => Unsupported 1 | _ => Ok (cmd_voice time ch args) end
  | TkTempo => match args with [v] => Ok (cmd_tempo time v) | _ => Unsupported 1 end
  | TkTempoChange => match args with [v] => Ok (tempo_change time v) | _ => Unsupported 3 (* f32 ramp *) end
  | TkMetaText => Ok (cmd_meta_text time (sf_tag1 r) txt)
  | TkPort => match args with [v] => Ok (cmd_port time v) | _ => Unsupported 1 end
  | TkTimeSignature => Ok (cmd_timesig time args)
  | TkPitchBend => match args with [v] => Ok (cmd_pitch_bend time ch true v) | _ => Unsupported 1 end
  | TkRPN => Ok (cmd_rpn_direct time ch args)
  | TkNRPN => Ok (cmd_nrpn_direct time ch args)
  | TkRPNCommand => match args with [v] => Ok (cmd_rpn time ch (sf_tag1 r) (sf_tag2 r) v) | _ => Unsupported 1 end
  | TkNRPNCommand => match args with [v] => Ok (cmd_nrpn time ch (sf_tag1 r) (sf_tag2 r) v) | _ => Unsupported 1 end
  | TkSysexReset => Ok (cmd_sysex_reset time (c_dev st) (sf_tag1 r))
  | TkSysExCommand => Ok (cmd_sysex_command time (sf_tag1 r) args)
  | TkGSEffect => cmd_gs_effect time (c_dev st) ch (sf_tag1 r) args
  | _ => Unsupported 0
  end.
Definition run_command (name : list Z) (st : cstate) (args : list Z) (txt : list Z) : res (list event) :=
  match find_sysfunc name sysfuncs with
  | Some r => run_row r st args txt
  | None => Unsupported 2
  end.

(* the single-character commands of lex(): p (read_pitch_bend_small), y (read_cc), @ (read_voice) *)
Definition run_char (c : Z) (st : cstate) (args : list Z) : res (list event) :=
  let time := c_time st in let ch := c_ch st in
  if c =? 112 then match args with [v] => Ok (cmd_pitch_bend time ch false v) | _ => Unsupported 1 end
  else if c =? 121 then match args with [no; v] => Ok (cmd_cc time ch no v) | _ => Unsupported 1 end
  else if c =? 64 then match args with [] => Unsupported 1 | _ => Ok (cmd_voice time ch args) end
  else Unsupported 2.
Definition run_any (name : list Z) (st : cstate) (args : list Z) (txt : list Z) : res (list event) :=
  match name with
  | [c] => if (c =? 112) || (c =? 121) || (c =? 64) then run_char c st args else run_command name st args txt
  | _ => run_command name st args txt
  end.
