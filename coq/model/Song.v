(* song.rs: Track, Flags, Song - the interpreter state of the modelled fragment.
   Initial values are those of Track::new / Song::new / Flags::new. Event lists are kept in push order. *)
From Sakura.Model Require Import Base Event.
From Sakura.Model Require Reserve.   (* onres, cc_res: the reservation records of model/Reserve.v, used qualified *)
From Sakura.Gen Require Import Consts.

(* the reservation state of a track (song.rs Track: v_on_time .. cc_on_note_wave, the four random widths) *)
Record rsv := mkRsv {
  rv_v_on_time_start : Z; rv_v_on_time : option (list Z);
  rv_v : Reserve.onres; rv_q : Reserve.onres; rv_t : Reserve.onres; rv_o : Reserve.onres; rv_l : Reserve.onres;
  rv_freq : Z;                                                  (* cc_on_time_freq *)
  rv_cc_on_note : list Reserve.cc_res; rv_cc_on_note_wave : list Reserve.cc_res;
  rv_v_rand : Z; rv_q_rand : Z; rv_t_rand : Z; rv_o_rand : Z
}.
Definition rsv_new : rsv :=
  mkRsv (-1) None Reserve.onres_new Reserve.onres_new Reserve.onres_new Reserve.onres_new Reserve.onres_new 4 [] [] 0 0 0 0.

Record track := mkTrack {
  tr_timepos : Z; tr_channel : Z; tr_length : Z; tr_octave : Z; tr_velocity : Z; tr_qlen : Z; tr_timing : Z;
  tr_track_key : Z;
  tr_tie_mode : Z; tr_tie_value : Z; tr_bend_range : Z;
  tr_events : list event; tr_tie_notes : list event;
  tr_rsv : rsv
}.

Definition track_new (timebase channel : Z) : track :=
  let ch := if channel <? 0 then 0 else if channel >? 15 then 15 else channel in
  mkTrack 0 ch timebase 5 100 90 0 0 0 0 (-1) [] [] rsv_new.

Definition tr_set_timepos (t : track) (v : Z) : track :=
  mkTrack v (tr_channel t) (tr_length t) (tr_octave t) (tr_velocity t) (tr_qlen t) (tr_timing t) (tr_track_key t)
          (tr_tie_mode t) (tr_tie_value t) (tr_bend_range t) (tr_events t) (tr_tie_notes t) (tr_rsv t).
Definition tr_set_channel (t : track) (v : Z) : track :=
  mkTrack (tr_timepos t) v (tr_length t) (tr_octave t) (tr_velocity t) (tr_qlen t) (tr_timing t) (tr_track_key t)
          (tr_tie_mode t) (tr_tie_value t) (tr_bend_range t) (tr_events t) (tr_tie_notes t) (tr_rsv t).
Definition tr_set_length (t : track) (v : Z) : track :=
  mkTrack (tr_timepos t) (tr_channel t) v (tr_octave t) (tr_velocity t) (tr_qlen t) (tr_timing t) (tr_track_key t)
          (tr_tie_mode t) (tr_tie_value t) (tr_bend_range t) (tr_events t) (tr_tie_notes t) (tr_rsv t).
Definition tr_set_octave (t : track) (v : Z) : track :=
  mkTrack (tr_timepos t) (tr_channel t) (tr_length t) v (tr_velocity t) (tr_qlen t) (tr_timing t) (tr_track_key t)
          (tr_tie_mode t) (tr_tie_value t) (tr_bend_range t) (tr_events t) (tr_tie_notes t) (tr_rsv t).
Definition tr_set_velocity (t : track) (v : Z) : track :=
  mkTrack (tr_timepos t) (tr_channel t) (tr_length t) (tr_octave t) v (tr_qlen t) (tr_timing t) (tr_track_key t)
          (tr_tie_mode t) (tr_tie_value t) (tr_bend_range t) (tr_events t) (tr_tie_notes t) (tr_rsv t).
Definition tr_set_qlen (t : track) (v : Z) : track :=
  mkTrack (tr_timepos t) (tr_channel t) (tr_length t) (tr_octave t) (tr_velocity t) v (tr_timing t) (tr_track_key t)
          (tr_tie_mode t) (tr_tie_value t) (tr_bend_range t) (tr_events t) (tr_tie_notes t) (tr_rsv t).
Definition tr_set_timing (t : track) (v : Z) : track :=
  mkTrack (tr_timepos t) (tr_channel t) (tr_length t) (tr_octave t) (tr_velocity t) (tr_qlen t) v (tr_track_key t)
          (tr_tie_mode t) (tr_tie_value t) (tr_bend_range t) (tr_events t) (tr_tie_notes t) (tr_rsv t).
Definition tr_set_track_key (t : track) (v : Z) : track :=
  mkTrack (tr_timepos t) (tr_channel t) (tr_length t) (tr_octave t) (tr_velocity t) (tr_qlen t) (tr_timing t) v
          (tr_tie_mode t) (tr_tie_value t) (tr_bend_range t) (tr_events t) (tr_tie_notes t) (tr_rsv t).
Definition tr_set_events (t : track) (v : list event) : track :=
  mkTrack (tr_timepos t) (tr_channel t) (tr_length t) (tr_octave t) (tr_velocity t) (tr_qlen t) (tr_timing t) (tr_track_key t)
          (tr_tie_mode t) (tr_tie_value t) (tr_bend_range t) v (tr_tie_notes t) (tr_rsv t).
Definition tr_set_rsv (t : track) (v : rsv) : track :=
  mkTrack (tr_timepos t) (tr_channel t) (tr_length t) (tr_octave t) (tr_velocity t) (tr_qlen t) (tr_timing t) (tr_track_key t)
          (tr_tie_mode t) (tr_tie_value t) (tr_bend_range t) (tr_events t) (tr_tie_notes t) v.
Definition tr_push_event (t : track) (e : event) : track := tr_set_events t (tr_events t ++ [e]).
Definition tr_push_events (t : track) (evs : list event) : track := tr_set_events t (tr_events t ++ evs).

(* variables_stack (global scope): name -> value; only what the fragment needs is distinguished *)
Inductive vval := VStr (body : list ch) (line : Z) | VInt (v : Z) | VOther.

Record song := mkSong {
  s_tracks : list track;
  s_cur : nat;
  s_timebase : Z;
  s_key_flag : list Z;
  s_key_shift : Z;
  s_use_key_shift : bool;
  s_v_add : Z;
  s_q_add : Z;
  s_harmony_flag : bool;
  s_harmony_time : Z;
  s_harmony_events : list event;
  s_octave_once : Z;
  s_break_flag : Z;
  s_tempo : Z;
  s_timesig_frac : Z;
  s_timesig_deno : Z;
  s_measure_shift : Z;
  s_play_from : Z;
  s_lineno : Z;
  s_logs : list (list ch);
  s_vars : list (list ch * vval);
  s_rhythm : list (Z * list ch);
  s_rand_seed : Z;                (* rand_seed (u32) *)
  s_device : Z;                   (* device_number (u8) *)
  s_ja : bool                     (* message_data: the message language (false = MessageLang::EN, true = JA) *)
}.

Definition s_set_tracks (s : song) (v : list track) : song :=
  mkSong v (s_cur s) (s_timebase s) (s_key_flag s) (s_key_shift s) (s_use_key_shift s) (s_v_add s) (s_q_add s) (s_harmony_flag s) (s_harmony_time s) (s_harmony_events s) (s_octave_once s) (s_break_flag s) (s_tempo s) (s_timesig_frac s) (s_timesig_deno s) (s_measure_shift s) (s_play_from s) (s_lineno s) (s_logs s) (s_vars s) (s_rhythm s) (s_rand_seed s) (s_device s) (s_ja s).
Definition s_set_cur (s : song) (v : nat) : song :=
  mkSong (s_tracks s) v (s_timebase s) (s_key_flag s) (s_key_shift s) (s_use_key_shift s) (s_v_add s) (s_q_add s) (s_harmony_flag s) (s_harmony_time s) (s_harmony_events s) (s_octave_once s) (s_break_flag s) (s_tempo s) (s_timesig_frac s) (s_timesig_deno s) (s_measure_shift s) (s_play_from s) (s_lineno s) (s_logs s) (s_vars s) (s_rhythm s) (s_rand_seed s) (s_device s) (s_ja s).
Definition s_set_timebase (s : song) (v : Z) : song :=
  mkSong (s_tracks s) (s_cur s) v (s_key_flag s) (s_key_shift s) (s_use_key_shift s) (s_v_add s) (s_q_add s) (s_harmony_flag s) (s_harmony_time s) (s_harmony_events s) (s_octave_once s) (s_break_flag s) (s_tempo s) (s_timesig_frac s) (s_timesig_deno s) (s_measure_shift s) (s_play_from s) (s_lineno s) (s_logs s) (s_vars s) (s_rhythm s) (s_rand_seed s) (s_device s) (s_ja s).
Definition s_set_key_flag (s : song) (v : list Z) : song :=
  mkSong (s_tracks s) (s_cur s) (s_timebase s) v (s_key_shift s) (s_use_key_shift s) (s_v_add s) (s_q_add s) (s_harmony_flag s) (s_harmony_time s) (s_harmony_events s) (s_octave_once s) (s_break_flag s) (s_tempo s) (s_timesig_frac s) (s_timesig_deno s) (s_measure_shift s) (s_play_from s) (s_lineno s) (s_logs s) (s_vars s) (s_rhythm s) (s_rand_seed s) (s_device s) (s_ja s).
Definition s_set_key_shift (s : song) (v : Z) : song :=
  mkSong (s_tracks s) (s_cur s) (s_timebase s) (s_key_flag s) v (s_use_key_shift s) (s_v_add s) (s_q_add s) (s_harmony_flag s) (s_harmony_time s) (s_harmony_events s) (s_octave_once s) (s_break_flag s) (s_tempo s) (s_timesig_frac s) (s_timesig_deno s) (s_measure_shift s) (s_play_from s) (s_lineno s) (s_logs s) (s_vars s) (s_rhythm s) (s_rand_seed s) (s_device s) (s_ja s).
Definition s_set_use_key_shift (s : song) (v : bool) : song :=
  mkSong (s_tracks s) (s_cur s) (s_timebase s) (s_key_flag s) (s_key_shift s) v (s_v_add s) (s_q_add s) (s_harmony_flag s) (s_harmony_time s) (s_harmony_events s) (s_octave_once s) (s_break_flag s) (s_tempo s) (s_timesig_frac s) (s_timesig_deno s) (s_measure_shift s) (s_play_from s) (s_lineno s) (s_logs s) (s_vars s) (s_rhythm s) (s_rand_seed s) (s_device s) (s_ja s).
Definition s_set_v_add (s : song) (v : Z) : song :=
  mkSong (s_tracks s) (s_cur s) (s_timebase s) (s_key_flag s) (s_key_shift s) (s_use_key_shift s) v (s_q_add s) (s_harmony_flag s) (s_harmony_time s) (s_harmony_events s) (s_octave_once s) (s_break_flag s) (s_tempo s) (s_timesig_frac s) (s_timesig_deno s) (s_measure_shift s) (s_play_from s) (s_lineno s) (s_logs s) (s_vars s) (s_rhythm s) (s_rand_seed s) (s_device s) (s_ja s).
Definition s_set_q_add (s : song) (v : Z) : song :=
  mkSong (s_tracks s) (s_cur s) (s_timebase s) (s_key_flag s) (s_key_shift s) (s_use_key_shift s) (s_v_add s) v (s_harmony_flag s) (s_harmony_time s) (s_harmony_events s) (s_octave_once s) (s_break_flag s) (s_tempo s) (s_timesig_frac s) (s_timesig_deno s) (s_measure_shift s) (s_play_from s) (s_lineno s) (s_logs s) (s_vars s) (s_rhythm s) (s_rand_seed s) (s_device s) (s_ja s).
Definition s_set_harmony_flag (s : song) (v : bool) : song :=
  mkSong (s_tracks s) (s_cur s) (s_timebase s) (s_key_flag s) (s_key_shift s) (s_use_key_shift s) (s_v_add s) (s_q_add s) v (s_harmony_time s) (s_harmony_events s) (s_octave_once s) (s_break_flag s) (s_tempo s) (s_timesig_frac s) (s_timesig_deno s) (s_measure_shift s) (s_play_from s) (s_lineno s) (s_logs s) (s_vars s) (s_rhythm s) (s_rand_seed s) (s_device s) (s_ja s).
Definition s_set_harmony_time (s : song) (v : Z) : song :=
  mkSong (s_tracks s) (s_cur s) (s_timebase s) (s_key_flag s) (s_key_shift s) (s_use_key_shift s) (s_v_add s) (s_q_add s) (s_harmony_flag s) v (s_harmony_events s) (s_octave_once s) (s_break_flag s) (s_tempo s) (s_timesig_frac s) (s_timesig_deno s) (s_measure_shift s) (s_play_from s) (s_lineno s) (s_logs s) (s_vars s) (s_rhythm s) (s_rand_seed s) (s_device s) (s_ja s).
Definition s_set_harmony_events (s : song) (v : list event) : song :=
  mkSong (s_tracks s) (s_cur s) (s_timebase s) (s_key_flag s) (s_key_shift s) (s_use_key_shift s) (s_v_add s) (s_q_add s) (s_harmony_flag s) (s_harmony_time s) v (s_octave_once s) (s_break_flag s) (s_tempo s) (s_timesig_frac s) (s_timesig_deno s) (s_measure_shift s) (s_play_from s) (s_lineno s) (s_logs s) (s_vars s) (s_rhythm s) (s_rand_seed s) (s_device s) (s_ja s).
Definition s_set_octave_once (s : song) (v : Z) : song :=
  mkSong (s_tracks s) (s_cur s) (s_timebase s) (s_key_flag s) (s_key_shift s) (s_use_key_shift s) (s_v_add s) (s_q_add s) (s_harmony_flag s) (s_harmony_time s) (s_harmony_events s) v (s_break_flag s) (s_tempo s) (s_timesig_frac s) (s_timesig_deno s) (s_measure_shift s) (s_play_from s) (s_lineno s) (s_logs s) (s_vars s) (s_rhythm s) (s_rand_seed s) (s_device s) (s_ja s).
Definition s_set_break_flag (s : song) (v : Z) : song :=
  mkSong (s_tracks s) (s_cur s) (s_timebase s) (s_key_flag s) (s_key_shift s) (s_use_key_shift s) (s_v_add s) (s_q_add s) (s_harmony_flag s) (s_harmony_time s) (s_harmony_events s) (s_octave_once s) v (s_tempo s) (s_timesig_frac s) (s_timesig_deno s) (s_measure_shift s) (s_play_from s) (s_lineno s) (s_logs s) (s_vars s) (s_rhythm s) (s_rand_seed s) (s_device s) (s_ja s).
Definition s_set_tempo (s : song) (v : Z) : song :=
  mkSong (s_tracks s) (s_cur s) (s_timebase s) (s_key_flag s) (s_key_shift s) (s_use_key_shift s) (s_v_add s) (s_q_add s) (s_harmony_flag s) (s_harmony_time s) (s_harmony_events s) (s_octave_once s) (s_break_flag s) v (s_timesig_frac s) (s_timesig_deno s) (s_measure_shift s) (s_play_from s) (s_lineno s) (s_logs s) (s_vars s) (s_rhythm s) (s_rand_seed s) (s_device s) (s_ja s).
Definition s_set_timesig_frac (s : song) (v : Z) : song :=
  mkSong (s_tracks s) (s_cur s) (s_timebase s) (s_key_flag s) (s_key_shift s) (s_use_key_shift s) (s_v_add s) (s_q_add s) (s_harmony_flag s) (s_harmony_time s) (s_harmony_events s) (s_octave_once s) (s_break_flag s) (s_tempo s) v (s_timesig_deno s) (s_measure_shift s) (s_play_from s) (s_lineno s) (s_logs s) (s_vars s) (s_rhythm s) (s_rand_seed s) (s_device s) (s_ja s).
Definition s_set_timesig_deno (s : song) (v : Z) : song :=
  mkSong (s_tracks s) (s_cur s) (s_timebase s) (s_key_flag s) (s_key_shift s) (s_use_key_shift s) (s_v_add s) (s_q_add s) (s_harmony_flag s) (s_harmony_time s) (s_harmony_events s) (s_octave_once s) (s_break_flag s) (s_tempo s) (s_timesig_frac s) v (s_measure_shift s) (s_play_from s) (s_lineno s) (s_logs s) (s_vars s) (s_rhythm s) (s_rand_seed s) (s_device s) (s_ja s).
Definition s_set_measure_shift (s : song) (v : Z) : song :=
  mkSong (s_tracks s) (s_cur s) (s_timebase s) (s_key_flag s) (s_key_shift s) (s_use_key_shift s) (s_v_add s) (s_q_add s) (s_harmony_flag s) (s_harmony_time s) (s_harmony_events s) (s_octave_once s) (s_break_flag s) (s_tempo s) (s_timesig_frac s) (s_timesig_deno s) v (s_play_from s) (s_lineno s) (s_logs s) (s_vars s) (s_rhythm s) (s_rand_seed s) (s_device s) (s_ja s).
Definition s_set_play_from (s : song) (v : Z) : song :=
  mkSong (s_tracks s) (s_cur s) (s_timebase s) (s_key_flag s) (s_key_shift s) (s_use_key_shift s) (s_v_add s) (s_q_add s) (s_harmony_flag s) (s_harmony_time s) (s_harmony_events s) (s_octave_once s) (s_break_flag s) (s_tempo s) (s_timesig_frac s) (s_timesig_deno s) (s_measure_shift s) v (s_lineno s) (s_logs s) (s_vars s) (s_rhythm s) (s_rand_seed s) (s_device s) (s_ja s).
Definition s_set_lineno (s : song) (v : Z) : song :=
  mkSong (s_tracks s) (s_cur s) (s_timebase s) (s_key_flag s) (s_key_shift s) (s_use_key_shift s) (s_v_add s) (s_q_add s) (s_harmony_flag s) (s_harmony_time s) (s_harmony_events s) (s_octave_once s) (s_break_flag s) (s_tempo s) (s_timesig_frac s) (s_timesig_deno s) (s_measure_shift s) (s_play_from s) v (s_logs s) (s_vars s) (s_rhythm s) (s_rand_seed s) (s_device s) (s_ja s).
Definition s_set_logs (s : song) (v : list (list ch)) : song :=
  mkSong (s_tracks s) (s_cur s) (s_timebase s) (s_key_flag s) (s_key_shift s) (s_use_key_shift s) (s_v_add s) (s_q_add s) (s_harmony_flag s) (s_harmony_time s) (s_harmony_events s) (s_octave_once s) (s_break_flag s) (s_tempo s) (s_timesig_frac s) (s_timesig_deno s) (s_measure_shift s) (s_play_from s) (s_lineno s) v (s_vars s) (s_rhythm s) (s_rand_seed s) (s_device s) (s_ja s).
Definition s_set_vars (s : song) (v : list (list ch * vval)) : song :=
  mkSong (s_tracks s) (s_cur s) (s_timebase s) (s_key_flag s) (s_key_shift s) (s_use_key_shift s) (s_v_add s) (s_q_add s) (s_harmony_flag s) (s_harmony_time s) (s_harmony_events s) (s_octave_once s) (s_break_flag s) (s_tempo s) (s_timesig_frac s) (s_timesig_deno s) (s_measure_shift s) (s_play_from s) (s_lineno s) (s_logs s) v (s_rhythm s) (s_rand_seed s) (s_device s) (s_ja s).
Definition s_set_rhythm (s : song) (v : list (Z * list ch)) : song :=
  mkSong (s_tracks s) (s_cur s) (s_timebase s) (s_key_flag s) (s_key_shift s) (s_use_key_shift s) (s_v_add s) (s_q_add s) (s_harmony_flag s) (s_harmony_time s) (s_harmony_events s) (s_octave_once s) (s_break_flag s) (s_tempo s) (s_timesig_frac s) (s_timesig_deno s) (s_measure_shift s) (s_play_from s) (s_lineno s) (s_logs s) (s_vars s) v (s_rand_seed s) (s_device s) (s_ja s).

Definition s_set_rand_seed (s : song) (v : Z) : song :=
  mkSong (s_tracks s) (s_cur s) (s_timebase s) (s_key_flag s) (s_key_shift s) (s_use_key_shift s) (s_v_add s) (s_q_add s) (s_harmony_flag s) (s_harmony_time s) (s_harmony_events s) (s_octave_once s) (s_break_flag s) (s_tempo s) (s_timesig_frac s) (s_timesig_deno s) (s_measure_shift s) (s_play_from s) (s_lineno s) (s_logs s) (s_vars s) (s_rhythm s) v (s_device s) (s_ja s).

Definition s_set_device (s : song) (v : Z) : song :=
  mkSong (s_tracks s) (s_cur s) (s_timebase s) (s_key_flag s) (s_key_shift s) (s_use_key_shift s) (s_v_add s) (s_q_add s) (s_harmony_flag s) (s_harmony_time s) (s_harmony_events s) (s_octave_once s) (s_break_flag s) (s_tempo s) (s_timesig_frac s) (s_timesig_deno s) (s_measure_shift s) (s_play_from s) (s_lineno s) (s_logs s) (s_vars s) (s_rhythm s) (s_rand_seed s) v (s_ja s).

(* Song::set_language *)
Definition s_set_ja (s : song) (v : bool) : song :=
  mkSong (s_tracks s) (s_cur s) (s_timebase s) (s_key_flag s) (s_key_shift s) (s_use_key_shift s) (s_v_add s) (s_q_add s) (s_harmony_flag s) (s_harmony_time s) (s_harmony_events s) (s_octave_once s) (s_break_flag s) (s_tempo s) (s_timesig_frac s) (s_timesig_deno s) (s_measure_shift s) (s_play_from s) (s_lineno s) (s_logs s) (s_vars s) (s_rhythm s) (s_rand_seed s) (s_device s) v.

Definition s_set_harmony (s : song) (f : bool) (t : Z) (evs : list event) : song :=
  s_set_harmony_events (s_set_harmony_time (s_set_harmony_flag s f) t) evs.
Definition s_set_time (s : song) (tempo frac deno mshift : Z) : song :=
  s_set_measure_shift (s_set_timesig_deno (s_set_timesig_frac (s_set_tempo s tempo) frac) deno) mshift.
Definition s_set_adds (s : song) (vadd qadd : Z) : song := s_set_q_add (s_set_v_add s vadd) qadd.

(* Song::new(); the variable table starts with init_variables() (regenerated: coq/gen/VarRows.v, see Compile.v) *)
Definition song_new : song :=
  mkSong [track_new 96 0] 0 96 [0;0;0;0;0;0;0;0;0;0;0;0] 0 true 8 1 false 0 [] 0 0 120 4 4 0 (-1) 0 [] [] [] SAKURA_DEFAULT_RANDOM_SEED DEFAULT_DEVICE_NUMBER false.

(* add_log: bounded by SAKURA_MAX_LOGS *)
Definition add_log (s : song) (msg : list ch) : song :=
  if SAKURA_MAX_LOGS <=? zlen (s_logs s) then s else s_set_logs s (s_logs s ++ [msg]).

(* trk!(song) *)
Definition cur_track (s : song) : track := nth (s_cur s) (s_tracks s) (track_new 0 0).
Fixpoint upd_nth {A} (n : nat) (f : A -> A) (l : list A) : list A :=
  match l, n with
  | [], _ => []
  | x :: r, O => f x :: r
  | x :: r, S k => x :: upd_nth k f r
  end.
Definition upd_cur (s : song) (f : track -> track) : song := s_set_tracks s (upd_nth (s_cur s) f (s_tracks s)).

(* change_cur_track(no): missing tracks are created, each with the default channel of its own number *)
Fixpoint add_tracks (n : nat) (timebase : Z) (tracks : list track) : list track :=
  match n with
  | O => tracks
  | S k => add_tracks k timebase (tracks ++ [track_new timebase (zlen tracks - 1)])
  end.
(* a pending octave-once belongs to the track it was written on: it is undone before the switch *)
Definition settle_octave_once (s : song) : song :=
  if s_octave_once s =? 0 then s
  else s_set_octave_once (upd_cur s (fun t => tr_set_octave t (tr_octave t - s_octave_once s))) 0.
Definition change_cur_track (s : song) (no : nat) : song :=
  let s0 := settle_octave_once s in
  let tracks := add_tracks (S no - length (s_tracks s0)) (s_timebase s0) (s_tracks s0) in
  s_set_cur (s_set_tracks s0 tracks) no.

(* track_sync *)
Definition track_sync (s : song) : song :=
  let tp := tr_timepos (cur_track s) in
  s_set_tracks s (map (fun t => tr_set_timepos t tp) (s_tracks s)).
