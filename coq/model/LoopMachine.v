(* runner.rs exec(): the pos / loop_stack machine, generic in the non-loop tokens.
   `while pos < tokens.len() { if break_flag != 0 { break }; match tokens[pos] { LoopBegin | LoopBreak | LoopEnd | other } pos += 1 }`
   The three loop arms are transcribed exactly (including the forward scan for the matching LoopEnd with a
   nesting depth, the item staying popped after a break, and `index + 1 >= count`).  Every other token is
   a state transformer supplied by the instantiation (RunCore.v); by construction it advances pos by one. *)
From Coq Require Import List ZArith Bool Lia.
Import ListNotations.

Section Machine.
  Variable D : Type.            (* payload of a non-loop token *)
  Variable St : Type.           (* interpreter state (Song) *)
  Variable step : D -> St -> St.  (* effect of a non-loop token *)
  Variable halted : St -> bool.  (* song.flags.break_flag != 0 *)
  Variable count_of : Z -> St -> nat.  (* var_extract(data[0]).to_i() as usize of a LoopBegin token *)

  Inductive ltok := LBegin (n : Z) | LBreak | LEnd | LOther (d : D).

  Record loop_item := mkItem { start_pos : nat; end_pos : nat; index : nat; count : nat }.

  Record config := mkCfg { pos : nat; stack : list loop_item; st : St }.

  (* `for i in pos..tokens.len()`: first LoopEnd at nesting depth 0; returns i + 1, or 0 if none *)
  Fixpoint scan_end (toks : list ltok) (i : nat) (depth : nat) : nat :=
    match toks with
    | [] => 0
    | t :: r =>
        match t with
        | LBegin _ => scan_end r (S i) (S depth)
        | LEnd => match depth with
                  | O => S i
                  | S d => scan_end r (S i) d
                  end
        | _ => scan_end r (S i) depth
        end
    end.

  (* one iteration of the while loop; None = the loop exits *)
  Definition mstep (toks : list ltok) (c : config) : option config :=
    match nth_error toks (pos c) with
    | None => None                                   (* pos >= tokens.len() *)
    | Some t =>
        if halted (st c) then None else
        match t with
        | LBegin n =>
            Some (mkCfg (S (pos c)) (mkItem (S (pos c)) 0 0 (count_of n (st c)) :: stack c) (st c))
        | LBreak =>
            match stack c with
            | [] => Some (mkCfg (S (pos c)) [] (st c))
            | it :: rest =>
                if Nat.leb (count it) (S (index it)) then        (* it.index + 1 >= it.count *)
                  let e := if Nat.eqb (end_pos it) 0
                           then scan_end (skipn (pos c) toks) (pos c) 0   (* the scan starts AT pos (the ':' itself) *)
                           else end_pos it in
                  if Nat.ltb 0 e then Some (mkCfg e rest (st c))
                  else Some (mkCfg (S (pos c)) rest (st c))
                else Some (mkCfg (S (pos c)) (it :: rest) (st c))
            end
        | LEnd =>
            match stack c with
            | [] => Some (mkCfg (S (pos c)) [] (st c))
            | it :: rest =>
                let it' := mkItem (start_pos it) (S (pos c)) (S (index it)) (count it) in
                if Nat.ltb (index it') (count it') then Some (mkCfg (start_pos it') (it' :: rest) (st c))
                else Some (mkCfg (S (pos c)) rest (st c))
            end
        | LOther d => Some (mkCfg (S (pos c)) (stack c) (step d (st c)))
        end
    end.

  Fixpoint mrun (fuel : nat) (toks : list ltok) (c : config) : option config :=
    match fuel with
    | O => None
    | S f => match mstep toks c with
             | None => Some c
             | Some c' => mrun f toks c'
             end
    end.

  (* exec(song, tokens): fresh pos and loop stack *)
  Definition run (fuel : nat) (toks : list ltok) (s : St) : option St :=
    match mrun fuel toks (mkCfg 0 [] s) with
    | Some c => Some (st c)
    | None => None
    end.
End Machine.

Arguments LBegin {D} n.
Arguments LBreak {D}.
Arguments LEnd {D}.
Arguments LOther {D} d.
