(* What the command list and the MIDI standards prescribe for one command: the messages that must be
   found on the wire (as SmfSpec.msg) for a command name, its argument values and the track's
   channel.  Written from command.md / the standards (GmSpec) and independent of the model; spellings
   are resolved through the documentation's own alias groups (DocTable).  `None` = the arguments lie
   outside the documented domain (nothing is prescribed). *)
From Coq Require Import String List ZArith Bool.
From Sakura.Spec Require Import SmfSpec GmSpec Utf8Spec.
From Sakura.Gen Require Import DocTable.
Import ListNotations.
Open Scope Z_scope.

Inductive prescription :=
| PController (n : Z)            (* named controller command: Bn n vv *)
| PControlChange                 (* CC(no, value) / y no,value *)
| PProgram                       (* Voice(n[,msb,lsb]) / @n[,msb,lsb] *)
| PTempo | PTimeSig | PText (ty : Z) | PPort
| PBend                          (* PitchBend(v): -8192..8191 *)
| PBendSmall                     (* p(v): 0..127 in steps of 128 *)
| PRpn (a : Z * Z) | PNrpn (a : Z * Z) | PRpnDirect | PNrpnDirect
| PFixedSysEx (payload : list Z)
| PMasterVolume | PMasterBalance
| PGsEffect (addr : Z) | PGsEffectDirect | PGsRhythm | PGsScaleTuning.

Definition prescribed : list (list Z * prescription) :=
  map (fun p => (fst p, PController (snd p))) named_controllers ++
  map (fun p => (fst p, PRpn (snd p))) named_rpn ++
  map (fun p => (fst p, PNrpn (snd p))) named_nrpn ++
  map (fun p => (fst p, PText (snd p))) named_text_meta ++
  map (fun p => (fst p, PFixedSysEx (snd p))) named_resets ++
  map (fun p => (fst p, PGsEffect (snd p))) named_gs_effects ++
  [ (zs "CC", PControlChange); (zs "y", PControlChange);
    (zs "Voice", PProgram); (zs "@", PProgram);
    (zs "Tempo", PTempo); (zs "TimeSignature", PTimeSig); (zs "Port", PPort);
    (zs "PitchBend", PBend); (zs "p", PBendSmall);
    (zs "RPN", PRpnDirect); (zs "NRPN", PNrpnDirect);
    (zs "MasterVolume", PMasterVolume); (zs "MasterBalance", PMasterBalance);
    (zs "GSEffect", PGsEffectDirect); (zs "GS_RHYTHM", PGsRhythm); (zs "GSScaleTuning", PGsScaleTuning) ].

Definition mem_name (n : list Z) (g : list (list Z)) : bool := existsb (zlist_eq n) g.
Fixpoint first_prescribed (g : list (list Z)) : option prescription :=
  match g with
  | [] => None
  | n :: r => match assoc n prescribed with Some p => Some p | None => first_prescribed r end
  end.
Fixpoint group_of (n : list Z) (gs : list (list (list Z))) : option (list (list Z)) :=
  match gs with
  | [] => None
  | g :: r => if mem_name n g then Some g else group_of n r
  end.
(* a spelling is prescribed what its own row says, else what the documentation's alias group says *)
Definition prescription_of (name : list Z) : option prescription :=
  match assoc name prescribed with
  | Some p => Some p
  | None => match group_of name doc_alias_groups with Some g => first_prescribed g | None => None end
  end.

Definition d7 (v : Z) : bool := (0 <=? v) && (v <=? 127).
Definition d14s (v : Z) : bool := (-8192 <=? v) && (v <=? 8191).

(* GS part block of a MIDI channel (0-based): part 10 is block 0, parts 1..9 blocks 1..9, 11..16 blocks A..F *)
Definition gs_block (ch : Z) : Z := if ch =? 9 then 0 else if ch <? 9 then ch + 1 else ch.

Definition spec_msgs (p : prescription) (ch dev : Z) (args : list Z) (txt : list Z) : option (list msg) :=
  match p, args with
  | PController n, [v] => if d7 v then Some [MCC ch n v] else None
  | PControlChange, [no; v] => if d7 no && d7 v then Some [MCC ch no v] else None
  | PProgram, [n] => if (1 <=? n) && (n <=? 128) then Some [MProgram ch (n - 1)] else None
  | PProgram, [n; msb; lsb] =>
      if (1 <=? n) && (n <=? 128) && d7 msb && d7 lsb
      then Some [MCC ch CC_BANK_MSB msb; MCC ch CC_BANK_LSB lsb; MProgram ch (n - 1)] else None
  | PTempo, [bpm] => if (10 <=? bpm) && (bpm <=? 300) then Some [MMeta META_TEMPO (tempo_payload bpm)] else None
  | PTimeSig, [nn; dd] =>
      if (2 <=? nn) && (nn <=? 64) then
        match timesig_payload nn dd with Some pl => Some [MMeta META_TIME_SIGNATURE pl] | None => None end
      else None
  | PText ty, [] => Some [MMeta ty (utf8 (fit_below 128 txt))]
  | PPort, [v] => if (0 <=? v) && (v <=? 255) then Some [MMeta META_PORT [v]] else None
  | PBend, [v] => if d14s v then Some [MBend ch (bend_lsb (v + BEND_CENTRE)) (bend_msb (v + BEND_CENTRE))] else None
  | PBendSmall, [v] => if d7 v then Some [MBend ch (bend_lsb (v * 128)) (bend_msb (v * 128))] else None
  | PRpn (m, l), [v] => if d7 v then Some [MCC ch CC_RPN_MSB m; MCC ch CC_RPN_LSB l; MCC ch CC_DATA_ENTRY v] else None
  | PNrpn (m, l), [v] => if d7 v then Some [MCC ch CC_NRPN_MSB m; MCC ch CC_NRPN_LSB l; MCC ch CC_DATA_ENTRY v] else None
  | PRpnDirect, [m; l; v] =>
      if d7 m && d7 l && d7 v then Some [MCC ch CC_RPN_MSB m; MCC ch CC_RPN_LSB l; MCC ch CC_DATA_ENTRY v] else None
  | PNrpnDirect, [m; l; v] =>
      if d7 m && d7 l && d7 v then Some [MCC ch CC_NRPN_MSB m; MCC ch CC_NRPN_LSB l; MCC ch CC_DATA_ENTRY v] else None
  | PFixedSysEx pl, _ => Some [MSysEx pl]
  | PMasterVolume, [v] => if d7 v then Some [MSysEx (MASTER_VOLUME v)] else None
  | PMasterBalance, [v] => if d14s v then Some [MSysEx (MASTER_BALANCE (v + BEND_CENTRE))] else None
  | PGsEffect a, [v] => if d7 v then Some [MSysEx (GS_DT1 dev [64; 1; a; v])] else None
  | PGsEffectDirect, [a; v] => if d7 a && d7 v then Some [MSysEx (GS_DT1 dev [64; 1; a; v])] else None
  | PGsRhythm, [v] => if (0 <=? v) && (v <=? 2) then Some [MSysEx (GS_DT1 dev [64; gs_block ch + 16; 21; v])] else None
  | PGsScaleTuning, vs =>
      if Nat.eqb (length vs) 12 && forallb d7 vs
      then Some (map (fun x => MSysEx (GS_DT1 dev ([64; 16 + x; 64] ++ vs))) [1; 2; 3; 4; 5; 6; 7; 8; 9; 10; 11; 12; 13; 14; 15])
      else None
  | _, _ => None
  end.

(* the decoded track the property demands: first message at the command's tick, the others at delta 0 *)
Definition spec_items (time : Z) (ms : list msg) : list (Z * msg) :=
  match ms with [] => [] | m :: r => (time, m) :: map (fun x => (0, x)) r end.
