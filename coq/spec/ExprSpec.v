(* Specification of script expressions (C10), written from the property statement and ordinary
   arithmetic conventions; independent of the model.

   - syntax trees  Lit | Str | Var | Neg | Bin op  (parentheses and blanks belong to the printed form);
   - the four precedence levels  * / %  <  + -  <  comparisons  <  & |  and left associativity are
     expressed by the relation [prints l e t] ("t is a rendering of e in which every operator outside
     parentheses has level <= l") and by the canonical printer [print];
   - [denote]: the value of a well-typed tree (None = ill-typed / unbound variable): / and % truncate
     toward zero and yield 0 for a zero divisor, + concatenates when either side is a string,
     comparisons yield booleans, which are shown as TRUE / FALSE;
   - the built-in functions MID, SizeOf, REPLACE, CHR and array indexing on character lists. *)
From Coq Require Import List ZArith Bool Lia.
Import ListNotations.
Open Scope Z_scope.

(* ---------------------------------------------------------------------------------------------- *)
(* literals: how a non-negative integer may be spelled                                               *)
(* ---------------------------------------------------------------------------------------------- *)
Inductive literal :=
| Dec (ds : list Z)                          (* decimal digits 0..9 *)
| Hex (dollar : bool) (ds : list (Z * bool)) (* "$.." or "0x..": digit values 0..15, flag = upper-case letter *)
| Oct (ds : list Z).                         (* "0o..": digits 0..7 *)

Definition in_range (lo hi d : Z) : bool := (lo <=? d) && (d <=? hi).
Definition nonempty {A} (l : list A) : bool := match l with [] => false | _ => true end.

Definition lit_ok (n : literal) : bool :=
  match n with
  | Dec ds => nonempty ds && forallb (in_range 0 9) ds
  | Hex _ ds => nonempty ds && forallb (fun d => in_range 0 15 (fst d)) ds
  | Oct ds => nonempty ds && forallb (in_range 0 7) ds
  end.

Fixpoint value_in (base acc : Z) (ds : list Z) : Z :=
  match ds with
  | [] => acc
  | d :: r => value_in base (acc * base + d) r
  end.

(* a numeral denotes its value in its base, capped at 2^31-1 (longer numerals read as 2^31-1: the implementation
   saturates so that later arithmetic cannot overflow; ExprP.numeral_cap_is_code ties the constant to the code) *)
Definition numeral_cap : Z := 2147483647.
Definition lit_value (n : literal) : Z :=
  Z.min (match n with
         | Dec ds => value_in 10 0 ds
         | Hex _ ds => value_in 16 0 (map fst ds)
         | Oct ds => value_in 8 0 ds
         end) numeral_cap.

Definition hex_char (d : Z * bool) : Z :=
  if fst d <? 10 then 48 + fst d else if snd d then 65 + (fst d - 10) else 97 + (fst d - 10).

Definition lit_text (n : literal) : list Z :=
  match n with
  | Dec ds => map (fun d => 48 + d) ds
  | Hex true ds => 36 :: map hex_char ds                 (* $1F *)
  | Hex false ds => 48 :: 120 :: map hex_char ds         (* 0x1f *)
  | Oct ds => 48 :: 111 :: map (fun d => 48 + d) ds      (* 0o17 *)
  end.

(* ---------------------------------------------------------------------------------------------- *)
(* trees                                                                                              *)
(* ---------------------------------------------------------------------------------------------- *)
Inductive op := OMul | ODiv | OMod | OAdd | OSub | OEq | OEq2 | ONe | ONe2 | OLt | OLe | OGt | OGe | OAnd | OOr.

Inductive expr :=
| Lit (n : literal)
| Str (s : list Z)
| Var (x : list Z)
| Neg (e : expr)
| Bin (o : op) (a b : expr).

(* precedence level: smaller binds tighter; 0 is the level of operands *)
Definition lvl (o : op) : nat :=
  match o with
  | OMul | ODiv | OMod => 1%nat
  | OAdd | OSub => 2%nat
  | OEq | OEq2 | ONe | ONe2 | OLt | OLe | OGt | OGe => 3%nat
  | OAnd | OOr => 4%nat
  end.

Definition opstr (o : op) : list Z :=
  match o with
  | OMul => [42] | ODiv => [47] | OMod => [37] | OAdd => [43] | OSub => [45]
  | OEq => [61] | OEq2 => [61; 61] | ONe => [33; 61] | ONe2 => [60; 62]
  | OLt => [60] | OLe => [60; 61] | OGt => [62] | OGe => [62; 61]
  | OAnd => [38] | OOr => [124]
  end.

(* names: a letter or '_' followed by letters, digits, '_' *)
Definition is_letter (c : Z) : bool := in_range 65 90 c || in_range 97 122 c || (c =? 95).
Definition is_word_char (c : Z) : bool := is_letter c || in_range 48 57 c.
Definition name_ok (x : list Z) : bool :=
  match x with
  | c :: r => is_letter c && forallb is_word_char r
  | [] => false
  end.
(* string constants are written {text}; the text must not contain braces *)
Definition str_ok (s : list Z) : bool := forallb (fun c => negb ((c =? 123) || (c =? 125))) s.

Fixpoint expr_ok (e : expr) : bool :=
  match e with
  | Lit n => lit_ok n
  | Str s => str_ok s
  | Var x => name_ok x
  | Neg a => expr_ok a
  | Bin _ a b => expr_ok a && expr_ok b
  end.

(* ---------------------------------------------------------------------------------------------- *)
(* printed forms                                                                                      *)
(* ---------------------------------------------------------------------------------------------- *)
Definition is_blank (c : Z) : bool := (c =? 32) || (c =? 9).
Definition blanks (ws : list Z) : Prop := forallb is_blank ws = true.
Definition starts_minus (t : list Z) : bool := match t with c :: _ => c =? 45 | [] => false end.
(* "x--y" would be the decrement of x: a binary minus directly followed by a unary minus needs a blank *)
Definition clash (o : op) (ws t : list Z) : bool :=
  match o, ws with OSub, [] => starts_minus t | _, _ => false end.

(* prints l e t : t is a rendering of e whose operators outside parentheses all have level <= l.
   The left operand of an operator of level k is rendered at level k (left associativity), the right
   operand at level k-1; an operand of unary minus at level 0; anything may be parenthesised; blanks
   may surround operators and the inside of parentheses. *)
Inductive prints : nat -> expr -> list Z -> Prop :=
| P_lit l n : lit_ok n = true -> prints l (Lit n) (lit_text n)
| P_str l s : str_ok s = true -> prints l (Str s) (123 :: s ++ [125])
| P_var l x : name_ok x = true -> prints l (Var x) x
| P_neg l e ws t : blanks ws -> prints 0%nat e t -> prints l (Neg e) (45 :: ws ++ t)
| P_paren l e ws1 t ws2 : blanks ws1 -> blanks ws2 -> prints 4%nat e t ->
    prints l e (40 :: ws1 ++ t ++ ws2 ++ [41])
| P_bin l o a b ta ws1 ws2 tb : (lvl o <= l)%nat ->
    prints (lvl o) a ta -> prints (lvl o - 1)%nat b tb -> blanks ws1 -> blanks ws2 ->
    clash o ws2 tb = false ->
    prints l (Bin o a b) (ta ++ ws1 ++ opstr o ++ ws2 ++ tb).

(* the canonical printer: no blanks except the one required between "-" and "-", parentheses exactly
   where the level demands them *)
Definition sep (o : op) (t : list Z) : list Z := if clash o [] t then [32] else [].
Definition paren (t : list Z) : list Z := 40 :: t ++ [41].

Fixpoint print_at (l : nat) (e : expr) : list Z :=
  match e with
  | Lit n => lit_text n
  | Str s => 123 :: s ++ [125]
  | Var x => x
  | Neg a => 45 :: print_at 0%nat a
  | Bin o a b =>
      let tb := print_at (lvl o - 1)%nat b in
      let t := print_at (lvl o) a ++ opstr o ++ sep o tb ++ tb in
      if (lvl o <=? l)%nat then t else paren t
  end.
Definition print (e : expr) : list Z := print_at 4%nat e.

(* the same with optional blanks and redundant parentheses, driven by a list of choices (used by the
   test generator; every result is a rendering in the sense of [prints]) *)
Definition nextc (cs : list nat) : nat * list nat := match cs with [] => (O, []) | c :: r => (c, r) end.
Definition blanks_of (c : nat) : list Z := repeat (if Nat.even (c / 3)%nat then 32 else 9) (c mod 3)%nat.
Definition top_level (e : expr) : nat := match e with Bin o _ _ => lvl o | _ => O end.

Fixpoint print_lay (l : nat) (e : expr) (cs : list nat) : list Z * list nat :=
  let '(c0, cs) := nextc cs in
  let '(t, cs) :=
    match e with
    | Lit n => (lit_text n, cs)
    | Str s => (123 :: s ++ [125], cs)
    | Var x => (x, cs)
    | Neg a =>
        let '(c1, cs) := nextc cs in
        let '(ta, cs) := print_lay 0%nat a cs in
        (45 :: blanks_of c1 ++ ta, cs)
    | Bin o a b =>
        let '(c1, cs) := nextc cs in
        let '(c2, cs) := nextc cs in
        let '(ta, cs) := print_lay (lvl o) a cs in
        let '(tb, cs) := print_lay (lvl o - 1)%nat b cs in
        let ws2 := if clash o (blanks_of c2) tb then [32] else blanks_of c2 in
        (ta ++ blanks_of c1 ++ opstr o ++ ws2 ++ tb, cs)
    end in
  if Nat.eqb (c0 mod 5)%nat 1%nat || negb (top_level e <=? l)%nat then
    let '(c3, cs) := nextc cs in
    let '(c4, cs) := nextc cs in
    (40 :: blanks_of c3 ++ t ++ blanks_of c4 ++ [41], cs)
  else (t, cs).

(* ---------------------------------------------------------------------------------------------- *)
(* values and denotation                                                                              *)
(* ---------------------------------------------------------------------------------------------- *)
Inductive value := VI (z : Z) | VS (s : list Z) | VB (b : bool).

(* decimal text of an integer, through the standard library's decimal numbers *)
Fixpoint uint_text (u : Decimal.uint) : list Z :=
  match u with
  | Decimal.Nil => []
  | Decimal.D0 r => 48 :: uint_text r | Decimal.D1 r => 49 :: uint_text r
  | Decimal.D2 r => 50 :: uint_text r | Decimal.D3 r => 51 :: uint_text r
  | Decimal.D4 r => 52 :: uint_text r | Decimal.D5 r => 53 :: uint_text r
  | Decimal.D6 r => 54 :: uint_text r | Decimal.D7 r => 55 :: uint_text r
  | Decimal.D8 r => 56 :: uint_text r | Decimal.D9 r => 57 :: uint_text r
  end.
Definition dec_text (z : Z) : list Z :=
  match Z.to_int z with
  | Decimal.Pos u => uint_text u
  | Decimal.Neg u => 45 :: uint_text u
  end.

Definition show (v : value) : list Z :=
  match v with
  | VI z => dec_text z
  | VS s => s
  | VB true => [84; 82; 85; 69]         (* TRUE *)
  | VB false => [70; 65; 76; 83; 69]    (* FALSE *)
  end.

(* order of texts: lexicographic by code point *)
Fixpoint text_cmp (a b : list Z) : comparison :=
  match a, b with
  | [], [] => Datatypes.Eq
  | [], _ :: _ => Datatypes.Lt
  | _ :: _, [] => Datatypes.Gt
  | x :: a', y :: b' => match x ?= y with Datatypes.Eq => text_cmp a' b' | c => c end
  end.

Definition quot0 (a b : Z) : Z := if b =? 0 then 0 else Z.quot a b.   (* truncates toward zero *)
Definition rem0 (a b : Z) : Z := if b =? 0 then 0 else Z.rem a b.      (* sign of the dividend *)

Definition cmp_holds (o : op) (c : comparison) : bool :=
  match o, c with
  | (OEq | OEq2), Datatypes.Eq => true
  | (OEq | OEq2), _ => false
  | (ONe | ONe2), Datatypes.Eq => false
  | (ONe | ONe2), _ => true
  | OLt, Datatypes.Lt => true
  | OLt, _ => false
  | OLe, Datatypes.Gt => false
  | OLe, _ => true
  | OGt, Datatypes.Gt => true
  | OGt, _ => false
  | OGe, Datatypes.Lt => false
  | OGe, _ => true
  | _, _ => false
  end.

Definition binop (o : op) (va vb : value) : option value :=
  match o with
  | OMul => match va, vb with VI a, VI b => Some (VI (a * b)) | _, _ => None end
  | ODiv => match va, vb with VI a, VI b => Some (VI (quot0 a b)) | _, _ => None end
  | OMod => match va, vb with VI a, VI b => Some (VI (rem0 a b)) | _, _ => None end
  | OSub => match va, vb with VI a, VI b => Some (VI (a - b)) | _, _ => None end
  | OAdd =>
      match va, vb with
      | VI a, VI b => Some (VI (a + b))
      | VS a, VS b => Some (VS (a ++ b))
      | VS a, VI b => Some (VS (a ++ dec_text b))
      | VI a, VS b => Some (VS (dec_text a ++ b))
      | _, _ => None
      end
  | OAnd => match va, vb with VB a, VB b => Some (VB (a && b)) | _, _ => None end
  | OOr => match va, vb with VB a, VB b => Some (VB (a || b)) | _, _ => None end
  | _ =>
      match va, vb with
      | VI a, VI b => Some (VB (cmp_holds o (a ?= b)))
      | VS a, VS b => Some (VB (cmp_holds o (text_cmp a b)))
      | _, _ => None
      end
  end.

Definition env := list (list Z * value).
Fixpoint text_eqb (a b : list Z) : bool :=
  match a, b with
  | [], [] => true
  | x :: a', y :: b' => (x =? y) && text_eqb a' b'
  | _, _ => false
  end.
Fixpoint lookup (en : env) (x : list Z) : option value :=
  match en with
  | [] => None
  | (y, v) :: r => if text_eqb x y then Some v else lookup r x
  end.

Fixpoint denote (en : env) (e : expr) : option value :=
  match e with
  | Lit n => Some (VI (lit_value n))
  | Str s => Some (VS s)
  | Var x => lookup en x
  | Neg a => match denote en a with Some (VI z) => Some (VI (- z)) | _ => None end
  | Bin o a b =>
      match denote en a, denote en b with
      | Some va, Some vb => binop o va vb
      | _, _ => None
      end
  end.

(* the fragment of the property's quantifier: integer literals and variables, no string constants *)
Fixpoint no_str (e : expr) : bool :=
  match e with
  | Lit _ | Var _ => true
  | Str _ => false
  | Neg a => no_str a
  | Bin _ a b => no_str a && no_str b
  end.
Definition int_env (en : env) : Prop := forall x v, lookup en x = Some v -> exists z, v = VI z.

(* ---------------------------------------------------------------------------------------------- *)
(* built-in functions, on character lists                                                             *)
(* ---------------------------------------------------------------------------------------------- *)
(* MID(s, i, n): the n characters from the 1-based position i, clamped to the string *)
(* = firstn (Z.to_nat n) (skipn (Z.to_nat (i - 1)) s); the counts are cut at the length first so that the
   definition also runs for astronomically large arguments *)
Definition mid (s : list Z) (i n : Z) : list Z :=
  let len := Z.of_nat (length s) in
  firstn (Z.to_nat (Z.min n len)) (skipn (Z.to_nat (Z.min (i - 1) len)) s).
(* SizeOf: number of characters / elements *)
Definition size_of {A} (l : list A) : Z := Z.of_nat (length l).
(* CHR(n): the character with code point n (a Unicode scalar value) *)
Definition is_scalar (n : Z) : bool := in_range 0 55295 n || in_range 57344 1114111 n.
Definition chr (n : Z) : list Z := [n].
(* A(i): element i counted from 0 *)
Definition array_get {A} (l : list A) (i : Z) : option A := if i <? 0 then None else nth_error l (Z.to_nat i).

Fixpoint is_prefix (p s : list Z) : bool :=
  match p, s with
  | [], _ => true
  | x :: p', y :: s' => (x =? y) && is_prefix p' s'
  | _ :: _, [] => false
  end.
(* REPLACE(s, a, b): every non-overlapping occurrence of a, scanning from the left (a not empty) *)
Fixpoint replace_all_f (fuel : nat) (s a b : list Z) : list Z :=
  match fuel with
  | O => s
  | S f =>
      match s with
      | [] => []
      | c :: r => if is_prefix a s then b ++ replace_all_f f (skipn (length a) s) a b
                  else c :: replace_all_f f r a b
      end
  end.
Definition replace_all (s a b : list Z) : list Z :=
  match a with [] => s | _ => replace_all_f (S (length s)) s a b end.
