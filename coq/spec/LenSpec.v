(* Specification of note-length expressions, written from the documentation (README / command.md)
   and independent of the model:  grammar  [%]?[-]?digits? dots? ((^|+) part)*  as a syntax tree,
   a printer, and the denotation in ticks. Numerals are digit lists (so leading zeros are covered
   and no decimal printer is needed). *)
From Coq Require Import List ZArith Bool Lia.
Import ListNotations.
Open Scope Z_scope.

Definition digit_ok (d : Z) : bool := (0 <=? d) && (d <=? 9).

Fixpoint value_of (acc : Z) (ds : list Z) : Z :=
  match ds with
  | [] => acc
  | d :: r => value_of (acc * 10 + d) r
  end.

(* a numeral denotes its decimal value, capped at 2^31-1 (longer numerals read as 2^31-1: the implementation
   saturates so that later arithmetic cannot overflow; LengthP.numeral_cap_is_code ties the constant to the code) *)
Definition numeral_cap : Z := 2147483647.
Definition numeral (ds : list Z) : Z := Z.min (value_of 0 ds) numeral_cap.

(* one part:  [%]? [-]? digits? dots *)
Record atom := mkAtom {
  a_step : bool;          (* written with '%': the number is a tick count *)
  a_neg  : bool;          (* written with '-' *)
  a_num  : list Z;        (* the digits, [] when the number is omitted *)
  a_dots : nat            (* 0..4 *)
}.

Definition expr := (atom * list (bool * atom))%type.   (* head, then (true='^' / false='+', part) *)

Definition atom_wf (a : atom) : bool :=
  forallb digit_ok (a_num a) && (Nat.leb (a_dots a) 4)
  && (implb (a_neg a) (negb (match a_num a with [] => true | _ => false end))).
(* a part without a number cannot carry '%', '-' or dots (the reader would not attach them) *)
Definition part_wf (a : atom) : bool :=
  atom_wf a &&
  (match a_num a with
   | [] => negb (a_step a) && negb (a_neg a) && (Nat.eqb (a_dots a) 0)
   | _ => true end).
(* a head without a number cannot carry '%' or '-' followed by nothing useful: "%" alone is
   accepted and means the default *)
Definition head_wf (a : atom) : bool := atom_wf a.
Definition expr_wf (e : expr) : bool := head_wf (fst e) && forallb (fun p => part_wf (snd p)) (snd e).
(* the empty string is the omitted length; a head that prints to nothing must have no parts
   for the string to be empty, otherwise it starts with '^' *)

Definition print_atom (a : atom) : list Z :=
  (if a_step a then [37] else []) ++ (if a_neg a then [45] else [])
  ++ map (fun d => 48 + d) (a_num a) ++ repeat 46 (a_dots a).
Definition print_part (p : bool * atom) : list Z :=
  (if fst p then [94] else [43]) ++ print_atom (snd p).
Definition print (e : expr) : list Z := print_atom (fst e) ++ flat_map print_part (snd e).

(* k dots add the successive halves of the undotted value, truncated toward zero as a whole *)
Definition dotted (k : nat) (x : Z) : Z := x + Z.quot (x * (2 ^ Z.of_nat k - 1)) (2 ^ Z.of_nat k).

Definition signed (a : atom) : Z := (if a_neg a then -1 else 1) * numeral (a_num a).

(* value of the head: omitted = default; %t = t ticks; n = whole note / n (0 when n <= 0) *)
Definition dhead (tb d : Z) (a : atom) : Z :=
  dotted (a_dots a)
    (match a_num a with
     | [] => d
     | _ => if a_step a then signed a
            else if signed a >? 0 then Z.quot (4 * tb) (signed a) else 0
     end).
(* value of a part after ^ or +: omitted or 0 = default *)
Definition dpart (tb d : Z) (a : atom) : Z :=
  dotted (a_dots a)
    (match a_num a with
     | [] => d
     | _ => if a_step a then signed a
            else if signed a =? 0 then d else Z.quot (4 * tb) (signed a)
     end).

Definition denote (tb d : Z) (e : expr) : Z :=
  fold_left (fun acc p => acc + dpart tb d (snd p)) (snd e) (dhead tb d (fst e)).
