(* C09 - what "expands to exactly its text" MEANS, written from the documentation (README / command.md) and
   independent of the model: text is a list of Unicode scalar values.
     1. textual replacement of a pattern (str::replace as documented by the Rust standard library: "replaces all
        matches of a pattern", non-overlapping, found left to right) as a RELATION with a uniqueness property;
     2. simultaneous replacement of the placeholders "#?1", "#?2", ... by the arguments of a macro call;
     3. the expansion of the text of a Rhythm{...} block, as a character automaton.
   Nothing here refers to fuel, cursors or get_token_nest. *)
From Coq Require Import List ZArith Bool Lia.
Import ListNotations.
Open Scope Z_scope.

(* ------------------------------------------------------------------------------------------------ *)
(* 0. occurrences                                                                                     *)

Fixpoint starts (p s : list Z) : bool :=
  match p, s with
  | [], _ => true
  | x :: p', y :: s' => (x =? y) && starts p' s'
  | _ :: _, [] => false
  end.

(* p occurs somewhere in s *)
Definition occurs_in (p s : list Z) : Prop := exists a b, s = a ++ p ++ b.

(* the same, decidably: p starts at some position of s *)
Fixpoint contains (p s : list Z) : bool :=
  starts p s || match s with [] => false | _ :: r => contains p r end.

Definition ends_with (c : Z) (s : list Z) : bool :=
  match s with [] => false | _ => last s 0 =? c end.

(* ------------------------------------------------------------------------------------------------ *)
(* 1. replacing every occurrence of a pattern, left to right, without overlaps                        *)

(* pre ++ pat ++ rest shows the LEFTMOST occurrence of pat: every other way of exhibiting an occurrence
   starts at the same place or further right *)
Definition leftmost (pat pre rest : list Z) : Prop :=
  forall a b, pre ++ pat ++ rest = a ++ pat ++ b -> (length pre <= length a)%nat.

(* replaced pat rep s out: out is s with the leftmost occurrence of pat replaced by rep, then the leftmost
   occurrence in what FOLLOWS that occurrence, and so on (the replacement text is never searched again) *)
Inductive replaced (pat rep : list Z) : list Z -> list Z -> Prop :=
| rp_none : forall s, ~ occurs_in pat s -> replaced pat rep s s
| rp_hit : forall pre rest out,
    leftmost pat pre rest -> replaced pat rep rest out ->
    replaced pat rep (pre ++ pat ++ rest) (pre ++ rep ++ out).

(* ------------------------------------------------------------------------------------------------ *)
(* 2. macro arguments: "#?k" stands for the k-th argument, all placeholders replaced AT ONCE          *)

(* decimal numeral of a non-negative number *)
Fixpoint digits (fuel : nat) (n : Z) : list Z :=
  match fuel with
  | O => []
  | S f => if n <? 10 then [48 + n] else digits f (n / 10) ++ [48 + n mod 10]
  end.
Definition decimal (n : Z) : list Z := digits (S (Z.to_nat n)) n.

Definition placeholder (k : Z) : list Z := [35; 63] ++ decimal k.        (* "#?" k *)

(* the placeholders of a call with arguments a1, a2, ...: ("#?1", a1), ("#?2", a2), ... *)
Fixpoint placeholders (k : Z) (args : list (list Z)) : list (list Z * list Z) :=
  match args with
  | [] => []
  | a :: r => (placeholder k, a) :: placeholders (k + 1) r
  end.

(* the placeholder standing at the head of s; of two candidates the LONGER one ("#?12" rather than "#?1") *)
Fixpoint at_head (tbl : list (list Z * list Z)) (s : list Z) : option (list Z * list Z) :=
  match tbl with
  | [] => None
  | (p, v) :: t =>
      let best := at_head t s in
      if starts p s && negb (match p with [] => true | _ => false end) then
        match best with
        | Some (p', _) => if (length p <? length p')%nat then best else Some (p, v)
        | None => Some (p, v)
        end
      else best
  end.

(* one pass over the text: a placeholder is replaced by its argument (which is NOT read again), any other
   character is kept.  `skip` = characters of the current placeholder still to be dropped. *)
Fixpoint simultaneous_from (tbl : list (list Z * list Z)) (skip : nat) (s : list Z) : list Z :=
  match s with
  | [] => []
  | c :: r =>
      match skip with
      | S k => simultaneous_from tbl k r
      | O => match at_head tbl s with
             | Some (p, v) => v ++ simultaneous_from tbl (Nat.pred (length p)) r
             | None => c :: simultaneous_from tbl 0 r
             end
      end
  end.

Definition simultaneous (args : list (list Z)) (body : list Z) : list Z :=
  simultaneous_from (placeholders 1 args) 0 body.

(* where replacing the placeholders one after the other (what the program does) is guaranteed to be the same:
   an argument can neither contain nor complete a placeholder, and neither can the body around one *)
Definition arg_inert (a : list Z) : bool := negb (contains [35; 63] a) && negb (ends_with 35 a).
Definition body_inert (b : list Z) : bool := negb (contains [35; 35] b) && negb (contains [35; 63; 35] b).

(* ------------------------------------------------------------------------------------------------ *)
(* 3. Rhythm{ text }                                                                                  *)

(* command.md: `$(char){ defined }` defines a one-character rhythm macro; inside Rhythm{...} a letter that
   has a definition stands for it.  A definition table is a total map from characters to texts, the empty text
   meaning "no definition".  Parenthesised spans are not expanded (Sakura v2: "( ) no naka wa chikan shinai")
   and are copied without their outer parentheses; nested parentheses are counted.  The word Sub/SUB is kept
   (spelled SUB) so that Sub{...} still works inside a rhythm block. *)
Inductive rmode := RNormal | RSkip (k : nat) | RParen (depth : nat).

Definition definable (c : Z) : bool := (64 <=? c) && (c <=? 127).      (* 0x40 .. 0x7F *)

Fixpoint rhythm_text (def : Z -> list Z) (m : rmode) (s : list Z) : list Z :=
  match s with
  | [] => []
  | c :: r =>
      match m with
      | RSkip (S k) => rhythm_text def (RSkip k) r
      | RParen d =>
          if c =? 40 then c :: rhythm_text def (RParen (S d)) r
          else if c =? 41 then
            match d with
            | O => rhythm_text def RNormal r                      (* the closing parenthesis of the span *)
            | S d' => c :: rhythm_text def (RParen d') r
            end
          else c :: rhythm_text def (RParen d) r
      | _ =>
          if starts [83; 117; 98] s || starts [83; 85; 66] s then      (* "Sub" / "SUB" *)
            [83; 85; 66] ++ rhythm_text def (RSkip 2) r
          else if c =? 40 then rhythm_text def (RParen 0) r
          else if definable c then
            match def c with
            | [] => c :: rhythm_text def RNormal r
            | t => t ++ rhythm_text def RNormal r
            end
          else c :: rhythm_text def RNormal r
      end
  end.

Definition rhythm_expansion (def : Z -> list Z) (text : list Z) : list Z := rhythm_text def RNormal text.

(* `$x{t}`: from now on x stands for t, every other character as before *)
Definition redefine (def : Z -> list Z) (x : Z) (t : list Z) : Z -> list Z :=
  fun c => if c =? x then t else def c.
