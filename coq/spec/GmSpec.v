(* Constants of the MIDI standards, written by hand from the standards and independent of the model
   and of /repo:  MIDI 1.0 Detailed Specification (controller numbers, RPN, universal SysEx),
   Standard MIDI Files 1.0 (meta event types), General MIDI System Level 1 (sound set, percussion
   key map, GM System On), Roland GS (reset, effect parameter addresses, checksum, NRPN), Yamaha XG
   (XG System On).  Names are the English names under which the Sakura command list exposes them. *)
From Coq Require Import String Ascii List ZArith Bool.
Import ListNotations.
Open Scope Z_scope.

(* a Coq string as a list of code points (only ASCII is used here) *)
Definition zs (s : string) : list Z := map (fun a => Z.of_N (N_of_ascii a)) (list_ascii_of_string s).

Fixpoint zlist_eq (a b : list Z) : bool :=
  match a, b with
  | [], [] => true
  | x :: a', y :: b' => (x =? y) && zlist_eq a' b'
  | _, _ => false
  end.
Fixpoint assoc {A} (k : list Z) (l : list (list Z * A)) : option A :=
  match l with
  | [] => None
  | (k', v) :: r => if zlist_eq k k' then Some v else assoc k r
  end.

(* ---- MIDI 1.0: control change numbers ---- *)
Definition CC_BANK_MSB : Z := 0.
Definition CC_MODULATION : Z := 1.
Definition CC_PORTAMENTO_TIME : Z := 5.
Definition CC_DATA_ENTRY : Z := 6.
Definition CC_VOLUME : Z := 7.
Definition CC_PAN : Z := 10.
Definition CC_EXPRESSION : Z := 11.
Definition CC_BANK_LSB : Z := 32.
Definition CC_SUSTAIN : Z := 64.
Definition CC_PORTAMENTO_SWITCH : Z := 65.
Definition CC_REVERB : Z := 91.      (* effects 1 depth: reverb send level *)
Definition CC_CHORUS : Z := 93.      (* effects 3 depth: chorus send level *)
Definition CC_VARIATION : Z := 94.   (* effects 4 depth: XG variation / GS delay send level *)
Definition CC_NRPN_LSB : Z := 98.
Definition CC_NRPN_MSB : Z := 99.
Definition CC_RPN_LSB : Z := 100.
Definition CC_RPN_MSB : Z := 101.

(* the controller each named controller command of the command list stands for (full English name
   and its abbreviation) *)
Definition named_controllers : list (list Z * Z) :=
  [ (zs "Modulation", CC_MODULATION); (zs "M", CC_MODULATION);
    (zs "PortamentoTime", CC_PORTAMENTO_TIME); (zs "PT", CC_PORTAMENTO_TIME);
    (zs "MainVolume", CC_VOLUME); (zs "V", CC_VOLUME);
    (zs "Panpot", CC_PAN); (zs "P", CC_PAN);
    (zs "Expression", CC_EXPRESSION); (zs "EP", CC_EXPRESSION);
    (zs "PortamentoSwitch", CC_PORTAMENTO_SWITCH); (zs "PS", CC_PORTAMENTO_SWITCH);
    (zs "Reverb", CC_REVERB); (zs "REV", CC_REVERB);
    (zs "Chorus", CC_CHORUS); (zs "CHO", CC_CHORUS);
    (zs "Variation", CC_VARIATION); (zs "VAR", CC_VARIATION) ].

(* ---- registered parameter numbers (MSB, LSB) ---- *)
Definition RPN_PITCH_BEND_SENSITIVITY : Z * Z := (0, 0).
Definition RPN_FINE_TUNE : Z * Z := (0, 1).
Definition RPN_COARSE_TUNE : Z * Z := (0, 2).
Definition named_rpn : list (list Z * (Z * Z)) :=
  [ (zs "PitchBendSensitivity", RPN_PITCH_BEND_SENSITIVITY); (zs "BendRange", RPN_PITCH_BEND_SENSITIVITY);
    (zs "BEND_RANGE", RPN_PITCH_BEND_SENSITIVITY); (zs "BR", RPN_PITCH_BEND_SENSITIVITY);
    (zs "FineTune", RPN_FINE_TUNE); (zs "CoarseTune", RPN_COARSE_TUNE) ].

(* ---- GS / XG non-registered parameter numbers (MSB 01H) ---- *)
Definition named_nrpn : list (list Z * (Z * Z)) :=
  [ (zs "VibratoRate", (1, 8)); (zs "VibratoDepth", (1, 9)); (zs "VibratoDelay", (1, 10));
    (zs "FilterCutoff", (1, 32)); (zs "FilterResonance", (1, 33));
    (zs "EGAttack", (1, 99)); (zs "EGDecay", (1, 100)); (zs "EGRelease", (1, 102)) ].

(* ---- Standard MIDI Files 1.0: meta event types ---- *)
Definition META_TEXT : Z := 1.
Definition META_COPYRIGHT : Z := 2.
Definition META_TRACK_NAME : Z := 3.
Definition META_INSTRUMENT_NAME : Z := 4.
Definition META_LYRIC : Z := 5.
Definition META_MARKER : Z := 6.
Definition META_CUE_POINT : Z := 7.
Definition META_PORT : Z := 33.          (* FF 21 01 pp *)
Definition META_TEMPO : Z := 81.         (* FF 51 03 tttttt *)
Definition META_TIME_SIGNATURE : Z := 88.  (* FF 58 04 nn dd cc bb *)
Definition named_text_meta : list (list Z * Z) :=
  [ (zs "MetaText", META_TEXT); (zs "Text", META_TEXT); (zs "TEXT", META_TEXT);
    (zs "Copyright", META_COPYRIGHT); (zs "COPYRIGHT", META_COPYRIGHT);
    (zs "TrackName", META_TRACK_NAME); (zs "TRACK_NAME", META_TRACK_NAME);
    (zs "InstrumentName", META_INSTRUMENT_NAME);
    (zs "Lyric", META_LYRIC); (zs "LYRIC", META_LYRIC);
    (zs "MAKER", META_MARKER); (zs "Maker", META_MARKER);   (* sic: the command list spells Marker "Maker" *)
    (zs "CuePoint", META_CUE_POINT) ].

Definition MICROSECONDS_PER_MINUTE : Z := 60000000.
(* the three payload bytes of Set Tempo for `bpm` quarter notes per minute *)
Definition tempo_payload (bpm : Z) : list Z :=
  let us := MICROSECONDS_PER_MINUTE / bpm in [us / 65536; (us / 256) mod 256; us mod 256].
(* time signature nn/dd with the customary 24 MIDI clocks per click and 8 32nd notes per quarter *)
Definition log2_denominator (dd : Z) : option Z :=
  if dd =? 2 then Some 1 else if dd =? 4 then Some 2 else if dd =? 8 then Some 3 else if dd =? 16 then Some 4 else None.
Definition timesig_payload (nn dd : Z) : option (list Z) :=
  match log2_denominator dd with Some l => Some [nn; l; 24; 8] | None => None end.

(* pitch bend: 14 bits, centre 8192, transmitted LSB first *)
Definition BEND_CENTRE : Z := 8192.
Definition bend_lsb (v14 : Z) : Z := v14 mod 128.
Definition bend_msb (v14 : Z) : Z := v14 / 128.

(* ---- system exclusive strings (without the leading F0, as stored in an SMF F0 event) ---- *)
Definition GM_SYSTEM_ON : list Z := [126; 127; 9; 1; 247].                        (* F0 7E 7F 09 01 F7 *)
Definition GS_RESET (dev : Z) : list Z := [65; dev; 66; 18; 64; 0; 127; 0; 65; 247].  (* F0 41 dev 42 12 40 00 7F 00 41 F7 *)
Definition XG_SYSTEM_ON (dev : Z) : list Z := [67; dev; 76; 0; 0; 126; 0; 247].      (* F0 43 1n 4C 00 00 7E 00 F7 *)
Definition DEFAULT_DEVICE : Z := 16.   (* Roland device id 10H = Yamaha 1n with n = 0 *)
Definition named_resets : list (list Z * list Z) :=
  [ (zs "ResetGM", GM_SYSTEM_ON); (zs "ResetGS", GS_RESET DEFAULT_DEVICE); (zs "ResetXG", XG_SYSTEM_ON DEFAULT_DEVICE) ].
(* universal real time device control: F0 7F 7F 04 01 ll mm F7 (master volume), 04 02 (master balance) *)
Definition MASTER_VOLUME (v7 : Z) : list Z := [127; 127; 4; 1; 0; v7; 247].
Definition MASTER_BALANCE (v14 : Z) : list Z := [127; 127; 4; 2; v14 mod 128; v14 / 128; 247].

(* Roland checksum: the byte that makes address + data + checksum a multiple of 128 *)
Definition roland_checksum (body : list Z) : Z := (128 - fold_right Z.add 0 body mod 128) mod 128.
Definition roland_ok (body_and_sum : list Z) : bool := fold_right Z.add 0 body_and_sum mod 128 =? 0.
(* GS data set DT1: F0 41 dev 42 12 <address, data> checksum F7 *)
Definition GS_DT1 (dev : Z) (body : list Z) : list Z := [65; dev; 66; 18] ++ body ++ [roland_checksum body; 247].
(* GS effect parameters live at 40 01 xx *)
Definition named_gs_effects : list (list Z * Z) :=
  [ (zs "GSReverbMacro", 48); (zs "GSReverbCharacter", 49); (zs "GSReverbPRE_LPE", 50); (zs "GSReverbLevel", 51);
    (zs "GSReverbTime", 52); (zs "GSReverbFeedback", 53); (zs "GSReverbSendToChorus", 54);
    (zs "GSChorusMacro", 56); (zs "GSChorusPRE_LPF", 57); (zs "GSChorusLevel", 58); (zs "GSChorusFeedback", 59);
    (zs "GSChorusDelay", 60); (zs "GSChorusRate", 61); (zs "GSChorusDepth", 62); (zs "GSChorusSendToReverb", 63);
    (zs "GSChorusSendToDelay", 64) ].

(* ---- General MIDI level 1 sound set, 1-based program numbers, a representative selection of the
   instruments whose GM name the command list uses unambiguously ---- *)
Definition gm_programs : list (list Z * Z) :=
  [ (zs "GrandPiano", 1); (zs "BrightPiano", 2); (zs "ElectricGrandPiano", 3); (zs "HonkyTonkPiano", 4);
    (zs "ElectricPiano1", 5); (zs "ElectricPiano2", 6); (zs "Harpsichord", 7); (zs "Clavi", 8);
    (zs "Glockenspiel", 10); (zs "MusicBox", 11); (zs "Vibraphone", 12); (zs "Marimba", 13); (zs "Xylophone", 14);
    (zs "TubularBells", 15); (zs "Dulcimer", 16); (zs "DrawbarOrgan", 17); (zs "PercussiveOrgan", 18);
    (zs "RockOrgan", 19); (zs "ChurchOrgan", 20); (zs "ReedOrgan", 21); (zs "Accordion", 22); (zs "TangoAccordion", 24);
    (zs "NylonGuitar", 25); (zs "SteelGuitar", 26); (zs "JazzGuitar", 27); (zs "CleanGuitar", 28); (zs "MutedGuitar", 29);
    (zs "OverdrivenGuitar", 30); (zs "DistortionGuitar", 31); (zs "GuitarHarmonics", 32);
    (zs "AcousticBass", 33); (zs "FingerBass", 34); (zs "PickBass", 35); (zs "FretlessBass", 36);
    (zs "SlapBass1", 37); (zs "SlapBass2", 38); (zs "SynthBass1", 39); (zs "SynthBass2", 40);
    (zs "Violin", 41); (zs "Viola", 42); (zs "Cello", 43); (zs "Contrabass", 44); (zs "TremoloStrings", 45);
    (zs "PizzicatoStrings", 46); (zs "OrchestralHarp", 47); (zs "Timpani", 48);
    (zs "SynthStrings1", 51); (zs "SynthStrings2", 52); (zs "ChoirAahs", 53); (zs "VoiceOohs", 54);
    (zs "SynthVoice", 55); (zs "OrchestraHit", 56);
    (zs "Trumpet", 57); (zs "Trombone", 58); (zs "Tuba", 59); (zs "MutedTrumpet", 60); (zs "FrenchHorn", 61);
    (zs "BrassSection", 62); (zs "SynthBrass1", 63); (zs "SynthBrass2", 64);
    (zs "SopranoSax", 65); (zs "AltoSax", 66); (zs "TenorSax", 67); (zs "BaritoneSax", 68); (zs "Oboe", 69);
    (zs "EnglishHorn", 70); (zs "Bassoon", 71); (zs "Clarinet", 72); (zs "Piccolo", 73); (zs "Flute", 74);
    (zs "Recorder", 75); (zs "PanFlute", 76); (zs "BlownBottle", 77); (zs "Shakuhachi", 78); (zs "Whistle", 79);
    (zs "Ocarina", 80);
    (zs "Sitar", 105); (zs "Banjo", 106); (zs "Shamisen", 107); (zs "Koto", 108); (zs "Kalimba", 109);
    (zs "Bagpipe", 110); (zs "Fiddle", 111); (zs "Shanai", 112); (zs "TinkleBell", 113); (zs "Agogo", 114);
    (zs "SteelDrums", 115); (zs "Woodblock", 116); (zs "TaikoDrum", 117); (zs "MelodicTom", 118); (zs "SynthDrum", 119);
    (zs "ReverseCymbal", 120); (zs "Seashore", 123); (zs "BirdTweet", 124); (zs "TelephoneRing", 125);
    (zs "Helicopter", 126); (zs "Applause", 127); (zs "Gunshot", 128) ].

(* General MIDI level 1 percussion key map (keys 35..81) under the command list's names *)
Definition gm_percussion : list (list Z * Z) :=
  [ (zs "Kick2", 35); (zs "Kick1", 36); (zs "SideStick", 37); (zs "Snare1", 38); (zs "HandClap", 39); (zs "Snare2", 40);
    (zs "LowTom2", 41); (zs "ClosedHiHat", 42); (zs "LowTom1", 43); (zs "PedalHiHat", 44); (zs "MidTom2", 45);
    (zs "OpenHiHat", 46); (zs "MidTom1", 47); (zs "HighTom2", 48); (zs "CrashCymbal1", 49); (zs "HighTom1", 50);
    (zs "RideCymbal1", 51); (zs "ChineseCymbal", 52); (zs "RideBell", 53); (zs "Tambourine", 54); (zs "SplashCymbal", 55);
    (zs "Cowbell", 56); (zs "CrashCymbal2", 57); (zs "VibraSlap", 58); (zs "RideCymbal2", 59); (zs "HighBongo", 60);
    (zs "LowBongo", 61); (zs "MuteHighConga", 62); (zs "OpenHighConga", 63); (zs "LowConga", 64); (zs "HighTimbale", 65);
    (zs "LowTimbale", 66); (zs "HighAgogo", 67); (zs "LowAgogo", 68); (zs "Cabasa", 69); (zs "Maracas", 70);
    (zs "ShortHiWhistle", 71); (zs "LongLowWhistle", 72); (zs "ShortGuiro", 73); (zs "LongGuiro", 74); (zs "Claves", 75);
    (zs "HighWoodBlock", 76); (zs "LowWoodBlock", 77); (zs "MuteCuica", 78); (zs "OpenCuica", 79);
    (zs "MuteTriangle", 80); (zs "OpenTriangle", 81) ].
