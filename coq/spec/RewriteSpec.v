(* Specification of the sutoton preprocessor, independent of the model: a vocabulary is a table of
   (word, MML) pairs; text is rewritten by replacing, at every position, the LONGEST word of the
   table that is a prefix of the remaining text; characters that start no word are passed through the
   width map (full-width forms FF01..FF5E -> ASCII, the space-like characters -> ' ').
   Text is a list of Unicode scalar values. *)
From Coq Require Import List ZArith Bool Lia.
Import ListNotations.
Open Scope Z_scope.

Definition entry := (list Z * list Z)%type.       (* word, its MML *)
Definition table := list entry.

Fixpoint starts (p s : list Z) : bool :=
  match p, s with
  | [], _ => true
  | x :: p', y :: s' => (x =? y) && starts p' s'
  | _ :: _, [] => false
  end.

Definition is_nil (l : list Z) : bool := match l with [] => true | _ => false end.

(* the longest non-empty word of the table that is a prefix of `rest` (None when no word is).
   Of two rows with the same word the later one wins, as a later definition overrides. *)
Fixpoint longest_match (T : table) (rest : list Z) : option entry :=
  match T with
  | [] => None
  | (n, v) :: T' =>
      let best := longest_match T' rest in
      if negb (is_nil n) && starts n rest then
        match best with
        | Some (n', _) => if (length n' <? length n)%nat then Some (n, v) else best
        | None => Some (n, v)
        end
      else best
  end.

(* the declarative reading of "longest": a row of the table, a prefix, and no other prefix is longer *)
Definition is_prefix (p s : list Z) : Prop := exists t, s = p ++ t.
Definition is_longest (T : table) (rest : list Z) (e : entry) : Prop :=
  In e T /\ fst e <> [] /\ is_prefix (fst e) rest /\
  forall e', In e' T -> fst e' <> [] -> is_prefix (fst e') rest -> (length (fst e') <= length (fst e))%nat.

(* width map: FF01..FF5E are the full-width forms of 21..7E; EN SPACE..ZERO WIDTH SPACE (2002..200B),
   IDEOGRAPHIC SPACE (3000) and ZERO WIDTH NO-BREAK SPACE (FEFF) become ' ' *)
Definition is_fullwidth (c : Z) : bool := (0xFF01 <=? c) && (c <=? 0xFF5E).
Definition is_wide_space (c : Z) : bool :=
  ((0x2002 <=? c) && (c <=? 0x200B)) || (c =? 0x3000) || (c =? 0xFEFF).
Definition width_map (c : Z) : Z :=
  if is_fullwidth c then c - 0xFEE0 else if is_wide_space c then 32 else c.

(* a later definition ~{name}={mml}: overrides the row of that word, or adds one *)
Fixpoint define (n v : list Z) (T : table) : table :=
  match T with
  | [] => [(n, v)]
  | (n', v') :: T' => if starts n n' && starts n' n then (n', v) :: T' else (n', v') :: define n v T'
  end.

(* the number of line breaks (LF, U+000A) of a text *)
Definition line_breaks (s : list Z) : nat := count_occ Z.eq_dec s 10.

(* what a definition leaves in the converted text: the text of the definition - from '~' to the closing
   brace of the value, or to where the reading of a malformed one stops; blanks and /* */ comments between
   its parts included - is removed, but its line breaks stay, so that every later line keeps its number
   (the compiler reports line numbers of the CONVERTED text). Nothing else is written. *)
Definition definition_residue (removed : list Z) : list Z := repeat 10 (line_breaks removed).

(* reference rewriting of a text that contains no strings, comments or definitions *)
Fixpoint rewrite (fuel : nat) (T : table) (s : list Z) : list Z :=
  match fuel with
  | O => []
  | S f =>
      match s with
      | [] => []
      | c :: r =>
          match longest_match T s with
          | Some (n, v) => v ++ rewrite f T (skipn (length n) s)
          | None => width_map c :: rewrite f T r
          end
      end
  end.

(* A piece of Japanese notation: a vocabulary word with its MML, or a single other character. *)
Inductive piece := PWord (n v : list Z) | PChar (c : Z).
Definition piece_src (p : piece) : list Z := match p with PWord n _ => n | PChar c => [c] end.
Definition piece_out (p : piece) : list Z := match p with PWord _ v => v | PChar c => [width_map c] end.
Definition src_of (ps : list piece) : list Z := flat_map piece_src ps.
(* the transliteration: the MML of every word, the width map of every other character *)
Definition translit (ps : list piece) : list Z := flat_map piece_out ps.

(* characters the converter treats specially (after the width map): '{' (strings), '/' (comments),
   '~' and OVERLINE U+203E (definitions) *)
Definition is_special (c : Z) : bool :=
  let h := width_map c in (h =? 123) || (h =? 47) || (h =? 126) || (h =? 0x203E).

Definition entry_eqb (a b : entry) : bool :=
  starts (fst a) (fst b) && starts (fst b) (fst a) && starts (snd a) (snd b) && starts (snd b) (snd a).

(* `ps` is an unambiguous reading of its text (followed by `tail`): at the start of every piece the
   table's longest match is exactly that word (or there is no match, for a single character), and no
   piece starts with a special character *)
Fixpoint segmented (T : table) (ps : list piece) (tail : list Z) : bool :=
  match ps with
  | [] => true
  | p :: r =>
      let rest := piece_src p ++ src_of r ++ tail in
      negb (is_special (hd 0 rest)) &&
      (match p, longest_match T rest with
       | PWord n v, Some e => negb (is_nil n) && entry_eqb e (n, v)
       | PChar _, None => true
       | _, _ => false
       end) && segmented T r tail
  end.

(* does `sp` occur in `s` *)
Fixpoint occursb (sp s : list Z) : bool :=
  starts sp s || match s with [] => false | _ :: r => occursb sp r end.

(* Text that the converter has to leave alone: characters other than '~' that start no string or
   comment, closed strings {"..."}, closed comments // ...\n and /* ... */ (closed = the terminator
   does not occur before the end). `ok c` says which plain characters are meant (ASCII for the
   identity theorem). *)
Inductive passthru (ok : Z -> Prop) : list Z -> Prop :=
| pt_nil : passthru ok []
| pt_char c r : ok c -> c <> 126 ->
    ~ (c = 123 /\ hd 0 r = 34) -> ~ (c = 47 /\ (hd 0 r = 47 \/ hd 0 r = 42)) ->
    passthru ok r -> passthru ok (c :: r)
| pt_string body r : occursb [34; 125] ([123; 34] ++ body) = false ->
    passthru ok r -> passthru ok ([123; 34] ++ body ++ [34; 125] ++ r)
| pt_line body r : ~ In 10 body ->
    passthru ok r -> passthru ok ([47; 47] ++ body ++ [10] ++ r)
| pt_block body r : occursb [42; 47] ([47; 42] ++ body) = false ->
    passthru ok r -> passthru ok ([47; 42] ++ body ++ [42; 47] ++ r).

Definition is_ascii (c : Z) : Prop := 0 <= c < 128.

(* Unicode White_Space, for "apart from trailing white space" *)
Definition white (c : Z) : bool :=
  ((9 <=? c) && (c <=? 13)) || (c =? 32) || (c =? 0x85) || (c =? 0xA0) || (c =? 0x1680)
  || ((0x2000 <=? c) && (c <=? 0x200A)) || (c =? 0x2028) || (c =? 0x2029) || (c =? 0x202F)
  || (c =? 0x205F) || (c =? 0x3000).
Fixpoint strip_left (s : list Z) : list Z :=
  match s with c :: r => if white c then strip_left r else s | [] => [] end.
(* white space removed at the end only: what the converter does to its result *)
Definition strip_right (s : list Z) : list Z := rev (strip_left (rev s)).
Definition strip (s : list Z) : list Z := rev (strip_left (rev (strip_left s))).
