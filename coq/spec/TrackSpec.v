(* What a track's event list denotes on the wire: the (delta, message) sequence the property
   demands to find when the MTrk body is decoded with SmfSpec.decode_track.  Values outside the
   7-bit (4-bit channel, 14-bit bend) range are saturated, a PitchBendRange is the three-controller
   RPN sequence, an empty SysEx is nothing, times never run backwards. *)
From Sakura.Model Require Import Base Event.
From Sakura.Spec Require Import SmfSpec.
Open Scope Z_scope.

Definition clamp (lo hi v : Z) : Z := Z.min (Z.max v lo) hi.

Definition wire_msgs (e : event) : list msg :=
  let ch := clamp 0 15 (e_ch e) in
  match e_type e with
  | NoteOn => [MNoteOn ch (clamp 0 127 (e_v1 e)) (clamp 0 127 (e_v3 e))]
  | NoteOff => [MNoteOff ch (clamp 0 127 (e_v1 e)) (clamp 0 127 (e_v3 e))]
  | Voice => [MProgram ch (clamp 0 127 (e_v1 e))]
  | ControllChange => [MCC ch (clamp 0 127 (e_v1 e)) (clamp 0 127 (e_v2 e))]
  | PitchBend => let v := clamp 0 16383 (e_v1 e) in [MBend ch (v mod 128) (v / 128)]
  | PitchBendRange =>
      let range := if (0 <=? e_v1 e) && (e_v1 e <=? 24) then e_v1 e else 0 in
      [MCC ch 101 0; MCC ch 100 0; MCC ch 6 range]
  | Meta => match e_data e with Some d => [MMeta (e_v2 e) d] | None => [] end
  | SysEx => match e_data e with
             | Some (b0 :: rest) => [MSysEx (if b0 =? 240 then rest else b0 :: rest)]
             | _ => []
             end
  | DirectSMF => []
  end.

Fixpoint wire (tp : Z) (evs : list event) : list (Z * msg) :=
  match evs with
  | [] => []
  | e :: r =>
      match wire_msgs e with
      | [] => wire tp r
      | m :: ms => ((Z.max (e_time e - tp) 0, m) :: map (fun x => (0, x)) ms) ++ wire (Z.max tp (e_time e)) r
      end
  end.

Definition EOTmsg : Z * msg := (0, MMeta 47 []).

(* events the statement covers: meta events are well-formed (FF, 7-bit type, length byte equal
   to the payload, not a premature End-of-Track), payloads are bytes; verbatim DirectSMF bytes are
   excluded (only the empty one, which writes nothing, is admitted) *)
Definition bytes_ok (d : list Z) : bool := forallb byte_ok d.
Definition event_ok (e : event) : bool :=
  match e_type e with
  | Meta => match e_data e with
            | Some d => (e_v1 e =? 255) && data7 (e_v2 e) && (e_v3 e =? zlen d) && (zlen d <? 128)
                        && bytes_ok d && negb ((e_v2 e =? 47) && (zlen d =? 0))
            | None => false end
  | SysEx => match e_data e with Some d => bytes_ok d && (zlen d <? 2 ^ 28) | None => false end
  | DirectSMF => match e_data e with Some [] => true | _ => false end
  | _ => true
  end.
Definition deltas_ok (l : list (Z * msg)) : bool := forallb (fun p => fst p <? 2 ^ 28) l.

(* absolute tick of every decoded message *)
Fixpoint abs_ticks (t0 : Z) (l : list (Z * msg)) : list Z :=
  match l with [] => [] | (d, _) :: r => (t0 + d) :: abs_ticks (t0 + d) r end.
