(* C16: what the reservations are required to do, written from the property text; independent of
   model/Reserve.v (only Base conventions and the Event constructors are shared). *)
From Sakura.Model Require Import Base Event.

(* ticks of one ramp segment, relative to its start: 0 <= j < len with freq | j, ascending *)
Definition count_up (n : nat) : list Z := map Z.of_nat (seq 0 n).
Definition ticks (freq len : Z) : list Z := filter (fun j => j mod freq =? 0) (count_up (Z.to_nat len)).

(* a segment list (lo, hi, len)* is laid out piecewise: segment i starts where segment i-1 ended;
   a segment of non-positive length occupies no time *)
Fixpoint seg_starts (base : Z) (segs : list (Z * Z * Z)) : list Z :=
  match segs with
  | [] => []
  | (_, _, len) :: r => base :: seg_starts (base + Z.max 0 len) r
  end.
Fixpoint seg_total (segs : list (Z * Z * Z)) : Z :=
  match segs with [] => 0 | (_, _, len) :: r => len + seg_total r end.

(* the segment that contains relative time c, with the offset inside it *)
Fixpoint locate (segs : list (Z * Z * Z)) (c : Z) : option (Z * Z * Z * Z) :=
  match segs with
  | [] => None
  | (lo, hi, len) :: r => if (0 <=? c) && (c <? len) then Some (lo, hi, len, c) else locate r (c - len)
  end.

(* events of a ramp: for each segment (with its start b), one event per tick, value = clamp of `value` *)
Definition ramp_spec (mk : Z -> Z -> event) (value : Z -> Z -> Z -> Z -> Z) (freq maxv : Z)
    (base : Z) (segs : list (Z * Z * Z)) : list event :=
  flat_map (fun bs : Z * (Z * Z * Z) =>
              let '(b, (lo, hi, len)) := bs in
              map (fun j => mk (b + j) (value_range 0 (value lo hi j len) maxv)) (ticks freq len))
           (combine (seg_starts base segs) segs).

(* controller .onNote: pending lists are (controller number, values); the note number j (counted from
   the reservation) writes the j-th value of every list that still has one, in reservation order *)
Definition cc_at (start ch : Z) (j : nat) (l : list (Z * list Z)) : list event :=
  flat_map (fun c : Z * list Z =>
              match nth_error (snd c) j with Some v => [ev_cc start ch (fst c) v] | None => [] end) l.
Fixpoint cc_notes (ch : Z) (j : nat) (l : list (Z * list Z)) (starts : list Z) : list event :=
  match starts with
  | [] => []
  | s :: r => cc_at s ch j l ++ cc_notes ch (S j) l r
  end.
