(* C05 - what loop brackets MEAN: structured programs and their semantics by repetition.
   Written from the documented meaning of `[n body]` and `[n a : b]`, not from runner.rs: there is no
   position, no stack and no scan here.  The only thing shared with the machine (model/LoopMachine.v) is
   the token alphabet `ltok D`, needed to say what the FLAT text of a structured program is.

   Parametric exactly like the Section of LoopMachine.v:
     D        payload of a non-loop token          step   its effect on the interpreter state
     St       interpreter state                    halted the "stop everything" flag (break_flag != 0)
     count_of the repetition count of a `[` token, evaluated in the state in which the loop is entered *)
From Coq Require Import List ZArith Bool Lia.
From Sakura.Model Require Import LoopMachine.
Import ListNotations.

Section Spec.
  Variable D : Type.
  Variable St : Type.
  Variable step : D -> St -> St.
  Variable halted : St -> bool.
  Variable count_of : Z -> St -> nat.

  (* [n a]  = Loop n a None        [n a : b]  = Loop n a (Some b) *)
  Inductive item :=
  | Leaf (d : D)
  | Loop (n : Z) (a : prog) (b : option prog)
  with prog :=
  | PNil
  | PCons (i : item) (p : prog).

  (* mutual induction principle with hypotheses for BOTH parts of `[n a : b]`
     (the automatically generated Scheme gives none for the `option prog` argument) *)
  Section Induction.
    Variable P : item -> Prop.
    Variable Q : prog -> Prop.
    Hypothesis HLeaf : forall d, P (Leaf d).
    Hypothesis HLoopN : forall n a, Q a -> P (Loop n a None).
    Hypothesis HLoopS : forall n a b, Q a -> Q b -> P (Loop n a (Some b)).
    Hypothesis HNil : Q PNil.
    Hypothesis HCons : forall i p, P i -> Q p -> Q (PCons i p).

    Fixpoint item_mutind (i : item) : P i :=
      match i with
      | Leaf d => HLeaf d
      | Loop n a b =>
          match b return P (Loop n a b) with
          | None => HLoopN n a (prog_mutind a)
          | Some b' => HLoopS n a b' (prog_mutind a) (prog_mutind b')
          end
      end
    with prog_mutind (p : prog) : Q p :=
      match p with
      | PNil => HNil
      | PCons i p' => HCons i p' (item_mutind i) (prog_mutind p')
      end.

    Definition item_prog_mutind : (forall i, P i) /\ (forall p, Q p) :=
      conj item_mutind prog_mutind.
  End Induction.

  (* ---- the flat text of a structured program ---- *)
  Fixpoint flat_item (i : item) : list (ltok D) :=
    match i with
    | Leaf d => [LOther d]
    | Loop n a b =>
        match b with
        | None => LBegin n :: flatten a ++ [LEnd]
        | Some b' => LBegin n :: flatten a ++ [LBreak] ++ flatten b' ++ [LEnd]
        end
    end
  with flatten (p : prog) : list (ltok D) :=
    match p with
    | PNil => []
    | PCons i p' => flat_item i ++ flatten p'
    end.

  (* ---- semantics ---- *)

  (* k passes of a loop whose first part does fa and whose part after ':' does fb:
     (fa ; fb) (k-1) times, then fa.  Each pass starts in the state left by the previous one.
     Without ':' fb is the identity, so this is fa k times.  Zero passes do nothing. *)
  Fixpoint passes (fa fb : St -> St) (k : nat) (s : St) : St :=
    match k with
    | O => s
    | S k' =>
        match k' with
        | O => fa s
        | S _ => passes fa fb k' (fb (fa s))
        end
    end.

  (* A halted state is left unchanged by a token (the machine stops as soon as the flag is up); for a loop
     this follows (sem_halted in proofs/LoopP.v).  The count is evaluated ONCE, in the entry state. *)
  Fixpoint sem_item (i : item) (s : St) : St :=
    match i with
    | Leaf d => if halted s then s else step d s
    | Loop n a b =>
        passes (sem a)
               (match b with None => fun x => x | Some b' => sem b' end)
               (count_of n s) s
    end
  with sem (p : prog) (s : St) : St :=
    match p with
    | PNil => s
    | PCons i p' => sem p' (sem_item i s)
    end.

  Definition sem_opt (b : option prog) : St -> St :=
    match b with None => fun x => x | Some b' => sem b' end.

  (* ---- programs as texts: concatenation and n-fold repetition ---- *)
  Fixpoint papp (p q : prog) : prog :=
    match p with
    | PNil => q
    | PCons i p' => PCons i (papp p' q)
    end.

  Fixpoint prepeat (k : nat) (p : prog) : prog :=
    match k with
    | O => PNil
    | S k' => papp p (prepeat k' p)
    end.

  (* ---- a property of every `[` count occurring in a program ---- *)
  Fixpoint counts_item (R : Z -> Prop) (i : item) : Prop :=
    match i with
    | Leaf _ => True
    | Loop n a b =>
        R n /\ counts R a /\ match b with None => True | Some b' => counts R b' end
    end
  with counts (R : Z -> Prop) (p : prog) : Prop :=
    match p with
    | PNil => True
    | PCons i p' => counts_item R i /\ counts R p'
    end.

  (* every loop of p repeats at least once, whatever the state in which it is entered
     (for a literal count `[3 ...]` the state plays no role) *)
  Definition loops_pos (p : prog) : Prop := counts (fun n => forall s, 1 <= count_of n s) p.

  (* ---- an explicit number of machine steps that always suffices (an upper bound, not exact) ---- *)
  Fixpoint cpasses (ca cb : St -> nat) (fa fb : St -> St) (k : nat) (s : St) : nat :=
    match k with
    | O => 0
    | S k' => ca s + cb (fa s) + 2 + cpasses ca cb fa fb k' (fb (fa s))
    end.

  Fixpoint cost_item (i : item) (s : St) : nat :=
    match i with
    | Leaf _ => 1
    | Loop n a b =>
        1 + cpasses (cost a)
                    (match b with None => fun _ => 0 | Some b' => cost b' end)
                    (sem a)
                    (match b with None => fun x => x | Some b' => sem b' end)
                    (count_of n s) s
    end
  with cost (p : prog) (s : St) : nat :=
    match p with
    | PNil => 0
    | PCons i p' => cost_item i s + cost p' (sem_item i s)
    end.

  Definition cost_opt (b : option prog) : St -> nat :=
    match b with None => fun _ => 0 | Some b' => cost b' end.
End Spec.

Arguments Leaf {D} d.
Arguments Loop {D} n a b.
Arguments PNil {D}.
Arguments PCons {D} i p.
Arguments flat_item {D} i.
Arguments flatten {D} p.
Arguments papp {D} p q.
Arguments prepeat {D} k p.
Arguments passes {St} fa fb k s.
Arguments cpasses {St} ca cb fa fb k s.
Arguments counts_item {D} R i.
Arguments counts {D} R p.
