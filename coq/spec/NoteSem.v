(* The core note language as the documentation (README.md, command.md) describes it: a syntax tree,
   a printer, and a structural semantics producing the sounded notes per track.  Independent of the model:
   no token machine, no loop stack, no chord flags, no sentinel values - loops are unrolled, blocks are
   recursive calls, optional parameters are `option`s.  Lengths are LenSpec expressions. *)
From Coq Require Import List ZArith Bool Lia.
From Sakura.Spec Require Import LenSpec.
Import ListNotations.
Open Scope Z_scope.

Definition olen := option expr.          (* an omitted length *)

Inductive cmd :=
| CNote (base acc : Z) (natural : bool) (len : olen) (gate vel timing oct : option Z)
| CNoteN (no : Z) (len : olen) (gate vel timing : option Z)
| CRest (len : olen)
| CLen (len : olen) | COct (v : Z) | CVel (v : Z) | CGate (v : Z) | CTiming (v : Z)
| COctUp | COctDown | CVelUp | CVelDown
| CLoop (n : option Z) (body : list cmd) (brk : option (list cmd))
| CChord (items : list cmd) (len : olen) (gate vel : option Z)     (* items: CNote without parameters, COctUp, COctDown *)
| CTuplet (items : list cmd) (len : olen)
| CSub (body : list cmd)
| CTrack (n : Z) | CChannel (n : Z) | CVoice (n : Z)
| CKeyFlag (sharp : bool) (letters : list Z)     (* KF+(fc) / KF-(b): the named letters get +1 / -1, all others 0 *)
| CKeyShift (k : Z) | CTrackKey (k : Z)
(* octave-once marks in front of a lettered note: back-quote (k = 1) raises, double quote (k = -1) lowers the octave FOR THIS NOTE ONLY *)
| COnce (marks : list Z) (base acc : Z) (natural : bool) (len : olen) (gate vel timing oct : option Z).

(* ---- printer: commands separated by one blank, numbers as decimal literals ---- *)
Fixpoint digits_of (fuel : nat) (n : Z) (acc : list Z) : list Z :=
  match fuel with
  | O => acc
  | S f => let acc' := (48 + n mod 10) :: acc in if n / 10 =? 0 then acc' else digits_of f (n / 10) acc'
  end.
Definition pnum (n : Z) : list Z := if n <? 0 then 45 :: digits_of 40 (- n) [] else digits_of 40 n [].
Definition plen (l : olen) : list Z := match l with Some e => print e | None => [] end.
Definition letter_char (base : Z) : Z :=
  if base =? 0 then 99 else if base =? 2 then 100 else if base =? 4 then 101 else if base =? 5 then 102
  else if base =? 7 then 103 else if base =? 9 then 97 else 98.
Definition pacc (acc : Z) : list Z := if acc <? 0 then repeat 45 (Z.to_nat (- acc)) else repeat 43 (Z.to_nat acc).
Definition popt (o : option Z) : list Z := match o with Some v => pnum v | None => [] end.
(* trailing parameters ",gate,vel,timing,oct": printed up to the last one that is present *)
Definition pparams (ps : list (option Z)) : list Z :=
  let fix go (ps : list (option Z)) : list Z :=
    match ps with
    | [] => []
    | p :: r => if forallb (fun o => match o with None => true | _ => false end) ps then []
                else [44] ++ popt p ++ go r
    end in go ps.

Fixpoint pcmd (c : cmd) : list Z :=
  let pblock := fix pblock (l : list cmd) : list Z :=
    match l with [] => [] | x :: r => pcmd x ++ [32] ++ pblock r end in
  match c with
  | CNote base acc natural len gate vel timing oct =>
      [letter_char base] ++ pacc acc ++ (if natural then [42] else []) ++ plen len ++ pparams [gate; vel; timing; oct]
  | CNoteN no len gate vel timing => [110] ++ pnum no ++ [44] ++ plen len ++ pparams [gate; vel; timing]
  | CRest len => [114] ++ plen len
  | CLen len => [108] ++ plen len
  | COct v => [111] ++ pnum v | CVel v => [118] ++ pnum v | CGate v => [113] ++ pnum v | CTiming v => [116] ++ pnum v
  | COctUp => [62] | COctDown => [60] | CVelUp => [41] | CVelDown => [40]
  | CLoop n body brk =>
      [91] ++ popt n ++ [32] ++ pblock body
      ++ (match brk with Some b => [58; 32] ++ pblock b | None => [] end) ++ [93]
  | CChord items len gate vel => [39] ++ pblock items ++ [39] ++ plen len ++ pparams [gate; vel]
  | CTuplet items len => [123] ++ pblock items ++ [125] ++ plen len
  | CSub body => [83; 117; 98; 123] ++ pblock body ++ [125]
  | CTrack n => [84; 82; 40] ++ pnum n ++ [41]
  | CChannel n => [67; 72; 40] ++ pnum n ++ [41]
  | CVoice n => [64; 40] ++ pnum n ++ [41]
  | CKeyFlag sharp letters => [75; 70] ++ (if sharp then [43] else [45]) ++ [40] ++ map letter_char letters ++ [41]
  | CKeyShift k => [75; 101; 121; 83; 104; 105; 102; 116; 40] ++ pnum k ++ [41]
  | CTrackKey k => [84; 114; 97; 99; 107; 75; 101; 121; 40] ++ pnum k ++ [41]
  | COnce marks base acc natural len gate vel timing oct =>
      map (fun k => if k >? 0 then 96 else 34) marks
      ++ [letter_char base] ++ pacc acc ++ (if natural then [42] else []) ++ plen len ++ pparams [gate; vel; timing; oct]
  end.
Fixpoint pprog (l : list cmd) : list Z :=
  match l with [] => [] | x :: r => pcmd x ++ [32] ++ pprog r end.

(* ---- semantics ---- *)
Record note := mkNote { n_ch : Z; n_key : Z; n_start : Z; n_dur : Z; n_vel : Z }.

Record tstate := mkT {
  t_pos : Z; t_ch : Z; t_len : Z; t_oct : Z; t_vel : Z; t_gate : Z; t_timing : Z; t_key : Z; t_notes : list note
}.
Definition clampz (lo hi v : Z) : Z := if v <? lo then lo else if v >? hi then hi else v.
(* documented defaults: octave 5, velocity 100, gate 90, quarter-note length, channel = track number *)
Definition tstate_new (timebase : Z) (trackno : Z) : tstate :=
  mkT 0 (clampz 0 15 (trackno - 1)) timebase 5 100 90 0 0 [].

Record perf := mkP { p_tracks : list tstate; p_cur : nat; p_tb : Z; p_keyflag : list Z; p_keyshift : Z; p_oct_once : Z }.
Definition perf0 : perf := mkP [tstate_new 96 0] 0 96 [0;0;0;0;0;0;0;0;0;0;0;0] 0 0.
Definition vAdd : Z := 8.
(* the octave a note sounds in after octave-once marks: every mark moves one octave, staying within 0..10 *)
Definition once_oct (marks : list Z) (o : Z) : Z := fold_left (fun o k => clampz 0 10 (o + k)) marks o.

Definition cur (p : perf) : tstate := nth (p_cur p) (p_tracks p) (tstate_new 0 0).
Fixpoint upd {A} (n : nat) (f : A -> A) (l : list A) : list A :=
  match l, n with [], _ => [] | x :: r, O => f x :: r | x :: r, S k => x :: upd k f r end.
Definition with_cur (p : perf) (f : tstate -> tstate) : perf :=
  mkP (upd (p_cur p) f (p_tracks p)) (p_cur p) (p_tb p) (p_keyflag p) (p_keyshift p) (p_oct_once p).
Definition set_pos (t : tstate) (v : Z) := mkT v (t_ch t) (t_len t) (t_oct t) (t_vel t) (t_gate t) (t_timing t) (t_key t) (t_notes t).
Definition set_len (t : tstate) (v : Z) := mkT (t_pos t) (t_ch t) v (t_oct t) (t_vel t) (t_gate t) (t_timing t) (t_key t) (t_notes t).
Definition set_oct (t : tstate) (v : Z) := mkT (t_pos t) (t_ch t) (t_len t) v (t_vel t) (t_gate t) (t_timing t) (t_key t) (t_notes t).
Definition add_note (t : tstate) (n : note) := mkT (t_pos t) (t_ch t) (t_len t) (t_oct t) (t_vel t) (t_gate t) (t_timing t) (t_key t) (t_notes t ++ [n]).

Definition len_of (p : perf) (l : olen) (def : Z) : Z :=
  match l with Some e => denote (p_tb p) def e | None => def end.
Definition keyflag_of (p : perf) (base : Z) : Z := nth (Z.to_nat (base mod 12)) (p_keyflag p) 0.
Definition key_of (p : perf) (base acc : Z) (natural : bool) (oct : option Z) : Z :=
  let t := cur p in
  let o := match oct with Some o => o | None => t_oct t end in
  clampz 0 127 (o * 12 + base + acc + (if natural then 0 else keyflag_of p base) + p_keyshift p + t_key t).
Definition opt_or (o : option Z) (d : Z) : Z := match o with Some v => v | None => d end.


(* one sounding note at the current position; the pointer advances by the full length whatever the gate *)
Definition play (p : perf) (key : Z) (len : Z) (gate vel timing : Z) : perf :=
  let t := cur p in
  let n := mkNote (t_ch t) key (t_pos t + timing) (Z.quot (len * gate) 100) (clampz 0 127 vel) in
  with_cur p (fun t => set_pos (add_note t n) (t_pos t + len)).

Fixpoint grow_tracks (k : nat) (tb : Z) (ts : list tstate) : list tstate :=
  match k with O => ts | S k' => grow_tracks k' tb (ts ++ [tstate_new tb (Z.of_nat (length ts))]) end.

Fixpoint repeat_fn {A} (n : nat) (f : A -> A) (x : A) : A := match n with O => x | S k => repeat_fn k f (f x) end.

(* number of elements of a tuplet that take a share of its length: notes, rests, nested tuplets, and
   every '^' written in their lengths *)
Definition hats (l : olen) : Z :=
  match l with Some e => Z.of_nat (length (filter (fun c => c =? 94) (print e))) | None => 0 end.
(* written elements are counted wherever they stand in the tuplet's own text: inside loop brackets and
   chords too (a chord's notes one by one), but not inside Sub{...} or a nested tuplet (which counts as one) *)
Fixpoint count_cmd (c : cmd) : Z :=
  let sum := fix sum (l : list cmd) : Z := match l with [] => 0 | x :: r => count_cmd x + sum r end in
  match c with
  | CNote _ _ _ l _ _ _ _ => 1 + hats l
  | CNoteN _ l _ _ _ => 1 + hats l
  | CRest l => 1 + hats l
  | CTuplet _ l => 1 + hats l
  | COnce _ _ _ _ l _ _ _ _ => 1 + hats l
  | CChord its _ _ _ => sum its
  | CLoop _ body brk => sum body + match brk with Some b => sum b | None => 0 end
  | _ => 0
  end.
Definition tuplet_count (items : list cmd) : Z := fold_left (fun a c => a + count_cmd c) items 0.

Fixpoint sem (fuel : nat) (c : cmd) (p : perf) : perf :=
  match fuel with
  | O => p
  | S f =>
    let run := fix run (l : list cmd) (p : perf) : perf := match l with [] => p | x :: r => run r (sem f x p) end in
    match c with
    | CNote base acc natural len gate vel timing oct =>
        let t := cur p in
        play p (key_of p base acc natural oct) (len_of p len (t_len t))
             (opt_or gate (t_gate t)) (opt_or vel (t_vel t)) (opt_or timing (t_timing t))
    | CNoteN no len gate vel timing =>
        let t := cur p in
        play p (clampz 0 127 (no + t_key t + p_keyshift p)) (len_of p len (t_len t))
             (opt_or gate (t_gate t)) (opt_or vel (t_vel t)) (opt_or timing (t_timing t))
    | CRest len => with_cur p (fun t => set_pos t (t_pos t + len_of p len (t_len t)))
    | CLen len => with_cur p (fun t => set_len t (len_of p len (p_tb p)))
    | COct v => with_cur p (fun t => set_oct t (clampz 0 10 v))
    | CVel v => with_cur p (fun t => mkT (t_pos t) (t_ch t) (t_len t) (t_oct t) (clampz 0 127 v) (t_gate t) (t_timing t) (t_key t) (t_notes t))
    | CGate v => with_cur p (fun t => mkT (t_pos t) (t_ch t) (t_len t) (t_oct t) (t_vel t) (clampz 0 100 v) (t_timing t) (t_key t) (t_notes t))
    | CTiming v => with_cur p (fun t => mkT (t_pos t) (t_ch t) (t_len t) (t_oct t) (t_vel t) (t_gate t) v (t_key t) (t_notes t))
    | COctUp => with_cur p (fun t => set_oct t (clampz 0 10 (t_oct t + 1)))
    | COctDown => with_cur p (fun t => set_oct t (clampz 0 10 (t_oct t - 1)))
    | CVelUp => with_cur p (fun t => mkT (t_pos t) (t_ch t) (t_len t) (t_oct t) (clampz 0 127 (t_vel t + vAdd)) (t_gate t) (t_timing t) (t_key t) (t_notes t))
    | CVelDown => with_cur p (fun t => mkT (t_pos t) (t_ch t) (t_len t) (t_oct t) (clampz 0 127 (t_vel t - vAdd)) (t_gate t) (t_timing t) (t_key t) (t_notes t))
    | CLoop n body brk =>
        let k := Z.to_nat (opt_or n 2) in
        match brk with
        | None => repeat_fn k (run body) p
        | Some b => run body (repeat_fn (k - 1) (fun q => run b (run body q)) p)
        end
    | CChord items len gate vel =>
        (* every note starts at the chord's start, lasts (chord length * gate / 100), pointer += one length *)
        let t0 := cur p in
        let start := t_pos t0 in
        let l := len_of p len (t_len t0) in
        let g := opt_or gate (t_gate t0) in
        let step (q : perf) (c : cmd) : perf :=
          match c with
          | CNote base acc natural _ _ _ _ _ =>
              let t := cur q in
              let n := mkNote (t_ch t) (key_of q base acc natural None) start (Z.quot (l * g) 100)
                              (clampz 0 127 (opt_or vel (t_vel t))) in
              with_cur q (fun t => add_note t n)
          | COctUp | COctDown => sem f c q
          | _ => q
          end in
        with_cur (fold_left step items p) (fun t => set_pos t (start + l))
    | CTuplet items len =>
        let t0 := cur p in
        let l := len_of p len (t_len t0) in
        let cnt := tuplet_count items in
        let share := if cnt >? 0 then Z.quot l cnt else 0 in
        let p1 := run items (with_cur p (fun t => set_len t share)) in
        with_cur p1 (fun t => set_len (set_pos t (t_pos t0 + l)) (t_len t0))
    | CSub body =>
        let pos0 := t_pos (cur p) in
        with_cur (run body p) (fun t => set_pos t pos0)
    | CTrack n =>
        let k := Z.to_nat n in
        mkP (grow_tracks (S k - length (p_tracks p)) (p_tb p) (p_tracks p)) k (p_tb p) (p_keyflag p) (p_keyshift p) (p_oct_once p)
    | CChannel n => with_cur p (fun t => mkT (t_pos t) (clampz 1 16 n - 1) (t_len t) (t_oct t) (t_vel t) (t_gate t) (t_timing t) (t_key t) (t_notes t))
    | CVoice _ => p
    | CKeyFlag sharp letters =>
        let v := if sharp then 1 else -1 in
        let kf := fold_left (fun l b => upd (Z.to_nat b) (fun _ => v) l) letters [0;0;0;0;0;0;0;0;0;0;0;0] in
        mkP (p_tracks p) (p_cur p) (p_tb p) kf (p_keyshift p) (p_oct_once p)
    | CKeyShift k => mkP (p_tracks p) (p_cur p) (p_tb p) (p_keyflag p) k (p_oct_once p)
    | CTrackKey k => with_cur p (fun t => mkT (t_pos t) (t_ch t) (t_len t) (t_oct t) (t_vel t) (t_gate t) (t_timing t) k (t_notes t))
    | COnce marks base acc natural len gate vel timing oct =>
        (* the note sounds as written, in the octave the marks lead to; afterwards the octave is what it was before them *)
        let o0 := t_oct (cur p) in
        let p1 := with_cur p (fun t => set_oct t (once_oct marks o0)) in
        let t := cur p1 in
        with_cur (play p1 (key_of p1 base acc natural oct) (len_of p1 len (t_len t))
                       (opt_or gate (t_gate t)) (opt_or vel (t_vel t)) (opt_or timing (t_timing t)))
                 (fun t => set_oct t o0)
    end
  end.

Fixpoint sem_prog (fuel : nat) (l : list cmd) (p : perf) : perf :=
  match l with [] => p | x :: r => sem_prog fuel r (sem fuel x p) end.

(* nesting depth bounds the fuel needed *)
Fixpoint depth (c : cmd) : nat :=
  let dl := fix dl (l : list cmd) : nat := match l with [] => O | x :: r => Nat.max (depth x) (dl r) end in
  match c with
  | CLoop _ body brk => S (Nat.max (dl body) (match brk with Some b => dl b | None => O end))
  | CChord items _ _ _ => S (dl items)
  | CTuplet items _ => S (dl items)
  | CSub body => S (dl body)
  | _ => 1%nat
  end.
Definition prog_depth (l : list cmd) : nat := fold_right (fun c d => Nat.max (depth c) d) O l.
Definition denote_prog (l : list cmd) : perf := sem_prog (S (prog_depth l)) l perf0.
