(* UTF-8 (RFC 3629), written from the RFC and independent of the model: the bit layout of the four
   forms and a strict decoder (shortest form only, no surrogates, nothing above U+10FFFF). *)
From Coq Require Import List ZArith Bool Lia.
Import ListNotations.
Open Scope Z_scope.

(* Unicode scalar value *)
Definition scalar (c : Z) : Prop := 0 <= c < 55296 \/ 57344 <= c < 1114112.
Definition scalarb (c : Z) : bool := ((0 <=? c) && (c <? 55296)) || ((57344 <=? c) && (c <? 1114112)).

(*  0xxxxxxx | 110xxxxx 10xxxxxx | 1110xxxx 10xxxxxx 10xxxxxx | 11110xxx 10xxxxxx 10xxxxxx 10xxxxxx *)
Definition utf8_bytes (c : Z) : list Z :=
  if c <=? 127 then [c]
  else if c <=? 2047 then [192 + Z.shiftr c 6; 128 + Z.land c 63]
  else if c <=? 65535 then [224 + Z.shiftr c 12; 128 + Z.land (Z.shiftr c 6) 63; 128 + Z.land c 63]
  else [240 + Z.shiftr c 18; 128 + Z.land (Z.shiftr c 12) 63; 128 + Z.land (Z.shiftr c 6) 63; 128 + Z.land c 63].
Definition utf8 (s : list Z) : list Z := flat_map utf8_bytes s.

Definition cont (b : Z) : bool := (128 <=? b) && (b <? 192).

(* one character from the front of a byte string *)
Definition utf8_decode1 (bs : list Z) : option (Z * list Z) :=
  match bs with
  | [] => None
  | b0 :: r =>
      if (0 <=? b0) && (b0 <? 128) then Some (b0, r)
      else if (192 <=? b0) && (b0 <? 224) then
        match r with
        | b1 :: r' => let c := (b0 - 192) * 64 + (b1 - 128) in
                      if cont b1 && (128 <=? c) then Some (c, r') else None
        | _ => None end
      else if (224 <=? b0) && (b0 <? 240) then
        match r with
        | b1 :: b2 :: r' => let c := ((b0 - 224) * 64 + (b1 - 128)) * 64 + (b2 - 128) in
                            if cont b1 && cont b2 && (2048 <=? c) && scalarb c then Some (c, r') else None
        | _ => None end
      else if (240 <=? b0) && (b0 <? 248) then
        match r with
        | b1 :: b2 :: b3 :: r' => let c := (((b0 - 240) * 64 + (b1 - 128)) * 64 + (b2 - 128)) * 64 + (b3 - 128) in
                                  if cont b1 && cont b2 && cont b3 && (65536 <=? c) && scalarb c then Some (c, r') else None
        | _ => None end
      else None
  end.
Fixpoint utf8_decode_f (fuel : nat) (bs : list Z) : option (list Z) :=
  match fuel with
  | O => None
  | S f => match bs with
           | [] => Some []
           | _ => match utf8_decode1 bs with
                  | Some (c, r) => match utf8_decode_f f r with Some l => Some (c :: l) | None => None end
                  | None => None
                  end
           end
  end.
Definition utf8_decode (bs : list Z) : option (list Z) := utf8_decode_f (S (length bs)) bs.

(* the longest prefix of s whose encoding stays below `limit` bytes *)
Fixpoint fit_below (limit : Z) (s : list Z) : list Z :=
  match s with
  | [] => []
  | c :: r => let n := Z.of_nat (length (utf8_bytes c)) in
              if n <? limit then c :: fit_below (limit - n) r else []
  end.
