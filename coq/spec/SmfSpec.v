(* Standard MIDI File 1.0, written from the standard and independent of the model:
   a strict chunk parser and a strict track-event decoder (no running status, as the property
   demands explicit status bytes; VLQ of at most 4 bytes; data bytes < 128). *)
From Coq Require Import List ZArith Bool Lia.
Import ListNotations.
Open Scope Z_scope.

(* ---- variable-length quantity: at most 4 bytes, 7 bits each, high bit = continuation ---- *)
Fixpoint vlq_decode_u (acc : Z) (bs : list Z) : option (Z * list Z) :=
  match bs with
  | b :: r =>
      if (0 <=? b) && (b <? 128) then Some (acc * 128 + b, r)
      else if (128 <=? b) && (b <? 256) then vlq_decode_u (acc * 128 + (b - 128)) r
      else None
  | [] => None
  end.
Definition vlq_decode (bs : list Z) : option (Z * list Z) :=
  match vlq_decode_u 0 bs with
  | Some (v, r) => if Nat.leb (length bs - length r) 4 then Some (v, r) else None
  | None => None
  end.

Inductive msg :=
| MNoteOff (ch key vel : Z) | MNoteOn (ch key vel : Z) | MPolyAT (ch key v : Z)
| MCC (ch no v : Z) | MProgram (ch p : Z) | MChanAT (ch v : Z) | MBend (ch lsb msb : Z)
| MMeta (ty : Z) (payload : list Z) | MSysEx (payload : list Z) | MEscape (payload : list Z).

Definition data7 (b : Z) : bool := (0 <=? b) && (b <? 128).
Definition byte_ok (b : Z) : bool := (0 <=? b) && (b <? 256).

(* take exactly n bytes *)
Fixpoint take_n (n : nat) (bs : list Z) : option (list Z * list Z) :=
  match n with
  | O => Some ([], bs)
  | S k => match bs with
           | b :: r => if byte_ok b then
                         match take_n k r with Some (t, r') => Some (b :: t, r') | None => None end
                       else None
           | [] => None
           end
  end.

(* one event (after its delta time) *)
Definition decode_msg (bs : list Z) : option (msg * list Z) :=
  match bs with
  | st :: r =>
      let hi := st / 16 in let ch := st mod 16 in
      if (128 <=? st) && (st <? 240) then
        if (hi =? 12) || (hi =? 13) then
          match r with
          | a :: r' => if data7 a then Some ((if hi =? 12 then MProgram ch a else MChanAT ch a), r') else None
          | _ => None
          end
        else
          match r with
          | a :: b :: r' =>
              if data7 a && data7 b then
                Some ((if hi =? 8 then MNoteOff ch a b else if hi =? 9 then MNoteOn ch a b
                       else if hi =? 10 then MPolyAT ch a b else if hi =? 11 then MCC ch a b
                       else MBend ch a b), r')
              else None
          | _ => None
          end
      else if st =? 255 then
        match r with
        | ty :: r1 =>
            if data7 ty then
              match vlq_decode r1 with
              | Some (len, r2) => match take_n (Z.to_nat len) r2 with
                                  | Some (p, r3) => Some (MMeta ty p, r3)
                                  | None => None end
              | None => None
              end
            else None
        | _ => None
        end
      else if (st =? 240) || (st =? 247) then
        match vlq_decode r with
        | Some (len, r2) => match take_n (Z.to_nat len) r2 with
                            | Some (p, r3) => Some ((if st =? 240 then MSysEx p else MEscape p), r3)
                            | None => None end
        | None => None
        end
      else None
  | [] => None
  end.

Definition is_eot (m : msg) : bool := match m with MMeta 47 [] => true | _ => false end.

(* a track body: (delta, message)*, End-of-Track exactly once and last *)
Fixpoint decode_track_f (fuel : nat) (bs : list Z) : option (list (Z * msg)) :=
  match fuel with
  | O => None
  | S f =>
      match vlq_decode bs with
      | None => None
      | Some (dt, r) =>
          match decode_msg r with
          | None => None
          | Some (m, r') =>
              if is_eot m then (match r' with [] => Some [(dt, m)] | _ => None end)
              else match decode_track_f f r' with
                   | Some l => Some ((dt, m) :: l)
                   | None => None
                   end
          end
      end
  end.
Definition decode_track (bs : list Z) : option (list (Z * msg)) := decode_track_f (S (length bs)) bs.

(* ---- container ---- *)
(* exactly n bytes of a chunk body (contents are the business of decode_track) *)
Fixpoint take_raw (n : nat) (bs : list Z) : option (list Z * list Z) :=
  match n with
  | O => Some ([], bs)
  | S k => match bs with
           | b :: r => match take_raw k r with Some (t, r') => Some (b :: t, r') | None => None end
           | [] => None
           end
  end.

Definition be16 (a b : Z) : Z := a * 256 + b.
Definition be32 (a b c d : Z) : Z := ((a * 256 + b) * 256 + c) * 256 + d.

Record header := mkHeader { h_format : Z; h_ntrks : Z; h_division : Z }.

(* MTrk chunks until the input is exhausted; nothing may precede, separate or trail them *)
Fixpoint parse_chunks_f (fuel : nat) (bs : list Z) : option (list (list Z)) :=
  match fuel with
  | O => None
  | S f =>
      match bs with
      | [] => Some []
      | 77 :: 84 :: 114 :: 107 :: a :: b :: c :: d :: r =>
          if byte_ok a && byte_ok b && byte_ok c && byte_ok d then
            match take_raw (Z.to_nat (be32 a b c d)) r with
            | Some (body, r') => match parse_chunks_f f r' with
                                 | Some l => Some (body :: l)
                                 | None => None end
            | None => None
            end
          else None
      | _ => None
      end
  end.

Definition parse_file (bs : list Z) : option (header * list (list Z)) :=
  match bs with
  | 77 :: 84 :: 104 :: 100 :: 0 :: 0 :: 0 :: 6 :: f1 :: f2 :: n1 :: n2 :: d1 :: d2 :: r =>
      if byte_ok f1 && byte_ok f2 && byte_ok n1 && byte_ok n2 && byte_ok d1 && byte_ok d2 then
        match parse_chunks_f (S (length r)) r with
        | Some chunks => Some (mkHeader (be16 f1 f2) (be16 n1 n2) (be16 d1 d2), chunks)
        | None => None
        end
      else None
  | _ => None
  end.

(* the container demanded by the property: format 1, count = number of chunks, positive 15-bit
   division, every chunk ends with End-of-Track *)
Fixpoint zlist_eqb (a b : list Z) : bool :=
  match a, b with
  | [], [] => true
  | x :: a', y :: b' => (x =? y) && zlist_eqb a' b'
  | _, _ => false
  end.
(* the last three bytes are FF 2F 00 *)
Definition ends_with_eot (body : list Z) : bool :=
  zlist_eqb (skipn (length body - 3) body) [255; 47; 0].
Definition container_ok (bs : list Z) : bool :=
  match parse_file bs with
  | Some (h, chunks) =>
      (h_format h =? 1) && (h_ntrks h =? Z.of_nat (length chunks))
      && (0 <? h_division h) && (h_division h <? 32768) && forallb ends_with_eot chunks
  | None => false
  end.
