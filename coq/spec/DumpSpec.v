(* What the dump is compared with, written independently of the dump model (model/Dump.v):
   - the absolute tick the compiler assigns to TIME(m:b:t) (runner.rs exec_get_time: one beat is
     4*timebase/deno ticks, one measure is `num` beats, the fields count from 1/1/0);
   - the position of a tick, measure first: measure = t div (beat*num), beat = remainder div beat;
   - how a decoded SMF message (SmfSpec.msg) is shown on a dump line, from the formats the dump
     documents by its own output (`NoteOn($kk,$vv)  // oNname,,vel`, `CC($nn,$vv)`, ...), as a
     function of the message FIELDS (not of bytes and positions);
   - the lines of a track: one per (delta, message) item, in order, each at the position of its
     absolute tick under the signature set by the last TimeSig message before it.
   Number and text formatting (`{}`, `{:03}`, `{:02x}`, `{:02X}`, bytes -> characters) is a parameter. *)
From Coq Require Import List ZArith Bool Lia.
From Coq Require String Ascii.
From Sakura.Spec Require Import SmfSpec.
Import ListNotations.
Import String.StringSyntax.
Delimit Scope string_scope with string.
Open Scope Z_scope.

Definition beat_ticks (timebase deno : Z) : Z := 4 * timebase / deno.
Definition time_of (beat num m b t : Z) : Z := (m - 1) * (beat * num) + (b - 1) * beat + t.

(* measure : beat : tick of absolute tick t; measures and beats count from 1 *)
Definition position_of (timebase num deno t : Z) : Z * Z * Z :=
  let beat := beat_ticks timebase deno in
  let measure := beat * num in
  (t / measure + 1, (t mod measure) / beat + 1, t mod beat).

Record printers := mkPrinters {
  p_dec : Z -> list Z;       (* {}    *)
  p_dec3 : Z -> list Z;      (* {:03} *)
  p_hex : Z -> list Z;       (* {:02x} *)
  p_HEX : Z -> list Z;       (* {:02X} *)
  p_text : list Z -> list Z  (* payload bytes as characters *)
}.

Fixpoint lit (s : String.string) : list Z :=
  match s with
  | String.EmptyString => []
  | String.String c r => Z.of_nat (Ascii.nat_of_ascii c) :: lit r
  end.
Arguments lit s%string.

Section Show.
Variable P : printers.

Definition note_table : list (list Z) :=
  [lit "c"; lit "c#"; lit "d"; lit "d#"; lit "e"; lit "f"; lit "f#"; lit "g"; lit "g#"; lit "a"; lit "a#"; lit "b"].
Definition note_label (k : Z) : list Z :=
  lit "o" ++ p_dec P (k / 12) ++ nth (Z.to_nat (k mod 12)) note_table [].

Definition meta_label (ty len : Z) : list Z :=
  if ty =? 1 then lit "TEXT" else if ty =? 2 then lit "COPYRIGHT" else if ty =? 3 then lit "TRACK_NAME"
  else if ty =? 4 then lit "INSTRUMENT_NAME" else if ty =? 5 then lit "LYRIC" else if ty =? 6 then lit "MARKER"
  else if ty =? 7 then lit "CUE_POINT"
  else lit "// Meta Type=$" ++ p_hex P ty ++ lit " Length=" ++ p_dec P len ++ lit " Text=".

Definition sysex_bytes (p : list Z) : list Z :=
  flat_map (fun b => p_HEX P b ++ (if b =? 247 then [] else lit ",")) p.

Definition show_msg (m : msg) : list Z :=
  match m with
  | MNoteOff ch k v => lit "NoteOff($" ++ p_hex P k ++ lit ",$" ++ p_hex P v ++ lit ") // " ++ note_label k
  | MNoteOn ch k v => lit "NoteOn($" ++ p_hex P k ++ lit ",$" ++ p_hex P v ++ lit ")  // " ++ note_label k
                      ++ lit ",," ++ p_dec P v
  | MPolyAT ch k v => lit "DirectSMF($" ++ p_hex P (160 + ch) ++ lit ",$" ++ p_hex P k ++ lit ",$" ++ p_hex P v ++ lit ")"
  | MCC ch n v => lit "CC($" ++ p_hex P n ++ lit ",$" ++ p_hex P v ++ lit ")"
  | MProgram ch p => lit "Voice(" ++ p_dec P (p + 1) ++ lit ") // $" ++ p_hex P (192 + ch) ++ lit ",$" ++ p_hex P p
  | MChanAT ch v => lit "DirectSMF($" ++ p_hex P (208 + ch) ++ lit ",$" ++ p_hex P v ++ lit ") // Channel after touch"
  | MBend ch l h => lit "PitchBend(" ++ p_dec P (h * 128 + l - 8192) ++ lit ") /* p" ++ p_dec P h ++ lit " */"
  | MMeta ty p =>
      if ty =? 47 then lit "/* __END_OF_TRACK__ */"
      else if ty =? 81 then
        match p with
        | [a; b; c] => let mpq := (a * 256 + b) * 256 + c in
                       lit "Tempo=" ++ p_dec P (if mpq =? 0 then 0 else 60000000 / mpq)
        | _ => []
        end
      else if ty =? 88 then
        match p with
        | nn :: dd :: _ => lit "TimeSig=" ++ p_dec P nn ++ lit "/" ++ p_dec P (2 ^ dd)
        | _ => []
        end
      else meta_label ty (Z.of_nat (length p)) ++ lit "{" ++ p_text P p ++ lit "};"
  | MSysEx p => lit "SysEx$=F0,/*len:" ++ p_HEX P (Z.of_nat (length p)) ++ lit "*/" ++ sysex_bytes p ++ lit ";"
  | MEscape p => []
  end.

Definition time_field (mbt : Z * Z * Z) : list Z :=
  let '(m, b, t) := mbt in
  lit "TIME(" ++ p_dec3 P m ++ lit ":" ++ p_dec3 P b ++ lit ":" ++ p_dec3 P t ++ lit ") ".

(* the signature (num, deno) in force after a message *)
Definition sig_after (s : Z * Z) (m : msg) : Z * Z :=
  match m with
  | MMeta ty p => if ty =? 88 then match p with nn :: dd :: _ => (nn, 2 ^ dd) | _ => s end else s
  | _ => s
  end.

(* one line per item: position of the item's absolute tick under the signature in force, then the message *)
Fixpoint track_lines (timebase : Z) (s : Z * Z) (t0 : Z) (l : list (Z * msg)) : list (list Z) * (Z * Z) :=
  match l with
  | [] => ([], s)
  | (dt, m) :: r =>
      let t := t0 + dt in
      let '(ls, s') := track_lines timebase (sig_after s m) t r in
      ((time_field (position_of timebase (fst s) (snd s) t) ++ show_msg m) :: ls, s')
  end.

Definition track_header (no : Z) : list (list Z) := [lit "// ----- TRACK -----"; lit "TRACK(" ++ p_dec P no ++ lit ")"].
Definition file_header (ntracks timebase : Z) : list (list Z) :=
  [lit "// ----- MIDI DUMP DATA -----"; lit "/// [MThd] midi format=" ++ p_dec P 1;
   lit "/// [MThd] track_count=" ++ p_dec P ntracks; lit "TIMEBASE=" ++ p_dec P timebase].

(* all tracks of a file; the signature carries over from one track to the next (file order) *)
Fixpoint file_lines (timebase : Z) (s : Z * Z) (no : Z) (tracks : list (list (Z * msg))) : list (list Z) :=
  match tracks with
  | [] => []
  | l :: r =>
      let '(ls, s') := track_lines timebase s 0 l in
      track_header no ++ ls ++ file_lines timebase s' (no + 1) r
  end.
End Show.

(* ---- the messages the statement covers ---- *)
Definition is_byte (b : Z) : Prop := 0 <= b <= 255.
Definition chan_ok (ch : Z) : Prop := 0 <= ch <= 15.
Definition seven (v : Z) : Prop := 0 <= v <= 127.
(* channel messages with 7-bit data; metas with a 7-bit type other than End-of-Track and fewer than 128
   payload bytes, a tempo of three bytes, a signature with numerator >= 1 whose beat is at
   least one tick; SysEx of fewer than 128 seven-bit bytes closed by F7 *)
Definition dump_msg_ok (timebase : Z) (m : msg) : Prop :=
  match m with
  | MNoteOff ch k v | MNoteOn ch k v | MPolyAT ch k v | MCC ch k v | MBend ch k v => chan_ok ch /\ seven k /\ seven v
  | MProgram ch p | MChanAT ch p => chan_ok ch /\ seven p
  | MMeta ty p =>
      seven ty /\ ty <> 47 /\ Z.of_nat (length p) < 128 /\ Forall is_byte p /\
      (ty = 81 -> exists a b c, p = [a; b; c]) /\
      (ty = 88 -> exists nn dd r, p = nn :: dd :: r /\ 1 <= nn /\ dd <= 30 /\ 0 < beat_ticks timebase (2 ^ dd))
  | MSysEx p => Z.of_nat (length p) < 128 /\ exists body, p = body ++ [247] /\ Forall seven body
  | MEscape _ => False
  end.
Definition dump_item_ok (timebase : Z) (it : Z * msg) : Prop :=
  0 <= fst it < 2 ^ 28 /\ dump_msg_ok timebase (snd it).
Definition sig_ok (timebase : Z) (s : Z * Z) : Prop := 0 < fst s /\ 0 < snd s /\ 0 < beat_ticks timebase (snd s).
Fixpoint total_delta (l : list (Z * msg)) : Z :=
  match l with [] => 0 | (dt, _) :: r => dt + total_delta r end.
