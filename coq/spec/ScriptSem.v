(* C11 - what IF / FOR / WHILE / BREAK / CONTINUE / RETURN and user functions MEAN: a big-step semantics of structured
   scripts.  Written from the property text and the language documentation, not from runner.rs: there is no token
   position, no break_flag, no value stack, no function id arithmetic here.

   Generic (like LoopSpec.v) in everything that is not control flow.  The types
     Name        variable / function names                    Atom             leaf commands (notes, rests, ...)
     Val         values of expressions                        Op               operators / literals / built-in functions
     World       everything outside the variables             Bnd              what a name can be bound to, viewed through
                 (tracks, log, ...)                                            `view` as a value, a function or something opaque
     FId         function identities                          Err              errors a leaf can raise
   and the record `lang` of their operations: equality of names, the name `Result`, truth of a value, the values "none" and
   "zero", X++ on a value, the effect of a leaf on the world (l_atom_sem), the operators (l_op_sem; l_op_name = the name a
   built-in function is called by), the value of an unbound name, the log line of PRINT (l_print_out), the logged error of
   a loop that is cut off (l_limit_note), a note made when a declaration stores a value (l_decl_note), the iteration limit
   N (l_limit).  `funs` maps function identities to definitions (parameters with declared defaults, body).

   Meaning, in words:
     * a block runs its statements in order; a statement ends Normal or raises a signal Brk / Cont / Ret which ends the
       block at once;
     * IF evaluates its condition once and runs exactly one branch;
     * WHILE / FOR evaluate the condition before every pass and run the body while it holds; Brk ends the loop, Cont ends
       the pass (FOR still runs its increment), Ret ends the loop and stays raised; the increment of a FOR is part of the
       loop (a Brk raised there ends the FOR, a Cont only ends the increment); neither Brk nor Cont raised by the body
       or by the increment ever leaves the loop statement; the pass number N + 1 is still run, then the loop is cut off with a logged error and execution
       continues after the loop (a Ret raised in that pass stays raised);
     * a call opens a FRESH frame, evaluates the arguments, binds the parameters positionally (an argument that is
       missing or has no value takes the declared default), runs the body, and yields what `Result` is bound to in that
       frame when the body ends (RETURN(v) = bind Result to v and raise Ret; RETURN without a value keeps Result);
       no signal crosses the call; the frame is dropped, so the caller's frames are exactly what they were;
     * names are looked up from the innermost frame outwards; every binding (declaration, assignment, increment,
       parameter, Result) is made in the innermost frame;
     * function names live in the same frames as variables: a call `f(args)` inside an expression runs the function that
       the name f is bound to at that moment; a call STATEMENT has been resolved to its function when the text was read.

   `Stuck` marks programs to which this semantics gives no meaning (calling a name that is not bound to a function,
   reading a function name as a value, an operator applied outside its domain); `Fail e` is an error raised by a leaf;
   `NoFuel` says that blocks / calls are nested deeper than the number given to `sem`. *)
From Coq Require Import List ZArith Bool.
Import ListNotations.

Section Sem.
  Variables Name Atom Op Val World Bnd FId Err : Type.

  Inductive view := BVal (v : Val) | BFun (f : FId) | BOpaque.

  Inductive result (A : Type) : Type :=
  | Fin (a : A)
  | Fail (e : Err)
  | Stuck
  | NoFuel.
  Arguments Fin {A} a.
  Arguments Fail {A} e.
  Arguments Stuck {A}.
  Arguments NoFuel {A}.

  Definition rbind {A B : Type} (r : result A) (f : A -> result B) : result B :=
    match r with
    | Fin a => f a
    | Fail e => Fail e
    | Stuck => Stuck
    | NoFuel => NoFuel
    end.

  (* the parameters of the semantics *)
  Record lang := mkLang {
    l_name_eqb : Name -> Name -> bool;
    l_result_name : Name;                           (* `Result` *)
    l_view_of : Bnd -> view;
    l_bnd_val : Val -> Bnd;                         (* the binding that holds a value *)
    l_truth : Val -> bool;
    l_vnone : Val;                                  (* "no value": an argument that is missing, a call that yields nothing *)
    l_vzero : Val;                                  (* the value of a missing expression (declaration without initialiser, empty condition) *)
    l_is_none : Val -> bool;
    l_vincr : Val -> Z -> Val;                      (* X++ / X-- *)
    l_atom_sem : Atom -> World -> result World;
    l_op_sem : Op -> list Val -> result Val;
    l_op_name : Op -> option Name;                  (* the name under which a built-in function is called, if the operator is one *)
    l_unbound : Name -> result Val;
    l_print_out : Z -> list Val -> World -> World;
    l_limit_note : bool -> Z -> World -> World;     (* true = FOR *)
    l_decl_note : bool -> Name -> Val -> World -> World;
    l_limit : nat                                   (* N *)
  }.
  Variable L : lang.
  Notation name_eqb := (l_name_eqb L).
  Notation result_name := (l_result_name L).
  Notation view_of := (l_view_of L).
  Notation bnd_val := (l_bnd_val L).
  Notation truth := (l_truth L).
  Notation vnone := (l_vnone L).
  Notation vzero := (l_vzero L).
  Notation is_none := (l_is_none L).
  Notation vincr := (l_vincr L).
  Notation atom_sem := (l_atom_sem L).
  Notation op_sem := (l_op_sem L).
  Notation op_name := (l_op_name L).
  Notation unbound := (l_unbound L).
  Notation print_out := (l_print_out L).
  Notation limit_note := (l_limit_note L).
  Notation decl_note := (l_decl_note L).
  Notation N := (l_limit L).

  Inductive expr :=
  | EOp (o : Op) (args : list expr)
  | EVar (x : Name)
  | ECall (f : Name) (args : list expr).

  Inductive stmt :=
  | Leaf (a : Atom)
  | Print (args : list (option expr)) (line : Z)
  | Decl (kind : bool) (x : Name) (init : option expr)
  | Assign (x : Name) (e : option expr)
  | Incr (x : Name) (d : Z)
  | If (c : option expr) (th el : list stmt)
  | While (c : option expr) (body : list stmt) (line : Z)
  | For (init : list stmt) (c : option expr) (inc body : list stmt) (line : Z)
  | Break
  | Continue
  | Return (e : option expr)
  | CallS (f : FId) (args : list (option expr)).

  Record fundef := mkFun { fd_params : list (Name * Val); fd_body : list stmt }.
  Variable funs : FId -> option fundef.

  Inductive signal := Normal | Brk | Cont | Ret.

  Definition frame := list (Name * Bnd).
  Record cfg := mkCfg { world : World; env : list frame }.
  Definition set_world (c : cfg) (w : World) : cfg := mkCfg w (env c).
  Definition set_env (c : cfg) (e : list frame) : cfg := mkCfg (world c) e.

  Fixpoint lookup_frame (x : Name) (fr : frame) : option Bnd :=
    match fr with
    | [] => None
    | (y, b) :: r => if name_eqb y x then Some b else lookup_frame x r
    end.
  Fixpoint lookup (x : Name) (e : list frame) : option Bnd :=
    match e with
    | [] => None
    | fr :: r => match lookup_frame x fr with Some b => Some b | None => lookup x r end
    end.
  (* every binding is made in the innermost frame *)
  Definition bind (x : Name) (b : Bnd) (e : list frame) : list frame :=
    match e with
    | [] => [[(x, b)]]
    | fr :: r => ((x, b) :: fr) :: r
    end.
  Definition bind_val (x : Name) (v : Val) (c : cfg) : cfg := set_env c (bind x (bnd_val v) (env c)).
  Definition push_frame (c : cfg) : cfg := set_env c ([] :: env c).

  (* positional binding with declared defaults: parameter number i takes argument number i, or its default when that
     argument is missing or has no value *)
  Fixpoint bind_params (ps : list (Name * Val)) (i : nat) (vs : list Val) (e : list frame) : list frame :=
    match ps with
    | [] => e
    | (x, dflt) :: r =>
        let v := nth i vs vnone in
        bind_params r (S i) vs (bind x (bnd_val (if is_none v then dflt else v)) e)
    end.

  (* the operands of an operator / the arguments of a call, from left to right *)
  Definition evals_with (f : expr -> cfg -> result (Val * cfg)) : list expr -> cfg -> result (list Val * cfg) :=
    fix go (l : list expr) (c : cfg) : result (list Val * cfg) :=
      match l with
      | [] => Fin ([], c)
      | x :: r =>
          rbind (f x c) (fun p =>
          rbind (go r (snd p)) (fun q => Fin (fst p :: fst q, snd q)))
      end.

  (* a built-in function is only meant where no user function has taken its name *)
  Definition shadowed (o : Op) (e : list frame) : bool :=
    match op_name o with
    | None => false
    | Some x => match lookup x e with
                | Some b => match view_of b with BFun _ => true | _ => false end
                | None => false
                end
    end.

  Section Level.
    (* the meaning of a nested block / of a function body, one nesting level down *)
    Variable block : list stmt -> cfg -> result (signal * cfg).

    (* the call proper: the fresh frame is on top and the arguments have been evaluated *)
    Definition call_body (fd : fundef) (vs : list Val) (c : cfg) : result (Val * cfg) :=
      rbind (block (fd_body fd) (set_env c (bind_params (fd_params fd) 0 vs (env c))))
        (fun r =>
           (* whatever signal ended the body ends here *)
           let c2 := snd r in
           match env c2 with
           | [] => Stuck
           | fr :: rest =>
               match lookup_frame result_name fr with
               | None => Fin (vnone, set_env c2 rest)
               | Some b => match view_of b with
                           | BVal v => Fin (v, set_env c2 rest)
                           | _ => Stuck
                           end
               end
           end).

    Fixpoint eval (e : expr) (c : cfg) : result (Val * cfg) :=
      let evals := evals_with eval in
      match e with
      | EOp o args =>
          rbind (evals args c) (fun p =>
            if shadowed o (env (snd p)) then Stuck
            else rbind (op_sem o (fst p)) (fun v => Fin (v, snd p)))
      | EVar x =>
          match lookup x (env c) with
          | None => rbind (unbound x) (fun v => Fin (v, c))
          | Some b => match view_of b with
                      | BVal v => Fin (v, c)
                      | _ => Stuck
                      end
          end
      | ECall f args =>
          match lookup f (env c) with
          | Some b =>
              match view_of b with
              | BFun id =>
                  match funs id with
                  | None => Stuck
                  | Some fd =>
                      rbind (evals args (push_frame c)) (fun p => call_body fd (fst p) (snd p))
                  end
              | _ => Stuck
              end
          | None => Stuck
          end
      end.

    Definition eval_opt (dflt : Val) (e : option expr) (c : cfg) : result (Val * cfg) :=
      match e with
      | None => Fin (dflt, c)
      | Some x => eval x c
      end.
    Fixpoint eval_args (l : list (option expr)) (c : cfg) : result (list Val * cfg) :=
      match l with
      | [] => Fin ([], c)
      | a :: r =>
          rbind (eval_opt vnone a c) (fun p =>
          rbind (eval_args r (snd p)) (fun q => Fin (fst p :: fst q, snd q)))
      end.

    (* what a loop does with the signal of a pass that was cut off by the limit, and with the world *)
    Definition cut_off (is_for : bool) (line : Z) (sg : signal) (c : cfg) : result (signal * cfg) :=
      Fin (match sg with Ret => Ret | _ => Normal end, set_world c (limit_note is_for line (world c))).

    (* WHILE with `left` passes allowed before the limit *)
    Fixpoint while_sem (left : nat) (cnd : option expr) (body : list stmt) (line : Z) (c : cfg) : result (signal * cfg) :=
      rbind (eval_opt vzero cnd c) (fun p =>
        if negb (truth (fst p)) then Fin (Normal, snd p)
        else
          rbind (block body (snd p)) (fun r =>
            match left with
            | O => cut_off false line (fst r) (snd r)
            | S left' =>
                match fst r with
                | Brk => Fin (Normal, snd r)
                | Ret => Fin (Ret, snd r)
                | Normal | Cont => while_sem left' cnd body line (snd r)
                end
            end)).

    (* FOR after its initialiser *)
    Fixpoint for_sem (left : nat) (cnd : option expr) (inc body : list stmt) (line : Z) (c : cfg) : result (signal * cfg) :=
      rbind (eval_opt vzero cnd c) (fun p =>
        if negb (truth (fst p)) then Fin (Normal, snd p)
        else
          rbind (block body (snd p)) (fun r =>
            match left with
            | O => cut_off true line (fst r) (snd r)
            | S left' =>
                match fst r with
                | Brk => Fin (Normal, snd r)
                | Ret => Fin (Ret, snd r)
                | Normal | Cont =>
                    rbind (block inc (snd r)) (fun r2 =>
                      (* the increment is part of the loop: its Brk ends THIS loop, its Cont only ends the increment *)
                      match fst r2 with
                      | Brk => Fin (Normal, snd r2)
                      | Ret => Fin (Ret, snd r2)
                      | Normal | Cont => for_sem left' cnd inc body line (snd r2)
                      end)
                end
            end)).

    Definition exec_stmt (s : stmt) (c : cfg) : result (signal * cfg) :=
      match s with
      | Leaf a => rbind (atom_sem a (world c)) (fun w => Fin (Normal, set_world c w))
      | Print args line =>
          rbind (eval_args args c) (fun p =>
            Fin (Normal, set_world (snd p) (print_out line (fst p) (world (snd p)))))
      | Decl kind x init =>
          rbind (eval_opt vzero init c) (fun p =>
            Fin (Normal, bind_val x (fst p) (set_world (snd p) (decl_note kind x (fst p) (world (snd p))))))
      | Assign x e =>
          rbind (eval_opt vzero e c) (fun p => Fin (Normal, bind_val x (fst p) (snd p)))
      | Incr x d =>
          match lookup x (env c) with
          | None => Fin (Normal, bind_val x (vincr vzero d) c)
          | Some b => match view_of b with
                      | BVal v => Fin (Normal, bind_val x (vincr v d) c)
                      | _ => Stuck
                      end
          end
      | If cnd th el =>
          rbind (eval_opt vzero cnd c) (fun p => block (if truth (fst p) then th else el) (snd p))
      | While cnd body line => while_sem N cnd body line c
      | For init cnd inc body line =>
          rbind (block init c) (fun r =>
            match fst r with
            | Normal => for_sem N cnd inc body line (snd r)
            | sg => Fin (sg, snd r)
            end)
      | Break => Fin (Brk, c)
      | Continue => Fin (Cont, c)
      | Return e =>
          match e with
          | None => Fin (Ret, c)
          | Some _ => rbind (eval_opt vzero e c) (fun p => Fin (Ret, bind_val result_name (fst p) (snd p)))
          end
      | CallS f args =>
          match funs f with
          | None => Stuck
          | Some fd =>
              rbind (eval_args args (push_frame c)) (fun p =>
              rbind (call_body fd (fst p) (snd p)) (fun q => Fin (Normal, snd q)))
          end
      end.

    Fixpoint exec_seq (b : list stmt) (c : cfg) : result (signal * cfg) :=
      match b with
      | [] => Fin (Normal, c)
      | s :: r =>
          rbind (exec_stmt s c) (fun p =>
            match fst p with
            | Normal => exec_seq r (snd p)
            | sg => Fin (sg, snd p)
            end)
      end.
  End Level.

  (* the meaning of a block; n bounds the nesting depth of blocks and calls *)
  Fixpoint sem (n : nat) (b : list stmt) (c : cfg) : result (signal * cfg) :=
    match n with
    | O => NoFuel
    | S n' => exec_seq (sem n') b c
    end.
End Sem.

Arguments Fin {Err A} a.
Arguments Fail {Err A} e.
Arguments Stuck {Err A}.
Arguments NoFuel {Err A}.
Arguments rbind {Err A B} r f.
Arguments BVal {Val FId} v.
Arguments BFun {Val FId} f.
Arguments BOpaque {Val FId}.
Arguments EOp {Name Op} o args.
Arguments EVar {Name Op} x.
Arguments ECall {Name Op} f args.
Arguments Leaf {Name Atom Op FId} a.
Arguments Print {Name Atom Op FId} args line.
Arguments Decl {Name Atom Op FId} kind x init.
Arguments Assign {Name Atom Op FId} x e.
Arguments Incr {Name Atom Op FId} x d.
Arguments If {Name Atom Op FId} c th el.
Arguments While {Name Atom Op FId} c body line.
Arguments For {Name Atom Op FId} init c inc body line.
Arguments Break {Name Atom Op FId}.
Arguments Continue {Name Atom Op FId}.
Arguments Return {Name Atom Op FId} e.
Arguments CallS {Name Atom Op FId} f args.
Arguments mkFun {Name Atom Op Val FId} fd_params fd_body.
Arguments fd_params {Name Atom Op Val FId} f.
Arguments fd_body {Name Atom Op Val FId} f.
Arguments mkCfg {Name World Bnd} world env.
Arguments world {Name World Bnd} c.
Arguments env {Name World Bnd} c.
Arguments set_world {Name World Bnd} c w.
Arguments set_env {Name World Bnd} c e.
Arguments push_frame {Name World Bnd} c.
Arguments lookup_frame {Name Atom Op Val World Bnd FId Err} L x fr.
Arguments lookup {Name Atom Op Val World Bnd FId Err} L x e.
Arguments bind {Name Bnd} x b e.
Arguments bind_val {Name Atom Op Val World Bnd FId Err} L x v c.
Arguments bind_params {Name Atom Op Val World Bnd FId Err} L ps i vs e.
Arguments evals_with {Name Op Val World Bnd Err} f l c.
Arguments shadowed {Name Atom Op Val World Bnd FId Err} L o e.
Arguments call_body {Name Atom Op Val World Bnd FId Err} L block fd vs c.
Arguments eval {Name Atom Op Val World Bnd FId Err} L funs block e c.
Arguments eval_opt {Name Atom Op Val World Bnd FId Err} L funs block dflt e c.
Arguments eval_args {Name Atom Op Val World Bnd FId Err} L funs block l c.
Arguments cut_off {Name Atom Op Val World Bnd FId Err} L is_for line sg c.
Arguments while_sem {Name Atom Op Val World Bnd FId Err} L funs block left cnd body line c.
Arguments for_sem {Name Atom Op Val World Bnd FId Err} L funs block left cnd inc body line c.
Arguments exec_stmt {Name Atom Op Val World Bnd FId Err} L funs block s c.
Arguments exec_seq {Name Atom Op Val World Bnd FId Err} L funs block b c.
Arguments sem {Name Atom Op Val World Bnd FId Err} L funs n b c.
Arguments l_name_eqb {Name Atom Op Val World Bnd FId Err} l.
Arguments l_result_name {Name Atom Op Val World Bnd FId Err} l.
Arguments l_view_of {Name Atom Op Val World Bnd FId Err} l.
Arguments l_bnd_val {Name Atom Op Val World Bnd FId Err} l.
Arguments l_truth {Name Atom Op Val World Bnd FId Err} l.
Arguments l_vnone {Name Atom Op Val World Bnd FId Err} l.
Arguments l_vzero {Name Atom Op Val World Bnd FId Err} l.
Arguments l_is_none {Name Atom Op Val World Bnd FId Err} l.
Arguments l_vincr {Name Atom Op Val World Bnd FId Err} l.
Arguments l_atom_sem {Name Atom Op Val World Bnd FId Err} l.
Arguments l_op_sem {Name Atom Op Val World Bnd FId Err} l.
Arguments l_op_name {Name Atom Op Val World Bnd FId Err} l.
Arguments l_unbound {Name Atom Op Val World Bnd FId Err} l.
Arguments l_print_out {Name Atom Op Val World Bnd FId Err} l.
Arguments l_limit_note {Name Atom Op Val World Bnd FId Err} l.
Arguments l_decl_note {Name Atom Op Val World Bnd FId Err} l.
Arguments l_limit {Name Atom Op Val World Bnd FId Err} l.
Arguments mkLang {Name Atom Op Val World Bnd FId Err}.
